#!/bin/sh
# regenerates _CoqProject from the .v files present (dependency order is coqdep's business)
cd "$(dirname "$0")" || exit 2
{
  echo "-Q theories Cinco"
  echo "-arg -w -arg -notation-overridden,-deprecated-hint-without-locality,-deprecated-syntactic-definition"
  find theories -name '*.v' | LC_ALL=C sort
} > _CoqProject.new
if ! cmp -s _CoqProject.new _CoqProject 2>/dev/null; then mv _CoqProject.new _CoqProject; rm -f Makefile Makefile.conf; else rm -f _CoqProject.new; fi
[ -f Makefile ] || coq_makefile -f _CoqProject -o Makefile >/dev/null
