#!/bin/sh
# usage: goal.sh file.v N  -- shows the proof state after the first N lines
head -n "$2" "$1" | timeout 120 coqtop -Q theories Cinco 2>&1 | tail -${3:-40}
