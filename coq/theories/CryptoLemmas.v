(* CryptoLemmas.v — proofs about XOR, PKCS7 and CBC (property C08). *)
From Coq Require Import ZArith NArith String List Bool Lia Arith.
From Cinco Require Import Base Crypto.
Import ListNotations.
Open Scope nat_scope.
Local Arguments firstn : simpl never.
Local Arguments skipn : simpl never.

(* ---------- XOR ---------- *)
Lemma lxor_twice a c : N.lxor (N.lxor a c) c = a.
Proof. rewrite N.lxor_assoc, N.lxor_nilpotent, N.lxor_0_r. reflexivity. Qed.

Lemma xor_go_involutive key : forall d cur, xor_go (xor_go d cur key) cur key = d.
Proof.
  induction d as [|x xs IH]; intros cur; simpl; auto.
  destruct cur as [|c cs].
  - destruct key as [|c cs]; simpl; auto. rewrite lxor_twice, IH. reflexivity.
  - simpl. rewrite lxor_twice, IH. reflexivity.
Qed.

(* "XOR is its own inverse with the key repeated over the data" *)
Theorem xor_involutive key d : xor_cycle key (xor_cycle key d) = d.
Proof. apply xor_go_involutive. Qed.

Lemma xor_go_length key : forall d cur, length (xor_go d cur key) = length d.
Proof.
  induction d as [|x xs IH]; intros cur; simpl; auto.
  destruct cur; [destruct key|]; simpl; auto.
Qed.

(* position i of the result is data[i] xor key[i mod |key|] *)
Lemma skipn_cons_inv {A} (d0 : A) : forall o (l : list A) c r,
  skipn o l = c :: r -> nth o l d0 = c /\ skipn (S o) l = r /\ o < length l.
Proof.
  induction o as [|o IH]; intros [|y l] c r H; simpl in *; try discriminate.
  - inversion H; subst. repeat split; auto. lia.
  - destruct (IH l c r H) as (A1 & A2 & A3). repeat split; auto. lia.
Qed.

Lemma skipn_nil_inv {A} : forall o (l : list A), skipn o l = [] -> length l <= o.
Proof. induction o as [|o IH]; intros [|y l] H; simpl in *; try discriminate; try lia. apply IH in H. lia. Qed.

Lemma xor_go_nth key : forall d o i x,
  o <= length key -> 0 < length key ->
  nth_error d i = Some x ->
  nth_error (xor_go d (skipn o key) key) i = Some (N.lxor x (nth ((o + i) mod length key) key 0%N)).
Proof.
  induction d as [|y ys IH]; intros o i x Ho Hk Hn; [destruct i; discriminate|].
  simpl xor_go. destruct (skipn o key) as [|c cs] eqn:Es.
  - apply skipn_nil_inv in Es. assert (o = length key) as -> by lia.
    destruct key as [|c cs] eqn:Ek; [simpl in Hk; lia|]. rewrite <- Ek in *.
    destruct i as [|i]; simpl in Hn |- *.
    + inversion Hn; subst y. rewrite Nat.add_0_r, Nat.mod_same by lia. rewrite Ek. reflexivity.
    + replace cs with (skipn 1 key) by (rewrite Ek; reflexivity).
      rewrite (IH 1 i x); auto; try lia.
      replace (length key + S i) with ((1 + i) + 1 * length key) by lia.
      rewrite Nat.mod_add by lia. reflexivity.
  - destruct (skipn_cons_inv 0%N _ _ _ _ Es) as (A1 & A2 & A3).
    destruct i as [|i]; simpl in Hn |- *.
    + inversion Hn; subst y. rewrite Nat.add_0_r, Nat.mod_small by lia. rewrite A1. reflexivity.
    + rewrite <- A2. rewrite (IH (S o) i x); auto; try lia.
      replace (S o + i) with (o + S i) by lia. reflexivity.
Qed.

Theorem xor_spec key d i x :
  key <> [] -> nth_error d i = Some x ->
  nth_error (xor_cycle key d) i = Some (N.lxor x (nth (i mod length key) key 0%N)).
Proof.
  intros Hk Hn. unfold xor_cycle.
  assert (0 < length key) as L by (destruct key; [congruence | simpl; lia]).
  change key with (skipn 0 key) at 1. rewrite (xor_go_nth key d 0 i x); auto; lia.
Qed.

(* ---------- xor of blocks ---------- *)
Lemma xor_bytes_twice : forall b p, length b <= length p -> xor_bytes (xor_bytes b p) p = b.
Proof.
  induction b as [|x xs IH]; intros [|y ys] H; simpl in *; auto; try lia.
  rewrite lxor_twice, IH by lia. reflexivity.
Qed.

Lemma xor_bytes_length : forall b p, length b <= length p -> length (xor_bytes b p) = length b.
Proof.
  induction b as [|x xs IH]; intros [|y ys] H; simpl in *; auto; try lia.
  rewrite IH by lia. reflexivity.
Qed.

(* ---------- PKCS7 ---------- *)
Lemma pad_len_range n : 1 <= pad_len n <= blk.
Proof. unfold pad_len, blk. pose proof (Nat.mod_upper_bound n 16). lia. Qed.

Lemma pad_total_mod n : (n + pad_len n) mod blk = 0.
Proof.
  unfold pad_len, blk. pose proof (Nat.mod_upper_bound n 16 ltac:(lia)) as Hb.
  rewrite (Nat.div_mod n 16) at 1 by lia.
  replace (16 * (n / 16) + n mod 16 + (16 - n mod 16)) with ((n / 16 + 1) * 16) by lia.
  apply Nat.mod_mul. lia.
Qed.

Lemma forallb_repeat {A} (f : A -> bool) x n : f x = true -> forallb f (repeat x n) = true.
Proof. intros H; induction n; simpl; auto. rewrite H; auto. Qed.

Lemma rev_app_repeat_head (p : bytes) x k : 1 <= k -> exists r, rev (p ++ repeat x k) = x :: r.
Proof.
  intros Hk. destruct k as [|k]; [lia|].
  rewrite rev_app_distr. replace (repeat x (S k)) with (repeat x k ++ [x]).
  - rewrite rev_app_distr. simpl. eauto.
  - clear. induction k; simpl; auto. rewrite IHk. reflexivity.
Qed.

(* "decrypting an encrypted value returns the original bytes": the padding step *)
Theorem pkcs7_unpad_pad p : pkcs7_unpad (pkcs7_pad p) = Some p.
Proof.
  unfold pkcs7_unpad, pkcs7_pad.
  set (k := pad_len (length p)). pose proof (pad_len_range (length p)) as Hr. fold k in Hr.
  destruct (rev_app_repeat_head p (N.of_nat k) k ltac:(lia)) as [r Hrev]. rewrite Hrev.
  rewrite Nat2N.id.
  assert (length (p ++ repeat (N.of_nat k) k) = length p + k) as L by (rewrite app_length, repeat_length; reflexivity).
  rewrite L.
  replace (length p + k - k) with (length p) by lia.
  rewrite skipn_app, skipn_all, Nat.sub_diag, skipn_O.
  rewrite firstn_app, firstn_all, Nat.sub_diag, firstn_O, app_nil_r.
  fold k. replace ((length p + k) mod blk) with 0 by (symmetry; apply pad_total_mod).
  simpl app. rewrite forallb_repeat by apply N.eqb_refl.
  repeat match goal with
         | |- context [?a <=? ?b] => replace (a <=? b) with true by (symmetry; apply Nat.leb_le; lia)
         end.
  reflexivity.
Qed.

Lemma pkcs7_pad_length p : length (pkcs7_pad p) = blk * (length p / blk + 1).
Proof.
  unfold pkcs7_pad. rewrite app_length, repeat_length. unfold pad_len, blk.
  pose proof (Nat.div_mod (length p) 16 ltac:(lia)). pose proof (Nat.mod_upper_bound (length p) 16 ltac:(lia)). lia.
Qed.

(* ---------- blocks ---------- *)
Lemma chunks_concat : forall bs : list bytes, Forall (fun b => length b = blk) bs -> forall l, chunks (length bs) (concat bs ++ l) = bs.
Proof.
  induction bs as [|b r IH]; intros H l; simpl; auto.
  inversion H as [|? ? Hb Hr]; subst.
  rewrite <- app_assoc, firstn_app, Hb, Nat.sub_diag, firstn_O, firstn_all2, app_nil_r by lia.
  rewrite skipn_app, Hb, Nat.sub_diag, skipn_O, skipn_all2 by lia. simpl. rewrite IH; auto.
Qed.

Lemma concat_length_blk : forall bs : list bytes, Forall (fun b => length b = blk) bs -> length (concat bs) = blk * length bs.
Proof.
  induction bs as [|b r IH]; intros H; simpl; auto.
  inversion H; subst. rewrite app_length, IH by auto. unfold blk in *. lia.
Qed.

Lemma blocks_of_concat (bs : list bytes) : Forall (fun b => length b = blk) bs -> blocks_of (concat bs) = bs.
Proof.
  intros H. unfold blocks_of. rewrite concat_length_blk by auto.
  assert (blk * length bs / blk = length bs) as -> by (rewrite Nat.mul_comm; apply Nat.div_mul; unfold blk; lia).
  rewrite <- (app_nil_r (concat bs)). apply chunks_concat; auto.
Qed.

Lemma chunks_spec : forall n l, length l = blk * n ->
  concat (chunks n l) = l /\ Forall (fun b => length b = blk) (chunks n l) /\ length (chunks n l) = n.
Proof.
  induction n as [|n IH]; intros l H; simpl.
  - destruct l; simpl in *; auto. unfold blk in H; lia.
  - destruct (IH (skipn blk l)) as (A & B & C).
    { rewrite skipn_length. unfold blk in *. lia. }
    rewrite A, C. repeat split; auto.
    + apply firstn_skipn.
    + constructor; auto. rewrite firstn_length. unfold blk in *. lia.
Qed.

Lemma blocks_of_spec l : length l mod blk = 0 ->
  concat (blocks_of l) = l /\ Forall (fun b => length b = blk) (blocks_of l).
Proof.
  intros H. unfold blocks_of.
  destruct (chunks_spec (length l / blk) l) as (A & B & _); auto.
  pose proof (Nat.div_mod (length l) blk ltac:(unfold blk; lia)). lia.
Qed.

(* ---------- CBC ---------- *)
Section CBCProofs.
  Variable E D : bytes -> bytes.
  Hypothesis ED : forall b, length b = blk -> D (E b) = b.
  Hypothesis Elen : forall b, length b = blk -> length (E b) = blk.

  Lemma cbc_enc_blocks : forall bs prev, length prev = blk -> Forall (fun b => length b = blk) bs ->
    Forall (fun b => length b = blk) (cbc_enc E prev bs).
  Proof.
    induction bs as [|b r IH]; intros prev Hp H; simpl; auto.
    inversion H; subst.
    assert (length (E (xor_bytes b prev)) = blk) as L by (apply Elen; rewrite xor_bytes_length; lia).
    constructor; auto.
  Qed.

  Theorem cbc_dec_enc : forall bs prev, length prev = blk -> Forall (fun b => length b = blk) bs ->
    cbc_dec D prev (cbc_enc E prev bs) = bs.
  Proof.
    induction bs as [|b r IH]; intros prev Hp H; simpl; auto.
    inversion H; subst.
    assert (length (xor_bytes b prev) = blk) as L by (rewrite xor_bytes_length; lia).
    rewrite ED by auto. rewrite xor_bytes_twice by lia. rewrite IH; auto.
  Qed.

  (* "the original bytes" come back, for every plaintext and every 16-byte IV *)
  Theorem aes_roundtrip iv text : length iv = blk -> aes_decrypt D (aes_encrypt E iv text) = Ok text.
  Proof.
    intros Hiv. unfold aes_encrypt, aes_decrypt.
    destruct (blocks_of_spec (pkcs7_pad text)) as [Hc Hb].
    { rewrite pkcs7_pad_length. unfold blk. rewrite Nat.mul_comm. apply Nat.mod_mul. lia. }
    pose proof (cbc_enc_blocks _ iv Hiv Hb) as Hcb.
    set (cs := cbc_enc E iv (blocks_of (pkcs7_pad text))) in *.
    assert (length (concat cs) = blk * length cs) as Lc by (apply concat_length_blk; auto).
    assert (1 <= length cs) as Hne.
    { unfold cs. assert (length (blocks_of (pkcs7_pad text)) >= 1).
      { destruct (blocks_of (pkcs7_pad text)) eqn:E0; simpl; try lia.
        simpl in Hc. pose proof (pkcs7_pad_length text) as Lp. rewrite <- Hc in Lp. simpl in Lp. unfold blk in Lp. lia. }
      clear -H. revert H. generalize (blocks_of (pkcs7_pad text)) iv. induction l; simpl; intros; lia. }
    rewrite app_length, Lc, Hiv.
    replace (blk + blk * length cs <? 32) with false by (symmetry; apply Nat.ltb_ge; unfold blk; lia).
    rewrite firstn_app, Hiv, Nat.sub_diag, firstn_O, firstn_all2, app_nil_r by lia.
    rewrite skipn_app, Hiv, Nat.sub_diag, skipn_O, skipn_all2 by lia. simpl app.
    rewrite Lc. replace (blk * length cs mod blk) with 0 by (symmetry; rewrite Nat.mul_comm; apply Nat.mod_mul; unfold blk; lia).
    simpl negb. cbv iota.
    rewrite blocks_of_concat by auto. unfold cs. rewrite cbc_dec_enc by auto.
    rewrite Hc, pkcs7_unpad_pad. reflexivity.
  Qed.

  (* layout: a 16-byte IV first, then 16 * (|p| / 16 + 1) bytes *)
  Theorem aes_layout iv text : length iv = blk ->
    firstn blk (aes_encrypt E iv text) = iv /\
    length (aes_encrypt E iv text) = blk + blk * (length text / blk + 1).
  Proof.
    intros Hiv. unfold aes_encrypt. split.
    - rewrite firstn_app, Hiv, Nat.sub_diag, firstn_O, firstn_all2 by lia. apply app_nil_r.
    - destruct (blocks_of_spec (pkcs7_pad text)) as [Hc Hb].
      { rewrite pkcs7_pad_length. unfold blk. rewrite Nat.mul_comm. apply Nat.mod_mul. lia. }
      pose proof (cbc_enc_blocks _ iv Hiv Hb) as Hcb.
      rewrite app_length, concat_length_blk, Hiv by auto. f_equal.
      assert (forall bs prev, length (cbc_enc E prev bs) = length bs) as Lcb by (induction bs; simpl; auto).
      rewrite Lcb. rewrite <- (concat_length_blk _ Hb), Hc. apply pkcs7_pad_length.
  Qed.

  (* a fresh IV gives a different value: equal plaintexts never give equal ciphertexts *)
  Theorem iv_fresh iv1 iv2 t1 t2 : length iv1 = blk -> length iv2 = blk -> iv1 <> iv2 ->
    aes_encrypt E iv1 t1 <> aes_encrypt E iv2 t2.
  Proof.
    intros H1 H2 Hne Heq. apply Hne.
    destruct (aes_layout iv1 t1 H1) as [A _]. destruct (aes_layout iv2 t2 H2) as [B _].
    rewrite <- A, <- B, Heq. reflexivity.
  Qed.

  (* too short or not block-aligned: an error, never a value *)
  Theorem aes_rejects ct : length ct < 32 \/ length ct mod blk <> 0 -> exists e, aes_decrypt D ct = Err e.
  Proof.
    intros H. unfold aes_decrypt. destruct (length ct <? 32) eqn:L; [eauto|].
    apply Nat.ltb_ge in L. destruct H as [H|H]; [lia|].
    rewrite skipn_length.
    assert ((length ct - blk) mod blk <> 0) as Hm.
    { intros X. apply H. replace (length ct) with ((length ct - blk) + 1 * blk) by (unfold blk in *; lia).
      rewrite Nat.mod_add by (unfold blk; lia). exact X. }
    apply Nat.eqb_neq in Hm. rewrite Hm. simpl. eauto.
  Qed.
End CBCProofs.

(* ---------- non-vacuity ---------- *)
Example xor_example : xor_cycle [1;2;3]%N [10;20;30;40;50]%N = [11;22;29;41;48]%N.
Proof. vm_compute. reflexivity. Qed.
Example pad_example : length (pkcs7_pad (repeat 0%N 16)) = 32 /\ pkcs7_unpad (repeat 16%N 16) = Some [].
Proof. vm_compute. split; reflexivity. Qed.
Example aes_example :   (* a toy block cipher that meets the hypotheses: xor with a constant *)
  let E := xor_bytes (repeat 90%N 16) in
  aes_decrypt (fun b => xor_bytes (repeat 90%N 16) b) (aes_encrypt (fun b => xor_bytes (repeat 90%N 16) b) (repeat 1%N 16) [7;8;9]%N) = Ok [7;8;9]%N.
Proof. vm_compute. reflexivity. Qed.
