(* ListModel.v — typed list values (cincoconfig/fields/list_field.py, class ListProxy) against the
   CPython builtin list.  Definitions only (no proofs).

   Two sides:
   * `b_step`      : the builtin `list` (spec side): index normalisation, insert clamping,
                     slice.indices, simple and extended slice assignment with the length check,
                     pop default index, remove/index/count by Python `==`, stable sort, repetition.
   * `proxy_step`  : ListProxy.  Dispatch is part of the model: an entry point listed as overridden in
                     `list_table` runs the Python override (`override_step`, statement order of the
                     source: validate first, then the inherited slot), every other entry point runs the
                     builtin slot directly on the underlying list — a C method never calls back into a
                     Python override.
   The item validator is a Section variable `V : pyval -> res pyval` (scalar item fields). *)
From Coq Require Import ZArith NArith String Ascii List Bool SpecFloat.
From Cinco Require Import Base.
Import ListNotations.
Open Scope Z_scope.

(* ------------------------------------------------------------------------------------------ *)
(* Python `==` on scalars: bool/int/float compare numerically, None/str/bytes structurally.    *)
(* ------------------------------------------------------------------------------------------ *)
Definition sf_int (f : spec_float) : option Z :=       (* the integer a finite float equals, if any *)
  match f with
  | S754_zero _ => Some 0
  | S754_finite s m e =>
      let mz := Zpos m in
      if 0 <=? e then Some ((if s then -1 else 1) * (mz * 2 ^ e))
      else let d := 2 ^ (- e) in
           if mz mod d =? 0 then Some ((if s then -1 else 1) * (mz / d)) else None
  | _ => None
  end.

Definition float_eq (a b : spec_float) : bool :=
  match a, b with
  | S754_zero _, S754_zero _ => true
  | S754_nan, _ => false
  | _, S754_nan => false
  | _, _ => sf_eqb a b
  end.

Definition as_int (v : pyval) : option Z :=
  match v with
  | PBool b => Some (if b then 1 else 0)
  | PInt z => Some z
  | PFloat f => sf_int f
  | _ => None
  end.

Definition is_num (v : pyval) : bool :=
  match v with PBool _ | PInt _ | PFloat _ => true | _ => false end.

Definition py_eq (a b : pyval) : bool :=
  match a, b with
  | PFloat x, PFloat y => float_eq x y
  | _, _ =>
      if is_num a && is_num b then
        match as_int a, as_int b with Some x, Some y => x =? y | _, _ => false end
      else pyval_eqb a b
  end.

(* values the correspondence covers in `==` positions *)
Definition scalar (v : pyval) : bool :=
  match v with PNone | PBool _ | PInt _ | PFloat _ | PStr _ => true | _ => false end.

(* ------------------------------------------------------------------------------------------ *)
(* operations                                                                                   *)
(* ------------------------------------------------------------------------------------------ *)
Inductive iterable :=
| ItList (l : list pyval)         (* a builtin list *)
| ItTuple (l : list pyval)
| ItIter (l : list pyval)         (* an iterator / generator yielding these values *)
| ItProxySame (l : list pyval)    (* a ListProxy with the same item field; l = its contents *)
| ItProxyOther (l : list pyval)   (* a ListProxy of another field; l = its contents *)
| ItSelf.                         (* the list itself *)

Definition pyslice := (option Z * option Z * option Z)%type.

Inductive lop :=
| LAppend (x : pyval)
| LInsert (i : Z) (x : pyval)
| LExtend (it : iterable)
| LIAdd (it : iterable)                  (* p += it *)
| LAdd (it : iterable)                   (* p + it *)
| LSetItem (i : Z) (x : pyval)
| LSetSlice (sl : pyslice) (it : iterable)
| LCopy
| LDelItem (i : Z)
| LDelSlice (sl : pyslice)
| LGetItem (i : Z)
| LGetSlice (sl : pyslice)
| LPop (i : option Z)
| LRemove (x : pyval)
| LIndex (x : pyval) (start stop : option Z)
| LCount (x : pyval)
| LContains (x : pyval)
| LClear
| LReverse
| LSort (reverse : bool)
| LMul (n : Z)
| LRMul (n : Z)
| LIMul (n : Z)
| LLen
| LIter                                   (* list(iter(p)) *)
| LReversed                               (* list(reversed(p)) *)
| LEq (o : pyval)
| LNe (o : pyval)
| LNew (it : iterable)                    (* ListProxy(cfg, field, it): a new typed list *)
| LAssign (it : iterable)                 (* cfg.field = it : whole-value assignment through ListField._validate *)
| LRAdd (it : iterable)                   (* it + p with it a plain list / tuple: the reflected position *)
| LConcat (star : bool) (before after : list pyval)   (* sum([before, p, after], []) / [*before, *p, *after] *)
| LEqR (o : pyval)                        (* o == p *)
| LLt (o : pyval)                         (* p < o *)
| LGt (o : pyval).                        (* o < p *)

Definition it_items (self : list pyval) (it : iterable) : list pyval :=
  match it with
  | ItList l | ItTuple l | ItIter l | ItProxySame l | ItProxyOther l => l
  | ItSelf => self
  end.

(* `isinstance(iterable, ListProxy) and iterable.item_field is self.item_field` *)
Definition it_same (it : iterable) : bool :=
  match it with ItProxySame _ | ItSelf => true | _ => false end.

(* a returned object that is the receiver itself (`q += x; q is p`) *)
Definition self_marker : pyval := POther 0.

(* ListField._validate accepts list and tuple instances only (a ListProxy is a list) *)
Definition it_listlike (it : iterable) : bool :=
  match it with ItIter _ => false | _ => true end.

(* ------------------------------------------------------------------------------------------ *)
(* builtin list                                                                                 *)
(* ------------------------------------------------------------------------------------------ *)
Definition zlen {A} (l : list A) : Z := Z.of_nat (length l).

Definition norm_index (n i : Z) : option nat :=
  let j := if i <? 0 then i + n else i in
  if (0 <=? j) && (j <? n) then Some (Z.to_nat j) else None.

(* list.insert: negative index is taken from the end, then clamped into [0, n] *)
Definition clamp_insert (n i : Z) : nat :=
  let j := if i <? 0 then i + n else i in
  Z.to_nat (if j <? 0 then 0 else if n <? j then n else j).

Definition insert_at {A} (k : nat) (x : A) (l : list A) : list A := firstn k l ++ x :: skipn k l.

Fixpoint set_nth {A} (i : nat) (x : A) (l : list A) : list A :=
  match l, i with
  | [], _ => []
  | _ :: r, O => x :: r
  | y :: r, S i' => y :: set_nth i' x r
  end.

Fixpoint remove_nth {A} (i : nat) (l : list A) : list A :=
  match l, i with
  | [], _ => []
  | _ :: r, O => r
  | y :: r, S i' => y :: remove_nth i' r
  end.

(* PySlice_AdjustIndices for one bound *)
Definition adjust (n step v : Z) : Z :=
  if v <? 0 then
    let w := v + n in
    if w <? 0 then (if step <? 0 then -1 else 0) else w
  else if n <=? v then (if step <? 0 then n - 1 else n) else v.

(* slice.indices(n) plus the slice length; None = step 0 (ValueError) *)
Definition slice_indices (n : Z) (sl : pyslice) : option (Z * Z * Z * Z) :=
  match sl with
  | (a, b, c) =>
      let step := match c with Some s => s | None => 1 end in
      if step =? 0 then None else
      let start := match a with Some v => adjust n step v | None => if step <? 0 then n - 1 else 0 end in
      let stop := match b with Some v => adjust n step v | None => if step <? 0 then -1 else n end in
      let len := if step <? 0
                 then (if stop <? start then (start - stop - 1) / (- step) + 1 else 0)
                 else (if start <? stop then (stop - start - 1) / step + 1 else 0) in
      Some (start, stop, step, len)
  end.

Fixpoint positions (cnt : nat) (cur step : Z) : list nat :=
  match cnt with
  | O => []
  | S c => Z.to_nat cur :: positions c (cur + step) step
  end.

Fixpoint pick {A} (l : list A) (ps : list nat) : option (list A) :=
  match ps with
  | [] => Some []
  | p :: r => match nth_error l p, pick l r with
              | Some x, Some xs => Some (x :: xs)
              | _, _ => None
              end
  end.

Fixpoint assign_all {A} (ps : list nat) (items : list A) (s : list A) : list A :=
  match ps, items with
  | p :: ps', x :: xs => assign_all ps' xs (set_nth p x s)
  | _, _ => s
  end.

Fixpoint remove_positions {A} (ps : list nat) (i : nat) (s : list A) : list A :=
  match s with
  | [] => []
  | x :: r => if existsb (Nat.eqb i) ps then remove_positions ps (S i) r
              else x :: remove_positions ps (S i) r
  end.

Definition b_getslice (s : list pyval) (sl : pyslice) : res pyval :=
  match slice_indices (zlen s) sl with
  | None => Err EValue
  | Some (start, _, step, len) =>
      match pick s (positions (Z.to_nat len) start step) with
      | Some l => Ok (PList 0 l)
      | None => Unmodelled          (* unreachable: slice positions are in range *)
      end
  end.

(* list.__setitem__(slice, sequence) *)
Definition b_setslice (s : list pyval) (sl : pyslice) (items : list pyval) : list pyval * res pyval :=
  match slice_indices (zlen s) sl with
  | None => (s, Err EValue)
  | Some (start, stop, step, len) =>
      if step =? 1 then
        (firstn (Z.to_nat start) s ++ items ++ skipn (Z.to_nat (Z.max start stop)) s, Ok PNone)
      else if zlen items =? len then
        (assign_all (positions (Z.to_nat len) start step) items s, Ok PNone)
      else (s, Err EValue)          (* attempt to assign sequence of size k to extended slice of size len *)
  end.

Definition b_delslice (s : list pyval) (sl : pyslice) : list pyval * res pyval :=
  match slice_indices (zlen s) sl with
  | None => (s, Err EValue)
  | Some (start, _, step, len) =>
      (remove_positions (positions (Z.to_nat len) start step) 0 s, Ok PNone)
  end.

Fixpoint remove_first (x : pyval) (l : list pyval) : option (list pyval) :=
  match l with
  | [] => None
  | y :: r => if py_eq y x then Some r
              else match remove_first x r with Some r' => Some (y :: r') | None => None end
  end.

Fixpoint find_from (x : pyval) (l : list pyval) (i lo hi : Z) : option Z :=
  match l with
  | [] => None
  | y :: r => if (lo <=? i) && (i <? hi) && py_eq y x then Some i
              else find_from x r (i + 1) lo hi
  end.

(* start/stop of list.index: negative values are taken from the end and clamped at 0 *)
Definition adj0 (n v : Z) : Z := if v <? 0 then Z.max 0 (v + n) else v.

Definition count_eq (x : pyval) (l : list pyval) : Z := zlen (filter (fun y => py_eq y x) l).

(* sorting: ints (with bools) by value, strings by code points; anything else is not modelled *)
Definition all_int (l : list pyval) : bool :=
  forallb (fun v => match v with PInt _ | PBool _ => true | _ => false end) l.
Definition all_str (l : list pyval) : bool :=
  forallb (fun v => match v with PStr _ => true | _ => false end) l.
Definition py_lt (a b : pyval) : bool :=
  match a, b with
  | PStr x, PStr y => str_ltb x y
  | _, _ => match as_int a, as_int b with Some x, Some y => x <? y | _, _ => false end
  end.
Fixpoint ins_sorted (x : pyval) (l : list pyval) : list pyval :=
  match l with
  | [] => [x]
  | y :: r => if py_lt x y then x :: y :: r else y :: ins_sorted x r
  end.
Definition stable_sort (l : list pyval) : list pyval :=
  fold_left (fun acc x => ins_sorted x acc) l [].

Definition b_sort (s : list pyval) (reverse : bool) : list pyval * res pyval :=
  if (length s <=? 1)%nat then (s, Ok PNone)
  else if all_int s || all_str s then
    ((if reverse then rev (stable_sort (rev s)) else stable_sort s), Ok PNone)
  else (s, Unmodelled).

Definition repeat_list {A} (n : Z) (l : list A) : list A :=
  if n <=? 0 then [] else concat (repeat l (Z.to_nat n)).

Fixpoint list_py_eq (a b : list pyval) : bool :=
  match a, b with
  | [], [] => true
  | x :: xs, y :: ys => py_eq x y && list_py_eq xs ys
  | _, _ => false
  end.

(* list ordering: the first pair of items that are not == decides, by <; a proper prefix is smaller *)
Definition comparable (a b : pyval) : bool :=
  match a, b with
  | PStr _, PStr _ => true
  | (PInt _ | PBool _), (PInt _ | PBool _) => true
  | _, _ => false
  end.
Definition orderable_kind (v : pyval) : bool :=     (* kinds whose mutual < is decided here: TypeError unless comparable *)
  match v with PNone | PBool _ | PInt _ | PStr _ => true | _ => false end.
Fixpoint list_lt (a b : list pyval) : res bool :=
  match a, b with
  | [], [] => Ok false
  | [], _ :: _ => Ok true
  | _ :: _, [] => Ok false
  | x :: xs, y :: ys =>
      if py_eq x y then list_lt xs ys
      else if comparable x y then Ok (py_lt x y)
      else if orderable_kind x && orderable_kind y then Err EType else Unmodelled   (* floats, containers: not modelled *)
  end.
Definition o_cmp (r : res bool) : res pyval :=
  match r with Ok b => Ok (PBool b) | Err e => Err e | Unmodelled => Unmodelled end.

Definition b_eq (s : list pyval) (o : pyval) : bool :=
  match o with PList _ l => list_py_eq s l | _ => false end.

Definition b_step (s : list pyval) (op : lop) : list pyval * res pyval :=
  let n := zlen s in
  match op with
  | LAppend x => (s ++ [x], Ok PNone)
  | LInsert i x => (insert_at (clamp_insert n i) x s, Ok PNone)
  | LExtend it => (s ++ it_items s it, Ok PNone)
  | LIAdd it => (s ++ it_items s it, Ok self_marker)
  | LAdd it => (s, Ok (PList 0 (s ++ it_items s it)))
  | LSetItem i x =>
      match norm_index n i with
      | Some k => (set_nth k x s, Ok PNone)
      | None => (s, Err EIndex)
      end
  | LSetSlice sl it => b_setslice s sl (it_items s it)
  | LCopy => (s, Ok (PList 0 s))
  | LDelItem i =>
      match norm_index n i with
      | Some k => (remove_nth k s, Ok PNone)
      | None => (s, Err EIndex)
      end
  | LDelSlice sl => b_delslice s sl
  | LGetItem i =>
      match norm_index n i with
      | Some k => match nth_error s k with Some x => (s, Ok x) | None => (s, Unmodelled) end
      | None => (s, Err EIndex)
      end
  | LGetSlice sl => (s, b_getslice s sl)
  | LPop io =>
      match norm_index n (match io with Some i => i | None => -1 end) with
      | Some k => match nth_error s k with Some x => (remove_nth k s, Ok x) | None => (s, Unmodelled) end
      | None => (s, Err EIndex)
      end
  | LRemove x =>
      match remove_first x s with
      | Some s' => (s', Ok PNone)
      | None => (s, Err EValue)
      end
  | LIndex x a b =>
      let lo := match a with Some v => adj0 n v | None => 0 end in
      let hi := match b with Some v => adj0 n v | None => n end in
      match find_from x s 0 lo hi with
      | Some i => (s, Ok (PInt i))
      | None => (s, Err EValue)
      end
  | LCount x => (s, Ok (PInt (count_eq x s)))
  | LContains x => (s, Ok (PBool (existsb (fun y => py_eq y x) s)))
  | LClear => ([], Ok PNone)
  | LReverse => (rev s, Ok PNone)
  | LSort r => b_sort s r
  | LMul k => (s, Ok (PList 0 (repeat_list k s)))
  | LRMul k => (s, Ok (PList 0 (repeat_list k s)))
  | LIMul k => (repeat_list k s, Ok self_marker)
  | LLen => (s, Ok (PInt n))
  | LIter => (s, Ok (PList 0 s))
  | LReversed => (s, Ok (PList 0 (rev s)))
  | LEq o => (s, Ok (PBool (b_eq s o)))
  | LNe o => (s, Ok (PBool (negb (b_eq s o))))
  | LNew it => (s, Ok (PList 0 (it_items s it)))       (* list(it) *)
  | LAssign it => (it_items s it, Ok PNone)            (* x = list(it) *)
  | LRAdd it =>
      match it with
      | ItList l => (s, Ok (PList 0 (l ++ s)))         (* list.__add__(l, s): a plain list, left operand first *)
      | ItTuple _ => (s, Err EType)                    (* can only concatenate tuple (not "list") to tuple *)
      | _ => (s, Unmodelled)
      end
  | LConcat _ before after => (s, Ok (PList 0 (before ++ s ++ after)))
  | LEqR o => (s, Ok (PBool (b_eq s o)))
  | LLt o => (s, match o with PList _ l => o_cmp (list_lt s l) | _ => Err EType end)
  | LGt o => (s, match o with PList _ l => o_cmp (list_lt l s) | _ => Err EType end)
  end.

(* ------------------------------------------------------------------------------------------ *)
(* the override table of ListProxy: (entry point of dir(list), must be overridden?, is overridden?)
   "must be overridden" = the builtin slot would put caller-supplied items into the typed list
   without validation, or would hand back an untyped list where the property asks for a typed one
   (copy, +).  The third column is what the running code does; the correspondence stream
   `proxyops` re-measures it on every check and compares it with this table inside Coq.            *)
(* ------------------------------------------------------------------------------------------ *)
Open Scope string_scope.
Definition list_table : list (string * bool * bool) := [
  ("__add__", true, true);
  ("__class__", false, false);
  ("__class_getitem__", false, false);
  ("__contains__", false, false);
  ("__delattr__", false, false);
  ("__delitem__", false, false);
  ("__dir__", false, false);
  ("__doc__", false, true);
  ("__eq__", false, false);
  ("__format__", false, false);
  ("__ge__", false, false);
  ("__getattribute__", false, false);
  ("__getitem__", false, false);
  ("__getstate__", false, false);
  ("__gt__", false, false);
  ("__hash__", false, false);
  ("__iadd__", true, true);
  ("__imul__", false, false);
  ("__init__", true, true);
  ("__init_subclass__", false, false);
  ("__iter__", false, false);
  ("__le__", false, false);
  ("__len__", false, false);
  ("__lt__", false, false);
  ("__mul__", false, false);
  ("__ne__", false, false);
  ("__new__", false, false);
  ("__reduce__", false, false);
  ("__reduce_ex__", false, false);
  ("__repr__", false, false);
  ("__reversed__", false, false);
  ("__rmul__", false, false);
  ("__setattr__", false, false);
  ("__setitem__", true, true);
  ("__sizeof__", false, false);
  ("__str__", false, false);
  ("__subclasshook__", false, false);
  ("append", true, true);
  ("clear", false, false);
  ("copy", true, true);
  ("count", false, false);
  ("extend", true, true);
  ("index", false, false);
  ("insert", true, true);
  ("pop", false, false);
  ("remove", false, false);
  ("reverse", false, false);
  ("sort", false, false)
].

Fixpoint table_overridden (t : list (string * bool * bool)) (name : string) : bool :=
  match t with
  | [] => false
  | (m, _, o) :: r => if String.eqb m name then o else table_overridden r name
  end.
Definition table_ok (t : list (string * bool * bool)) : bool :=
  forallb (fun e => match e with (_, must, ov) => implb must ov end) t.

Definition list_overridden : string -> bool := table_overridden list_table.

Definition lop_entry (op : lop) : string :=
  match op with
  | LAppend _ => "append"
  | LInsert _ _ => "insert"
  | LExtend _ => "extend"
  | LIAdd _ => "__iadd__"
  | LAdd _ => "__add__"
  | LSetItem _ _ | LSetSlice _ _ => "__setitem__"
  | LCopy => "copy"
  | LDelItem _ | LDelSlice _ => "__delitem__"
  | LGetItem _ | LGetSlice _ => "__getitem__"
  | LPop _ => "pop"
  | LRemove _ => "remove"
  | LIndex _ _ _ => "index"
  | LCount _ => "count"
  | LContains _ => "__contains__"
  | LClear => "clear"
  | LReverse => "reverse"
  | LSort _ => "sort"
  | LMul _ => "__mul__"
  | LRMul _ => "__rmul__"
  | LIMul _ => "__imul__"
  | LLen => "__len__"
  | LIter => "__iter__"
  | LReversed => "__reversed__"
  | LEq _ => "__eq__"
  | LNe _ => "__ne__"
  | LNew _ => "__init__"
  | LAssign _ => "__init__"
  | LRAdd _ => "__radd__"
  | LConcat star _ _ => if star then "__iter__" else "__radd__"
  | LEqR _ => "__eq__"
  | LLt _ => "__lt__"
  | LGt _ => "__gt__"
  end.
Close Scope string_scope.

(* ------------------------------------------------------------------------------------------ *)
(* ListProxy                                                                                    *)
(* ------------------------------------------------------------------------------------------ *)
Definition lift (o : res unit) (v : pyval) : res pyval :=
  match o with Ok _ => Ok v | Err e => Err e | Unmodelled => Unmodelled end.

Section Proxy.
  Variable V : pyval -> res pyval.     (* ListProxy._validate for a scalar item field *)
  Variable tg : N.                     (* type tag of this proxy (field id + 1) *)

  (* `self._validate(item) for item in iterable`, consumed left to right: the normalised items
     before the first one that is refused, and how the iteration ended *)
  Fixpoint vmap (l : list pyval) : list pyval * res unit :=
    match l with
    | [] => ([], Ok tt)
    | x :: r =>
        match V x with
        | Ok y => match vmap r with (p, o) => (y :: p, o) end
        | Err e => ([], Err e)
        | Unmodelled => ([], Unmodelled)
        end
    end.

  (* ListProxy.__init__(cfg, field, iterable): a new proxy's contents, or the error *)
  Definition p_init (it_is_same : bool) (items : list pyval) : res (list pyval) :=
    if it_is_same then Ok items
    else match vmap items with
         | (p, Ok _) => Ok p
         | (_, Err e) => Err e
         | (_, Unmodelled) => Unmodelled
         end.

  (* ListProxy.extend: fast path for a proxy of the same item field; otherwise list.extend over a
     generator, which appends progressively: items before a refused one stay in the list *)
  Definition p_extend_slow (s : list pyval) (it : iterable) : list pyval * res unit :=
    match vmap (it_items s it) with (p, o) => (s ++ p, o) end.
  Definition p_extend (s : list pyval) (it : iterable) : list pyval * res unit :=
    if it_same it then (s ++ it_items s it, Ok tt) else p_extend_slow s it.

  Definition override_step (s : list pyval) (op : lop) : list pyval * res pyval :=
    match op with
    | LAppend x =>                    (* super().append(self._validate(item)) *)
        match V x with
        | Ok y => b_step s (LAppend y)
        | Err e => (s, Err e)
        | Unmodelled => (s, Unmodelled)
        end
    | LInsert i x =>                  (* super().insert(index, self._validate(item)) *)
        match V x with
        | Ok y => b_step s (LInsert i y)
        | Err e => (s, Err e)
        | Unmodelled => (s, Unmodelled)
        end
    | LExtend it =>
        match p_extend s it with (s', o) => (s', lift o PNone) end
    | LIAdd it =>                     (* self.extend(iterable); return self *)
        match p_extend s it with (s', o) => (s', lift o self_marker) end
    | LAdd it =>                      (* ret = self.copy(); ret.extend(iterable); return ret *)
        match p_init true s with
        | Ok c => match p_extend c it with (r, o) => (s, lift o (PList tg r)) end
        | Err e => (s, Err e)
        | Unmodelled => (s, Unmodelled)
        end
    | LSetItem i x =>                 (* super().__setitem__(index, self._validate(item)) *)
        match V x with
        | Ok y => b_step s (LSetItem i y)
        | Err e => (s, Err e)
        | Unmodelled => (s, Unmodelled)
        end
    | LSetSlice sl it =>              (* super().__setitem__(index, [self._validate(i) for i in item]) *)
        match vmap (it_items s it) with
        | (p, Ok _) => b_step s (LSetSlice sl (ItList p))
        | (_, Err e) => (s, Err e)
        | (_, Unmodelled) => (s, Unmodelled)
        end
    | LCopy =>                        (* ListProxy(self.cfg, self.list_field, self): fast path of __init__ *)
        match p_init true s with
        | Ok c => (s, Ok (PList tg c))
        | Err e => (s, Err e)
        | Unmodelled => (s, Unmodelled)
        end
    | LNew it =>                      (* ListProxy.__init__: fast path for a proxy of the same item field *)
        match p_init (it_same it) (it_items s it) with
        | Ok c => (s, Ok (PList tg c))
        | Err e => (s, Err e)
        | Unmodelled => (s, Unmodelled)
        end
    | LAssign it =>
        (* ListField._validate: not a list / tuple -> ValueError; the field's own proxy of this configuration is kept;
           anything else goes through ListProxy(cfg, self, value), i.e. the RECEIVING field validates every item unless
           the value is a proxy with the same item field.  Config._set_value turns every failure into the validation
           error of the field (path composition: Config.v, C15_leaf_rejection_path). *)
        if it_listlike it then
          match p_init (it_same it) (it_items s it) with
          | Ok c => (c, Ok PNone)
          | Err _ => (s, Err (EValidation []))
          | Unmodelled => (s, Unmodelled)
          end
        else (s, Err (EValidation []))
    | _ => b_step s op                (* no other override exists *)
    end.

  Definition proxy_step (s : list pyval) (op : lop) : list pyval * res pyval :=
    if list_overridden (lop_entry op) then override_step s op else b_step s op.

  (* ---- the specification side of the refinement ---- *)
  Definition norm1 (x : pyval) : pyval := match V x with Ok y => y | _ => x end.
  Definition okb (x : pyval) : bool := match V x with Ok _ => true | _ => false end.

  Definition norm_it_slow (s : list pyval) (it : iterable) : iterable :=
    ItList (map norm1 (it_items s it)).
  Definition norm_it (s : list pyval) (it : iterable) : iterable :=
    if it_same it then ItList (it_items s it) else norm_it_slow s it.

  (* the operation handed to the builtin: inserted items replaced by their normal forms *)
  Definition norm_op (s : list pyval) (op : lop) : lop :=
    match op with
    | LAppend x => LAppend (norm1 x)
    | LInsert i x => LInsert i (norm1 x)
    | LSetItem i x => LSetItem i (norm1 x)
    | LExtend it => LExtend (norm_it s it)
    | LIAdd it => LIAdd (norm_it s it)
    | LAdd it => LAdd (norm_it s it)
    | LSetSlice sl it => LSetSlice sl (norm_it_slow s it)
    | LNew it => LNew (norm_it s it)
    | LAssign it => LAssign (norm_it s it)
    | _ => op
    end.

  (* every item the operation inserts is accepted by the item field *)
  Definition accepted (s : list pyval) (op : lop) : bool :=
    match op with
    | LAppend x | LInsert _ x | LSetItem _ x => okb x
    | LExtend it | LIAdd it | LAdd it | LNew it => it_same it || forallb okb (it_items s it)
    | LSetSlice _ it => forallb okb (it_items s it)
    | LAssign it => it_listlike it && (it_same it || forallb okb (it_items s it))
    | _ => true
    end.

  (* copies and concatenations of a typed list are typed: the builtin's result carries the tag *)
  Definition typed_result (op : lop) : bool :=
    match op with LCopy | LAdd _ | LNew _ => true | _ => false end.
  Definition retag (op : lop) (r : res pyval) : res pyval :=
    if typed_result op then match r with Ok (PList _ l) => Ok (PList tg l) | _ => r end else r.

  (* instrumentation: how many times the operation calls the item validator (a parallel reading of
     override_step: the fast paths validate nothing, a run of items stops at the first refusal) *)
  Fixpoint consumed (l : list pyval) : Z :=
    match l with
    | [] => 0
    | x :: r => match V x with Ok _ => 1 + consumed r | _ => 1 end
    end.
  Definition vcount (s : list pyval) (op : lop) : Z :=
    if list_overridden (lop_entry op) then
      match op with
      | LAppend _ | LInsert _ _ | LSetItem _ _ => 1
      | LExtend it | LIAdd it | LAdd it | LNew it => if it_same it then 0 else consumed (it_items s it)
      | LSetSlice _ it => consumed (it_items s it)
      | LAssign it => if it_listlike it && negb (it_same it) then consumed (it_items s it) else 0
      | _ => 0                         (* copy: the fast path of __init__ *)
      end
    else 0.

  Definition spec_step (s : list pyval) (op : lop) : list pyval * res pyval :=
    match b_step s (norm_op s op) with (s', r) => (s', retag op r) end.
End Proxy.

(* ---- histories ---- *)
Section Run.
  Context {St Op : Type} (step : St -> Op -> St * res pyval).
  Definition run_acc (st : St * list (res pyval)) (op : Op) : St * list (res pyval) :=
    match step (fst st) op with (s', o) => (s', snd st ++ [o]) end.
  Definition run (s : St) (ops : list Op) : St * list (res pyval) := fold_left run_acc ops (s, []).
End Run.

Fixpoint accepted_run (V : pyval -> res pyval) (tg : N) (s : list pyval) (ops : list lop) : bool :=
  match ops with
  | [] => true
  | op :: r => accepted V s op && accepted_run V tg (fst (proxy_step V tg s op)) r
  end.

(* ------------------------------------------------------------------------------------------ *)
(* observation for the correspondence stream                                                    *)
(* ------------------------------------------------------------------------------------------ *)
Definition vtable := list (pyval * res pyval).
Fixpoint table_V (t : vtable) (x : pyval) : res pyval :=
  match t with
  | [] => Unmodelled
  | (k, r) :: rest => if pyval_eqb k x then r else table_V rest x
  end.

Definition o_kind (e : errk) : pyval :=
  match e with EValidation _ => o_str "validation" | _ => o_errk e end.
Definition o_out (r : res pyval) : pyval :=
  match r with
  | Ok v => PTuple [o_str "ok"; v]
  | Err e => PTuple [o_str "err"; o_kind e]
  | Unmodelled => o_str "unmodelled"
  end.

(* what the harness feeds the builtin twin when the proxy refuses an item: the accepted prefix for
   the progressive entry points, nothing otherwise *)
Definition twin_rejected (V : pyval -> res pyval) (p t : list pyval) (op : lop) : list pyval :=
  match op with
  | LExtend it | LIAdd it => t ++ fst (vmap V (it_items p it))
  | _ => t
  end.

Fixpoint ltrace (V : pyval -> res pyval) (tg : N) (p t : list pyval) (ops : list lop) : list pyval :=
  match ops with
  | [] => []
  | op :: r =>
      match proxy_step V tg p op with
      | (p', out) =>
          let tw := if accepted V p op
                    then match b_step t (norm_op V t op) with (t', o) => (t', o_out o) end
                    else (twin_rejected V p t op, o_str "skipped") in
          PTuple [o_out out; PList tg p'; snd tw; PList 0 (fst tw); PInt (vcount V p op)] :: ltrace V tg p' (fst tw) r
      end
  end.

(* a case: tag, path of the list field, item-validator table, raw initial value assigned to the field,
   operations.  ListProxy raises the item field's own (plain) exception: in-place operations report it as
   it is; the whole-value assignment `cfg.l = [...]` goes through Config._set_value, which wraps every
   plain exception of a leaf into the validation error with the field's path (C15_leaf_rejection_path). *)
Definition run_list (tg : N) (path : str) (tbl : vtable) (init : list pyval) (ops : list lop) : pyval :=
  match p_init (table_V tbl) false init with
  | Ok s => PList 0 (PList tg s :: ltrace (table_V tbl) tg s s ops)
  | Err e => PTuple [o_str "init"; o_errk (EValidation path)]
  | Unmodelled => o_str "unmodelled"
  end.

Definition o_table (t : list (string * bool * bool)) : pyval :=
  PList 0 (map (fun e => match e with (m, _, ov) => PTuple [o_str m; PBool ov] end) t).
