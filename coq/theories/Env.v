(* Env.v — environment-variable bindings (core.py):
     * Field.__setkey__ (479-501) / Schema.__setkey__ (664-676): what a field / nested schema stores as
       its variable name / prefix at the moment it is attached to its parent, replayed top-down;
     * the declarative naming rule of property C14 (nearest governing prefix, upper-cased path below it);
     * Field.__setdefault__ (503-527), Config.load_tree (1346-1363), Config._set_value (1055-1103),
       support.reset_value: the per-field precedence machine build / load / assign / reset.
   Definitions only. *)
From Coq Require Import ZArith NArith String List Bool.
From Cinco Require Import Base Str.
Import ListNotations.
Open Scope Z_scope.

(* the `env=` argument of Schema(...) and Field(...): None / True / "name" / False;
   also the value of the attribute Field.env afterwards *)
Inductive envset := EAbsent | EAuto | ENamed (s : str) | EOff.

(* Schema._env_prefix: None / a string / False *)
Inductive pfx := PfNone | PfStr (s : str) | PfOff.

(* Schema.__init__:  self._env_prefix = "" if env is True else env *)
Definition init_prefix (e : envset) : pfx :=
  match e with EAbsent => PfNone | EAuto => PfStr [] | ENamed s => PfStr s | EOff => PfOff end.

Definition us : str := [95%N].     (* "_" *)

(* (prefix + "_") if prefix is a non-empty string else "" *)
Definition pre_of (p : pfx) : str :=
  match p with PfStr (c :: r) => (c :: r) ++ us | _ => [] end.

(* the resolved, usable variable name:  isinstance(field.env, str) and field.env *)
Definition bound_name (e : envset) : option str :=
  match e with ENamed (c :: r) => Some (c :: r) | _ => None end.

(* a schema as written by the user, before anything is attached *)
Inductive stree :=
| SLeaf (e : envset)                              (* a field with its env= argument *)
| SNode (e : envset) (kids : list (str * stree)). (* a schema with its env= argument and its fields *)

(* the same schema after the __setkey__ calls: stored Field.env / Schema._env_prefix *)
Inductive btree :=
| BLeaf (e : envset)
| BNode (p : pfx) (kids : list (str * btree)).

Section MapKids.
  Context {A B : Type} (f : str -> A -> B).
  Fixpoint map_kids (l : list (str * A)) : list (str * B) :=
    match l with
    | [] => []
    | (k, c) :: r => (k, f k c) :: map_kids r
    end.
End MapKids.

Section Names.
  Variable up : str -> str.      (* str.upper *)

  (* Schema.__setkey__(parent, key) for a schema whose own _env_prefix is `own` *)
  Definition schema_setkey (parent own : pfx) (key : str) : pfx :=
    match own with
    | PfOff => PfOff
    | PfNone => match parent with
                | PfStr _ => PfStr (pre_of parent ++ up key)
                | _ => PfNone
                end
    | PfStr s => PfStr s
    end.

  (* Field.__setkey__(schema, key): the new value of self.env *)
  Definition field_setkey (parent : pfx) (e : envset) (key : str) : envset :=
    match e with
    | EOff => EOff
    | EAuto => ENamed (pre_of parent ++ up key)
    | EAbsent => match parent with
                 | PfStr _ => ENamed (pre_of parent ++ up key)
                 | _ => EAbsent
                 end
    | ENamed s => ENamed s
    end.

  (* top-down construction: the node is attached to its (already attached) parent, then its fields
     are attached to it *)
  Fixpoint attach (parent : pfx) (key : str) (t : stree) {struct t} : btree :=
    match t with
    | SLeaf e => BLeaf (field_setkey parent e key)
    | SNode e kids =>
        let p := schema_setkey parent (init_prefix e) key in
        BNode p (map_kids (fun k c => attach p k c) kids)
    end.

  (* the root schema is never attached to anything *)
  Definition build_root (t : stree) : btree :=
    match t with
    | SLeaf e => BLeaf e
    | SNode e kids => let p := init_prefix e in BNode p (map_kids (fun k c => attach p k c) kids)
    end.

  Fixpoint blookup (t : btree) (path : list str) : option btree :=
    match path with
    | [] => Some t
    | k :: r => match t with
                | BNode _ kids => match assoc str_eqb k kids with
                                  | Some c => blookup c r
                                  | None => None
                                  end
                | BLeaf _ => None
                end
    end.

  (* what the code stores in field.env for the field at `path` *)
  Definition env_attr_impl (s : stree) (path : list str) : option envset :=
    match blookup (build_root s) path with
    | Some (BLeaf e) => Some e
    | _ => None
    end.
  Definition env_name_impl (s : stree) (path : list str) : option str :=
    match env_attr_impl s path with Some e => bound_name e | None => None end.

  (* ---- the declarative rule ---- *)
  (* components of the prefix that governs a position: `rchain` lists the (key, setting) of the
     enclosing nested schemas, innermost first; `root` is the root schema's setting.  The nearest
     schema with a setting of its own decides: disabled -> no prefix, automatic -> empty prefix,
     named -> that name; schemas without a setting contribute their upper-cased key. *)
  Fixpoint gov (root : envset) (rchain : list (str * envset)) : option (list str) :=
    match rchain with
    | [] => match root with
            | EAbsent | EOff => None
            | EAuto => Some []
            | ENamed s => Some [s]
            end
    | (k, e) :: outer =>
        match e with
        | EAbsent => match gov root outer with Some c => Some (c ++ [up k]) | None => None end
        | EAuto => Some []
        | ENamed s => Some [s]
        | EOff => None
        end
    end.

  Fixpoint drop_empty (l : list str) : list str :=
    match l with
    | [] :: r => drop_empty r
    | _ => l
    end.
  (* underscore-joined; empty leading components (the automatic prefix) leave no underscore *)
  Definition join_name (comps : list str) : str := join us (drop_empty comps).

  Definition decl_attr (root : envset) (rchain : list (str * envset)) (key : str) (fe : envset) : envset :=
    match fe with
    | EOff => EOff
    | ENamed s => ENamed s
    | EAuto => ENamed (join_name (match gov root rchain with Some c => c | None => [] end ++ [up key]))
    | EAbsent => match gov root rchain with
                 | Some c => ENamed (join_name (c ++ [up key]))
                 | None => EAbsent
                 end
    end.

  (* walk down the user's schema collecting the settings met on the way *)
  Fixpoint decl_walk (root : envset) (rchain : list (str * envset)) (t : stree) (key : str)
           (path : list str) {struct path} : option envset :=
    match path, t with
    | [], SLeaf fe => Some (decl_attr root rchain key fe)
    | k :: r, SNode e kids =>
        match assoc str_eqb k kids with
        | Some c => decl_walk root ((key, e) :: rchain) c k r
        | None => None
        end
    | _, _ => None
    end.

  Definition env_attr_decl (s : stree) (path : list str) : option envset :=
    match s, path with
    | SLeaf e, [] => Some e
    | SNode e kids, k :: r =>
        match assoc str_eqb k kids with
        | Some c => decl_walk e [] c k r
        | None => None
        end
    | _, _ => None
    end.
  Definition env_name_decl (s : stree) (path : list str) : option str :=
    match env_attr_decl s path with Some e => bound_name e | None => None end.
End Names.

(* ---------------------------------------------------------------------------------------------- *)
(* the precedence machine of one field *)

Inductive vsrc := SDefault | SEnv | SLoaded | SAssigned.

Inductive eop :=
| OBuild                        (* cfg = schema()                                              *)
| OLoad (v : option pyval)      (* load_tree of a document in the field's own configuration;
                                   None: the document has no entry for the field               *)
| ONested (v : option pyval)    (* load_tree in an enclosing configuration of a document that has a
                                   map for the sub-schema: _set_value rebuilds the
                                   sub-configuration, loads the map into it, then swaps it in  *)
| OAssign (v : pyval)           (* cfg.key = v                                                 *)
| OReset.                       (* reset_value(cfg, key)                                       *)

(* None: there is no configuration (not built yet, or the constructor raised) *)
Definition fstate := option (pyval * vsrc).

Section Machine.
  Variable validate : pyval -> res pyval.   (* field._validate + validator, on a non-None value *)
  Variable to_py : pyval -> res pyval.      (* field.to_python on a non-None value *)
  Variable dflt : pyval.                    (* what the class's __setdefault__ stores without a variable *)
  Variable lookup : bool.                   (* the class uses Field.__setdefault__ (reads the variable) *)
  Variable name : envset.                   (* field.env after __setkey__ *)
  Variable environ : list (str * str).      (* os.environ, constant over the history *)
  Variable path : str.                      (* dotted path of the field *)

  (* Field.validate with required=False *)
  Definition fvalidate (v : pyval) : res pyval :=
    match v with PNone => Ok PNone | _ => validate v end.
  Definition fto_py (v : pyval) : res pyval :=
    match v with PNone => Ok PNone | _ => to_py v end.

  (* isinstance(self.env, str) and self.env and os.environ.get(self.env) *)
  Definition env_text : option str :=
    match bound_name name with
    | Some n => match assoc str_eqb n environ with
                | Some (c :: r) => Some (c :: r)
                | _ => None
                end
    | None => None
    end.

  (* __setdefault__ *)
  Definition setdefault : res (pyval * vsrc) :=
    if lookup then
      match env_text with
      | Some s => match fvalidate (PStr s) with
                  | Ok PNone => Ok (dflt, SDefault)      (* if value is None: value = self.default *)
                  | Ok v => Ok (v, SEnv)
                  | Err _ => Err (EValidation path)
                  | Unmodelled => Unmodelled
                  end
      | None => Ok (dflt, SDefault)
      end
    else Ok (dflt, SDefault).

  (* one (key, value) of load_tree *)
  Definition load_leaf (st : pyval * vsrc) (x : pyval) : (pyval * vsrc) * res unit :=
    match env_text with
    | Some _ => (st, Ok tt)                               (* continue *)
    | None =>
        match fto_py x with
        | Ok y => match fvalidate y with
                  | Ok v => ((v, SLoaded), Ok tt)
                  | Err _ => (st, Err (EValidation path))
                  | Unmodelled => (st, Unmodelled)
                  end
        | Err _ => (st, Err (EValidation path))
        | Unmodelled => (st, Unmodelled)
        end
    end.

  Definition estep (s : fstate) (o : eop) : fstate * res unit :=
    match o with
    | OBuild =>
        match setdefault with
        | Ok st => (Some st, Ok tt)
        | Err e => (None, Err e)
        | Unmodelled => (None, Unmodelled)
        end
    | _ =>
      match s with
      | None => (None, Unmodelled)            (* no configuration to operate on *)
      | Some st =>
        match o with
        | OBuild => (s, Unmodelled)
        | OReset =>
            match setdefault with
            | Ok st' => (Some st', Ok tt)
            | Err e => (Some st, Err e)
            | Unmodelled => (Some st, Unmodelled)
            end
        | OLoad None => (Some st, Ok tt)
        | OLoad (Some x) => let '(st', r) := load_leaf st x in (Some st', r)
        | ONested v =>
            match setdefault with
            | Ok st0 =>
                match v with
                | None => (Some st0, Ok tt)
                | Some x => let '(st1, r) := load_leaf st0 x in
                            match r with
                            | Ok _ => (Some st1, Ok tt)
                            | _ => (Some st, r)          (* raised before self._data[key] = value *)
                            end
                end
            | Err e => (Some st, Err e)
            | Unmodelled => (Some st, Unmodelled)
            end
        | OAssign x =>
            match fvalidate x with
            | Ok v => (Some (v, SAssigned), Ok tt)
            | Err _ => (Some st, Err (EValidation path))
            | Unmodelled => (Some st, Unmodelled)
            end
        end
      end
    end.

  Definition erun (s : fstate) (ops : list eop) : fstate :=
    fold_left (fun s o => fst (estep s o)) ops s.

  Fixpoint etrace (s : fstate) (ops : list eop) : list (fstate * res unit) :=
    match ops with
    | [] => []
    | o :: r => let '(s1, out) := estep s o in (s1, out) :: etrace s1 r
    end.

  (* region of the open finding F20: the class does not read the variable in __setdefault__ although
     the field is bound to one *)
  Definition known_F20 : bool :=
    negb lookup && match bound_name name with Some _ => true | None => false end.
End Machine.

(* ---------------------------------------------------------------------------------------------- *)
(* several configurations of one schema, the process environment changing between constructions:
   every construction reads os.environ as it is then; nothing of an earlier construction (variable text,
   validated value) is kept on the field or the schema *)
Inductive gop :=
| GBuild (environ : list (str * str))    (* os.environ becomes this map; cfg = schema() *)
| GOp (o : eop).                         (* an operation on the current configuration, same environment *)

Definition gstate := (list (str * str) * fstate)%type.

Section Global.
  Variable validate : pyval -> res pyval.
  Variable to_py : pyval -> res pyval.
  Variable dflt : pyval.
  Variable lookup : bool.
  Variable name : envset.
  Variable path : str.

  Definition gstep (g : gstate) (o : gop) : gstate * res unit :=
    match o with
    | GBuild e => let '(s1, r) := estep validate to_py dflt lookup name e path (snd g) OBuild in ((e, s1), r)
    | GOp o => let '(s1, r) := estep validate to_py dflt lookup name (fst g) path (snd g) o in ((fst g, s1), r)
    end.

  Definition grun (g : gstate) (ops : list gop) : gstate :=
    fold_left (fun g o => fst (gstep g o)) ops g.

  (* per step: the operation, the state after it, the outcome *)
  Fixpoint gtrace (g : gstate) (ops : list gop) : list (gop * fstate * res unit) :=
    match ops with
    | [] => []
    | o :: r => let '(g1, out) := gstep g o in (o, snd g1, out) :: gtrace g1 r
    end.
End Global.

(* ---------------------------------------------------------------------------------------------- *)
(* the concrete field classes used by the correspondence stream *)

Inductive fkind :=
| KInt (lo hi : option Z)        (* IntField(min=, max=) *)
| KStr (maxlen : option Z)       (* StringField(max_len=) *)
| KBool                          (* BoolField() *)
| KList                          (* ListField() without item field *)
| KDict                          (* DictField() without key/value fields *)
| KChal (has_default : bool)     (* ChallengeField(), default given or not *)
| KRaise (e : errk).             (* a string field whose validation chain (a `validator=` callable or a
                                    Field subclass's _validate) raises exception `e` on the text "boom" *)

Definition in_range (lo hi : option Z) (z : Z) : bool :=
  match lo with Some l => (l <=? z) | None => true end &&
  match hi with Some h => (z <=? h) | None => true end.

Definition true_values : list str := map sa ["t"; "true"; "1"; "on"; "yes"; "y"]%string.
Definition false_values : list str := map sa ["f"; "false"; "0"; "off"; "no"; "n"]%string.
Definition mem_str (s : str) (l : list str) : bool := existsb (str_eqb s) l.

(* a DigestValue is observed by the plaintext it answers to: PDigest [] plaintext 0 *)
Definition digest_of (s : str) : pyval := PDigest [] s 0%N.

Definition kvalidate (k : fkind) (v : pyval) : res pyval :=
  match k with
  | KInt lo hi =>
      match v with
      | PBool _ => Err EValue
      | PInt z => if in_range lo hi z then Ok (PInt z) else Err EValue
      | PStr s => if all_ascii s then
                    match parse_int s with
                    | Some z => if in_range lo hi z then Ok (PInt z) else Err EValue
                    | None => Err EValue
                    end
                  else Unmodelled
      | PFloat _ => Unmodelled
      | _ => Err EValue
      end
  | KStr maxlen =>
      match v with
      | PStr s => match maxlen with
                  | Some m => if (Z.of_nat (length s) <=? m) then Ok (PStr s) else Err EValue
                  | None => Ok (PStr s)
                  end
      | _ => Err EValue
      end
  | KBool =>
      match v with
      | PBool b => Ok (PBool b)
      | PInt z => Ok (PBool (negb (z =? 0)))
      | PFloat _ => Unmodelled
      | PStr s => if all_ascii s then
                    if mem_str (lower s) true_values then Ok (PBool true)
                    else if mem_str (lower s) false_values then Ok (PBool false)
                    else Err EValue
                  else Unmodelled
      | _ => Err EValue
      end
  | KList =>
      match v with
      | PList 0%N l => Ok (PList 0 l)
      | PTuple l => Ok (PList 0 l)
      | PList _ _ => Unmodelled
      | _ => Err EValue
      end
  | KDict =>
      match v with
      | PDict 0%N d => Ok (PDict 0 d)
      | PDict _ _ => Unmodelled
      | _ => Err EValue
      end
  | KChal _ =>
      match v with
      | PStr s => if all_ascii s then Ok (digest_of s) else Unmodelled
      | PDigest s d a => Ok (PDigest s d a)
      | PBytes _ => Unmodelled
      | _ => Err EValue
      end
  | KRaise e =>
      match v with
      | PStr s => if str_eqb s (sa "boom") then Err e else Ok (PStr s)
      | _ => Err EValue
      end
  end.

Definition kto_py (k : fkind) (v : pyval) : res pyval :=
  match k with
  | KChal _ =>
      match v with
      | PStr s => if all_ascii s then Ok (digest_of s) else Unmodelled
      | PDict _ _ => Unmodelled            (* salt/digest pairs: C09's business *)
      | _ => Err EValue
      end
  | _ => Ok v
  end.

(* which classes keep Field.__setdefault__ *)
Definition klookup (k : fkind) : bool :=
  match k with
  | KList | KDict => false
  | KChal has_default => negb has_default
  | _ => true
  end.

(* ---- the stream's case: schema, path of the field under test, its class and default, the process
   environment and the history ---- *)
(* rootkey: the root schema's own constructor key ("" = none); Config._ref_path starts error paths with it *)
Definition ecase := (stree * str * list str * fkind * pyval * list (str * str) * list gop)%type.

Fixpoint stree_ascii (t : stree) : bool :=
  match t with
  | SLeaf _ => true
  | SNode _ kids => (fix go (l : list (str * stree)) : bool :=
                       match l with [] => true | (k, c) :: r => all_ascii k && stree_ascii c && go r end) kids
  end.

Definition o_envset (e : envset) : pyval :=
  match e with EAbsent => PNone | EAuto => PBool true | ENamed s => PStr s | EOff => PBool false end.
Definition o_pfx (p : pfx) : pyval :=
  match p with PfNone => PNone | PfStr s => PStr s | PfOff => PBool false end.

(* every stored name / prefix, depth first in field order *)
Fixpoint o_names (t : btree) : list pyval :=
  match t with
  | BLeaf e => [o_envset e]
  | BNode p kids => o_pfx p :: (fix go (l : list (str * btree)) : list pyval :=
                                  match l with [] => [] | (_, c) :: r => o_names c ++ go r end) kids
  end.

Definition o_unit (r : res unit) : pyval :=
  match r with Ok _ => o_str "ok" | Err e => PTuple [o_str "err"; o_errk e] | Unmodelled => o_str "unmodelled" end.
Definition o_fstate (s : fstate) : pyval :=
  match s with
  | None => PNone
  | Some (v, src) => PTuple [v; PBool (match src with SLoaded | SAssigned => true | _ => false end)]
  end.

Definition dotted (p : list str) : str := join [46%N] p.

(* is_value_defined of every field, depth first: only the field under test is ever written *)
Fixpoint o_defined (t : stree) (rest : option (list str)) (flag : bool) : list pyval :=
  match t with
  | SLeaf _ => [PBool (match rest with Some [] => flag | _ => false end)]
  | SNode _ kids =>
      (fix go (l : list (str * stree)) : list pyval :=
         match l with
         | [] => []
         | (k, c) :: r =>
             o_defined c (match rest with
                          | Some (k' :: p) => if str_eqb k k' then Some p else None
                          | _ => None
                          end) flag ++ go r
         end) kids
  end.

Definition is_fresh_op (o : gop) : bool :=
  match o with GBuild _ | GOp OBuild | GOp OReset => true | _ => false end.

Definition o_step (s : stree) (path : list str) (x : gop * fstate * res unit) : pyval :=
  let '(o, st, out) := x in
  PTuple [o_unit out; o_fstate st;
          match st with
          | Some (_, src) =>
              if is_fresh_op o
              then PList 0 (o_defined s (Some path) (match src with SLoaded | SAssigned => true | _ => false end))
              else PNone
          | None => PNone
          end].

Definition run_env (c : ecase) : pyval :=
  let '(s, rootkey, path, k, d, environ, ops) := c in
  let epath := dotted (match rootkey with [] => path | _ => rootkey :: path end) in
  if negb (stree_ascii s) then o_str "unmodelled" else
  let b := build_root upper s in
  match env_attr_impl upper s path with
  | None => o_str "unmodelled"
  | Some nm =>
      PTuple [PList 0 (o_names b);
              PList 0 (map (o_step s path)
                           (gtrace (kvalidate k) (kto_py k) d (klookup k) nm epath (environ, None) ops))]
  end.
