(* DictModelLemmas.v — proofs about DictProxy against the builtin dict (property C17, and the
   container half of C01 for typed dicts). *)
From Coq Require Import ZArith NArith String List Bool Lia.
From Cinco Require Import Base ListModel ListModelLemmas DictModel.
Import ListNotations.
Open Scope Z_scope.

Lemma dict_table_ok : table_ok dict_table = true.
Proof. vm_compute. reflexivity. Qed.

Definition dop_must_override (op : dop) : bool :=
  match op with
  | DSetItem _ _ | DUpdate _ _ | DIOr _ | DSetDefault _ _ | DCopy | DNew _ => true
  | _ => false
  end.

Lemma dmust_override_dispatched op :
  dop_must_override op = true -> dict_overridden (dop_entry op) = true.
Proof. destruct op; simpl; intros H; try discriminate; vm_compute; reflexivity. Qed.

Ltac ddispatch :=
  unfold proxy_dstep; cbn [dop_entry];
  repeat match goal with
         | |- context [dict_overridden ?e] =>
             let b := eval vm_compute in (dict_overridden e) in
             change (dict_overridden e) with b
         end;
  cbv iota.

Lemma not_truthy_items s src : ds_truthy s src = false -> ds_items s src = [].
Proof.
  destruct src; simpl; try discriminate; try reflexivity;
    try (destruct l; [reflexivity|discriminate]).
  destruct s; [reflexivity|discriminate].
Qed.

Section DLemmas.
  Variables VK VV : pyval -> res pyval.
  Variable tg : N.

  Lemma pair_ok_validate k v :
    pair_ok VK VV (k, v) = true -> d_validate VK VV k v = Ok (norm_pair VK VV (k, v)).
  Proof.
    unfold pair_ok, d_validate, norm_pair, dokb, dnorm1. intros H.
    destruct (VK k); try discriminate. destruct (VV v); try discriminate. reflexivity.
  Qed.

  Lemma dvmap_all_ok ps :
    forallb (pair_ok VK VV) ps = true -> dvmap VK VV ps = Ok (map (norm_pair VK VV) ps).
  Proof.
    induction ps as [|[k v] r IH]; simpl; intros H; [reflexivity|].
    apply andb_prop in H. destruct H as [Hx Hr].
    rewrite (pair_ok_validate _ _ Hx), (IH Hr). reflexivity.
  Qed.

  Lemma kwloop_all_ok kw : forall s,
    forallb (pair_ok VK VV) kw = true -> kwloop VK VV s kw = (upd s (map (norm_pair VK VV) kw), Ok tt).
  Proof.
    induction kw as [|[k v] r IH]; simpl; intros s H; [reflexivity|].
    apply andb_prop in H. destruct H as [Hx Hr].
    rewrite (pair_ok_validate _ _ Hx). unfold norm_pair at 1. rewrite (IH _ Hr). reflexivity.
  Qed.

  Lemma update_src_ok s src :
    src_ok VK VV s src = true ->
    p_update_src VK VV s src = (upd s (ds_items s (norm_src VK VV s src)), Ok tt).
  Proof.
    unfold src_ok, p_update_src, norm_src. intros H.
    destruct (ds_truthy s src) eqn:T.
    - destruct (ds_compat src); cbn [ds_items]; [reflexivity|].
      simpl in H. rewrite (dvmap_all_ok _ H). reflexivity.
    - rewrite (not_truthy_items _ _ T). destruct (ds_compat src); reflexivity.
  Qed.

  Lemma no_clash_call s src kw :
    kw_clash (DUpdate src kw) = false -> p_update_call VK VV s src kw = p_update VK VV s src kw.
  Proof.
    unfold kw_clash, p_update_call, kw_has. intros H. apply orb_false_iff in H. destruct H as [H1 H2].
    destruct (kw_get kw_self kw); [discriminate|].
    destruct (kw_get kw_iterable kw); [discriminate|]. reflexivity.
  Qed.

  (* ---------- refinement (outside the region of F51) ---------- *)
  Lemma dict_refines_partial s op :
    kw_clash op = false ->
    daccepted VK VV s op = true -> proxy_dstep VK VV tg s op = spec_dstep VK VV tg s op.
  Proof.
    intros Hclash Hacc. unfold spec_dstep.
    destruct op; ddispatch; cbn [override_dstep norm_dop daccepted dretag] in *;
      try (destruct (b_dstep s _); reflexivity).
    - (* setitem *) rewrite (pair_ok_validate _ _ Hacc). unfold norm_pair.
      destruct (b_dstep s _); reflexivity.
    - (* update *)
      apply andb_prop in Hacc. destruct Hacc as [Hs Hk].
      rewrite (no_clash_call _ _ _ Hclash).
      unfold p_update. rewrite (update_src_ok _ _ Hs), (kwloop_all_ok _ _ Hk).
      cbn [b_dstep lift_p]. reflexivity.
    - (* |= *)
      unfold p_update. rewrite (update_src_ok _ _ Hacc). cbn [kwloop b_dstep lift_p]. reflexivity.
    - (* setdefault *) rewrite (pair_ok_validate _ _ Hacc). unfold norm_pair.
      destruct (b_dstep s _); reflexivity.
    - (* copy *) reflexivity.
    - (* == *) destruct o; reflexivity.
    - (* new *)
      unfold dp_init. destruct (ds_samefield src) eqn:Sm; cbn [b_dstep ds_isdict ds_items]; [reflexivity|].
      simpl in Hacc. destruct (ds_items s src) as [|p r] eqn:It; [reflexivity|].
      rewrite (dvmap_all_ok _ Hacc). reflexivity.
  Qed.

  Lemma drun_acc_ext (acc : list (res pyval)) s ops :
    forallb (fun op => negb (kw_clash op)) ops = true ->
    daccepted_run VK VV tg s ops = true ->
    fold_left (run_acc (proxy_dstep VK VV tg)) ops (s, acc) =
    fold_left (run_acc (spec_dstep VK VV tg)) ops (s, acc).
  Proof.
    revert s acc. induction ops as [|op r IH]; intros s acc Hc H; [reflexivity|].
    simpl in H. apply andb_prop in H. destruct H as [Ha Hr].
    simpl in Hc. apply andb_prop in Hc. destruct Hc as [Hc1 Hc2]. apply negb_true_iff in Hc1.
    simpl. unfold run_acc at 2 4. cbn [fst snd].
    rewrite <- (dict_refines_partial s op Hc1 Ha).
    destruct (proxy_dstep VK VV tg s op) as [s' o] eqn:E. cbn [fst] in Hr.
    apply IH; assumption.
  Qed.

  Lemma drun_refines_partial s ops :
    forallb (fun op => negb (kw_clash op)) ops = true ->
    daccepted_run VK VV tg s ops = true ->
    run (proxy_dstep VK VV tg) s ops = run (spec_dstep VK VV tg) s ops.
  Proof. unfold run. apply drun_acc_ext. Qed.

  (* ---------- rejected single-pair operations ---------- *)
  Lemma pair_rejected k v :
    pair_ok VK VV (k, v) = false ->
    match d_validate VK VV k v with Ok _ => False | _ => True end.
  Proof.
    unfold pair_ok, d_validate, dokb. destruct (VK k); simpl; auto.
    destruct (VV v); simpl; auto. discriminate.
  Qed.

  Lemma drejected_single_unchanged s op :
    match op with DSetItem _ _ | DSetDefault _ _ => True | _ => False end ->
    daccepted VK VV s op = false -> fst (proxy_dstep VK VV tg s op) = s.
  Proof.
    destruct op; try contradiction; intros _ H; ddispatch; cbn [override_dstep daccepted] in *;
      apply pair_rejected in H;
      match goal with |- context [d_validate VK VV ?a ?b] => destruct (d_validate VK VV a b) as [[? ?]|?|] end;
      try contradiction; reflexivity.
  Qed.

  (* a refused positional argument of update / |= leaves the dict unchanged (all pairs are validated
     before the first one is stored) *)
  Lemma drejected_src_unchanged s src :
    src_ok VK VV s src = false -> fst (p_update_src VK VV s src) = s.
  Proof.
    unfold src_ok, p_update_src. intros H.
    apply orb_false_iff in H. destruct H as [Hc Hf]. rewrite Hc.
    destruct (ds_truthy s src); [|reflexivity].
    assert (G : forall ps, forallb (pair_ok VK VV) ps = false ->
                           match dvmap VK VV ps with Ok _ => False | _ => True end).
    { induction ps as [|[k v] r IH]; [discriminate|]. cbn [forallb dvmap]. intros Hps.
      destruct (pair_ok VK VV (k, v)) eqn:E.
      - rewrite (pair_ok_validate _ _ E). cbn [andb] in Hps. specialize (IH Hps).
        destruct (dvmap VK VV r); auto.
      - apply pair_rejected in E. destruct (d_validate VK VV k v); auto. contradiction. }
    specialize (G _ Hf). destruct (dvmap VK VV (ds_items s src)); try contradiction; reflexivity.
  Qed.

  (* ---------- invariant ---------- *)
  Definition dvalid (kv : pyval * pyval) : Prop := VK (fst kv) = Ok (fst kv) /\ VV (snd kv) = Ok (snd kv).
  Definition didem : Prop :=
    (forall x y, VK x = Ok y -> VK y = Ok y) /\ (forall x y, VV x = Ok y -> VV y = Ok y).

  Lemma d_validate_valid k v kv : didem -> d_validate VK VV k v = Ok kv -> dvalid kv.
  Proof.
    intros [Hk Hv]. unfold d_validate.
    destruct (VK k) eqn:Ek; try discriminate. destruct (VV v) eqn:Ev; try discriminate.
    intros E; inversion E; subst. split; simpl; eauto.
  Qed.

  Lemma dvmap_valid ps l : didem -> dvmap VK VV ps = Ok l -> Forall dvalid l.
  Proof.
    intros Hi. revert l. induction ps as [|[k v] r IH]; simpl; intros l E.
    - inversion E; constructor.
    - destruct (d_validate VK VV k v) as [kv| |] eqn:Ekv; try discriminate.
      destruct (dvmap VK VV r) eqn:Er; try discriminate. inversion E; subst.
      constructor; [eapply d_validate_valid; eauto|apply IH; reflexivity].
  Qed.

  Lemma dvmap_fixed l : Forall dvalid l -> dvmap VK VV l = Ok l.
  Proof.
    induction 1 as [|[k v] r [Hk Hv] _ IH]; simpl in *; [reflexivity|].
    unfold d_validate. rewrite Hk, Hv, IH. reflexivity.
  Qed.

  (* the compatible-proxy fast path of update equals the validating path on valid contents *)
  Lemma fast_path_update s l :
    Forall dvalid l -> l <> [] ->
    p_update_src VK VV s (DSProxyOther l) = p_update_src VK VV s (DSCompat l).
  Proof.
    intros H Hne. unfold p_update_src. destruct l; [contradiction|].
    cbn [ds_truthy ds_items ds_compat]. rewrite (dvmap_fixed _ H). reflexivity.
  Qed.
End DLemmas.

(* ---------- plumbing ---------- *)
Section DPres.
  Variables PK PV : pyval -> Prop.
  Definition PKV (kv : pyval * pyval) : Prop := PK (fst kv) /\ PV (snd kv).

  Lemma Forall_d_set k v s : Forall PKV s -> PK k -> PV v -> Forall PKV (d_set k v s).
  Proof.
    unfold d_set. intros H Hk Hv. induction H as [|[k' v'] r [Hk' Hv'] Hr IH]; simpl.
    - constructor; [split; auto|constructor].
    - simpl in *. destruct (py_eq k k'); constructor; auto; split; auto.
  Qed.

  Lemma Forall_upd ps : forall s, Forall PKV s -> Forall PKV ps -> Forall PKV (upd s ps).
  Proof.
    induction ps as [|[k v] r IH]; simpl; intros s Hs Hp; auto.
    inversion Hp as [|? ? [Hk Hv] Hr]; subst. apply IH; auto. apply Forall_d_set; auto.
  Qed.

  Lemma Forall_d_del k s : Forall PKV s -> Forall PKV (d_del k s).
  Proof.
    unfold d_del. induction 1 as [|[k' v'] r H Hr IH]; simpl; auto.
    destruct (py_eq k k'); auto.
  Qed.

  Definition dinserted (s : pairs) (op : dop) : pairs :=
    match op with
    | DSetItem k v => [(k, v)]
    | DUpdate src kw => ds_items s src ++ kw
    | DIOr src => ds_items s src
    | DSetDefault k v => [(k, opt_or_none v)]
    | _ => []
    end.

  Lemma b_dstep_Forall s op :
    Forall PKV s -> Forall PKV (dinserted s op) -> Forall PKV (fst (b_dstep s op)).
  Proof.
    intros Hs Hi. destruct op; cbn [b_dstep dinserted fst] in *; auto.
    - inversion Hi as [|? ? [Hk Hv] _]; subst. apply Forall_d_set; auto.
    - apply Forall_app in Hi. destruct Hi. repeat apply Forall_upd; auto.
    - apply Forall_upd; auto.
    - destruct (d_get k s); cbn [fst]; auto. apply Forall_app; split; auto.
    - destruct (d_get k s); cbn [fst]; [apply Forall_d_del; auto|]. destruct d; auto.
    - destruct (rev s) as [|kv r] eqn:E; cbn [fst]; auto.
      apply Forall_rev. apply Forall_rev in Hs. rewrite E in Hs. inversion Hs; auto.
    - destruct (d_get k s); cbn [fst]; auto. apply Forall_d_del; auto.
    - destruct (d_get k s); auto.
    - destruct (d_get k s); auto.
    - destruct (ds_isdict src); auto. destruct src; auto.
  Qed.
End DPres.

Section DInvariant.
  Variables VK VV : pyval -> res pyval.
  Variable tg : N.
  Hypothesis V_idem : didem VK VV.

  Let PKp := fun k => VK k = Ok k.
  Let PVp := fun v => VV v = Ok v.

  Definition src_wf (src : dsource) : Prop :=
    match src with DSCompat l | DSSameField l => Forall (dvalid VK VV) l | _ => True end.
  Definition dop_wf (op : dop) : Prop :=
    match op with DUpdate src _ | DIOr src | DNew src => src_wf src | _ => True end.

  Lemma kwloop_valid kw : forall s,
    Forall (dvalid VK VV) s -> Forall (dvalid VK VV) (fst (kwloop VK VV s kw)).
  Proof.
    induction kw as [|[k v] r IH]; simpl; intros s Hs; auto.
    destruct (d_validate VK VV k v) as [[k' v']| |] eqn:E; cbn [fst]; auto.
    apply IH. destruct (d_validate_valid VK VV _ _ _ V_idem E) as [Hk Hv].
    apply (Forall_d_set PKp PVp); auto.
  Qed.

  Lemma p_update_src_valid s src :
    Forall (dvalid VK VV) s -> src_wf src -> Forall (dvalid VK VV) (fst (p_update_src VK VV s src)).
  Proof.
    intros Hs Hw. unfold p_update_src. destruct (ds_truthy s src); cbn [fst]; auto.
    destruct (ds_compat src) eqn:C; cbn [fst].
    - apply (Forall_upd PKp PVp); auto. destruct src; try discriminate; simpl in *; auto.
    - destruct (dvmap VK VV (ds_items s src)) eqn:E; cbn [fst]; auto.
      apply (Forall_upd PKp PVp); auto. eapply dvmap_valid; eauto.
  Qed.

  Lemma p_update_valid s src kw :
    Forall (dvalid VK VV) s -> src_wf src -> Forall (dvalid VK VV) (fst (p_update VK VV s src kw)).
  Proof.
    intros Hs Hw. unfold p_update. pose proof (p_update_src_valid s src Hs Hw) as G.
    destruct (p_update_src VK VV s src) as [s1 [[]|e|]]; cbn [fst] in *; auto.
    apply kwloop_valid; auto.
  Qed.

  Lemma p_update_call_valid s src kw :
    Forall (dvalid VK VV) s -> src_wf src -> Forall (dvalid VK VV) (fst (p_update_call VK VV s src kw)).
  Proof.
    intros Hs Hw. unfold p_update_call. destruct (kw_has kw_self kw); [exact Hs|].
    destruct (kw_get kw_iterable kw) as [v|]; [|apply p_update_valid; auto].
    destruct src; try exact Hs.
    destruct (py_truthy v); [destruct v; exact Hs|]. apply kwloop_valid; auto.
  Qed.

  Lemma proxy_dstep_valid s op :
    Forall (dvalid VK VV) s -> dop_wf op -> Forall (dvalid VK VV) (fst (proxy_dstep VK VV tg s op)).
  Proof.
    intros Hs Hw.
    destruct op; ddispatch; cbn [override_dstep];
      try (apply (b_dstep_Forall PKp PVp); [exact Hs|constructor]).
    - destruct (d_validate VK VV k v) as [[k' v']| |] eqn:E; cbn [fst]; auto.
      apply (b_dstep_Forall PKp PVp); auto. constructor; [|constructor].
      exact (d_validate_valid VK VV _ _ _ V_idem E).
    - pose proof (p_update_call_valid s src kw Hs Hw) as G. destruct (p_update_call VK VV s src kw); exact G.
    - pose proof (p_update_valid s src [] Hs Hw) as G. destruct (p_update VK VV s src []); exact G.
    - destruct (d_validate VK VV k (opt_or_none v)) as [[k' v']| |] eqn:E; cbn [fst]; auto.
      apply (b_dstep_Forall PKp PVp); auto. constructor; [|constructor].
      exact (d_validate_valid VK VV _ _ _ V_idem E).
    - exact Hs.
    - destruct o; try exact Hs.
    - destruct (dp_init VK VV (ds_samefield src) (ds_items s src)); exact Hs.
  Qed.

  Lemma drun_valid_acc ops : forall s acc,
    Forall (dvalid VK VV) s -> Forall dop_wf ops ->
    Forall (dvalid VK VV) (fst (fold_left (run_acc (proxy_dstep VK VV tg)) ops (s, acc))).
  Proof.
    induction ops as [|op r IH]; intros s acc Hs Hw; simpl; auto.
    inversion Hw; subst. unfold run_acc at 2. cbn [fst snd].
    pose proof (proxy_dstep_valid s op Hs H1) as G.
    destruct (proxy_dstep VK VV tg s op) as [s' o]. apply IH; auto.
  Qed.

  Lemma drun_valid s ops :
    Forall (dvalid VK VV) s -> Forall dop_wf ops ->
    Forall (dvalid VK VV) (fst (run (proxy_dstep VK VV tg) s ops)).
  Proof. unfold run. apply drun_valid_acc. Qed.

  Lemma dinit_valid items s : dp_init VK VV false items = Ok s -> Forall (dvalid VK VV) s.
  Proof.
    unfold dp_init. destruct items as [|p r]; [intros E; inversion E; constructor|].
    destruct (dvmap VK VV (p :: r)) eqn:E; intros H; inversion H; subst.
    apply (Forall_upd PKp PVp); [constructor|]. eapply dvmap_valid; eauto.
  Qed.

  Lemma dtyped_results s op s' r :
    Forall (dvalid VK VV) s -> dop_wf op ->
    proxy_dstep VK VV tg s op = (s', Ok r) ->
    match op with
    | DCopy | DNew _ => exists l, r = PDict tg l /\ Forall (dvalid VK VV) l
    | DIOr _ => r = self_marker /\ Forall (dvalid VK VV) s'
    | _ => True
    end.
  Proof.
    intros Hs Hw E. destruct op; auto; revert E; ddispatch; cbn [override_dstep]; intros E.
    - pose proof (p_update_valid s src [] Hs Hw) as G.
      destruct (p_update VK VV s src []) as [s1 [[]|e|]]; inversion E; subst. split; auto.
    - inversion E; subst. eauto.
    - destruct (ds_samefield src) eqn:Sm.
      + unfold dp_init in E. inversion E; subst. eexists; split; [reflexivity|].
        destruct src; try discriminate; simpl in *; auto.
      + pose proof (dinit_valid (ds_items s src)) as G.
        destruct (dp_init VK VV false (ds_items s src)); inversion E; subst. eauto.
  Qed.
End DInvariant.

(* ---------- copy: the fast path of __init__ equals the validating path ---------- *)
Fixpoint keys_distinct (seen : list pyval) (s : pairs) : Prop :=
  match s with
  | [] => True
  | (k, v) :: r => (forall k', In k' seen -> py_eq k k' = false) /\ keys_distinct (seen ++ [k]) r
  end.

Lemma d_set_fresh k v acc :
  (forall k', In k' (map fst acc) -> py_eq k k' = false) -> d_set k v acc = acc ++ [(k, v)].
Proof.
  unfold d_set. induction acc as [|[k' v'] r IH]; simpl; intros H; [reflexivity|].
  rewrite (H k' (or_introl eq_refl)). rewrite IH; auto.
Qed.

Lemma upd_fresh s : forall acc, keys_distinct (map fst acc) s -> upd acc s = acc ++ s.
Proof.
  induction s as [|[k v] r IH]; simpl; intros acc H; [rewrite app_nil_r; reflexivity|].
  destruct H as [Hf Hr]. rewrite (d_set_fresh _ _ _ Hf).
  rewrite IH; [rewrite <- app_assoc; reflexivity|].
  rewrite map_app. exact Hr.
Qed.

Lemma fast_path_copy VK VV s :
  Forall (dvalid VK VV) s -> keys_distinct [] s ->
  dp_init VK VV false s = dp_init VK VV true s.
Proof.
  intros H Hd. unfold dp_init. destruct s as [|p r]; [reflexivity|].
  rewrite (dvmap_fixed VK VV _ H). rewrite (upd_fresh (p :: r) [] Hd). reflexivity.
Qed.

(* ---------- the hypotheses are satisfiable ---------- *)
Example ex_didem : didem ex_V ex_V.
Proof. split; exact ex_V_idem. Qed.

Example ex_daccepted_run :
  daccepted_run ex_V ex_V 1 [(PInt 1, PInt 2)]
    [DSetItem PNone (PInt 5); DUpdate (DSIter [(PInt 1, PNone)]) []; DSetDefault (PInt 9) None; DCopy] = true.
Proof. vm_compute. reflexivity. Qed.

Example ex_drun :
  run (proxy_dstep ex_V ex_V 1) [(PInt 1, PInt 2)]
    [DSetItem PNone (PInt 5); DUpdate (DSPairs [(PInt 3, PInt 3); (PInt 4, PInt (-1))]) []; DPopItem] =
  ([(PInt 1, PInt 2)], [Ok PNone; Err (EValidation (sa "4")); Ok (PTuple [PInt 0; PInt 5])]).
Proof. vm_compute. reflexivity. Qed.

Example ex_keys_distinct : keys_distinct [] [(PInt 1, PNone); (PInt 2, PNone)].
Proof. simpl. repeat split; intros k' H; repeat (destruct H as [H|H]; subst; try reflexivity); contradiction. Qed.

Example ex_dop_wf : Forall (dop_wf ex_V ex_V) [DIOr (DSCompat [(PInt 3, PInt 3)]); DSetItem (PInt (-4)) PNone].
Proof. repeat constructor. Qed.

Example ex_dinit : dp_init ex_V ex_V false [(PNone, PInt 3); (PInt 0, PNone)] = Ok [(PInt 0, PInt 0)].
Proof. vm_compute. reflexivity. Qed.

Example ex_dvalid : Forall (dvalid ex_V ex_V) [(PInt 0, PInt 0)].
Proof. repeat constructor. Qed.

(* ---------- F51: the full refinement statement is false inside the region kw_clash ---------- *)
Definition id_V (x : pyval) : res pyval := Ok x.

Lemma dict_refines_refuted :
  exists VK VV tg s op,
    daccepted VK VV s op = true /\ proxy_dstep VK VV tg s op <> spec_dstep VK VV tg s op.
Proof.
  exists id_V, id_V, 1%N, [], (DUpdate DSNone [(PStr kw_iterable, PInt 0)]).
  split; [reflexivity|]. vm_compute. discriminate.
Qed.

Example ex_no_clash :
  forallb (fun op => negb (kw_clash op)) [DUpdate DSNone [(PStr (sa "k"), PInt 1)]; DIOr DSSelf] = true.
Proof. reflexivity. Qed.

(* ================================================================================================ *)
(* C15 for entries of typed dicts: a refusal is the validation error naming the offending entry     *)
(* ================================================================================================ *)
Section DPaths.
  Variables VK VV : pyval -> res pyval.
  Variable tg : N.

  Lemma d_validate_err k v e :
    d_validate VK VV k v = Err e -> e = EValidation (key_text k) /\ pair_ok VK VV (k, v) = false.
  Proof.
    unfold d_validate, pair_ok, dokb. destruct (VK k); [destruct (VV v)| |]; intros H; inversion H; subst; auto.
  Qed.

  Lemma d_validate_ok k v kv : d_validate VK VV k v = Ok kv -> pair_ok VK VV (k, v) = true.
  Proof.
    unfold d_validate, pair_ok, dokb. destruct (VK k); [destruct (VV v)| |]; intros H; inversion H; reflexivity.
  Qed.

  Lemma first_bad_app_none a b : first_bad VK VV a = None -> first_bad VK VV (a ++ b) = first_bad VK VV b.
  Proof.
    induction a as [|[k v] r IH]; [reflexivity|]. cbn [first_bad app].
    destruct (pair_ok VK VV (k, v)); [exact IH|discriminate].
  Qed.

  Lemma first_bad_app_some a b k : first_bad VK VV a = Some k -> first_bad VK VV (a ++ b) = Some k.
  Proof.
    induction a as [|[k' v] r IH]; [discriminate|]. cbn [first_bad app].
    destruct (pair_ok VK VV (k', v)); auto.
  Qed.

  (* the first offending pair: everything before it is acceptable, the pair itself is not *)
  Lemma first_bad_spec ps k :
    first_bad VK VV ps = Some k ->
    exists before v after, ps = before ++ (k, v) :: after /\
                           forallb (pair_ok VK VV) before = true /\ pair_ok VK VV (k, v) = false.
  Proof.
    induction ps as [|[k' v'] r IH]; [discriminate|]. cbn [first_bad].
    destruct (pair_ok VK VV (k', v')) eqn:E; intros H.
    - destruct (IH H) as (b & v & a & -> & Hb & Hk). exists ((k', v') :: b), v, a.
      repeat split; auto. cbn [forallb]. rewrite E, Hb. reflexivity.
    - inversion H; subst. exists [], v', r. repeat split; auto.
  Qed.

  Lemma first_bad_none ps : first_bad VK VV ps = None <-> forallb (pair_ok VK VV) ps = true.
  Proof.
    induction ps as [|[k v] r IH]; [split; reflexivity|]. cbn [first_bad forallb].
    destruct (pair_ok VK VV (k, v)); [exact IH|split; discriminate].
  Qed.

  Lemma dvmap_ok_first_bad ps l : dvmap VK VV ps = Ok l -> first_bad VK VV ps = None.
  Proof.
    revert l. induction ps as [|[k v] r IH]; intros l; [reflexivity|]. cbn [dvmap first_bad].
    destruct (d_validate VK VV k v) eqn:E; try discriminate. rewrite (d_validate_ok _ _ _ E).
    destruct (dvmap VK VV r) eqn:Er; try discriminate. intros _. eapply IH; reflexivity.
  Qed.

  Lemma dvmap_err ps e :
    dvmap VK VV ps = Err e -> exists k, first_bad VK VV ps = Some k /\ e = EValidation (key_text k).
  Proof.
    induction ps as [|[k v] r IH]; [discriminate|]. cbn [dvmap first_bad].
    destruct (d_validate VK VV k v) eqn:E.
    - rewrite (d_validate_ok _ _ _ E). destruct (dvmap VK VV r) eqn:Er; try discriminate.
      intros H; inversion H; subst. apply IH; reflexivity.
    - destruct (d_validate_err _ _ _ E) as [-> Hk]. rewrite Hk. intros H; inversion H; subst. eauto.
    - discriminate.
  Qed.

  Lemma kwloop_err kw : forall s s' e,
    kwloop VK VV s kw = (s', Err e) -> exists k, first_bad VK VV kw = Some k /\ e = EValidation (key_text k).
  Proof.
    induction kw as [|[k v] r IH]; intros s s' e; [discriminate|]. cbn [kwloop first_bad].
    destruct (d_validate VK VV k v) as [[k' v']| |] eqn:E.
    - rewrite (d_validate_ok _ _ _ E). apply IH.
    - destruct (d_validate_err _ _ _ E) as [-> Hk]. rewrite Hk. intros H; inversion H; subst. eauto.
    - discriminate.
  Qed.

  Lemma p_update_src_err s src s' e :
    p_update_src VK VV s src = (s', Err e) ->
    exists k, first_bad VK VV (if ds_compat src then [] else ds_items s src) = Some k /\ e = EValidation (key_text k).
  Proof.
    unfold p_update_src. destruct (ds_truthy s src); [|discriminate].
    destruct (ds_compat src); [discriminate|].
    destruct (dvmap VK VV (ds_items s src)) eqn:E; try discriminate.
    intros H; inversion H; subst. apply dvmap_err; exact E.
  Qed.

  Lemma p_update_src_ok_first_bad s src s' u :
    p_update_src VK VV s src = (s', Ok u) ->
    first_bad VK VV (if ds_compat src then [] else ds_items s src) = None.
  Proof.
    unfold p_update_src. destruct (ds_truthy s src) eqn:T.
    - destruct (ds_compat src); [reflexivity|].
      destruct (dvmap VK VV (ds_items s src)) eqn:E; try discriminate. intros _. eapply dvmap_ok_first_bad; eauto.
    - rewrite (not_truthy_items _ _ T). destruct (ds_compat src); reflexivity.
  Qed.

  Lemma p_update_err s src kw s' e :
    p_update VK VV s src kw = (s', Err e) ->
    exists k, first_bad VK VV ((if ds_compat src then [] else ds_items s src) ++ kw) = Some k /\
              e = EValidation (key_text k).
  Proof.
    unfold p_update. destruct (p_update_src VK VV s src) as [s1 [u|e1|]] eqn:E.
    - intros H. destruct (kwloop_err _ _ _ _ H) as (k & Hk & ->). exists k. split; auto.
      rewrite (first_bad_app_none _ _ (p_update_src_ok_first_bad _ _ _ _ E)). exact Hk.
    - intros H; inversion H; subst. destruct (p_update_src_err _ _ _ _ E) as (k & Hk & ->).
      exists k. split; auto. apply first_bad_app_some; exact Hk.
    - discriminate.
  Qed.

  (* every refusal of a validating operation names the first offending entry, as given *)
  Lemma dict_rejection_entry s op s' e :
    dop_validating op = true -> kw_clash op = false ->
    proxy_dstep VK VV tg s op = (s', Err e) ->
    exists k, first_bad VK VV (dchecked s op) = Some k /\ e = EValidation (key_text k).
  Proof.
    intros Hv Hc. destruct op; try discriminate; ddispatch; cbn [override_dstep dchecked].
    - (* setitem *) cbn [first_bad].
      destruct (d_validate VK VV k v) as [[k' v']| |] eqn:E; try discriminate.
      destruct (d_validate_err _ _ _ E) as [-> Hk]. rewrite Hk. intros H; inversion H; subst. eauto.
    - (* update *) rewrite (no_clash_call VK VV _ _ _ Hc).
      destruct (p_update VK VV s src kw) as [s1 [u|e1|]] eqn:E; try discriminate.
      intros H; inversion H; subst. eapply p_update_err; eauto.
    - (* |= *)
      destruct (p_update VK VV s src []) as [s1 [u|e1|]] eqn:E; try discriminate.
      intros H; inversion H; subst. destruct (p_update_err _ _ _ _ _ E) as (k & Hk & ->).
      rewrite app_nil_r in Hk. eauto.
    - (* setdefault *) cbn [first_bad].
      destruct (d_validate VK VV k (opt_or_none v)) as [[k' v']| |] eqn:E.
      + cbn [b_dstep]. destruct (d_get k' s); discriminate.
      + destruct (d_validate_err _ _ _ E) as [-> Hk]. rewrite Hk. intros H; inversion H; subst. eauto.
      + discriminate.
    - (* constructor *)
      unfold dp_init. destruct (ds_samefield src); [discriminate|].
      destruct (ds_items s src) as [|p r] eqn:It; [discriminate|].
      destruct (dvmap VK VV (p :: r)) eqn:E; try discriminate.
      intros H; inversion H; subst. apply dvmap_err; exact E.
  Qed.

  (* whole-value assignment / load of a plain dict: DictField._validate builds the proxy *)
  Lemma dict_init_rejection items e :
    dp_init VK VV false items = Err e ->
    exists k, first_bad VK VV items = Some k /\ e = EValidation (key_text k).
  Proof.
    unfold dp_init. destruct items as [|p r]; [discriminate|].
    destruct (dvmap VK VV (p :: r)) eqn:E; try discriminate.
    intros H; inversion H; subst. apply dvmap_err; exact E.
  Qed.

  (* the builtin never reports a validation error, hence neither does an acceptable operation *)
  Lemma b_dstep_no_validation s op p : snd (b_dstep s op) <> Err (EValidation p).
  Proof.
    destruct op; cbn [b_dstep snd]; try discriminate;
      repeat match goal with
             | |- context [match ?x with _ => _ end] => destruct x; cbn [snd]; try discriminate
             end.
  Qed.

  Lemma dict_accepted_no_validation_error s op s' p :
    kw_clash op = false -> daccepted VK VV s op = true ->
    proxy_dstep VK VV tg s op <> (s', Err (EValidation p)).
  Proof.
    intros Hc Ha. rewrite (dict_refines_partial VK VV tg s op Hc Ha). unfold spec_dstep.
    pose proof (b_dstep_no_validation s (norm_dop VK VV s op) p) as G.
    destruct (b_dstep s (norm_dop VK VV s op)) as [s1 r]. cbn [snd] in G.
    intros H; inversion H; subst. apply G.
    destruct op; cbn [dretag] in *; try assumption;
      destruct r as [[]| |]; try discriminate; assumption.
  Qed.
End DPaths.

Example ex_first_bad :
  first_bad ex_V ex_V [(PInt 1, PInt 1); (PInt 2, PInt (-3)); (PInt (-4), PInt 0)] = Some (PInt 2).
Proof. reflexivity. Qed.

Example ex_rejection_entry :
  proxy_dstep ex_V ex_V 1 [] (DUpdate (DSIter [(PInt 1, PInt 1)]) [(PStr (sa "k"), PInt 2)]) =
  ([(PInt 1, PInt 1)], Err (EValidation (sa "k"))).      (* the positional part is stored before the keywords are looked at *)
Proof. vm_compute. reflexivity. Qed.
