(* PathsLemmas.v — proofs about Paths.v (property C16). *)
From Coq Require Import ZArith NArith String List Bool Lia.
From Cinco Require Import Base Str Paths.
Import ListNotations.
Open Scope list_scope.

(* ---------------------------------------------------------------------------------------- *)
(* strings                                                                                    *)
(* ---------------------------------------------------------------------------------------- *)
Lemma p_list_eqb_N_eq : forall a b : list N, list_eqb N.eqb a b = true <-> a = b.
Proof.
  induction a as [|x xs IH]; intros [|y ys]; simpl; split; intros H; try discriminate; auto.
  - apply andb_true_iff in H as [H1 H2]. apply N.eqb_eq in H1. apply IH in H2. subst; auto.
  - inversion H; subst. rewrite N.eqb_refl. apply IH. reflexivity.
Qed.
Lemma seqb_eq a b : str_eqb a b = true <-> a = b.
Proof. apply p_list_eqb_N_eq. Qed.
Lemma seqb_refl a : str_eqb a a = true.
Proof. apply seqb_eq; reflexivity. Qed.
Lemma seqb_neq a b : str_eqb a b = false <-> a <> b.
Proof.
  split; intros H.
  - intros E. apply seqb_eq in E. congruence.
  - destruct (str_eqb a b) eqn:E; auto. apply seqb_eq in E. contradiction.
Qed.
Lemma seqb_sym a b : str_eqb a b = str_eqb b a.
Proof.
  destruct (str_eqb a b) eqn:E.
  - apply seqb_eq in E; subst. symmetry; apply seqb_refl.
  - symmetry. apply seqb_neq. apply seqb_neq in E. congruence.
Qed.

(* an identifier key: not empty, no '.' *)
Definition ident (k : str) : Prop := k <> [] /\ ~ In DOT k.

Lemma ident_nonempty k : ident k -> nonempty k = true.
Proof. intros [H _]. destruct k; simpl; congruence. Qed.

Lemma prefix_of_ident k : ident k -> prefix_of k = k ++ [DOT].
Proof. intros [H _]. destruct k; simpl; congruence. Qed.

Lemma split_on_nodot : forall k, ~ In DOT k -> forall cur,
  split_on DOT cur k = [rev cur ++ k].
Proof.
  induction k as [|c k IH]; intros Hn cur; simpl.
  - rewrite app_nil_r. reflexivity.
  - destruct (N.eqb_spec c DOT) as [E|E].
    + exfalso. apply Hn. left. auto.
    + rewrite IH by (intros H; apply Hn; right; exact H). simpl. rewrite <- app_assoc. reflexivity.
Qed.

Lemma split_on_dot : forall k, ~ In DOT k -> forall cur s,
  split_on DOT cur (k ++ DOT :: s) = (rev cur ++ k) :: split_on DOT [] s.
Proof.
  induction k as [|c k IH]; intros Hn cur s; simpl.
  - rewrite ?N.eqb_refl. rewrite app_nil_r. reflexivity.
  - destruct (N.eqb_spec c DOT) as [E|E].
    + exfalso. apply Hn. left. auto.
    + rewrite IH by (intros H; apply Hn; right; exact H). simpl. rewrite <- app_assoc. reflexivity.
Qed.

Lemma dotted_cons2 x y r : dotted (x :: y :: r) = x ++ [DOT] ++ dotted (y :: r).
Proof. reflexivity. Qed.

Lemma split_dotted : forall ks, ks <> [] -> Forall ident ks -> split DOT (dotted ks) = ks.
Proof.
  induction ks as [|x r IH]; intros Hne Hid; [congruence|].
  inversion Hid as [|? ? [Hx1 Hx2] Hr]; subst.
  destruct r as [|y r'].
  - unfold split, dotted. simpl. rewrite split_on_nodot by exact Hx2. reflexivity.
  - rewrite dotted_cons2. unfold split. simpl app. rewrite split_on_dot by exact Hx2.
    simpl. f_equal. apply IH; [congruence | exact Hr].
Qed.

Lemma drop_trailing_nonempty : forall ks, Forall ident ks -> drop_trailing_empty ks = ks.
Proof.
  induction ks as [|x r IH]; intros Hid; [reflexivity|].
  inversion Hid as [|? ? Hx Hr]; subst. simpl.
  destruct r as [|y r'].
  - reflexivity.
  - destruct y as [|c y'].
    + inversion Hr as [|? ? [Hy _] _]; subst. congruence.
    + destruct r'; (f_equal; apply IH; exact Hr).
Qed.

(* the dotted walk visits exactly the keys the path was built from *)
Lemma path_keys_dotted ks : ks <> [] -> Forall ident ks -> path_keys (dotted ks) = ks.
Proof.
  intros Hne Hid. unfold path_keys. rewrite split_dotted by assumption.
  apply drop_trailing_nonempty. exact Hid.
Qed.

(* ---------------------------------------------------------------------------------------- *)
(* association lists                                                                           *)
(* ---------------------------------------------------------------------------------------- *)
Lemma assoc_in_nodup {V} : forall (l : list (str * V)) k v,
  NoDup (map fst l) -> In (k, v) l -> assoc str_eqb k l = Some v.
Proof.
  induction l as [|[k' v'] r IH]; intros k v Hnd Hin; simpl in *; [contradiction|].
  inversion Hnd as [|? ? Hni Hnd']; subst.
  destruct Hin as [E|Hin].
  - inversion E; subst. rewrite seqb_refl. reflexivity.
  - destruct (str_eqb k k') eqn:E.
    + apply seqb_eq in E; subst. exfalso. apply Hni. apply in_map_iff. exists (k', v). auto.
    + apply IH; assumption.
Qed.

Lemma assoc_some_in {V} : forall (l : list (str * V)) k v,
  assoc str_eqb k l = Some v -> In (k, v) l.
Proof.
  induction l as [|[k' v'] r IH]; intros k v H; simpl in *; [discriminate|].
  destruct (str_eqb k k') eqn:E.
  - apply seqb_eq in E; subst. inversion H; subst. left; reflexivity.
  - right. apply IH. exact H.
Qed.

Lemma assoc_set_same {V} : forall (l : list (str * V)) k v, assoc str_eqb k (assoc_set str_eqb k v l) = Some v.
Proof.
  induction l as [|[k' v'] r IH]; intros k v; simpl.
  - rewrite seqb_refl. reflexivity.
  - destruct (str_eqb k k') eqn:E; simpl; rewrite E; auto.
Qed.

Lemma assoc_set_other {V} : forall (l : list (str * V)) k q v, q <> k ->
  assoc str_eqb q (assoc_set str_eqb k v l) = assoc str_eqb q l.
Proof.
  induction l as [|[k' v'] r IH]; intros k q v Hne; simpl.
  - apply seqb_neq in Hne. rewrite Hne. reflexivity.
  - destruct (str_eqb k k') eqn:E; simpl.
    + apply seqb_eq in E; subst k'. apply seqb_neq in Hne. rewrite Hne. reflexivity.
    + destruct (str_eqb q k'); auto.
Qed.

(* ---------------------------------------------------------------------------------------- *)
(* nested induction principle for schema trees                                                 *)
(* ---------------------------------------------------------------------------------------- *)
Section SnodeInd.
  Variable P : snode -> Prop.
  Hypothesis Hleaf : forall k d, P (SLeaf k d).
  Hypothesis Hcfgt : forall t, P t -> P (SCfgT t).
  Hypothesis Hsch : forall own fs, Forall (fun kv => P (snd kv)) fs -> P (SSchema own fs).
  Fixpoint snode_nested_ind (s : snode) : P s :=
    match s with
    | SLeaf k d => Hleaf k d
    | SCfgT t => Hcfgt t (snode_nested_ind t)
    | SSchema own fs =>
        Hsch own fs
          ((fix go (fs : list (str * snode)) : Forall (fun kv => P (snd kv)) fs :=
              match fs with
              | [] => Forall_nil _
              | kv :: r => Forall_cons kv (snode_nested_ind (snd kv)) (go r)
              end) fs)
    end.
End SnodeInd.

(* well-formed schema tree: what every tree built through Schema.__setattr__/_add_field satisfies
   (dict keys are unique; __setkey__ makes a nested schema's own key equal to the key it is registered
   under) plus the property's "identifier keys" *)
Inductive wf : snode -> Prop :=
| wf_leaf k d : wf (SLeaf k d)
| wf_cfgt t : wf (SCfgT t)
| wf_schema own fs :
    NoDup (map fst fs) ->
    Forall (fun kv => ident (fst kv) /\ (forall k' fs', snd kv = SSchema k' fs' -> k' = fst kv) /\ wf (snd kv)) fs ->
    wf (SSchema own fs).

Lemma gaf_unfold chain k fs : gaf chain (SSchema k fs) = gaf_list chain k fs.
Proof.
  simpl. induction fs as [|[key f] r IH]; simpl; [reflexivity|]. rewrite IH. reflexivity.
Qed.

Lemma gaf_list_in : forall chain own fs p f,
  In (p, f) (gaf_list chain own fs) ->
  exists key f0, In (key, f0) fs /\
    ((p = prefix_of own ++ key /\ f = mkfld (chain ++ [own]) key f0) \/
     (exists own' fs' p', f0 = SSchema own' fs' /\ In (p', f) (gaf (chain ++ [own]) f0) /\ p = prefix_of own ++ p')).
Proof.
  induction fs as [|[key f0] r IH]; intros p f Hin; simpl in Hin; [contradiction|].
  destruct Hin as [E|Hin].
  - inversion E; subst. exists key, f0. split; [left; reflexivity|]. left. auto.
  - apply in_app_or in Hin. destruct Hin as [Hin|Hin].
    + apply in_map_iff in Hin. destruct Hin as [[p' f'] [E Hin]]. simpl in E. inversion E; subst.
      exists key, f0. split; [left; reflexivity|]. right.
      destruct f0 as [| |own' fs']; try contradiction.
      exists own', fs', p'. auto.
    + destruct (IH p f Hin) as [key' [f0' [Hin' H]]]. exists key', f0'. split; [right; exact Hin'|exact H].
Qed.

(* (A) every enumerated (path, field) is: own-key prefix + dotted key list, and the key list walks to the field *)
Lemma gaf_resolves : forall s, wf s -> forall chain p f,
  In (p, f) (gaf chain s) ->
  exists k rest, Forall ident (k :: rest) /\
    p = prefix_of (own_key_of s) ++ dotted (k :: rest) /\
    sgetitem chain s k rest = LField f.
Proof.
  induction s as [k d|t IH|own fs IH] using snode_nested_ind; intros Hwf chain p f Hin; simpl in Hin; try contradiction.
  change (In (p, f) (gaf chain (SSchema own fs))) in Hin.
  rewrite gaf_unfold in Hin.
  inversion Hwf as [| |? ? Hnd Hall]; subst.
  destruct (gaf_list_in _ _ _ _ _ Hin) as [key [f0 [Hin0 H]]].
  rewrite Forall_forall in Hall. destruct (Hall _ Hin0) as [Hid [Hown Hwf0]]. simpl in Hid, Hown, Hwf0.
  assert (Hassoc : assoc str_eqb key fs = Some f0) by (apply assoc_in_nodup; assumption).
  destruct H as [[Hp Hf]|[own' [fs' [p' [Hf0 [Hin' Hp]]]]]].
  - exists key, []. split; [constructor; [exact Hid|constructor]|]. split; [exact Hp|].
    simpl. rewrite Hassoc. subst f. reflexivity.
  - rewrite Forall_forall in IH. specialize (IH _ Hin0). simpl in IH.
    destruct (IH Hwf0 _ _ _ Hin') as [k' [rest' [Hids [Hp' Hget]]]].
    assert (own' = key) by (apply (Hown own' fs'); exact Hf0). subst own'.
    exists key, (k' :: rest'). split; [constructor; assumption|]. split.
    + subst p p' f0. simpl own_key_of. rewrite (prefix_of_ident key Hid).
      rewrite dotted_cons2. rewrite <- !app_assoc. reflexivity.
    + simpl. rewrite Hassoc. subst f0. exact Hget.
Qed.

(* (D) the reference path of the field a walk arrives at *)
Lemma filter_nonempty_app a b : filter nonempty (a ++ b) = filter nonempty a ++ filter nonempty b.
Proof. apply filter_app. Qed.

Lemma sgetitem_ref : forall rest s, wf s -> forall chain k f,
  sgetitem chain s k rest = LField f ->
  filter nonempty (f_chain f) ++ [self_key f] = filter nonempty (chain ++ [own_key_of s]) ++ (k :: rest).
Proof.
  induction rest as [|k' r IH]; intros s Hwf chain k f H.
  - destruct s as [| |own fs]; simpl in H; try discriminate.
    destruct (assoc str_eqb k fs) as [f0|] eqn:E; [|discriminate].
    inversion H; subst f. simpl. f_equal. f_equal. unfold self_key. simpl.
    inversion Hwf as [| |? ? Hnd Hall]; subst. rewrite Forall_forall in Hall.
    destruct (Hall _ (assoc_some_in _ _ _ E)) as [_ [Hown _]]. simpl in Hown.
    destruct f0; auto. eapply Hown. reflexivity.
  - destruct s as [| |own fs]; simpl in H; try discriminate.
    destruct (assoc str_eqb k fs) as [f0|] eqn:E; [|discriminate].
    inversion Hwf as [| |? ? Hnd Hall]; subst. rewrite Forall_forall in Hall.
    destruct (Hall _ (assoc_some_in _ _ _ E)) as [Hid [Hown Hwf0]]. simpl in Hid, Hown, Hwf0.
    destruct f0 as [| |own' fs']; try discriminate.
    assert (own' = k) by (eapply Hown; reflexivity). subst own'.
    rewrite (IH _ Hwf0 _ _ _ H). simpl own_key_of.
    rewrite !filter_nonempty_app. simpl. rewrite (ident_nonempty k Hid).
    rewrite <- !app_assoc. reflexivity.
Qed.

(* ---------------------------------------------------------------------------------------- *)
(* configurations                                                                              *)
(* ---------------------------------------------------------------------------------------- *)
Definition persistent_kind (k : leafkind) : bool :=
  match k with KVirtual _ _ => false | KMethod => false | _ => true end.

(* a configuration of schema s in any state reachable by assignments: every value-holding field has its
   entry in _data (a plain value for a leaf, a configuration of the sub-schema for a nested schema, some
   configuration for a config type) *)
Inductive conforms : snode -> cval -> Prop :=
| conforms_schema own fs data dfl :
    (forall key k d, In (key, SLeaf k d) fs -> persistent_kind k = true ->
                     exists v, assoc str_eqb key data = Some (VLeaf v)) ->
    (forall key t, In (key, SCfgT t) fs -> exists t' d f, assoc str_eqb key data = Some (VCfg t' d f)) ->
    (forall key own' fs', In (key, SSchema own' fs') fs ->
                          exists d f, assoc str_eqb key data = Some (VCfg (SSchema own' fs') d f) /\
                                      conforms (SSchema own' fs') (VCfg (SSchema own' fs') d f)) ->
    conforms (SSchema own fs) (VCfg (SSchema own fs) data dfl).

(* (E) on a conforming configuration every enumerated path of a value-holding field is a member, and item
   access = chained attribute access *)
Lemma names_agree_config : forall rest s c chain k f,
  conforms s c -> sgetitem chain s k rest = LField f -> known_F27 f = false ->
  mem_k c k rest = true /\ getitem_k c k rest = getattr_chain c k rest /\ exists v, getitem_k c k rest = Ok v.
Proof.
  induction rest as [|k' r IH]; intros s c chain k f Hc H Hp.
  - inversion Hc as [own fs data dfl Hl Ht Hs]; subst. simpl in H.
    destruct (assoc str_eqb k fs) as [f0|] eqn:E; [|discriminate].
    inversion H; subst f. unfold known_F27 in Hp. simpl in Hp.
    pose proof (assoc_some_in _ _ _ E) as Hin.
    simpl. unfold assoc_mem. unfold get_value, getattr1, get_value, field_of. simpl. rewrite E.
    destruct f0 as [kind d| t | own' fs'].
    + destruct (Hl k kind d Hin) as [v Hv]; [destruct kind; simpl in *; congruence|].
      rewrite Hv. destruct kind; simpl in Hp; try discriminate; (split; [reflexivity|split; [reflexivity|eexists; reflexivity]]).
    + destruct (Ht k t Hin) as [t' [d [f Hv]]]. rewrite Hv.
      split; [reflexivity|split; [reflexivity|eexists; reflexivity]].
    + destruct (Hs k own' fs' Hin) as [d [f [Hv _]]]. rewrite Hv.
      split; [reflexivity|split; [reflexivity|eexists; reflexivity]].
  - inversion Hc as [own fs data dfl Hl Ht Hs]; subst. simpl in H.
    destruct (assoc str_eqb k fs) as [f0|] eqn:E; [|discriminate].
    destruct f0 as [| |own' fs']; try discriminate.
    pose proof (assoc_some_in _ _ _ E) as Hin.
    destruct (Hs k own' fs' Hin) as [d [fl [Hv Hc']]].
    destruct (IH _ _ _ _ _ Hc' H Hp) as [Hm [Hg Hex]].
    split; [|split].
    + simpl. rewrite Hv. exact Hm.
    + cbn [getitem_k getattr_chain]. unfold getattr1, get_value, field_of. simpl fields_of. rewrite E. rewrite Hv. exact Hg.
    + cbn [getitem_k]. unfold get_value, field_of. simpl fields_of. rewrite E. rewrite Hv. exact Hex.
Qed.

(* item assignment = chained attribute assignment, for every field kind and every value *)
Lemma setitem_setattr : forall fos rest s c chain k f x,
  conforms s c -> sgetitem chain s k rest = LField f ->
  setitem_k fos c k rest x = setattr_chain fos c k rest x.
Proof.
  induction rest as [|k' r IH]; intros s c chain k f x Hc H; [reflexivity|].
  inversion Hc as [own fs data dfl Hl Ht Hs]; subst. simpl in H.
  destruct (assoc str_eqb k fs) as [f0|] eqn:E; [|discriminate].
  destruct f0 as [| |own' fs']; try discriminate.
  pose proof (assoc_some_in _ _ _ E) as Hin.
  destruct (Hs k own' fs' Hin) as [d [fl [Hv Hc']]].
  cbn [setitem_k setattr_chain]. unfold getattr1, get_value, field_of. simpl fields_of. rewrite E. rewrite Hv.
  rewrite (IH _ _ _ _ _ x Hc' H). reflexivity.
Qed.

(* ---------------------------------------------------------------------------------------- *)
(* enum_lookup                                                                                 *)
(* ---------------------------------------------------------------------------------------- *)
Theorem enum_lookup_partial : forall s, wf s -> known_F40 s = false ->
  forall p f, In (p, f) (get_all_fields s) ->
    lookup s p = LField f /\
    ref_path f = p /\
    (forall c, conforms s c -> known_F27 f = false ->
               mem c p = true /\ getitem c p = getattr_path c p /\ exists v, getitem c p = Ok v) /\
    (forall fos c x, conforms s c -> setitem fos c p x = setattr_path fos c p x).
Proof.
  intros s Hwf H40 p f Hin. unfold get_all_fields in Hin.
  destruct (gaf_resolves s Hwf [] p f Hin) as [k [rest [Hids [Hp Hget]]]].
  assert (Hown : own_key_of s = []).
  { unfold known_F40 in H40. destruct (own_key_of s); simpl in H40; congruence. }
  rewrite Hown in Hp. simpl in Hp.
  assert (Hpk : path_keys p = k :: rest) by (subst p; apply path_keys_dotted; [congruence|exact Hids]).
  split; [|split; [|split]].
  - unfold lookup, lookup_in. rewrite Hpk. exact Hget.
  - unfold ref_path. rewrite (sgetitem_ref _ _ Hwf _ _ _ Hget). rewrite Hown. simpl. symmetry. exact Hp.
  - intros c Hc H27. unfold mem, getitem, getattr_path, on_path. rewrite Hpk.
    eapply names_agree_config; eassumption.
  - intros fos c x Hc. unfold setitem, setattr_path, on_path. rewrite Hpk.
    eapply setitem_setattr; eassumption.
Qed.

(* the full statement (no exclusion) — false of the model, see the two refutations below *)
Definition enum_lookup_full : Prop :=
  forall s, wf s ->
  forall p f, In (p, f) (get_all_fields s) ->
    lookup s p = LField f /\ ref_path f = p /\
    (forall c, conforms s c -> mem c p = true /\ getitem c p = getattr_path c p).

Lemma nodot_dec k : forallb (fun c => negb (N.eqb c DOT)) k = true -> ~ In DOT k.
Proof.
  intros Hk Hin. rewrite forallb_forall in Hk. specialize (Hk _ Hin). rewrite N.eqb_refl in Hk. discriminate.
Qed.
Ltac solve_wf :=
  repeat first
    [ apply wf_leaf | apply wf_cfgt | apply wf_schema
    | apply Forall_nil | apply Forall_cons
    | apply NoDup_nil | apply NoDup_cons
    | split ]; simpl;
    try (let Hin := fresh "Hin" in intros Hin; repeat destruct Hin as [Hin|Hin]; try discriminate; contradiction);
    try discriminate;
    try (apply nodot_dec; reflexivity);
    try (let Heq := fresh "Heq" in intros ? ? Heq; inversion Heq; reflexivity).

(* F40: Schema(key="root") with one integer field *)
Definition ex_F40 : snode := SSchema (sa "root") [(sa "x", SLeaf (KInt None None) (PInt 1))].
Lemma ex_F40_wf : wf ex_F40.
Proof. unfold ex_F40. solve_wf. Qed.
Lemma ex_F40_conforms : conforms ex_F40 (build ex_F40).
Proof.
  unfold ex_F40. simpl. constructor.
  - intros key k d [E|[]] _. inversion E; subst. eexists. reflexivity.
  - intros key t [E|[]]. inversion E.
  - intros key own' fs' [E|[]]. inversion E.
Qed.

Theorem enum_lookup_refuted_F40 :
  exists s p f, wf s /\ In (p, f) (get_all_fields s) /\ known_F40 s = true /\
    lookup s p = LCreated /\ mem (build s) p = false /\ getitem (build s) p = Err EAttribute.
Proof.
  exists ex_F40, (sa "root.x"), (mkfld [sa "root"] (sa "x") (SLeaf (KInt None None) (PInt 1))).
  split; [exact ex_F40_wf|]. split; [left; reflexivity|]. repeat split; vm_compute; reflexivity.
Qed.

(* F40, second shape: a sub-schema at depth 2 handed in directly: the reported path is neither
   resolvable on that schema nor the reference path *)
Theorem enum_lookup_refuted_F40_sub :
  exists chain s p f, wf s /\ In (p, f) (gaf chain s) /\ known_F40 s = true /\
    lookup_in chain s p = LCreated /\ ref_path f <> p.
Proof.
  exists [[]; sa "sub"], (SSchema (sa "deep") [(sa "f", SLeaf (KFloat None None) PNone)]), (sa "deep.f"),
         (mkfld [[]; sa "sub"; sa "deep"] (sa "f") (SLeaf (KFloat None None) PNone)).
  split; [solve_wf|].
  split; [left; reflexivity|]. repeat split; try (vm_compute; reflexivity).
  vm_compute. discriminate.
Qed.

(* F27: a virtual field and an instance method on an un-keyed root *)
Definition ex_F27 : snode :=
  SSchema [] [(sa "v", SLeaf (KVirtual (PInt 42) false) PNone); (sa "m", SLeaf KMethod PNone)].
Lemma ex_F27_wf : wf ex_F27.
Proof. unfold ex_F27. solve_wf. Qed.
Lemma ex_F27_conforms : conforms ex_F27 (build ex_F27).
Proof.
  unfold ex_F27. simpl. constructor.
  - intros key k d [E|[E|[]]] Hp; inversion E; subst; discriminate.
  - intros key t [E|[E|[]]]; inversion E.
  - intros key own' fs' [E|[E|[]]]; inversion E.
Qed.

Theorem enum_lookup_refuted_F27 :
  exists s c p f p' f', wf s /\ known_F40 s = false /\ conforms s c /\
    In (p, f) (get_all_fields s) /\ known_F27 f = true /\ mem c p = false /\
    In (p', f') (get_all_fields s) /\ known_F27 f' = true /\ mem c p' = false /\
    getitem c p' = Err EKey /\ getattr_path c p' = Ok (VLeaf BOUND_METHOD).
Proof.
  exists ex_F27, (build ex_F27), (sa "v"), (mkfld [[]] (sa "v") (SLeaf (KVirtual (PInt 42) false) PNone)),
         (sa "m"), (mkfld [[]] (sa "m") (SLeaf KMethod PNone)).
  split; [exact ex_F27_wf|]. split; [reflexivity|]. split; [exact ex_F27_conforms|].
  split; [left; reflexivity|]. split; [reflexivity|]. split; [vm_compute; reflexivity|].
  split; [right; left; reflexivity|]. repeat split; vm_compute; reflexivity.
Qed.

Theorem enum_lookup_full_refuted : ~ enum_lookup_full.
Proof.
  intros H. destruct (H ex_F40 ex_F40_wf (sa "root.x") (mkfld [sa "root"] (sa "x") (SLeaf (KInt None None) (PInt 1))))
    as [Hl _]; [left; reflexivity|]. vm_compute in Hl. discriminate.
Qed.

(* the hypotheses of enum_lookup_partial are satisfiable (a three-level schema with every node class) *)
Definition ex_ok : snode :=
  SSchema [] [(sa "a_b", SLeaf (KInt (Some 0%Z) (Some 99%Z)) (PInt 3));
              (sa "sub", SSchema (sa "sub") [(sa "x", SLeaf (KStr so_plain) PNone);
                                             (sa "deep", SSchema (sa "deep") [(sa "f", SLeaf KBool (PBool true))])]);
              (sa "ct", SCfgT (SSchema [] [(sa "n", SLeaf (KInt None None) (PInt 1))]))].
Example ex_ok_wf : wf ex_ok.
Proof. unfold ex_ok. solve_wf. Qed.
Example ex_ok_F40 : known_F40 ex_ok = false.
Proof. reflexivity. Qed.
Example ex_ok_enum : map fst (get_all_fields ex_ok) =
  [sa "a_b"; sa "sub"; sa "sub.x"; sa "sub.deep"; sa "sub.deep.f"; sa "ct"].
Proof. vm_compute. reflexivity. Qed.

(* ---------------------------------------------------------------------------------------- *)
(* parser_options                                                                              *)
(* ---------------------------------------------------------------------------------------- *)
Inductive optclass := OScalar | OBool | ONone.
Definition opt_class (n : snode) : optclass :=
  match n with
  | SLeaf (KStr _) _ | SLeaf (KInt _ _) _ | SLeaf (KFloat _ _) _ => OScalar
  | SLeaf KBool _ => OBool
  | _ => ONone
  end.

(* the option strings a field claims (the property's naming rule) *)
Definition names_of (p : str) (n : snode) : list str :=
  match opt_class n with
  | OScalar => [opt_name p]
  | OBool => [opt_name p; no_name p]
  | ONone => []
  end.

Definition dest_is (p : str) (o : opt) : bool := str_eqb (o_dest o) p.

Lemma opts_of_class p n :
  opts_of p n = match opt_class n with
                | OScalar => [mkopt (opt_name p) p AStore PNone]
                | OBool => [mkopt (opt_name p) p AStoreTrue PNone; mkopt (no_name p) p AStoreFalse PNone]
                | ONone => []
                end.
Proof. destruct n as [k d| |]; try reflexivity. destruct k; reflexivity. Qed.

Lemma opts_of_dest p n o : In o (opts_of p n) -> o_dest o = p /\ o_default o = PNone.
Proof.
  rewrite opts_of_class. destruct (opt_class n); simpl; intros H;
    repeat destruct H as [H|H]; try contradiction; subst; auto.
Qed.

Lemma filter_dest_same p n : filter (dest_is p) (opts_of p n) = opts_of p n.
Proof.
  rewrite opts_of_class. unfold dest_is. destruct (opt_class n); simpl; rewrite ?seqb_refl; reflexivity.
Qed.
Lemma filter_dest_other p q n : q <> p -> filter (dest_is p) (opts_of q n) = [].
Proof.
  intros Hne. rewrite opts_of_class. unfold dest_is. apply seqb_neq in Hne.
  destruct (opt_class n); simpl; rewrite ?Hne; reflexivity.
Qed.

Lemma table_in : forall l o, In o (option_table_of l) ->
  exists p f, In (p, f) l /\ In o (opts_of p (f_node f)).
Proof.
  induction l as [|[p f] r IH]; intros o H; simpl in H; [contradiction|].
  apply in_app_or in H. destruct H as [H|H].
  - exists p, f. split; [left; reflexivity|exact H].
  - destruct (IH o H) as [p' [f' [H1 H2]]]. exists p', f'. split; [right; exact H1|exact H2].
Qed.

Lemma table_filter_notin : forall l p, ~ In p (map fst l) -> filter (dest_is p) (option_table_of l) = [].
Proof.
  induction l as [|[q f] r IH]; intros p Hni; simpl; [reflexivity|].
  rewrite filter_app. rewrite filter_dest_other by (intros E; apply Hni; left; simpl; auto).
  simpl. apply IH. intros H; apply Hni; right; exact H.
Qed.

Lemma table_filter : forall l p f, NoDup (map fst l) -> In (p, f) l ->
  filter (dest_is p) (option_table_of l) = opts_of p (f_node f).
Proof.
  induction l as [|[q g] r IH]; intros p f Hnd Hin; simpl in *; [contradiction|].
  inversion Hnd as [|? ? Hni Hnd']; subst. rewrite filter_app.
  destruct Hin as [E|Hin].
  - inversion E; subst. rewrite filter_dest_same. rewrite table_filter_notin by exact Hni. apply app_nil_r.
  - assert (q <> p).
    { intros E; subst. apply Hni. apply in_map_iff. exists (p, f). auto. }
    rewrite filter_dest_other by assumption. simpl. apply IH; assumption.
Qed.

Lemma table_strings : forall l,
  map o_string (option_table_of l) = flat_map (fun pf => names_of (fst pf) (f_node (snd pf))) l.
Proof.
  induction l as [|[p f] r IH]; simpl; [reflexivity|].
  rewrite map_app. rewrite IH. f_equal. unfold names_of. rewrite opts_of_class.
  destruct (opt_class (f_node f)); reflexivity.
Qed.

(* the generated parser, for every schema (the enumeration may be that of a keyed schema too) *)
Theorem parser_options_lemma : forall chain s,
  let en := gaf chain s in
  let tbl := option_table_in chain s in
  (* every option belongs to an enumerated scalar/bool field, has that field's path as destination,
     and defaults to None *)
  (forall o, In o tbl -> exists p f, In (p, f) en /\ In o (opts_of p (f_node f)) /\ o_dest o = p /\ o_default o = PNone) /\
  (* paths do not collide => per destination: exactly one store option / exactly the two switches / nothing *)
  (NoDup (map (fun pf => opt_name (fst pf)) en) ->
   forall p f, In (p, f) en ->
     filter (dest_is p) tbl =
       match opt_class (f_node f) with
       | OScalar => [mkopt (opt_name p) p AStore PNone]
       | OBool => [mkopt (opt_name p) p AStoreTrue PNone; mkopt (no_name p) p AStoreFalse PNone]
       | ONone => []
       end) /\
  (* claimed option strings do not collide => no duplicate option strings *)
  (NoDup (flat_map (fun pf => names_of (fst pf) (f_node (snd pf))) en) -> NoDup (map o_string tbl)).
Proof.
  intros chain s en tbl. unfold tbl, option_table_in. fold en. split; [|split].
  - intros o Ho. destruct (table_in _ _ Ho) as [p [f [H1 H2]]]. exists p, f.
    destruct (opts_of_dest _ _ _ H2). auto.
  - intros Hnd p f Hin. rewrite <- opts_of_class. apply table_filter; [|exact Hin].
    assert (Hm : map (fun pf : str * fld => opt_name (fst pf)) en = map opt_name (map fst en)) by (rewrite map_map; reflexivity).
    rewrite Hm in Hnd. eapply NoDup_map_inv. exact Hnd.
  - intros Hnd. rewrite table_strings. exact Hnd.
Qed.

Example parser_hyps_ok :
  NoDup (map (fun pf => opt_name (fst pf)) (gaf [] ex_ok)) /\
  NoDup (flat_map (fun pf => names_of (fst pf) (f_node (snd pf))) (gaf [] ex_ok)).
Proof.
  split; vm_compute;
    repeat (constructor; [simpl; intros Hin; repeat destruct Hin as [Hin|Hin]; try discriminate; contradiction|]);
    constructor.
Qed.

(* ---------------------------------------------------------------------------------------- *)
(* override_frame                                                                              *)
(* ---------------------------------------------------------------------------------------- *)
(* two key lists name comparable positions when one is a prefix of the other *)
Fixpoint comparable (a b : list str) : bool :=
  match a, b with
  | [], _ => true
  | _, [] => true
  | x :: a', y :: b' => str_eqb x y && comparable a' b'
  end.

Definition is_cfg (c : cval) : Prop := match c with VCfg _ _ _ => True | VLeaf _ => False end.

Lemma set_value_shape fos s d f k x : exists d' f', fst (set_value fos (VCfg s d f) k x) = VCfg s d' f'.
Proof.
  unfold set_value. destruct (field_of s k) as [n|]; [|eexists; eexists; reflexivity].
  destruct n as [kind dd| |].
  - destruct (validate fos kind x); try (eexists; eexists; reflexivity).
    destruct kind as [| | | | | |vv [|]|]; eexists; eexists; reflexivity.
  - destruct x; eexists; eexists; reflexivity.
  - destruct x; eexists; eexists; reflexivity.
Qed.

Lemma setitem_shape : forall fos rest s d f k x,
  exists d' f', fst (setitem_k fos (VCfg s d f) k rest x) = VCfg s d' f'.
Proof.
  intros fos rest. induction rest as [|k' r IH]; intros s d f k x.
  - apply set_value_shape.
  - cbn [setitem_k]. destruct (get_value (VCfg s d f) k) as [v|e|]; try (eexists; eexists; reflexivity).
    destruct v as [v|s' d' f']; [eexists; eexists; reflexivity|].
    destruct (setitem_k fos (VCfg s' d' f') k' r x) as [sub' o]. simpl. eexists; eexists; reflexivity.
Qed.

Lemma existsb_remove_other k q l : q <> k ->
  existsb (str_eqb q) (remove_key k l) = existsb (str_eqb q) l.
Proof.
  intros Hne. unfold remove_key. induction l as [|a r IH]; simpl; [reflexivity|].
  destruct (str_eqb k a) eqn:E; simpl.
  - apply seqb_eq in E; subst a. apply seqb_neq in Hne. rewrite Hne. simpl. exact IH.
  - rewrite IH. reflexivity.
Qed.
Lemma existsb_remove_same k l : existsb (str_eqb k) (remove_key k l) = false.
Proof.
  unfold remove_key. induction l as [|a r IH]; simpl; [reflexivity|].
  destruct (str_eqb k a) eqn:E; simpl; [exact IH|]. rewrite E. exact IH.
Qed.

(* what an observer sees at one position *)
Definition view (c : cval) (q : str) (qrest : list str) : res cval * res bool :=
  (getitem_k c q qrest, is_defined_k c q qrest).

Lemma get_value_set_other fos s d f k x q : q <> k ->
  get_value (fst (set_value fos (VCfg s d f) k x)) q = get_value (VCfg s d f) q.
Proof.
  intros Hne. unfold set_value. destruct (field_of s k) as [n|]; [|reflexivity].
  destruct n as [kind dd| |]; try (destruct x; reflexivity).
  destruct (validate fos kind x); try reflexivity.
  destruct kind as [| | | | | |vv [|]|]; try reflexivity; simpl; destruct (field_of s q) as [[[]| |]|];
    try reflexivity; rewrite assoc_set_other by exact Hne; reflexivity.
Qed.

Lemma view_eq_of_get_value c c' q qrest :
  get_value c' q = get_value c q ->
  (qrest = [] -> is_defined_k c' q [] = is_defined_k c q []) ->
  view c' q qrest = view c q qrest.
Proof.
  intros Hg Hd. unfold view. destruct qrest as [|q' qr].
  - rewrite (Hd eq_refl). cbn [getitem_k]. rewrite Hg. reflexivity.
  - cbn [getitem_k is_defined_k]. rewrite Hg. reflexivity.
Qed.

Lemma setitem_frame : forall fos rest c k x q qrest,
  comparable (k :: rest) (q :: qrest) = false ->
  view (fst (setitem_k fos c k rest x)) q qrest = view c q qrest.
Proof.
  intros fos rest. induction rest as [|k' r IH]; intros c k x q qrest Hcmp.
  - (* set_value *)
    simpl in Hcmp. rewrite andb_true_r in Hcmp. apply seqb_neq in Hcmp.
    assert (Hne : q <> k) by congruence.
    destruct c as [v|s d f]; [reflexivity|]. cbn [setitem_k].
    apply view_eq_of_get_value.
    + apply get_value_set_other. exact Hne.
    + intros _. unfold set_value. destruct (field_of s k) as [n|]; [|reflexivity].
      destruct n as [kind dd| |]; try (destruct x; reflexivity).
      destruct (validate fos kind x); try reflexivity.
      destruct kind as [| | | | | |vv [|]|]; try reflexivity; simpl;
        rewrite existsb_remove_other by exact Hne; reflexivity.
  - cbn [setitem_k].
    destruct (get_value c k) as [v|e|] eqn:Hgv; try reflexivity.
    destruct v as [v|s' d' f']; [reflexivity|].
    destruct (setitem_k fos (VCfg s' d' f') k' r x) as [sub' o] eqn:Hsub. cbn [fst].
    destruct c as [v|s d f]; [reflexivity|]. cbn [put].
    destruct (str_eqb k q) eqn:Ekq.
    + (* same first key: the observer looks below it *)
      apply seqb_eq in Ekq. subst q.
      simpl in Hcmp. rewrite seqb_refl in Hcmp. simpl in Hcmp.
      destruct qrest as [|q' qr]; [discriminate|].
      assert (Hnv : exists n, field_of s k = Some n /\ (forall vv b dd, n <> SLeaf (KVirtual vv b) dd) /\
                              assoc str_eqb k d = Some (VCfg s' d' f')).
      { unfold get_value in Hgv. destruct (field_of s k) as [n|]; [|discriminate].
        exists n. split; [reflexivity|].
        destruct n as [[]| |]; try (destruct (assoc str_eqb k d); inversion Hgv; subst; split; [intros; discriminate|reflexivity]).
        inversion Hgv. }
      destruct Hnv as [n [Hf [Hnv Ha]]].
      assert (Hg' : get_value (VCfg s (assoc_set str_eqb k sub' d) f) k = Ok sub').
      { unfold get_value. rewrite Hf. rewrite assoc_set_same.
        destruct n as [[]| |]; try reflexivity. exfalso. eapply Hnv. reflexivity. }
      pose proof (setitem_shape fos r s' d' f' k' x) as [d2 [f2 Hshape]]. rewrite Hsub in Hshape. simpl in Hshape. subst sub'.
      specialize (IH (VCfg s' d' f') k' x q' qr Hcmp). rewrite Hsub in IH. simpl in IH.
      unfold view in *. cbn [getitem_k is_defined_k]. rewrite Hg', Hgv.
      inversion IH as [[H1 H2]]. rewrite H1, H2. reflexivity.
    + apply seqb_neq in Ekq.
      apply view_eq_of_get_value.
      * unfold get_value. destruct (field_of s q) as [[[]| |]|]; try reflexivity;
          rewrite assoc_set_other by congruence; reflexivity.
      * intros _. reflexivity.
Qed.

(* the destinations an override visits *)
Definition visited (args : list (str * pyval)) (ignore : list str) : list str :=
  map fst (filter (fun kv => negb (skipped ignore (fst kv) (snd kv))) args).

Lemma override_frame_lemma : forall fos args ignore c q qrest,
  (forall key, In key (visited args ignore) -> comparable (path_keys key) (q :: qrest) = false) ->
  view (fst (override fos c args ignore)) q qrest = view c q qrest.
Proof.
  intros fos args ignore. induction args as [|[key v] r IH]; intros c q qrest Hinc; [reflexivity|].
  cbn [override]. unfold visited in Hinc. simpl in Hinc.
  destruct (skipped ignore key v) eqn:Esk; simpl in Hinc.
  - apply IH. exact Hinc.
  - assert (Hk : comparable (path_keys key) (q :: qrest) = false) by (apply Hinc; left; reflexivity).
    destruct (path_keys key) as [|k rest] eqn:Epk; [reflexivity|].
    pose proof (setitem_frame fos rest c k v q qrest Hk) as Hfr.
    destruct (setitem_k fos c k rest v) as [c' o]. simpl in Hfr.
    destruct o as [a|e|]; simpl; try exact Hfr.
    rewrite IH; [exact Hfr|]. intros key' Hin. apply Hinc. right. exact Hin.
Qed.

(* an assignment that returns shows the validated value at its own position and marks it user-defined
   (or, for a virtual field with a setter, changes nothing in the stored data) *)
Lemma setitem_get : forall fos rest c k x c' v,
  setitem_k fos c k rest x = (c', Ok v) ->
  (view c' k rest = (Ok (VLeaf v), Ok true)) \/ c' = c.
Proof.
  intros fos rest. induction rest as [|k' r IH]; intros c k x c' v H.
  - cbn [setitem_k] in H. destruct c as [vv|s d f]; [inversion H|]. unfold set_value in H.
    destruct (field_of s k) as [n|] eqn:Ef; [|inversion H].
    destruct n as [kind dd| |]; [|destruct x; inversion H|destruct x; inversion H].
    destruct (validate fos kind x) as [w| |]; try (inversion H; fail).
    destruct kind as [| | | | | |vv [|]|]; inversion H; subst; try (right; reflexivity); left;
      unfold view; cbn [getitem_k is_defined_k]; unfold get_value; rewrite Ef; rewrite assoc_set_same;
      rewrite existsb_remove_same; reflexivity.
  - cbn [setitem_k] in H.
    destruct (get_value c k) as [w|e|] eqn:Hgv; try (inversion H; fail).
    destruct w as [w|s' d' f']; [inversion H|].
    destruct (setitem_k fos (VCfg s' d' f') k' r x) as [sub' o] eqn:Hsub. inversion H; subst.
    destruct c as [w|s d f]; [discriminate|]. cbn [put].
    assert (Hnv : exists n, field_of s k = Some n /\ (forall vv b dd, n <> SLeaf (KVirtual vv b) dd) /\
                            assoc str_eqb k d = Some (VCfg s' d' f')).
    { unfold get_value in Hgv. destruct (field_of s k) as [n|]; [|discriminate].
      exists n. split; [reflexivity|].
      destruct n as [[]| |]; try (destruct (assoc str_eqb k d); inversion Hgv; subst; split; [intros; discriminate|reflexivity]).
      inversion Hgv. }
    destruct Hnv as [n [Hf [Hnv Ha]]].
    assert (Hg' : get_value (VCfg s (assoc_set str_eqb k sub' d) f) k = Ok sub').
    { unfold get_value. rewrite Hf. rewrite assoc_set_same.
      destruct n as [[]| |]; try reflexivity. exfalso. eapply Hnv. reflexivity. }
    pose proof (setitem_shape fos r s' d' f' k' x) as [d2 [f2 Hshape]]. rewrite Hsub in Hshape. simpl in Hshape. subst sub'.
    destruct (IH _ _ _ _ _ Hsub) as [Hv|Hsame].
    + left. unfold view in *. cbn [getitem_k is_defined_k]. rewrite Hg'. exact Hv.
    + right. inversion Hsame; subst. f_equal.
      clear - Ha. induction d as [|[a b] rr IHd]; simpl in *; [discriminate|].
      destruct (str_eqb k a) eqn:E; [inversion Ha; subst; reflexivity|]. f_equal. apply IHd. exact Ha.
Qed.

(* override_frame: what is not supplied (value None), what is ignored, and every position not comparable
   with a visited destination keeps its value and its default mark -- whether or not the override
   completes (a rejected value aborts it; earlier destinations stay assigned) *)
Theorem override_frame_thm : forall fos c args ignore q qrest,
  (forall key, In key (visited args ignore) -> comparable (path_keys key) (q :: qrest) = false) ->
  view (fst (override fos c args ignore)) q qrest = view c q qrest.
Proof. intros. apply override_frame_lemma. assumption. Qed.

(* the visited destinations are exactly the supplied ones that are not ignored *)
Lemma visited_spec : forall args ignore key,
  In key (visited args ignore) <->
  exists v, In (key, v) args /\ v <> PNone /\ ~ In key ignore.
Proof.
  intros args ignore key. unfold visited. rewrite in_map_iff. split.
  - intros [[k v] [E H]]. simpl in E. subst k. apply filter_In in H. destruct H as [Hin Hs]. simpl in Hs.
    exists v. split; [exact Hin|]. unfold skipped in Hs. apply negb_true_iff in Hs. apply orb_false_iff in Hs.
    destruct Hs as [Hi Hn]. split.
    + intros E. subst v. discriminate.
    + intros Hin'. unfold str_in in Hi. rewrite <- not_true_iff_false in Hi. apply Hi.
      apply existsb_exists. exists key. split; [exact Hin'|apply seqb_refl].
  - intros [v [Hin [Hv Hi]]]. exists (key, v). split; [reflexivity|]. apply filter_In. split; [exact Hin|].
    simpl. unfold skipped. apply negb_true_iff. apply orb_false_iff. split.
    + unfold str_in. rewrite <- not_true_iff_false. intros H. apply existsb_exists in H.
      destruct H as [x [Hx E]]. apply seqb_eq in E. subst x. contradiction.
    + destruct v; try reflexivity. congruence.
Qed.

(* when the override completes, each visited destination was assigned through setitem (validation
   included) and -- no other visited destination being comparable with it -- shows the validated value,
   marked as user-defined (a virtual field with a setter shows what it showed before) *)
Lemma override_applies : forall fos args ignore c c',
  override fos c args ignore = (c', Ok tt) ->
  NoDup (visited args ignore) ->
  (forall a b, In a (visited args ignore) -> In b (visited args ignore) -> a <> b ->
               comparable (path_keys a) (path_keys b) = false) ->
  forall key, In key (visited args ignore) ->
    exists k rest, path_keys key = k :: rest /\
      exists c1 c2 x v, In (key, x) args /\ setitem_k fos c1 k rest x = (c2, Ok v) /\
        (view c' k rest = (Ok (VLeaf v), Ok true) \/ view c' k rest = view c1 k rest).
Proof.
  intros fos args ignore. induction args as [|[key0 v0] r IH]; intros c c' Hov Hnd Hinc key Hin; [contradiction|].
  cbn [override] in Hov. unfold visited in Hin, Hnd, Hinc. simpl in Hin, Hnd, Hinc.
  destruct (skipped ignore key0 v0) eqn:Esk; simpl in Hin, Hnd, Hinc.
  - destruct (IH c c' Hov Hnd Hinc key Hin) as [k [rest [Hpk [c1 [c2 [x [v [Hx H]]]]]]]].
    exists k, rest. split; [exact Hpk|]. exists c1, c2, x, v. split; [right; exact Hx|exact H].
  - destruct (path_keys key0) as [|k0 rest0] eqn:Epk; [inversion Hov|].
    destruct (setitem_k fos c k0 rest0 v0) as [c1 o] eqn:Hset.
    destruct o as [a|e|]; try (inversion Hov; fail).
    inversion Hnd as [|? ? Hni Hnd']; subst.
    destruct Hin as [E|Hin].
    + subst key0. exists k0, rest0. split; [exact Epk|]. exists c, c1, v0, a.
      split; [left; reflexivity|]. split; [exact Hset|].
      assert (Hfr : view c' k0 rest0 = view c1 k0 rest0).
      { replace c' with (fst (override fos c1 r ignore)) by (rewrite Hov; reflexivity).
        apply override_frame_lemma. intros key' Hin'.
        assert (Hne : key' <> key) by (intros E; subst; apply Hni; exact Hin').
        specialize (Hinc key' key (or_intror Hin') (or_introl eq_refl) Hne). rewrite Epk in Hinc. exact Hinc. }
      destruct (setitem_get _ _ _ _ _ _ _ Hset) as [Hv|Hsame].
      * left. rewrite Hfr. exact Hv.
      * right. rewrite Hfr. subst c1. reflexivity.
    + assert (Hinc' : forall a b, In a (visited r ignore) -> In b (visited r ignore) -> a <> b ->
                                   comparable (path_keys a) (path_keys b) = false).
      { intros a' b' Ha Hb Hne. apply Hinc; [right; exact Ha|right; exact Hb|exact Hne]. }
      destruct (IH c1 c' Hov Hnd' Hinc' key Hin) as [k [rest [Hpk [c2 [c3 [x [v [Hx H]]]]]]]].
      exists k, rest. split; [exact Hpk|]. exists c2, c3, x, v. split; [right; exact Hx|exact H].
Qed.

Example override_hyps_ok :
  let args := [(sa "a_b", PStr (sa "7")); (sa "sub.x", PNone); (sa "sub.deep.f", PBool false)] in
  visited args [sa "a_b"] = [sa "sub.deep.f"] /\
  comparable (path_keys (sa "sub.deep.f")) (path_keys (sa "a_b")) = false /\
  fst (override (fun _ => None) (build ex_ok) args [sa "a_b"]) <> build ex_ok.
Proof. repeat split; try (vm_compute; reflexivity). vm_compute. discriminate. Qed.

(* visited = supplied minus ignored *)
Lemma visited_supplied : forall args ignore,
  visited args ignore = filter (fun k => negb (str_in k ignore)) (supplied args).
Proof.
  intros args ignore. unfold visited, supplied. induction args as [|[k v] r IH]; simpl; [reflexivity|].
  unfold skipped at 1. simpl. destruct (is_none v); simpl.
  - rewrite orb_true_r. simpl. exact IH.
  - rewrite orb_false_r. destruct (str_in k ignore); simpl; [exact IH|]. f_equal. exact IH.
Qed.

(* the empty command line (F3, repaired): every default of the generated parser is None, so nothing is
   visited and the configuration is returned untouched *)
Lemma override_all_none : forall fos args ignore c,
  (forall kv, In kv args -> snd kv = PNone) -> override fos c args ignore = (c, Ok tt).
Proof.
  intros fos args ignore. induction args as [|[k v] r IH]; intros c H; [reflexivity|].
  cbn [override]. assert (v = PNone) by (apply (H (k, v)); left; reflexivity). subst v.
  unfold skipped. simpl. rewrite orb_true_r. apply IH. intros kv Hin. apply H. right. exact Hin.
Qed.

Lemma init_ns_none : forall tbl, (forall o, In o tbl -> o_default o = PNone) ->
  forall kv, In kv (init_ns tbl) -> snd kv = PNone.
Proof.
  induction tbl as [|o r IH]; intros H kv Hin; simpl in Hin; [contradiction|].
  destruct Hin as [E|Hin].
  - subst kv. simpl. apply H. left. reflexivity.
  - apply filter_In in Hin. destruct Hin as [Hin _]. apply IH; [|exact Hin].
    intros o' Ho'. apply H. right. exact Ho'.
Qed.

Theorem empty_cmdline_lemma : forall fos chain s c ignore,
  exists ns, parse (option_table_in chain s) [] = Ok ns /\ supplied ns = [] /\
             override fos c ns ignore = (c, Ok tt).
Proof.
  intros fos chain s c ignore. exists (init_ns (option_table_in chain s)).
  assert (Hn : forall kv, In kv (init_ns (option_table_in chain s)) -> snd kv = PNone).
  { apply init_ns_none. intros o Ho. unfold option_table_in in Ho.
    destruct (table_in _ _ Ho) as [p [f [_ H2]]]. apply (opts_of_dest _ _ _ H2). }
  split; [reflexivity|]. split.
  - unfold supplied. induction (init_ns (option_table_in chain s)) as [|kv r IH]; [reflexivity|].
    simpl. rewrite (Hn kv (or_introl eq_refl)). simpl. apply IH. intros kv' H'. apply Hn. right. exact H'.
  - apply override_all_none. exact Hn.
Qed.

(* a parsed switch / option is a supplied destination with the value the user gave (single-option lines) *)
Example parse_example :
  parse (option_table ex_ok) [sa "--a-b"; sa "7"; sa "--no-sub-deep-f"] =
    Ok [(sa "a_b", PStr (sa "7")); (sa "sub.x", PNone); (sa "sub.deep.f", PBool false)].
Proof. vm_compute. reflexivity. Qed.
