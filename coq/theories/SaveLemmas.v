(* SaveLemmas.v — proofs about Save.v (property C19). *)
From Coq Require Import ZArith NArith String List Bool Lia.
From Cinco Require Import Base Str Save.
Import ListNotations.
Open Scope Z_scope.

(* ---- strings and association lists ---- *)
Lemma sv_list_eqb_eq : forall a b : list N, list_eqb N.eqb a b = true <-> a = b.
Proof.
  induction a as [|x a IH]; destruct b as [|y b]; cbn; split; intro H; try congruence; try discriminate.
  - apply andb_true_iff in H. destruct H as [H1 H2]. apply N.eqb_eq in H1. apply IH in H2. congruence.
  - inversion H; subst. rewrite N.eqb_refl. cbn. apply IH. reflexivity.
Qed.
Lemma sv_str_eqb_eq a b : str_eqb a b = true <-> a = b.
Proof. apply sv_list_eqb_eq. Qed.
Lemma sv_str_eqb_refl a : str_eqb a a = true.
Proof. apply sv_str_eqb_eq. reflexivity. Qed.
Lemma sv_str_eqb_neq a b : str_eqb a b = false <-> a <> b.
Proof.
  split; intro H.
  - intro E. apply sv_str_eqb_eq in E. congruence.
  - destruct (str_eqb a b) eqn:E; [apply sv_str_eqb_eq in E; contradiction | reflexivity].
Qed.

Lemma assoc_set_same (p : path) (b : bytes) l : assoc str_eqb p (assoc_set str_eqb p b l) = Some b.
Proof.
  induction l as [|[k v] l IH]; cbn.
  - rewrite sv_str_eqb_refl. reflexivity.
  - destruct (str_eqb p k) eqn:E; cbn; rewrite E; [reflexivity | exact IH].
Qed.
Lemma assoc_set_other (p q : path) (b : bytes) l : q <> p ->
  assoc str_eqb q (assoc_set str_eqb p b l) = assoc str_eqb q l.
Proof.
  intro Hn. induction l as [|[k v] l IH]; cbn.
  - apply sv_str_eqb_neq in Hn. rewrite Hn. reflexivity.
  - destruct (str_eqb p k) eqn:E; cbn.
    + apply sv_str_eqb_eq in E. subst k. apply sv_str_eqb_neq in Hn. rewrite Hn. reflexivity.
    + destruct (str_eqb q k); [reflexivity | exact IH].
Qed.

(* ---- the two primitive writes ---- *)
Lemma lookup_write_same w p b : lookup (write_fd w p b) p = Some b.
Proof. apply assoc_set_same. Qed.
Lemma lookup_write_other w p q b : q <> p -> lookup (write_fd w p b) q = lookup w q.
Proof. apply assoc_set_other. Qed.

Lemma open_wb_err w p w' e : open_wb w p = (w', Err e) -> w' = w /\ e = EOS.
Proof. unfold open_wb. destruct (mem_path p (sv_nowrite w)); intro H; inversion H; auto. Qed.
Lemma open_wb_not_unmodelled w p w' : open_wb w p <> (w', Unmodelled).
Proof. unfold open_wb. destruct (mem_path p (sv_nowrite w)); intro H; inversion H. Qed.
Lemma open_wb_ok w p w' u : open_wb w p = (w', Ok u) ->
  mem_path p (sv_nowrite w) = false /\
  lookup w' p = Some [] /\ (forall q, q <> p -> lookup w' q = lookup w q) /\
  sv_log w' = sv_log w ++ [p] /\ sv_nowrite w' = sv_nowrite w /\ sv_rng w' = sv_rng w.
Proof.
  unfold open_wb. destruct (mem_path p (sv_nowrite w)); intro H; inversion H; subst; clear H.
  split; [reflexivity|]. split; [apply assoc_set_same|]. split; [intros q Hq; apply assoc_set_other; exact Hq|].
  cbn. auto.
Qed.

(* ---- frames: what a piece of the pipeline may do to the file system ----
   K = the paths it may create.  (1) no existing file changes, (2) nothing outside K changes at all,
   (3) every open-for-writing is of a path in K, (4) writability is not affected. *)
Definition frame (K : path -> Prop) (w w' : world) : Prop :=
  (forall q b, lookup w q = Some b -> lookup w' q = Some b) /\
  (forall q, ~ K q -> lookup w' q = lookup w q) /\
  (exists l, sv_log w' = sv_log w ++ l /\ Forall K l) /\
  sv_nowrite w' = sv_nowrite w.

Lemma frame_refl K w : frame K w w.
Proof.
  split; [auto|]. split; [auto|]. split; [|reflexivity]. exists []. rewrite app_nil_r. auto.
Qed.
Lemma frame_trans K w1 w2 w3 : frame K w1 w2 -> frame K w2 w3 -> frame K w1 w3.
Proof.
  intros (A1 & B1 & (l1 & C1 & D1) & E1) (A2 & B2 & (l2 & C2 & D2) & E2).
  split; [|split; [|split]].
  - intros q b H. apply A2, A1, H.
  - intros q H. rewrite B2, B1; auto.
  - exists (l1 ++ l2). rewrite C2, C1, app_assoc. split; [reflexivity | apply Forall_app; auto].
  - congruence.
Qed.
Lemma frame_weaken (K K' : path -> Prop) w w' : (forall p, K p -> K' p) -> frame K w w' -> frame K' w w'.
Proof.
  intros HK (A & B & (l & C & D) & E). split; [exact A|]. split; [|split; [|exact E]].
  - intros q H. apply B. intro Hq. apply H. apply HK, Hq.
  - exists l. split; [exact C|]. eapply Forall_impl; [|exact D]. exact HK.
Qed.

Lemma frame_with_rng K w r : frame K w (with_rng w r).
Proof.
  split; [intros q b H; exact H|]. split; [intros q _; reflexivity|]. split; [|reflexivity].
  exists []. cbn. rewrite app_nil_r. auto.
Qed.

Section WithHome.
  Variable home : str.

  (* the (expanded) path of a key file name *)
  Definition kpath (kf p : path) : Prop := expanduser home kf = Ok p.
  Definition keypath_of (f : field) (p : path) : Prop := exists kf, In kf (keyfiles_of f) /\ kpath kf p.
  Definition keypath (cfg : config) (p : path) : Prop := exists kf, In kf (keyfiles cfg) /\ kpath kf p.

  Lemma keyfile_enter_frame w kf w' r :
    keyfile_enter home w kf = (w', r) -> frame (kpath kf) w w'.
  Proof.
    unfold keyfile_enter. destruct (expanduser home kf) as [p| |] eqn:Ex.
    2,3: intro H; inversion H; apply frame_refl.
    destruct (lookup w p) as [k|] eqn:Lk.
    - destruct (length k =? 32)%nat; intro H; inversion H; apply frame_refl.
    - destruct (sv_rng w) as [|d rest].
      + intro H; inversion H; apply frame_refl.
      + destruct (open_wb (with_rng w rest) p) as [w1 [u|e|]] eqn:Op.
        * intro H; inversion H; subst; clear H.
          apply open_wb_ok in Op. destruct Op as (_ & _ & Oth & Lg & Nw & _).
          split; [|split; [|split]].
          -- intros q b Hq. destruct (str_eqb q p) eqn:E.
             ++ apply sv_str_eqb_eq in E. subst q. unfold lookup in Lk, Hq. congruence.
             ++ apply sv_str_eqb_neq in E. rewrite lookup_write_other by exact E. rewrite Oth by exact E. exact Hq.
          -- intros q Hq. assert (q <> p) as E by (intro; subst; apply Hq; exact Ex).
             rewrite lookup_write_other by exact E. rewrite Oth by exact E. reflexivity.
          -- exists [p]. cbn. split; [exact Lg | constructor; [exact Ex | constructor]].
          -- cbn. exact Nw.
        * intro H; inversion H; subst; clear H. apply open_wb_err in Op. destruct Op as [-> _].
          apply frame_with_rng.
        * exfalso. eapply open_wb_not_unmodelled; exact Op.
  Qed.

  (* ---- induction over the nested field type ---- *)
  Section FieldInd.
    Variable P : field -> Prop.
    Hypothesis HSkip : forall k, P (FSkip k).
    Hypothesis HPlain : forall k o, P (FPlain k o).
    Hypothesis HSecret : forall k kf ne enc, P (FSecret k kf ne enc).
    Hypothesis HSub : forall k fs, Forall P fs -> P (FSub k fs).
    Hypothesis HList : forall k items, Forall (Forall P) items -> P (FList k items).
    Fixpoint field_ind2 (f : field) : P f :=
      match f with
      | FSkip k => HSkip k
      | FPlain k o => HPlain k o
      | FSecret k kf ne enc => HSecret k kf ne enc
      | FSub k fs =>
          HSub k fs ((fix go (l : list field) : Forall P l :=
                        match l with [] => Forall_nil _ | x :: r => Forall_cons _ (field_ind2 x) (go r) end) fs)
      | FList k items =>
          HList k items
            ((fix go2 (ll : list (list field)) : Forall (Forall P) ll :=
                match ll with
                | [] => Forall_nil _
                | l :: r =>
                    Forall_cons _
                      ((fix go (l : list field) : Forall P l :=
                          match l with [] => Forall_nil _ | x :: r => Forall_cons _ (field_ind2 x) (go r) end) l)
                      (go2 r)
                end) items)
      end.
  End FieldInd.

  (* a sequence frames when each of its statements does *)
  Lemma seq_from_frame {A B} (f : nat -> A -> world -> world * res (option B)) (K : path -> Prop) l :
    Forall (fun a => forall i w w' r, f i a w = (w', r) -> frame K w w') l ->
    forall i w w' r, seq_from f i l w = (w', r) -> frame K w w'.
  Proof.
    induction 1 as [|a l Ha _ IH]; intros i w w' r; cbn.
    - intro H; inversion H; apply frame_refl.
    - destruct (f i a w) as [w1 [o|e|]] eqn:F1.
      + destruct (seq_from f (S i) l w1) as [w2 [t|e|]] eqn:F2; intro H; inversion H; subst;
          (eapply frame_trans; [eapply Ha; exact F1 | eapply IH; exact F2]).
      + intro H; inversion H; subst. eapply Ha; exact F1.
      + intro H; inversion H; subst. eapply Ha; exact F1.
  Qed.

  Lemma enc_field_frame : forall f pre w w' r,
    enc_field home pre f w = (w', r) -> frame (keypath_of f) w w'.
  Proof.
    induction f as [k|k o|k kf ne enc|k fs IH|k items IH] using field_ind2; intros pre w w' r; cbn [enc_field].
    - intro H; inversion H; apply frame_refl.
    - destruct o; intro H; inversion H; apply frame_refl.
    - destruct ne.
      + destruct (keyfile_enter home w kf) as [w1 r1] eqn:KE.
        assert (frame (keypath_of (FSecret k kf true enc)) w w1) as Fr.
        { eapply frame_weaken; [|eapply keyfile_enter_frame; exact KE].
          intros p Hp. exists kf. split; [left; reflexivity | exact Hp]. }
        destruct r1; [destruct enc|..]; intro H; inversion H; subst; exact Fr.
      + intro H; inversion H; apply frame_refl.
    - destruct (seq_from (fun _ : nat => enc_field home (dotted pre k)) 0%nat fs w) as [w1 r1] eqn:SQ.
      assert (frame (keypath_of (FSub k fs)) w w1) as Fr.
      { eapply seq_from_frame; [|exact SQ].
        apply Forall_forall. intros a Ha i v v' r0 Hr.
        eapply frame_weaken; [|eapply (proj1 (Forall_forall _ _) IH a Ha); exact Hr].
        intros p (kf & Hin & Hp). exists kf. split; [|exact Hp].
        cbn. apply in_flat_map. exists a. auto. }
      destruct r1; intro H; inversion H; subst; exact Fr.
    - match goal with |- context [seq_from ?g 0%nat items w] => destruct (seq_from g 0%nat items w) as [w1 r1] eqn:SQ end.
      assert (frame (keypath_of (FList k items)) w w1) as Fr.
      { eapply seq_from_frame; [|exact SQ].
        apply Forall_forall. intros item Hitem i v v' r0.
        destruct (seq_from (fun _ : nat => enc_field home (item_path pre k i)) 0%nat item v) as [v1 r1'] eqn:SQ2.
        intro Hr.
        assert (frame (keypath_of (FList k items)) v v1) as Fr2.
        { eapply seq_from_frame; [|exact SQ2].
          apply Forall_forall. intros a Ha j u u' r2 Hr2.
          pose proof (proj1 (Forall_forall _ _) IH item Hitem) as IHitem.
          eapply frame_weaken; [|eapply (proj1 (Forall_forall _ _) IHitem a Ha); exact Hr2].
          intros p (kf & Hin & Hp). exists kf. split; [|exact Hp].
          cbn. apply in_flat_map. exists item. split; [exact Hitem|].
          apply in_flat_map. exists a. auto. }
        destruct r1'; inversion Hr; subst; exact Fr2. }
      destruct r1; intro H; inversion H; subst; exact Fr.
  Qed.

  Lemma to_tree_frame cfg w w' r : to_tree home cfg w = (w', r) -> frame (keypath cfg) w w'.
  Proof.
    unfold to_tree.
    destruct (seq_from (fun _ : nat => enc_field home []) 0%nat cfg w) as [w1 r1] eqn:SQ.
    assert (frame (keypath cfg) w w1) as Fr.
    { eapply seq_from_frame; [|exact SQ].
      apply Forall_forall. intros a Ha i v v' r0 Hr.
      eapply frame_weaken; [|eapply enc_field_frame; exact Hr].
      intros p (kf & Hin & Hp). exists kf. split; [|exact Hp].
      unfold keyfiles. apply in_flat_map. exists a. auto. }
    destruct r1; intro H; inversion H; subst; exact Fr.
  Qed.

  Lemma dumps_frame cfg fmt w w' r : dumps home w cfg fmt = (w', r) -> frame (keypath cfg) w w'.
  Proof.
    unfold dumps. destruct fmt as [f|].
    - destruct (to_tree home cfg w) as [w1 r1] eqn:TT.
      pose proof (to_tree_frame _ _ _ _ TT) as Fr.
      destruct r1; intro H; inversion H; subst; exact Fr.
    - intro H; inversion H; apply frame_refl.
  Qed.

  (* ---- C19 ---- *)

  (* a save that does not succeed did what its (failed or not) serialisation did and nothing else *)
  Lemma save_failed_frame w cfg dest fmt w' r :
    save home w cfg dest fmt = (w', r) -> r <> Ok tt -> frame (keypath cfg) w w'.
  Proof.
    unfold save. destruct (dumps home w cfg fmt) as [w1 r1] eqn:D.
    pose proof (dumps_frame _ _ _ _ _ D) as Fr.
    destruct r1 as [content|e|].
    - destruct (expanduser home dest) as [p|e|].
      + destruct (open_wb w1 p) as [w2 [u|e|]] eqn:Op.
        * intros H Hr. inversion H; subst. destruct u. congruence.
        * intros H _. inversion H; subst. apply open_wb_err in Op. destruct Op as [-> _]. exact Fr.
        * exfalso. eapply open_wb_not_unmodelled; exact Op.
      + intros H _; inversion H; subst; exact Fr.
      + intros H _; inversion H; subst; exact Fr.
    - intros H _; inversion H; subst; exact Fr.
    - intros H _; inversion H; subst; exact Fr.
  Qed.

  (* save_atomic: whatever step failed, every file that existed is byte for byte what it was (the
     destination holding a previous configuration in particular); a path that is not the key file
     of one of the secrets is untouched even if it did not exist; nothing but such key files was
     opened for writing. *)
  Lemma save_atomic w cfg dest fmt w' e :
    save home w cfg dest fmt = (w', Err e) ->
    (forall q b, lookup w q = Some b -> lookup w' q = Some b) /\
    (forall q, ~ keypath cfg q -> lookup w' q = lookup w q) /\
    (exists l, sv_log w' = sv_log w ++ l /\ Forall (keypath cfg) l).
  Proof.
    intro H. apply save_failed_frame in H; [|discriminate].
    destruct H as (A & B & C & _). auto.
  Qed.

  (* the same for the destination alone, in the form of the property text *)
  Lemma save_atomic_dest w cfg dest fmt w' e p :
    save home w cfg dest fmt = (w', Err e) -> expanduser home dest = Ok p ->
    (forall b, lookup w p = Some b -> lookup w' p = Some b) /\
    (~ keypath cfg p -> lookup w' p = lookup w p) /\
    ~ (In p (skipn (length (sv_log w)) (sv_log w')) /\ ~ keypath cfg p).
  Proof.
    intros H _. apply save_atomic in H. destruct H as (A & B & (l & C & D)).
    split; [intros b; apply A|]. split; [apply B|].
    intros [Hin Hk]. rewrite C in Hin.
    rewrite skipn_app, skipn_all, Nat.sub_diag in Hin. cbn in Hin.
    apply Hk. exact (proj1 (Forall_forall _ _) D p Hin).
  Qed.

  (* also when the model gives up (Unmodelled) nothing is damaged *)
  Lemma save_not_ok_preserves w cfg dest fmt w' r q b :
    save home w cfg dest fmt = (w', r) -> r <> Ok tt -> lookup w q = Some b -> lookup w' q = Some b.
  Proof. intros H Hr. apply save_failed_frame in H; [|exact Hr]. destruct H as (A & _). apply A. Qed.

  (* save_ok: a save that returns wrote exactly the bytes dumps produced, to the expanded destination,
     as its last write; every other existing file is unchanged, every other path that is not a key
     file of a secret is untouched *)
  Lemma save_ok w cfg dest fmt w' :
    save home w cfg dest fmt = (w', Ok tt) ->
    exists p w1 content,
      expanduser home dest = Ok p /\
      dumps home w cfg fmt = (w1, Ok content) /\
      lookup w' p = Some content /\
      (forall q b, q <> p -> lookup w q = Some b -> lookup w' q = Some b) /\
      (forall q, q <> p -> ~ keypath cfg q -> lookup w' q = lookup w q) /\
      (exists l, sv_log w' = sv_log w ++ l ++ [p] /\ Forall (keypath cfg) l).
  Proof.
    unfold save. destruct (dumps home w cfg fmt) as [w1 r1] eqn:D.
    pose proof (dumps_frame _ _ _ _ _ D) as (A & B & (l & C & E) & _).
    destruct r1 as [content|e|]; [|intro H; inversion H..].
    destruct (expanduser home dest) as [p|e|]; [|intro H; inversion H..].
    destruct (open_wb w1 p) as [w2 [u|e|]] eqn:Op; [|intro H; inversion H..].
    intro H; inversion H; subst; clear H.
    apply open_wb_ok in Op. destruct Op as (_ & _ & Oth & Lg & _ & _).
    exists p, w1, content. repeat split.
    - apply lookup_write_same.
    - intros q b Hq Hb. rewrite lookup_write_other by exact Hq. rewrite Oth by exact Hq. apply A, Hb.
    - intros q Hq Hk. rewrite lookup_write_other by exact Hq. rewrite Oth by exact Hq. apply B, Hk.
    - exists l. cbn. rewrite Lg, C, app_assoc. auto.
  Qed.

  (* save_writes_exactly_serialisation, both directions *)
  Lemma save_writes_exactly_serialisation w cfg dest fmt w1 content p :
    dumps home w cfg fmt = (w1, Ok content) -> expanduser home dest = Ok p ->
    mem_path p (sv_nowrite w1) = false ->
    exists w', save home w cfg dest fmt = (w', Ok tt) /\
               sv_files w' = assoc_set str_eqb p content (assoc_set str_eqb p [] (sv_files w1)) /\
               lookup w' p = Some content.
  Proof.
    intros D Ex Nw. unfold save. rewrite D, Ex. unfold open_wb. rewrite Nw.
    eexists. split; [reflexivity|]. split; [reflexivity|]. apply lookup_write_same.
  Qed.

  Lemma save_fails_as_serialisation w cfg dest fmt w1 e :
    dumps home w cfg fmt = (w1, Err e) -> save home w cfg dest fmt = (w1, Err e).
  Proof. intro D. unfold save. rewrite D. reflexivity. Qed.

  (* the format name is looked up before anything else: an unknown format touches nothing at all,
     not even a missing key file *)
  Lemma unknown_format_touches_nothing w cfg dest : save home w cfg dest None = (w, Err EKey).
  Proof. reflexivity. Qed.

  (* load_after_save: reading the written file back hands the decoder exactly the bytes dumps made;
     with a decoder that inverts the formatter (C04/C02) the tree that was serialised comes back *)
  Section Codec.
    Variable enc : pyval -> res bytes.
    Variable dec : bytes -> res pyval.

    Lemma load_reads_what_save_wrote w cfg dest w' :
      save home w cfg dest (Some enc) = (w', Ok tt) ->
      exists w1 content, dumps home w cfg (Some enc) = (w1, Ok content) /\
                         load home w' dest (Some dec) = dec content.
    Proof.
      intro H. apply save_ok in H. destruct H as (p & w1 & content & Ex & D & Lk & _).
      exists w1, content. split; [exact D|]. unfold load. rewrite Ex, Lk. reflexivity.
    Qed.

    Hypothesis dec_enc : forall t b, enc t = Ok b -> dec b = Ok t.

    Lemma load_after_save w cfg dest w' :
      save home w cfg dest (Some enc) = (w', Ok tt) ->
      exists w1 t, to_tree home cfg w = (w1, Ok t) /\ load home w' dest (Some dec) = Ok t.
    Proof.
      intro H. destruct (load_reads_what_save_wrote _ _ _ _ H) as (w1 & content & D & L).
      unfold dumps in D. destruct (to_tree home cfg w) as [w2 [t|e|]] eqn:TT; inversion D; subst.
      exists w1, t. split; [reflexivity|]. rewrite L. apply dec_enc. assumption.
    Qed.
  End Codec.
End WithHome.

(* ---- histories of saves and external changes ---- *)
Lemma assoc_del_other (p q : path) (l : list (path * bytes)) : q <> p ->
  assoc str_eqb q (assoc_del str_eqb p l) = assoc str_eqb q l.
Proof.
  intro Hn. induction l as [|[k v] l IH]; cbn; [reflexivity|].
  destruct (str_eqb p k) eqn:E; cbn.
  - apply sv_str_eqb_eq in E. subst k. apply sv_str_eqb_neq in Hn. rewrite Hn. reflexivity.
  - destruct (str_eqb q k); [reflexivity | exact IH].
Qed.

Section Histories.
  Variable home : str.

  (* the step changes (or may change) the content of q: an external change of q, or a save that
     RETURNS and whose expanded destination is q.  A save that fails writes to no existing file. *)
  Definition writes_to (w : world) (s : sstep) (q : path) : Prop :=
    match s with
    | SExt p _ => p = q
    | SSave cfg dest fmt => snd (do_step home w s) = Ok tt /\ expanduser home dest = Ok q
    end.
  Fixpoint untouched (w : world) (steps : list sstep) (q : path) : Prop :=
    match steps with
    | [] => True
    | s :: r => ~ writes_to w s q /\ untouched (fst (do_step home w s)) r q
    end.

  Lemma do_step_preserves w s q b :
    lookup w q = Some b -> ~ writes_to w s q -> lookup (fst (do_step home w s)) q = Some b.
  Proof.
    intros Hq Hw. destruct s as [cfg dest fmt | p c].
    - cbn [do_step writes_to] in *.
      destruct (save home (with_log w []) cfg dest fmt) as [w' r] eqn:S. cbn [fst snd] in *.
      assert (r = Ok tt \/ r <> Ok tt) as [-> | Hr].
      { destruct r as [[]| |]; [left; reflexivity | right; discriminate | right; discriminate]. }
      + apply save_ok in S. destruct S as (p & w1 & content & Ex & _ & _ & Pres & _).
        apply Pres; [|exact Hq]. intro E. subst q. apply Hw. split; [reflexivity | exact Ex].
      + eapply save_not_ok_preserves; [exact S | exact Hr | exact Hq].
    - cbn [do_step writes_to fst] in *. unfold lookup, ext_change. cbn [sv_files with_log].
      assert (q <> p) as Hn by (intro; apply Hw; congruence).
      destruct c; [rewrite assoc_set_other by exact Hn | rewrite assoc_del_other by exact Hn]; exact Hq.
  Qed.

  (* over any history -- saves failing at any step, succeeding, files changed by others in between -- a
     file keeps its bytes unless someone else changed it or a save that RETURNED had it as destination:
     no number of failed saves damages a previously saved configuration *)
  Lemma history_preserves : forall steps w q b,
    lookup w q = Some b -> untouched w steps q -> lookup (run_steps home w steps) q = Some b.
  Proof.
    induction steps as [|s r IH]; intros w q b Hq Hu; cbn [run_steps]; [exact Hq|].
    destruct Hu as [H1 H2]. apply IH; [|exact H2]. apply do_step_preserves; assumption.
  Qed.

  (* every step of a history is a `save` from the file system alone: the per-save theorems apply to it *)
  Lemma history_step_is_save w cfg dest fmt :
    do_step home w (SSave cfg dest fmt) = save home (with_log w []) cfg dest fmt.
  Proof. reflexivity. Qed.
End Histories.

(* ---- the theorems depend on where the open is: the streaming variant damages the file ---- *)
Definition ex_world : world :=
  {| sv_files := [(sa "dest", hx "01020304")]; sv_nowrite := []; sv_rng := []; sv_log := [] |}.
Definition ex_cfg : config := [FPlain (sa "a") (Ok (PInt 1)); FPlain (sa "b") (Err EOtherExn)].
Definition ex_fmt : formatter := fun _ => Ok (hx "7b7d").

Lemma streaming_save_damages :
  exists w cfg dest fmt w' e b,
    save_streaming (sa "h") w cfg dest fmt = (w', Err e) /\
    lookup w dest = Some b /\ lookup w' dest <> Some b.
Proof.
  exists ex_world, ex_cfg, (sa "dest"), (Some ex_fmt).
  eexists. eexists. eexists. split; [vm_compute; reflexivity|]. split; [vm_compute; reflexivity|].
  vm_compute. discriminate.
Qed.

(* hypotheses of the theorems above are satisfiable *)
Example save_atomic_ex :
  save (sa "h") ex_world ex_cfg (sa "dest") (Some ex_fmt) = (ex_world, Err (EValidation (sa "b"))).
Proof. vm_compute. reflexivity. Qed.

Example save_ok_ex :
  exists w', save (sa "h") ex_world [FPlain (sa "a") (Ok (PInt 1))] (sa "~/dest") (Some ex_fmt) = (w', Ok tt) /\
             lookup w' (sa "h/dest") = Some (hx "7b7d") /\ lookup w' (sa "dest") = Some (hx "01020304").
Proof. eexists. split; [vm_compute; reflexivity|]. split; vm_compute; reflexivity. Qed.

(* a failed save may still have CREATED a missing key file (the one write a failing save can make) *)
Example failed_save_creates_key_file :
  let w := {| sv_files := [(sa "dest", hx "01")]; sv_nowrite := []; sv_rng := [hx "aa"]; sv_log := [] |} in
  let cfg := [FSecret (sa "s") (sa "key") true (Ok PNone); FPlain (sa "b") (Err EOtherExn)] in
  exists w', save (sa "h") w cfg (sa "dest") (Some ex_fmt) = (w', Err (EValidation (sa "b"))) /\
             sv_log w' = [sa "key"] /\ lookup w' (sa "dest") = Some (hx "01").
Proof. eexists. split; [vm_compute; reflexivity|]. split; vm_compute; reflexivity. Qed.

(* a formatter/decoder pair satisfying the law of load_after_save, and the theorem's premise *)
Definition ex_enc : formatter := fun t => match t with PDict N0 [] => Ok (hx "7b7d") | _ => Err EType end.
Definition ex_dec : bytes -> res pyval := fun b => if bytes_eqb b (hx "7b7d") then Ok (PDict 0%N []) else Err EValue.
Example load_after_save_ex :
  (forall t b, ex_enc t = Ok b -> ex_dec b = Ok t) /\
  exists w', save (sa "h") ex_world [] (sa "dest") (Some ex_enc) = (w', Ok tt) /\
             load (sa "h") w' (sa "dest") (Some ex_dec) = Ok (PDict 0%N []).
Proof.
  split.
  - intros t b H. destruct t; try discriminate. destruct tg; try discriminate. destruct d; try discriminate.
    inversion H; subst. reflexivity.
  - eexists. split; vm_compute; reflexivity.
Qed.

(* premises of save_writes_exactly_serialisation / save_fails_as_serialisation *)
Example save_writes_exactly_serialisation_ex :
  exists w1, dumps (sa "h") ex_world [FPlain (sa "a") (Ok (PInt 1))] (Some ex_fmt) = (w1, Ok (hx "7b7d")) /\
             expanduser (sa "h") (sa "~/dest") = Ok (sa "h/dest") /\ mem_path (sa "h/dest") (sv_nowrite w1) = false.
Proof. eexists. split; [vm_compute; reflexivity|]. split; vm_compute; reflexivity. Qed.
Example save_fails_as_serialisation_ex :
  dumps (sa "h") ex_world ex_cfg (Some ex_fmt) = (ex_world, Err (EValidation (sa "b"))).
Proof. vm_compute. reflexivity. Qed.

(* premises of history_preserves: a destination survives two failed saves and the rotation of a key file *)
Example history_preserves_ex :
  let steps := [SSave ex_cfg (sa "dest") (Some ex_fmt); SExt (sa "key") (Some (hx "0102"));
                SSave ex_cfg (sa "dest") None] in
  lookup ex_world (sa "dest") = Some (hx "01020304") /\ untouched (sa "h") ex_world steps (sa "dest").
Proof.
  split; [vm_compute; reflexivity|]. cbn [untouched]. repeat split.
  - intros [H _]. vm_compute in H. discriminate.
  - intro H. vm_compute in H. discriminate.
  - intros [H _]. vm_compute in H. discriminate.
Qed.
