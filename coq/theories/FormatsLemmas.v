(* FormatsLemmas.v — proofs about Formats.v (property C04). *)
From Coq Require Import ZArith NArith String List Bool SpecFloat Lia.
From Cinco Require Import Base Str TreeLemmas Formats.
Import ListNotations.
Open Scope Z_scope.

(* ------------------------------------------------------------------------------------------ *)
(* induction principles for the nested inductives (written by hand)                            *)
(* ------------------------------------------------------------------------------------------ *)
Section PdataInd.
  Variable P : pdata -> Prop.
  Hypothesis Hnull : P VNull.
  Hypothesis Hbool : forall b, P (VBool b).
  Hypothesis Hint : forall z, P (VInt z).
  Hypothesis Hfloat : forall f, P (VFloat f).
  Hypothesis Hstr : forall s, P (VStr s).
  Hypothesis Hlist : forall l, Forall P l -> P (VList l).
  Hypothesis Hmap : forall m, Forall (fun kv => P (snd kv)) m -> P (VMap m).
  Fixpoint pdata_ind' (v : pdata) : P v :=
    match v with
    | VNull => Hnull
    | VBool b => Hbool b
    | VInt z => Hint z
    | VFloat f => Hfloat f
    | VStr s => Hstr s
    | VList l => Hlist l ((fix go (l : list pdata) : Forall P l :=
                             match l with
                             | [] => Forall_nil _
                             | x :: r => Forall_cons _ (pdata_ind' x) (go r)
                             end) l)
    | VMap m => Hmap m ((fix go (m : list (str * pdata)) : Forall (fun kv => P (snd kv)) m :=
                           match m with
                           | [] => Forall_nil _
                           | kv :: r => Forall_cons kv (pdata_ind' (snd kv)) (go r)
                           end) m)
    end.
End PdataInd.

Section ElemInd.
  Variable P : elem -> Prop.
  Hypothesis Helem : forall tag attrs text cs, Forall P cs -> P (Elem tag attrs text cs).
  Fixpoint elem_ind' (e : elem) : P e :=
    match e with
    | Elem tag attrs text cs =>
        Helem tag attrs text cs ((fix go (l : list elem) : Forall P l :=
                                    match l with
                                    | [] => Forall_nil _
                                    | x :: r => Forall_cons _ (elem_ind' x) (go r)
                                    end) cs)
    end.
End ElemInd.

(* ------------------------------------------------------------------------------------------ *)
(* int(str(z)) = z : Str.str_of_Z / Str.parse_int                                              *)
(* ------------------------------------------------------------------------------------------ *)
Lemma pos_digits_app : forall f z acc, pos_digits f z acc = pos_digits f z [] ++ acc.
Proof.
  induction f as [|f IH]; intros z acc; cbn [pos_digits].
  - reflexivity.
  - destruct (z <? 10).
    + reflexivity.
    + rewrite IH. rewrite (IH _ [_]). rewrite <- app_assoc. reflexivity.
Qed.

Lemma pos_digits_digits : forall f z, 0 <= z -> Forall (fun c => is_digit c = true) (pos_digits f z []).
Proof.
  induction f as [|f IH]; intros z Hz; cbn [pos_digits].
  - constructor.
  - destruct (z <? 10) eqn:E.
    + apply Z.ltb_lt in E. constructor; [|constructor].
      unfold is_digit. apply andb_true_iff. split; apply N.leb_le; lia.
    + apply Z.ltb_ge in E. rewrite pos_digits_app. apply Forall_app. split.
      * apply IH. apply Z.div_pos; lia.
      * constructor; [|constructor].
        pose proof (Z.mod_pos_bound z 10 ltac:(lia)).
        unfold is_digit. apply andb_true_iff. split; apply N.leb_le; lia.
Qed.

Lemma pos_digits_nonempty : forall f z, pos_digits (S f) z [] <> [].
Proof.
  intros f z. cbn [pos_digits]. destruct (z <? 10).
  - discriminate.
  - rewrite pos_digits_app. intro H. apply app_eq_nil in H. destruct H; discriminate.
Qed.

Lemma digits_val_app : forall a b acc, digits_val acc (a ++ b) = digits_val (digits_val acc a) b.
Proof. induction a as [|c a IH]; intros; cbn [digits_val app]; [reflexivity | apply IH]. Qed.

Lemma pos_digits_val : forall f z, 0 <= z < 2 ^ Z.of_nat f -> digits_val 0 (pos_digits f z []) = z.
Proof.
  induction f as [|f IH]; intros z Hz.
  - cbn in Hz. cbn. lia.
  - cbn [pos_digits]. destruct (z <? 10) eqn:E.
    + apply Z.ltb_lt in E. cbn [digits_val].
      replace (Z.to_N z + 48 - 48)%N with (Z.to_N z) by lia. rewrite Z2N.id; lia.
    + apply Z.ltb_ge in E. rewrite pos_digits_app, digits_val_app.
      rewrite IH.
      * cbn [digits_val].
        pose proof (Z.mod_pos_bound z 10 ltac:(lia)).
        replace (Z.to_N (z mod 10) + 48 - 48)%N with (Z.to_N (z mod 10)) by lia.
        rewrite Z2N.id by lia. pose proof (Z.div_mod z 10 ltac:(lia)). lia.
      * split; [apply Z.div_pos; lia|].
        rewrite Nat2Z.inj_succ, Z.pow_succ_r in Hz by lia.
        apply Z.div_lt_upper_bound; lia.
Qed.

Lemma log2_fuel : forall z, 0 <= z -> z < 2 ^ Z.of_nat (S (Z.to_nat (Z.log2 z))).
Proof.
  intros z Hz. rewrite Nat2Z.inj_succ, Z2Nat.id by apply Z.log2_nonneg.
  destruct (Z.eq_dec z 0) as [->|Hn]; [cbn; lia|].
  apply Z.log2_spec. lia.
Qed.

Lemma is_digit_cases : forall c, is_digit c = true ->
  (c = 48 \/ c = 49 \/ c = 50 \/ c = 51 \/ c = 52 \/ c = 53 \/ c = 54 \/ c = 55 \/ c = 56 \/ c = 57)%N.
Proof.
  intros c H. unfold is_digit in H. apply andb_true_iff in H. destruct H as [A B].
  apply N.leb_le in A. apply N.leb_le in B. lia.
Qed.

Lemma digit_not_space : forall c, is_digit c = true -> is_num_space c = false.
Proof.
  intros c H. apply is_digit_cases in H.
  repeat (destruct H as [H|H]; [subst; reflexivity|]). subst; reflexivity.
Qed.

Lemma lstrip_none : forall p s, Forall (fun c => p c = false) s -> lstrip_by p s = s.
Proof. intros p s H. destruct H as [|c r Hc Hr]; cbn; [reflexivity | rewrite Hc; reflexivity]. Qed.

Lemma strip_none : forall p s, Forall (fun c => p c = false) s -> strip_by p s = s.
Proof.
  intros p s H. unfold strip_by. rewrite (lstrip_none p s H).
  rewrite lstrip_none. - apply rev_involutive. - apply Forall_rev. exact H.
Qed.

Lemma int_body_digits : forall s b, Forall (fun c => is_digit c = true) s ->
  int_body_ok b s = match s with [] => b | _ => true end.
Proof.
  induction s as [|c s IH]; intros b H; [reflexivity|].
  inversion H as [|? ? Hc Hs]; subst. cbn [int_body_ok]. rewrite Hc. rewrite (IH true Hs).
  destruct s; reflexivity.
Qed.

Lemma filter_digits : forall s, Forall (fun c => is_digit c = true) s -> filter is_digit s = s.
Proof.
  induction s as [|c s IH]; intros H; [reflexivity|].
  inversion H as [|? ? Hc Hs]; subst. cbn [filter]. rewrite Hc, (IH Hs). reflexivity.
Qed.

(* parse of an unsigned numeral *)
Lemma parse_digits : forall s, s <> [] -> Forall (fun c => is_digit c = true) s ->
  parse_int s = Some (digits_val 0 s).
Proof.
  intros s Hne H. unfold parse_int, parse_int_sm.
  rewrite strip_none by (eapply Forall_impl; [|exact H]; apply digit_not_space).
  destruct s as [|c r]; [congruence|].
  inversion H as [|? ? Hc Hr]; subst.
  assert (Hb : int_body_ok false (c :: r) = true) by (rewrite int_body_digits by exact H; reflexivity).
  assert (Hf : filter is_digit (c :: r) = c :: r) by (apply filter_digits; exact H).
  apply is_digit_cases in Hc.
  repeat (destruct Hc as [Hc|Hc]; [subst c; cbv iota beta; rewrite Hb, Hf; reflexivity|]).
  subst c; cbv iota beta; rewrite Hb, Hf; reflexivity.
Qed.

Theorem parse_str_of_Z : forall z, parse_int (str_of_Z z) = Some z.
Proof.
  intros z. unfold str_of_Z. destruct (z <? 0) eqn:E.
  - apply Z.ltb_lt in E.
    set (f := S (Z.to_nat (Z.log2 (- z)))).
    assert (Hd : Forall (fun c => is_digit c = true) (pos_digits f (- z) [])) by (apply pos_digits_digits; lia).
    assert (Hne : pos_digits f (- z) [] <> []) by apply pos_digits_nonempty.
    unfold parse_int, parse_int_sm.
    rewrite strip_none.
    + rewrite int_body_digits by exact Hd. rewrite filter_digits by exact Hd.
      destruct (pos_digits f (- z) []) eqn:P; [congruence|].
      rewrite <- P. unfold f. rewrite pos_digits_val by (split; [lia | apply log2_fuel; lia]).
      f_equal. lia.
    + constructor; [reflexivity|]. eapply Forall_impl; [|exact Hd]. apply digit_not_space.
  - apply Z.ltb_ge in E.
    rewrite parse_digits.
    + rewrite pos_digits_val by (split; [lia | apply log2_fuel; lia]). reflexivity.
    + apply pos_digits_nonempty.
    + apply pos_digits_digits; lia.
Qed.

Lemma str_of_Z_chars : forall z, Forall (fun c => is_digit c = true \/ c = 45%N) (str_of_Z z).
Proof.
  intros z. unfold str_of_Z. destruct (z <? 0) eqn:E.
  - apply Z.ltb_lt in E. constructor; [right; reflexivity|].
    eapply Forall_impl; [|apply pos_digits_digits; lia]. intros; left; assumption.
  - apply Z.ltb_ge in E. eapply Forall_impl; [|apply pos_digits_digits; lia]. intros; left; assumption.
Qed.

Lemma str_of_Z_modelled : forall z, int_text_modelled (str_of_Z z) = true.
Proof.
  intros z. unfold int_text_modelled. apply forallb_forall. intros c Hc.
  pose proof (str_of_Z_chars z) as H. rewrite Forall_forall in H. destruct (H c Hc) as [D|D].
  - apply is_digit_cases in D. repeat (destruct D as [D|D]; [subst; reflexivity|]). subst; reflexivity.
  - subst; reflexivity.
Qed.

Lemma str_of_Z_xml : forall z, xml_text (str_of_Z z) = true.
Proof.
  intros z. unfold xml_text. apply forallb_forall. intros c Hc.
  pose proof (str_of_Z_chars z) as H. rewrite Forall_forall in H. destruct (H c Hc) as [D|D].
  - apply is_digit_cases in D. repeat (destruct D as [D|D]; [subst; reflexivity|]). subst; reflexivity.
  - subst; reflexivity.
Qed.

(* ------------------------------------------------------------------------------------------ *)
(* small facts                                                                                 *)
(* ------------------------------------------------------------------------------------------ *)
Lemma keys_distinct_NoDup : forall l, keys_distinct l = true <-> NoDup l.
Proof.
  induction l as [|k r IH]; cbn [keys_distinct].
  - split; [constructor | reflexivity].
  - rewrite andb_true_iff, negb_true_iff, IH. split.
    + intros [A B]. constructor; [|exact B]. intro Hin.
      assert (existsb (str_eqb k) r = true) by (apply existsb_exists; exists k; split; [exact Hin | apply str_eqb_refl]).
      congruence.
    + intros H. inversion H as [|? ? Hn Hr]; subst. split; [|exact Hr].
      destruct (existsb (str_eqb k) r) eqn:E; [|reflexivity].
      apply existsb_exists in E. destruct E as [x [Hx Hk]]. apply str_eqb_eq in Hk. subst x. contradiction.
Qed.

Section AssocFacts.
  Context {V : Type}.
  Lemma assoc_set_same : forall k (v : V) t, assoc str_eqb k (assoc_set str_eqb k v t) = Some v.
  Proof.
    intros k v t. induction t as [|[k' v'] r IH]; cbn [assoc_set assoc].
    - rewrite str_eqb_refl. reflexivity.
    - destruct (str_eqb k k') eqn:E; cbn [assoc]; rewrite E; [reflexivity | exact IH].
  Qed.
  Lemma assoc_set_other : forall k k' (v : V) t, k' <> k -> assoc str_eqb k' (assoc_set str_eqb k v t) = assoc str_eqb k' t.
  Proof.
    intros k k' v t Hne. induction t as [|[k2 v2] r IH]; cbn [assoc_set assoc].
    - apply str_eqb_neq in Hne. rewrite Hne. reflexivity.
    - destruct (str_eqb k k2) eqn:E; cbn [assoc].
      + apply str_eqb_eq in E. subst k2. apply str_eqb_neq in Hne. rewrite Hne. reflexivity.
      + rewrite IH. reflexivity.
  Qed.
  Lemma assoc_notin : forall k (t : list (str * V)), ~ In k (map fst t) -> assoc str_eqb k t = None.
  Proof.
    intros k t. induction t as [|[k' v'] r IH]; intros Hn; cbn [assoc]; [reflexivity|].
    destruct (str_eqb k k') eqn:E.
    - apply str_eqb_eq in E. subst. exfalso. apply Hn. left. reflexivity.
    - apply IH. intro Hin. apply Hn. right. exact Hin.
  Qed.
  Lemma assoc_set_notin : forall k (v : V) t, ~ In k (map fst t) -> assoc_set str_eqb k v t = t ++ [(k, v)].
  Proof.
    intros k v t. induction t as [|[k' v'] r IH]; intros Hn; cbn [assoc_set app]; [reflexivity|].
    destruct (str_eqb k k') eqn:E.
    - apply str_eqb_eq in E. subst. exfalso. apply Hn. left. reflexivity.
    - rewrite IH; [reflexivity|]. intro Hin. apply Hn. right. exact Hin.
  Qed.
  Lemma assoc_fold_set : forall (l : list (str * V)) t k, NoDup (map fst l) ->
    assoc str_eqb k (fold_left (fun t nc => assoc_set str_eqb (fst nc) (snd nc) t) l t)
    = match assoc str_eqb k l with Some c => Some c | None => assoc str_eqb k t end.
  Proof.
    induction l as [|[k1 c1] r IH]; intros t k Hnd; cbn [fold_left assoc fst snd]; [reflexivity|].
    cbn [map fst] in Hnd. inversion Hnd as [|? ? Hn Hr]; subst.
    rewrite IH by exact Hr. destruct (str_eqb k k1) eqn:E.
    - apply str_eqb_eq in E. subst k1. rewrite (assoc_notin k r Hn). apply assoc_set_same.
    - apply str_eqb_neq in E. rewrite assoc_set_other by exact E. reflexivity.
  Qed.
End AssocFacts.

(* the nested loops of to_element / wf / xml_ok as list combinators *)
Lemma to_element_map : forall sf k m,
  to_element sf k (VMap m) = Elem k (ty_attr "dict") None (map (fun kv => to_element sf (fst kv) (snd kv)) m).
Proof.
  intros sf k m. cbn [to_element]. f_equal.
  induction m as [|[k' x] r IH]; [reflexivity|]. cbn [map fst snd]. f_equal. exact IH.
Qed.

Lemma wf_map : forall m, wf (VMap m) = keys_distinct (map fst m) && forallb (fun kv => wf (snd kv)) m.
Proof.
  intros m. cbn [wf]. f_equal.
  induction m as [|[k' x] r IH]; [reflexivity|]. cbn [forallb snd]. f_equal. exact IH.
Qed.

Lemma xml_ok_map : forall nm m,
  xml_ok nm (VMap m) = forallb (fun kv => nm (fst kv) && xml_ok nm (snd kv)) m.
Proof.
  intros nm m. cbn [xml_ok].
  induction m as [|[k' x] r IH]; [reflexivity|]. cbn [forallb fst snd]. rewrite IH. reflexivity.
Qed.

Lemma sim_tag : forall e e', elem_sim e e' -> e_tag e' = e_tag e.
Proof. intros e e' H. inversion H; reflexivity. Qed.

Lemma sim_refl : forall e, elem_sim e e.
Proof.
  apply elem_ind'. intros tag attrs text cs IH. constructor; [|reflexivity].
  induction IH; constructor; assumption.
Qed.

(* ------------------------------------------------------------------------------------------ *)
(* (1) _from_element inverts _to_element                                                       *)
(* ------------------------------------------------------------------------------------------ *)
Section XmlProofs.
  Variable str_of_float : spec_float -> str.
  Variable float_of_str : str -> option spec_float.
  (* float(repr(f)) == f for every binary64 value, NaN to NaN (one NaN in SpecFloat) *)
  Hypothesis float_text_law : forall f, valid_b64 f = true -> float_of_str (str_of_float f) = Some f.

  Notation to_el := (to_element str_of_float).
  Notation from_el := (from_element float_of_str).

  Fixpoint from_list (cs : list elem) : res (list pdata) :=
    match cs with
    | [] => Ok []
    | c :: r =>
        match from_el None c with
        | Ok x => match from_list r with Ok xs => Ok (x :: xs) | Err e => Err e | Unmodelled => Unmodelled end
        | Err e => Err e
        | Unmodelled => Unmodelled
        end
    end.
  Fixpoint from_dict (acc : list (str * pdata)) (cs : list elem) : res (list (str * pdata)) :=
    match cs with
    | [] => Ok acc
    | c :: r =>
        match from_el None c with
        | Ok x => from_dict (assoc_set str_eqb (e_tag c) x acc) r
        | Err e => Err e
        | Unmodelled => Unmodelled
        end
    end.

  (* unfolding of from_element on the element shapes _to_element produces *)
  Lemma from_el_str : forall fo tag t cs, fo = None \/ fo = Some (sa "str") ->
    from_el fo (Elem tag (ty_attr "str") t cs) = Ok (VStr (text_or_empty t)).
  Proof. intros fo tag t cs [->| ->]; reflexivity. Qed.
  Lemma from_el_bool : forall tag t cs,
    from_el None (Elem tag (ty_attr "bool") t cs) =
      if str_in (lower (text_or_empty t)) true_values then Ok (VBool true)
      else if str_in (lower (text_or_empty t)) false_values then Ok (VBool false)
      else Ok (VStr (text_or_empty t)).
  Proof. reflexivity. Qed.
  Lemma from_el_int : forall tag t cs,
    from_el None (Elem tag (ty_attr "int") t cs) =
      if int_text_modelled (text_or_empty t)
      then match parse_int (text_or_empty t) with Some z => Ok (VInt z) | None => Ok (VStr (text_or_empty t)) end
      else Unmodelled.
  Proof. reflexivity. Qed.
  Lemma from_el_float : forall tag t cs,
    from_el None (Elem tag (ty_attr "float") t cs) =
      match float_of_str (text_or_empty t) with Some f => Ok (VFloat f) | None => Ok (VStr (text_or_empty t)) end.
  Proof. reflexivity. Qed.
  Lemma from_el_none : forall tag t cs, from_el None (Elem tag (ty_attr "none") t cs) = Ok VNull.
  Proof. reflexivity. Qed.
  Lemma from_el_list : forall tag t cs,
    from_el None (Elem tag (ty_attr "list") t cs) =
      match from_list cs with Ok l => Ok (VList l) | Err e => Err e | Unmodelled => Unmodelled end.
  Proof. reflexivity. Qed.
  Lemma from_el_dict : forall fo tag ty t cs, fo = Some (sa "dict") \/ (fo = None /\ ty = "dict"%string) ->
    from_el fo (Elem tag (ty_attr ty) t cs) =
      match from_dict [] cs with Ok m => Ok (VMap m) | Err e => Err e | Unmodelled => Unmodelled end.
  Proof. intros fo tag ty t cs [->|[-> ->]]; reflexivity. Qed.

  Definition rt_holds (v : pdata) : Prop :=
    wf v = true -> forall k e', elem_sim (to_el k v) e' -> from_el None e' = Ok v.

  Lemma from_list_sim : forall l, Forall rt_holds l -> forallb wf l = true ->
    forall cs', Forall2 elem_sim (map (to_el (sa "item")) l) cs' -> from_list cs' = Ok l.
  Proof.
    induction l as [|x r IH]; intros HF Hwf cs' H2; cbn [map] in H2.
    - inversion H2; subst. reflexivity.
    - inversion H2 as [|a c' ra rc' H1 H3]; subst. cbn [from_list].
      inversion HF as [|? ? Hx Hr]; subst. cbn [forallb] in Hwf. apply andb_true_iff in Hwf. destruct Hwf as [Wx Wr].
      rewrite (Hx Wx _ _ H1). rewrite (IH Hr Wr _ H3). reflexivity.
  Qed.

  Lemma from_dict_sim : forall m, Forall (fun kv => rt_holds (snd kv)) m -> forallb (fun kv => wf (snd kv)) m = true ->
    forall acc cs', NoDup (map fst acc ++ map fst m) ->
    Forall2 elem_sim (map (fun kv => to_el (fst kv) (snd kv)) m) cs' -> from_dict acc cs' = Ok (acc ++ m).
  Proof.
    induction m as [|[k x] r IH]; intros HF Hwf acc cs' Hnd H2; cbn [map] in H2.
    - inversion H2; subst. cbn [from_dict]. rewrite app_nil_r. reflexivity.
    - inversion H2 as [|a c' ra rc' H1 H3]; subst. cbn [from_dict].
      inversion HF as [|? ? Hx Hr]; subst. cbn [forallb snd] in Hwf. apply andb_true_iff in Hwf. destruct Hwf as [Wx Wr].
      cbn [fst snd] in *. rewrite (Hx Wx _ _ H1). rewrite (sim_tag _ _ H1).
      assert (Hk : e_tag (to_el k x) = k) by (destruct x; reflexivity). rewrite Hk.
      cbn [map fst] in Hnd.
      assert (Hn : ~ In k (map fst acc)).
      { apply NoDup_remove_2 in Hnd. intro Hin. apply Hnd. apply in_or_app. left. exact Hin. }
      rewrite assoc_set_notin by exact Hn.
      rewrite (IH Hr Wr (acc ++ [(k, x)]) _).
      + rewrite <- app_assoc. reflexivity.
      + rewrite map_app, <- app_assoc. exact Hnd.
      + exact H3.
  Qed.

  Theorem from_to_sim : forall v, rt_holds v.
  Proof.
    apply pdata_ind'; unfold rt_holds.
    - intros _ k e' H. inversion H; subst. apply from_el_none.
    - intros b _ k e' H. inversion H as [? ? ? t' ? cs' Hc Ht]; subst. inversion Hc; subst.
      rewrite from_el_bool. rewrite <- (Ht eq_refl). destruct b; reflexivity.
    - intros z _ k e' H. inversion H as [? ? ? t' ? cs' Hc Ht]; subst. inversion Hc; subst.
      rewrite from_el_int. rewrite <- (Ht eq_refl). cbn [text_or_empty].
      rewrite str_of_Z_modelled, parse_str_of_Z. reflexivity.
    - intros f W k e' H. inversion H as [? ? ? t' ? cs' Hc Ht]; subst. inversion Hc; subst.
      rewrite from_el_float. rewrite <- (Ht eq_refl). cbn [text_or_empty].
      cbn [wf] in W. rewrite (float_text_law f W). reflexivity.
    - intros s _ k e' H. inversion H as [? ? ? t' ? cs' Hc Ht]; subst. inversion Hc; subst.
      rewrite from_el_str by (left; reflexivity). rewrite <- (Ht eq_refl). reflexivity.
    - intros l IH W k e' H. cbn [to_element] in H. inversion H as [? ? ? t' ? cs' Hc Ht]; subst.
      rewrite from_el_list. cbn [wf] in W. rewrite (from_list_sim l IH W _ Hc). reflexivity.
    - intros m IH W k e' H. rewrite to_element_map in H. inversion H as [? ? ? t' ? cs' Hc Ht]; subst.
      rewrite from_el_dict by (right; split; reflexivity).
      rewrite wf_map in W. apply andb_true_iff in W. destruct W as [Wk Wv].
      rewrite (from_dict_sim m IH Wv [] cs'); [reflexivity | | exact Hc].
      cbn [map app]. apply keys_distinct_NoDup. exact Wk.
  Qed.

  Theorem from_to_element : forall k v, wf v = true -> from_el None (to_el k v) = Ok v.
  Proof. intros k v W. apply (from_to_sim v W k). apply sim_refl. Qed.

  (* the root is read with py_type forced to "dict" *)
  Lemma load_root_sim : forall rt m e', wf (VMap m) = true ->
    elem_sim (to_el rt (VMap m)) e' -> xml_load_root float_of_str rt e' = Ok (VMap m).
  Proof.
    intros rt m e' W H. unfold xml_load_root. rewrite (sim_tag _ _ H).
    replace (e_tag (to_el rt (VMap m))) with rt by reflexivity. rewrite str_eqb_refl.
    rewrite to_element_map in H. inversion H as [? ? ? t' ? cs' Hc Ht]; subst.
    rewrite from_el_dict by (left; reflexivity).
    rewrite wf_map in W. apply andb_true_iff in W. destruct W as [Wk Wv].
    rewrite (from_dict_sim m) with (acc := []); [reflexivity | | exact Wv | | exact Hc].
    - apply Forall_forall. intros kv _. apply from_to_sim.
    - cbn [map app]. apply keys_distinct_NoDup. exact Wk.
  Qed.

  Lemma load_wrong_root : forall rt rt' v e', rt <> rt' ->
    elem_sim (to_el rt v) e' -> xml_load_root float_of_str rt' e' = Err EValue.
  Proof.
    intros rt rt' v e' Hne H. unfold xml_load_root. rewrite (sim_tag _ _ H).
    replace (e_tag (to_el rt v)) with rt by (destruct v; reflexivity).
    apply str_eqb_neq in Hne. rewrite Hne. reflexivity.
  Qed.

  (* the elements _to_element builds are inside the XML domain *)
  Section Domain.
    Variable name_ok : str -> bool.
    Hypothesis name_item : name_ok (sa "item") = true.
    Hypothesis name_type : name_ok (sa "type") = true.
    Hypothesis float_text_xml : forall f, xml_text (str_of_float f) = true.

    Lemma to_element_ok : forall v k, name_ok k = true -> xml_ok name_ok v = true -> elem_ok name_ok (to_el k v) = true.
    Proof.
      apply (pdata_ind' (fun v => forall k, name_ok k = true -> xml_ok name_ok v = true -> elem_ok name_ok (to_el k v) = true)).
      - intros k Hk _. cbn [to_element elem_ok ty_attr forallb fst snd text_or_empty]. rewrite Hk, name_type. reflexivity.
      - intros b k Hk _. cbn [to_element elem_ok ty_attr forallb fst snd text_or_empty]. rewrite Hk, name_type. destruct b; reflexivity.
      - intros z k Hk _. cbn [to_element elem_ok ty_attr forallb fst snd text_or_empty]. rewrite Hk, name_type, str_of_Z_xml. reflexivity.
      - intros f k Hk _. cbn [to_element elem_ok ty_attr forallb fst snd text_or_empty]. rewrite Hk, name_type, float_text_xml. reflexivity.
      - intros s k Hk Hs. cbn [to_element elem_ok ty_attr forallb fst snd text_or_empty]. cbn [xml_ok] in Hs. rewrite Hk, name_type, Hs. reflexivity.
      - intros l IH k Hk Hl. cbn [to_element elem_ok ty_attr forallb fst snd text_or_empty]. rewrite Hk, name_type.
        cbn [xml_ok] in Hl. cbn [xml_text forallb andb].
        replace (xml_text (sa "list")) with true by reflexivity. cbn [andb].
        induction IH as [|x r Hx Hr IHr]; [reflexivity|].
        cbn [forallb] in Hl. apply andb_true_iff in Hl. destruct Hl as [A B].
        cbn [map forallb]. rewrite (Hx _ name_item A). cbn [andb]. apply IHr. exact B.
      - intros m IH k Hk Hm. rewrite to_element_map. cbn [elem_ok ty_attr forallb fst snd text_or_empty]. rewrite Hk, name_type.
        rewrite xml_ok_map in Hm.
        replace (xml_text (sa "dict")) with true by reflexivity. cbn [xml_text forallb andb].
        induction IH as [|[k' x] r Hx Hr IHr]; [reflexivity|].
        cbn [forallb fst snd] in Hm. apply andb_true_iff in Hm. destruct Hm as [A B]. apply andb_true_iff in A. destruct A as [A1 A2].
        cbn [map forallb fst snd]. cbn [snd] in Hx. rewrite (Hx _ A1 A2). cbn [andb]. apply IHr. exact B.
    Qed.
  End Domain.
End XmlProofs.

(* ------------------------------------------------------------------------------------------ *)
(* (2)-(5) documents: XML round trip and root tag, option irrelevance, formats agree           *)
(* ------------------------------------------------------------------------------------------ *)
Section CodecProofs.
  Variable B : Type.
  Variable str_of_float : spec_float -> str.
  Variable float_of_str : str -> option spec_float.
  Variable et_print : elem -> B.
  Variable et_parse : B -> option elem.
  Variable yaml_enc : pdata -> B.
  Variable yaml_dec : B -> option pdata.
  Variable json_enc : bool -> pdata -> B.
  Variable json_dec : B -> option pdata.
  Variable bson_enc : pdata -> B.
  Variable bson_dec : B -> option pdata.
  Variable pickle_enc : pdata -> B.
  Variable pickle_dec : B -> option pdata.
  Variable name_ok : str -> bool.            (* names the XML parser accepts *)
  Variable yaml_dom json_dom bson_dom pickle_dom : pdata -> Prop.     (* each library's representable trees *)

  Hypothesis float_text_law : forall f, valid_b64 f = true -> float_of_str (str_of_float f) = Some f.
  Hypothesis float_text_xml : forall f, xml_text (str_of_float f) = true.
  Hypothesis name_item : name_ok (sa "item") = true.
  Hypothesis name_type : name_ok (sa "type") = true.
  (* ET.tostring -> minidom pretty printer -> ET.fromstring: structure, attributes and leaf text survive *)
  Hypothesis et_law : forall e, elem_ok name_ok e = true ->
    exists e', et_parse (et_print e) = Some e' /\ elem_sim e e'.
  (* PyYAML: dump sorts the keys of every map (sort_keys=True), load reads them back *)
  Hypothesis yaml_law : forall v, yaml_dom v -> yaml_dec (yaml_enc v) = Some (sort_keys v).
  Hypothesis json_law : forall pretty v, json_dom v -> json_dec (json_enc pretty v) = Some v.
  Hypothesis bson_law : forall v, bson_dom v -> bson_dec (bson_enc v) = Some v.
  Hypothesis pickle_law : forall v, pickle_dom v -> pickle_dec (pickle_enc v) = Some v.

  Notation xdumps := (xml_dumps B str_of_float et_print).
  Notation xloads := (xml_loads B float_of_str et_parse).
  Notation ydumps := (yaml_dumps B yaml_enc).
  Notation yloads := (yaml_loads B yaml_dec).
  Notation dumps := (fmt_dumps B str_of_float et_print yaml_enc json_enc bson_enc pickle_enc).
  Notation loads := (fmt_loads B float_of_str et_parse yaml_dec json_dec bson_dec pickle_dec).
  Notation xml_domain := (Formats.xml_domain name_ok).
  Notation in_domain := (Formats.in_domain name_ok yaml_dom json_dom bson_dom pickle_dom).


  Theorem xml_roundtrip : forall rt m, xml_domain rt m -> xloads rt (xdumps rt m) = Ok (VMap m).
  Proof.
    intros rt m (Hrt & W & X). unfold xml_loads, xml_dumps.
    destruct (et_law (to_element str_of_float rt (VMap m))) as [e' [Hp Hs]].
    - apply (to_element_ok str_of_float name_ok name_item name_type float_text_xml); assumption.
    - rewrite Hp. apply (load_root_sim str_of_float float_of_str float_text_law); assumption.
  Qed.

  Theorem xml_wrong_root : forall rt rt' m, xml_domain rt m -> rt <> rt' -> xloads rt' (xdumps rt m) = Err EValue.
  Proof.
    intros rt rt' m (Hrt & W & X) Hne. unfold xml_loads, xml_dumps.
    destruct (et_law (to_element str_of_float rt (VMap m))) as [e' [Hp Hs]].
    - apply (to_element_ok str_of_float name_ok name_item name_type float_text_xml); assumption.
    - rewrite Hp. eapply load_wrong_root; eassumption.
  Qed.

  Theorem xml_root_tag_irrelevant : forall rt rt' m, xml_domain rt m -> xml_domain rt' m ->
    xloads rt (xdumps rt m) = xloads rt' (xdumps rt' m).
  Proof. intros rt rt' m H H'. rewrite (xml_roundtrip rt m H), (xml_roundtrip rt' m H'). reflexivity. Qed.


  Theorem yaml_roundtrip : forall rk m, yaml_dom (yaml_doc rk m) -> yloads rk (ydumps rk m) = Ok (sort_keys (VMap m)).
  Proof.
    intros rk m D. unfold yaml_loads, yaml_dumps. fold (yaml_doc rk m). rewrite (yaml_law _ D).
    destruct rk as [[|c r]|]; cbn [yaml_doc]; try reflexivity.
    change (sort_keys (VMap [(c :: r, VMap m)])) with (VMap [(c :: r, sort_keys (VMap m))]).
    cbn [assoc]. rewrite str_eqb_refl. reflexivity.
  Qed.

  (* every root_key (None, "", any key, a key that also occurs in the tree) gives what root_key=None gives *)
  Theorem yaml_root_key_irrelevant : forall rk m, yaml_dom (yaml_doc rk m) -> yaml_dom (VMap m) ->
    yloads rk (ydumps rk m) = yloads None (ydumps None m).
  Proof. intros rk m D D0. rewrite (yaml_roundtrip rk m D). rewrite (yaml_roundtrip None m D0). reflexivity. Qed.

  Theorem json_roundtrip : forall pretty m, json_dom (VMap m) ->
    loads (FJson pretty) (dumps (FJson pretty) m) = Ok (VMap m).
  Proof. intros p m D. cbn [fmt_loads fmt_dumps]. rewrite (json_law p _ D). reflexivity. Qed.

  Theorem json_pretty_irrelevant : forall p p' q q' m, json_dom (VMap m) ->
    loads (FJson q) (dumps (FJson p) m) = loads (FJson q') (dumps (FJson p') m).
  Proof. intros p p' q q' m D. cbn [fmt_loads fmt_dumps]. rewrite !(json_law _ _ D). reflexivity. Qed.


  Theorem fmt_roundtrip : forall f m, in_domain f m ->
    exists v, loads f (dumps f m) = Ok v /\ same_tree v (VMap m).
  Proof.
    intros f m D. destruct f as [p| |rt|rk|]; cbn [in_domain] in D.
    - exists (VMap m). split; [apply json_roundtrip; exact D | left; reflexivity].
    - exists (VMap m). split; [|left; reflexivity]. cbn [fmt_loads fmt_dumps]. rewrite (pickle_law _ D). reflexivity.
    - exists (VMap m). split; [|left; reflexivity]. apply xml_roundtrip. exact D.
    - exists (sort_keys (VMap m)). split; [|right; reflexivity]. apply yaml_roundtrip. exact D.
    - exists (VMap m). split; [|left; reflexivity]. cbn [fmt_loads fmt_dumps]. rewrite (bson_law _ D). reflexivity.
  Qed.

  Theorem formats_agree : forall f g m, in_domain f m -> in_domain g m ->
    exists v w, loads f (dumps f m) = Ok v /\ loads g (dumps g m) = Ok w
                /\ same_tree v (VMap m) /\ same_tree w (VMap m).
  Proof.
    intros f g m Df Dg.
    destruct (fmt_roundtrip f m Df) as [v [Hv Sv]]. destruct (fmt_roundtrip g m Dg) as [w [Hw Sw]].
    exists v, w. repeat split; assumption.
  Qed.

  (* option values never change the decoded result: same format class, any two option values *)
  Theorem options_irrelevant : forall f g m, same_class f g = true -> in_domain f m -> in_domain g m ->
    loads f (dumps f m) = loads g (dumps g m).
  Proof.
    intros f g m C Df Dg. destruct f, g; try discriminate C; cbn [in_domain] in Df, Dg.
    - rewrite (json_roundtrip _ m Df), (json_roundtrip _ m Dg). reflexivity.
    - reflexivity.
    - cbn [fmt_loads fmt_dumps]. apply xml_root_tag_irrelevant; assumption.
    - cbn [fmt_loads fmt_dumps]. rewrite (yaml_roundtrip _ m Df), (yaml_roundtrip _ m Dg). reflexivity.
    - reflexivity.
  Qed.
End CodecProofs.

(* sort_keys only reorders: the sorted map answers every lookup as the original (distinct keys) *)
Lemma assoc_insert_key : forall k kv l, ~ In (fst kv) (map fst l) ->
  assoc str_eqb k (insert_key kv l) = if str_eqb k (fst kv) then Some (snd kv) else assoc str_eqb k l.
Proof.
  intros k [k1 x1] l. induction l as [|[k2 x2] r IH]; intros Hn; cbn [insert_key assoc fst snd].
  - reflexivity.
  - destruct (str_ltb k1 k2); cbn [assoc fst snd]; [reflexivity|].
    rewrite IH by (intro Hin; apply Hn; right; exact Hin).
    destruct (str_eqb k k2) eqn:E2; [|reflexivity].
    destruct (str_eqb k k1) eqn:E1; [|reflexivity].
    apply str_eqb_eq in E1. apply str_eqb_eq in E2. subst. exfalso. apply Hn. left. reflexivity.
Qed.

Lemma insert_key_keys : forall kv l k, In k (map fst (insert_key kv l)) <-> k = fst kv \/ In k (map fst l).
Proof.
  intros kv l k. induction l as [|h r IH]; cbn [insert_key map In fst].
  - split; intros [H|H]; auto.
  - destruct (str_ltb (fst kv) (fst h)); cbn [map In fst].
    + split; intros [H|H]; auto.
    + rewrite IH. split; intros H; tauto.
Qed.

Definition sorted_entries (m : list (str * pdata)) : list (str * pdata) :=
  (fix go (m : list (str * pdata)) : list (str * pdata) :=
     match m with [] => [] | (k, x) :: r => insert_key (k, sort_keys x) (go r) end) m.

Lemma sorted_entries_keys : forall m k, In k (map fst (sorted_entries m)) <-> In k (map fst m).
Proof.
  induction m as [|[k1 x1] r IH]; intros k; [reflexivity|].
  change (sorted_entries ((k1, x1) :: r)) with (insert_key (k1, sort_keys x1) (sorted_entries r)).
  rewrite insert_key_keys, IH. cbn [map In fst]. split; intros [H|H]; auto.
Qed.

Theorem sort_keys_lookup : forall m k, NoDup (map fst m) ->
  sort_keys (VMap m) = VMap (sorted_entries m) /\
  assoc str_eqb k (sorted_entries m) = option_map sort_keys (assoc str_eqb k m).
Proof.
  intros m k Hnd. split; [reflexivity|].
  induction m as [|[k1 x1] r IH]; [reflexivity|].
  cbn [map fst] in Hnd. inversion Hnd as [|? ? Hn Hr]; subst.
  change (sorted_entries ((k1, x1) :: r)) with (insert_key (k1, sort_keys x1) (sorted_entries r)).
  rewrite assoc_insert_key by (cbn [fst]; rewrite sorted_entries_keys; exact Hn).
  cbn [assoc fst snd]. destruct (str_eqb k k1); [reflexivity | apply IH; exact Hr].
Qed.

(* ------------------------------------------------------------------------------------------ *)
(* (6) the ConfigFormat registry                                                               *)
(* ------------------------------------------------------------------------------------------ *)
Lemma builtin_nodup : NoDup (map fst builtin_formats).
Proof. apply keys_distinct_NoDup. reflexivity. Qed.

Lemma reg_initialize_init : forall s, r_init (reg_initialize s) = true.
Proof. intros s. unfold reg_initialize. destruct (r_init s) eqn:E; [exact E | reflexivity]. Qed.

Definition reg_lookup (name : str) (t : list (str * N)) : res N :=
  match assoc str_eqb name t with Some c => Ok c | None => Err EKey end.

(* get(name): the class stored under name once the built-in table has been merged in *)
Theorem reg_get_spec : forall name s,
  snd (reg_get name s) =
    if r_init s then reg_lookup name (r_tab s)
    else match assoc str_eqb name builtin_formats with
         | Some c => Ok c                                 (* initialize_registry overwrites earlier registrations *)
         | None => reg_lookup name (r_tab s)
         end.
Proof.
  intros name s. unfold reg_get, reg_initialize, reg_lookup. cbn [snd]. destruct (r_init s); cbn [r_tab]; [reflexivity|].
  rewrite assoc_fold_set by apply builtin_nodup.
  destruct (assoc str_eqb name builtin_formats); reflexivity.
Qed.

Theorem reg_get_builtin : forall name c, In (name, c) builtin_formats -> snd (reg_get name reg_fresh) = Ok c.
Proof.
  intros name c H. cbn [builtin_formats In] in H.
  repeat (destruct H as [H|H]; [inversion H; subst; reflexivity|]). contradiction.
Qed.

Theorem reg_get_unknown : forall name, assoc str_eqb name builtin_formats = None -> snd (reg_get name reg_fresh) = Err EKey.
Proof. intros name H. rewrite reg_get_spec. cbn [reg_fresh r_init r_tab]. rewrite H. reflexivity. Qed.

(* a class registered after initialisation, or under a name that is not built in, is the one returned *)
Theorem reg_get_registered : forall s name c,
  r_init s = true \/ assoc str_eqb name builtin_formats = None ->
  snd (reg_get name (reg_register name c s)) = Ok c.
Proof.
  intros s name c H. rewrite reg_get_spec. unfold reg_register, reg_lookup. cbn [r_init r_tab].
  rewrite assoc_set_same. destruct (r_init s); [reflexivity|].
  destruct H as [H|H]; [discriminate | rewrite H; reflexivity].
Qed.

Theorem reg_register_other : forall s name name' c, name' <> name ->
  snd (reg_get name' (reg_register name c s)) = snd (reg_get name' s).
Proof.
  intros s name name' c Hne. rewrite !reg_get_spec. unfold reg_register, reg_lookup. cbn [r_init r_tab].
  rewrite assoc_set_other by exact Hne. reflexivity.
Qed.

Theorem reg_get_stable : forall s name, r_init s = true -> fst (reg_get name s) = s.
Proof. intros s name H. unfold reg_get, reg_initialize. cbn [fst]. rewrite H. reflexivity. Qed.

(* a registration made BEFORE the registry is initialised under a built-in name is lost *)
Example reg_preinit_override_lost :
  snd (reg_get (sa "json") (reg_register (sa "json") 10%N reg_fresh)) = Ok 0%N.
Proof. reflexivity. Qed.

(* ------------------------------------------------------------------------------------------ *)
(* the same theorems over the library record                                                    *)
(* ------------------------------------------------------------------------------------------ *)
Section OverLib.
  Variable B : Type.
  Variable L : lib B.
  Hypothesis H : lib_laws L.

  Theorem L_from_to_element : forall k v, wf v = true ->
    from_element (l_float_of_str L) None (to_element (l_str_of_float L) k v) = Ok v.
  Proof. apply from_to_element. apply (law_float L H). Qed.

  Theorem L_from_to_parsed : forall k v e', wf v = true -> elem_sim (to_element (l_str_of_float L) k v) e' ->
    from_element (l_float_of_str L) None e' = Ok v.
  Proof. intros k v e' W S. exact (from_to_sim _ _ (law_float L H) v W k e' S). Qed.

  Theorem L_xml_roundtrip : forall rt m, representable L (FXml rt) m -> loads L (FXml rt) (dumps L (FXml rt) m) = Ok (VMap m).
  Proof.
    intros rt m D. unfold loads, dumps. cbn [fmt_loads fmt_dumps].
    apply (xml_roundtrip B _ _ _ _ (l_name_ok L) (law_float L H) (law_float_xml L H) (law_name_item L H) (law_name_type L H) (law_et L H)).
    exact D.
  Qed.

  Theorem L_xml_wrong_root : forall rt rt' m, representable L (FXml rt) m -> rt <> rt' ->
    loads L (FXml rt') (dumps L (FXml rt) m) = Err EValue.
  Proof.
    intros rt rt' m D Hne. unfold loads, dumps. cbn [fmt_loads fmt_dumps].
    apply (xml_wrong_root B _ _ _ _ (l_name_ok L) (law_float_xml L H) (law_name_item L H) (law_name_type L H) (law_et L H)); assumption.
  Qed.

  Theorem L_yaml_roundtrip : forall rk m, representable L (FYaml rk) m ->
    loads L (FYaml rk) (dumps L (FYaml rk) m) = Ok (sort_keys (VMap m)).
  Proof.
    intros rk m D. unfold loads, dumps. cbn [fmt_loads fmt_dumps].
    apply (yaml_roundtrip B _ _ (l_yaml_dom L) (law_yaml L H)). exact D.
  Qed.

  Theorem L_options_irrelevant : forall f g m, same_class f g = true -> representable L f m -> representable L g m ->
    loads L f (dumps L f m) = loads L g (dumps L g m).
  Proof.
    intros f g m. unfold loads, dumps, representable.
    apply (options_irrelevant B _ _ _ _ _ _ _ _ _ _ _ _ (l_name_ok L) (l_yaml_dom L) (l_json_dom L) (l_bson_dom L) (l_pickle_dom L)
             (law_float L H) (law_float_xml L H) (law_name_item L H) (law_name_type L H) (law_et L H) (law_yaml L H) (law_json L H)).
  Qed.

  Theorem L_json_pretty_irrelevant : forall p p' q q' m, representable L (FJson p) m ->
    loads L (FJson q) (dumps L (FJson p) m) = loads L (FJson q') (dumps L (FJson p') m).
  Proof.
    intros p p' q q' m D. unfold loads, dumps.
    apply (json_pretty_irrelevant B _ _ _ _ _ _ _ _ _ _ _ _ (l_json_dom L) (law_json L H)). exact D.
  Qed.

  Theorem L_fmt_roundtrip : forall f m, representable L f m ->
    exists v, loads L f (dumps L f m) = Ok v /\ same_tree v (VMap m).
  Proof.
    intros f m. unfold loads, dumps, representable.
    apply (fmt_roundtrip B _ _ _ _ _ _ _ _ _ _ _ _ (l_name_ok L) (l_yaml_dom L) (l_json_dom L) (l_bson_dom L) (l_pickle_dom L)
             (law_float L H) (law_float_xml L H) (law_name_item L H) (law_name_type L H) (law_et L H) (law_yaml L H) (law_json L H)
             (law_bson L H) (law_pickle L H)).
  Qed.

  Theorem L_formats_agree : forall f g m, representable L f m -> representable L g m ->
    exists v w, loads L f (dumps L f m) = Ok v /\ loads L g (dumps L g m) = Ok w
                /\ same_tree v (VMap m) /\ same_tree w (VMap m).
  Proof.
    intros f g m Df Dg.
    destruct (L_fmt_roundtrip f m Df) as [v [Hv Sv]]. destruct (L_fmt_roundtrip g m Dg) as [w [Hw Sw]].
    exists v, w. repeat split; assumption.
  Qed.
End OverLib.

(* ------------------------------------------------------------------------------------------ *)
(* the laws are satisfiable: an ideal library (documents are the values themselves) with a toy  *)
(* float printer (sign, exponent and mantissa in binary)                                        *)
(* ------------------------------------------------------------------------------------------ *)
Fixpoint enc_pos (p : positive) : str :=
  match p with xH => [] | xO q => 48%N :: enc_pos q | xI q => 49%N :: enc_pos q end.
Fixpoint dec_pos (s : str) : option positive :=
  match s with
  | [] => Some xH
  | c :: r => match dec_pos r with Some q => Some (if (c =? 48)%N then xO q else xI q) | None => None end
  end.
Definition enc_Z (z : Z) : str :=
  match z with Z0 => [122%N] | Zpos p => 43%N :: enc_pos p | Zneg p => 45%N :: enc_pos p end.
Definition dec_Z (s : str) : option Z :=
  match s with
  | [] => None
  | c :: r => if (c =? 122)%N then Some 0
              else match dec_pos r with Some p => Some (if (c =? 43)%N then Zpos p else Zneg p) | None => None end
  end.
Fixpoint split95 (s : str) : str * str :=
  match s with
  | [] => ([], [])
  | c :: r => if (c =? 95)%N then ([], r) else let '(a, b) := split95 r in (c :: a, b)
  end.
Definition sgn (s : bool) : N := if s then 45%N else 43%N.
Definition toy_str_of_float (f : spec_float) : str :=
  match f with
  | S754_zero s => [sgn s; 122%N]
  | S754_infinity s => [sgn s; 105%N]
  | S754_nan => [110%N]
  | S754_finite s m e => sgn s :: 102%N :: enc_Z e ++ 95%N :: enc_pos m
  end.
Definition toy_float_of_str (s : str) : option spec_float :=
  match s with
  | [c] => if (c =? 110)%N then Some S754_nan else None
  | c :: k :: r =>
      let sg := (c =? 45)%N in
      if (k =? 122)%N then Some (S754_zero sg)
      else if (k =? 105)%N then Some (S754_infinity sg)
      else if (k =? 102)%N then
        let '(a, b) := split95 r in
        match dec_Z a, dec_pos b with Some e, Some m => Some (S754_finite sg m e) | _, _ => None end
      else None
  | _ => None
  end.

Lemma dec_enc_pos : forall p, dec_pos (enc_pos p) = Some p.
Proof. induction p as [q IH|q IH|]; cbn [enc_pos dec_pos]; [rewrite IH; reflexivity | rewrite IH; reflexivity | reflexivity]. Qed.
Lemma dec_enc_Z : forall z, dec_Z (enc_Z z) = Some z.
Proof. destruct z as [|p|p]; cbn [enc_Z dec_Z]; [reflexivity | | ]; cbn [N.eqb Pos.eqb]; rewrite dec_enc_pos; reflexivity. Qed.
Lemma split95_pos : forall p b, split95 (enc_pos p ++ 95%N :: b) = (enc_pos p, b).
Proof. induction p as [q IH|q IH|]; intros b; cbn [enc_pos app split95]; [cbn [N.eqb Pos.eqb]; rewrite IH; reflexivity | cbn [N.eqb Pos.eqb]; rewrite IH; reflexivity | reflexivity]. Qed.
Lemma split95_Z : forall z b, split95 (enc_Z z ++ 95%N :: b) = (enc_Z z, b).
Proof. destruct z as [|p|p]; intros b; cbn [enc_Z app split95]; [reflexivity | | ]; cbn [N.eqb Pos.eqb]; rewrite split95_pos; reflexivity. Qed.

Lemma toy_float_law : forall f, toy_float_of_str (toy_str_of_float f) = Some f.
Proof.
  destruct f as [s|s| |s m e]; try (destruct s; reflexivity); [reflexivity|].
  unfold toy_str_of_float, toy_float_of_str.
  replace ((102 =? 122)%N) with false by reflexivity. replace ((102 =? 105)%N) with false by reflexivity.
  replace ((102 =? 102)%N) with true by reflexivity. cbv iota beta.
  rewrite split95_Z, dec_enc_Z, dec_enc_pos. destruct s; reflexivity.
Qed.

Lemma enc_pos_xml : forall p, xml_text (enc_pos p) = true.
Proof. induction p as [q IH|q IH|]; cbn [enc_pos]; [exact IH | exact IH | reflexivity]. Qed.
Lemma xml_text_app : forall a b, xml_text (a ++ b) = xml_text a && xml_text b.
Proof. intros a b. unfold xml_text. apply forallb_app. Qed.
Lemma toy_float_xml : forall f, xml_text (toy_str_of_float f) = true.
Proof.
  destruct f as [s|s| |s m e]; try (destruct s; reflexivity); [reflexivity|].
  unfold toy_str_of_float. change (sgn s :: 102%N :: enc_Z e ++ 95%N :: enc_pos m) with ([sgn s; 102%N] ++ enc_Z e ++ [95%N] ++ enc_pos m).
  rewrite !xml_text_app, enc_pos_xml.
  assert (xml_text (enc_Z e) = true) as -> by (destruct e; [reflexivity | apply enc_pos_xml | apply enc_pos_xml]).
  destruct s; reflexivity.
Qed.

Definition ideal_lib : lib ideal_doc :=
  Lib ideal_doc toy_str_of_float toy_float_of_str
      (fun e => inl e) (fun d => match d with inl e => Some e | inr _ => None end)
      (fun v => inr (sort_keys v)) id_dec (fun _ v => inr v) id_dec id_enc id_dec id_enc id_dec
      (fun _ => true) (fun _ => True) (fun _ => True) (fun _ => True) (fun _ => True).

Example ideal_lib_laws : lib_laws ideal_lib.
Proof.
  constructor; cbn.
  - intros f _. apply toy_float_law.
  - apply toy_float_xml.
  - reflexivity.
  - reflexivity.
  - intros e _. exists e. split; [reflexivity | apply sim_refl].
  - reflexivity.
  - reflexivity.
  - reflexivity.
  - reflexivity.
Qed.

(* every well-formed tree is representable by every format of the ideal library: the theorems are not vacuous *)
Example ideal_roundtrip :
  let m := [(sa "a", VList [VBool true; VInt (-12); VStr []; VNull; VList []; VMap []; VFloat (S754_finite true 4503599627370497 (-52))]);
            (sa "B", VFloat S754_nan)] in
  loads ideal_lib (FXml (sa "config")) (dumps ideal_lib (FXml (sa "config")) m) = Ok (VMap m)
  /\ loads ideal_lib (FXml (sa "cfg")) (dumps ideal_lib (FXml (sa "config")) m) = Err EValue
  /\ loads ideal_lib (FYaml (Some (sa "a"))) (dumps ideal_lib (FYaml (Some (sa "a"))) m) = Ok (sort_keys (VMap m)).
Proof. vm_compute. repeat split. Qed.
