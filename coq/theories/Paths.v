(* Paths.v — the ways of naming a field (property C16):
     support.get_all_fields (support.py:179-224), Schema.__getitem__ (core.py:735-753),
     BaseField._ref_path (core.py:248-267), Config._get_value/__getitem__/__setitem__/__contains__/
     _set_value (core.py:1055-1193), attribute access, support.is_value_defined,
     support.generate_argparse_parser (support.py:93-129), support.cmdline_args_override
     (support.py:227-271), and a small concrete model of argparse for exact long options.
   Definitions only (no proofs): this file must keep running when a proof breaks. *)
From Coq Require Import ZArith NArith String List Bool SpecFloat.
From Cinco Require Import Base Str.
Import ListNotations.
Open Scope Z_scope.

Definition DOT : N := 46%N.
Definition DASH : N := 45%N.

(* ------------------------------------------------------------------------------------------ *)
(* schemas                                                                                     *)
(* ------------------------------------------------------------------------------------------ *)
(* what the code distinguishes about a leaf field:
   - storage_type str / int / float -> one `store` option;  bool -> two switches;  anything else: none
   - VirtualFieldMixin: no entry in Config._data, value computed by the getter
   - InstanceMethodFieldMixin: no entry in Config._data, bound method in the instance __dict__ *)
(* StringField options (string_field.py): transform_strip (None / strip() / strip(chars)), transform_case
   (lower = true / upper = false), min_len, max_len, regex (one of a small concrete family, see re_match), choices
   ([] = no choices: `if self.choices` is falsy for None and for an empty list) *)
Record stropts := mkso {
  so_strip : option (option str);
  so_case : option bool;
  so_min : option Z;
  so_max : option Z;
  so_regex : option N;
  so_choices : list str
}.
Definition so_plain : stropts := mkso None None None None None [].

Inductive leafkind :=
| KStr (o : stropts)                     (* StringField with the options o *)
| KInt (lo hi : option Z)                (* IntField(min=lo, max=hi) *)
| KFloat (lo hi : option spec_float)     (* FloatField(min=lo, max=hi) *)
| KBool                                  (* BoolField() *)
| KAny                                   (* Field(): storage_type Any, accepts everything *)
| KOther                                 (* ListField / DictField / BytesField: persistent, no option; never assigned here *)
| KVirtual (v : pyval) (settable : bool) (* VirtualField(getter = const v, setter = no-op or None) *)
| KMethod.                               (* InstanceMethodField *)

Inductive snode :=
| SLeaf (k : leafkind) (dflt : pyval)                     (* a Field with its default *)
| SCfgT (t : snode)                                       (* ConfigTypeField(make_type(t)) : BaseField, neither Field nor Schema *)
| SSchema (own_key : str) (fields : list (str * snode)).  (* Schema: _key and the ordered _fields table *)

Definition fields_of (s : snode) : list (str * snode) :=
  match s with SSchema _ fs => fs | _ => [] end.
Definition own_key_of (s : snode) : str :=
  match s with SSchema k _ => k | _ => [] end.
Definition field_of (s : snode) (key : str) : option snode := assoc str_eqb key (fields_of s).

(* A field object: identified by where it is registered.  f_chain = the `_key`s of the schemas reached
   by following `_schema` links, outermost first (so the last element is the owning schema's key);
   f_key = the key it was registered under (`_key` after __setkey__). *)
Record fld := mkfld { f_chain : list str; f_key : str; f_node : snode }.

Definition nonempty (s : str) : bool := match s with [] => false | _ => true end.

(* BaseField._ref_path: path = [self._key]; for every schema up the `_schema` chain: if schema._key:
   path.append(schema._key); ".".join(reversed(path)) *)
Definition self_key (f : fld) : str :=
  match f_node f with SSchema k _ => k | _ => f_key f end.
Definition ref_path (f : fld) : str := join [DOT] (filter nonempty (f_chain f) ++ [self_key f]).

(* get_all_fields:  prefix = schema._key + "." if schema._key else ""
                    for key, field in schema._fields.items():
                        ret.append((prefix + key, schema, field))
                        if isinstance(field, Schema): ret.extend((prefix + subkey, ..) for .. in get_all_fields(field)) *)
Definition prefix_of (k : str) : str := match k with [] => [] | _ => k ++ [DOT] end.
Definition addp (pre : str) (e : str * fld) : str * fld := match e with (p, f) => (pre ++ p, f) end.

Fixpoint gaf (chain : list str) (s : snode) {struct s} : list (str * fld) :=
  match s with
  | SSchema k fs =>
      (fix go (fs : list (str * snode)) : list (str * fld) :=
         match fs with
         | [] => []
         | (key, f) :: r =>
             (prefix_of k ++ key, mkfld (chain ++ [k]) key f)
               :: map (addp (prefix_of k))
                      (match f with SSchema _ _ => gaf (chain ++ [k]) f | _ => [] end)
               ++ go r
         end) fs
  | _ => []
  end.

(* the same loop, named (gaf_unfold in PathsLemmas.v) *)
Fixpoint gaf_list (chain : list str) (k : str) (fs : list (str * snode)) : list (str * fld) :=
  match fs with
  | [] => []
  | (key, f) :: r =>
      (prefix_of k ++ key, mkfld (chain ++ [k]) key f)
        :: map (addp (prefix_of k)) (match f with SSchema _ _ => gaf (chain ++ [k]) f | _ => [] end)
        ++ gaf_list chain k r
  end.

(* get_all_fields of a root schema (no `_schema` link) *)
Definition get_all_fields (s : snode) : list (str * fld) := gaf [] s.

(* ------------------------------------------------------------------------------------------ *)
(* dotted paths                                                                                *)
(* ------------------------------------------------------------------------------------------ *)
(* All dotted walks have the shape   key, _, subkey = path.partition(".") ; ... if subkey: recurse(subkey).
   The keys visited are the '.'-separated segments, except that a final empty segment is not visited
   when there are at least two segments ("a." visits only "a"; "a.." visits "a" and ""). *)
Fixpoint drop_trailing_empty (l : list str) : list str :=
  match l with
  | [] => []
  | x :: r => match r with
              | [ [] ] => [x]
              | _ => x :: drop_trailing_empty r
              end
  end.
Definition path_keys (p : str) : list str := drop_trailing_empty (split DOT p).
Definition dotted (ks : list str) : str := join [DOT] ks.

(* Schema.__getitem__:  field = self._get_field(key) or self._add_field(key, Schema())
                        if subkey: if isinstance(field, Schema): return field[subkey]; raise TypeError
                        return field
   A missing key CREATES an empty sub-schema (and, with a subkey, the whole chain below it) and returns
   the innermost new schema: outcome LCreated (the mutation of the schema itself is not represented;
   the harness restores the field tables after every lookup). *)
Inductive lres := LField (f : fld) | LCreated | LNotSchema.

Fixpoint sgetitem (chain : list str) (s : snode) (k : str) (rest : list str) {struct rest} : lres :=
  match s with
  | SSchema own fs =>
      match assoc str_eqb k fs with
      | None => LCreated
      | Some f =>
          match rest with
          | [] => LField (mkfld (chain ++ [own]) k f)
          | k' :: r => match f with
                       | SSchema _ _ => sgetitem (chain ++ [own]) f k' r
                       | _ => LNotSchema
                       end
          end
      end
  | _ => LNotSchema
  end.

Definition lookup_in (chain : list str) (s : snode) (p : str) : lres :=
  match path_keys p with
  | [] => LCreated
  | k :: rest => sgetitem chain s k rest
  end.
Definition lookup (s : snode) (p : str) : lres := lookup_in [] s p.

(* ------------------------------------------------------------------------------------------ *)
(* configurations                                                                              *)
(* ------------------------------------------------------------------------------------------ *)
(* a Config object: its _schema, its ordered _data, its _default_value_keys *)
Inductive cval :=
| VLeaf (v : pyval)
| VCfg (s : snode) (data : list (str * cval)) (dfl : list str).

Definition BOUND_METHOD : pyval := POther 1%N.

(* Config.__init__: for key, field in schema._fields.items(): field.__setdefault__(self)
     Field: _set_default_value(key, default) (no validation) ; VirtualField: pass ;
     InstanceMethodField: object.__setattr__(cfg, key, bound) ; Schema: Config(self, cfg) ;
     ConfigTypeField: config_type(cfg) *)
Fixpoint build (s : snode) {struct s} : cval :=
  match s with
  | SSchema _ fs =>
      let data :=
        (fix go (fs : list (str * snode)) : list (str * cval) :=
           match fs with
           | [] => []
           | (key, f) :: r =>
               match f with
               | SLeaf (KVirtual _ _) _ => go r
               | SLeaf KMethod _ => go r
               | SLeaf _ d => (key, VLeaf d) :: go r
               | SCfgT t => (key, build t) :: go r
               | SSchema _ _ => (key, build f) :: go r
               end
           end) fs in
      VCfg s data (map fst data)
  | _ => VLeaf PNone
  end.

(* Config._get_value: field = self._get_field(key); no field (non-dynamic schema): AttributeError;
   field.__getval__(self): VirtualField -> getter(cfg); every other class -> cfg._data[key] (KeyError) *)
Definition get_value (c : cval) (key : str) : res cval :=
  match c with
  | VLeaf _ => Unmodelled
  | VCfg s data _ =>
      match field_of s key with
      | None => Err EAttribute
      | Some (SLeaf (KVirtual v _) _) => Ok (VLeaf v)
      | Some _ => match assoc str_eqb key data with
                  | Some x => Ok x
                  | None => Err EKey
                  end
      end
  end.

(* Config.__getitem__: value = self._get_value(key); return value[subkey] if subkey else value
   (indexing something that is not a configuration: outside the model) *)
Fixpoint getitem_k (c : cval) (k : str) (rest : list str) {struct rest} : res cval :=
  match get_value c k with
  | Ok v => match rest with
            | [] => Ok v
            | k' :: r => match v with
                         | VCfg _ _ _ => getitem_k v k' r
                         | VLeaf _ => Unmodelled
                         end
            end
  | Err e => Err e
  | Unmodelled => Unmodelled
  end.

(* attribute access config.key: an instance method lives in the instance __dict__ (found before
   __getattr__ is consulted); everything else goes through __getattr__ -> _get_value.
   Keys that are attributes of the Config class itself or start with '_' are outside the model. *)
Definition getattr1 (c : cval) (key : str) : res cval :=
  match c with
  | VLeaf _ => Unmodelled
  | VCfg s _ _ =>
      match field_of s key with
      | Some (SLeaf KMethod _) => Ok (VLeaf BOUND_METHOD)
      | _ => get_value c key
      end
  end.

(* getattr(getattr(getattr(c, k1), k2), ...) *)
Fixpoint getattr_chain (c : cval) (k : str) (rest : list str) {struct rest} : res cval :=
  match getattr1 c k with
  | Ok v => match rest with
            | [] => Ok v
            | k' :: r => getattr_chain v k' r
            end
  | Err e => Err e
  | Unmodelled => Unmodelled
  end.

(* Config.__contains__: if subkey: cfg = self._data.get(key); isinstance(cfg, Config) and subkey in cfg
                         else: key in self._data *)
Fixpoint mem_k (c : cval) (k : str) (rest : list str) {struct rest} : bool :=
  match c with
  | VLeaf _ => false
  | VCfg _ data _ =>
      match rest with
      | [] => assoc_mem str_eqb k data
      | k' :: r => match assoc str_eqb k data with
                   | Some (VCfg s d f) => mem_k (VCfg s d f) k' r
                   | _ => false
                   end
      end
  end.

(* support.is_value_defined: path, _, key = key.rpartition("."); if path: config = config[path];
   key not in config._default_value_keys *)
Fixpoint is_defined_k (c : cval) (k : str) (rest : list str) {struct rest} : res bool :=
  match rest with
  | [] => match c with
          | VCfg _ _ dfl => Ok (negb (existsb (str_eqb k) dfl))
          | VLeaf _ => Unmodelled
          end
  | k' :: r => match get_value c k with
               | Ok v => is_defined_k v k' r
               | Err e => Err e
               | Unmodelled => Unmodelled
               end
  end.

(* ---- validation of the value classes that reach these fields here (None, bool, int, float, str) ---- *)
Inductive vres := VOk (v : pyval) | VBad | VUnm.

Definition TRUE_VALUES : list str := [sa "t"; sa "true"; sa "1"; sa "on"; sa "yes"; sa "y"].
Definition FALSE_VALUES : list str := [sa "f"; sa "false"; sa "0"; sa "off"; sa "no"; sa "n"].
Definition str_in (s : str) (l : list str) : bool := existsb (str_eqb s) l.
Definition nonempty_l (s : str) : bool := match s with [] => false | _ => true end.

Definition in_bounds (lo hi : option Z) (z : Z) : bool :=
  match lo with Some a => a <=? z | None => true end &&
  match hi with Some b => z <=? b | None => true end.

(* NumberField: `if self.min is not None and not num >= self.min: raise`, same for max (NaN fails both) *)
Definition float_in_bounds (lo hi : option spec_float) (f : spec_float) : bool :=
  match lo with Some a => SFleb a f | None => true end &&
  match hi with Some b => SFleb f b | None => true end.

(* the regular expressions used with StringField(regex=..) here, matched as re.match does (anchored at the
   start; \Z = very end):  id 0 = one or more of a-z up to the very end; id 1 = a-z followed by any of a-z 0-9 _ - up to the very end *)
Definition is_lower_c (c : N) : bool := ((97 <=? c) && (c <=? 122))%N.
Definition re_match (id : N) (s : str) : bool :=
  match id with
  | 0%N => nonempty_l s && forallb is_lower_c s
  | _ => match s with
         | c :: r => is_lower_c c && forallb (fun x => is_lower_c x || is_digit x || (x =? 95)%N || (x =? 45)%N) r
         | [] => false
         end
  end.

(* StringField._validate on a str: strip, THEN case (the order of the code), length bounds, regex, choices *)
Definition validate_str (o : stropts) (s : str) : vres :=
  if all_ascii s then
    let s1 := match so_strip o with
              | None => s
              | Some None => strip_ws s
              | Some (Some ch) => strip_chars ch s
              end in
    let s2 := match so_case o with
              | None => s1
              | Some true => lower s1
              | Some false => upper s1
              end in
    let n := Z.of_nat (length s2) in
    if match so_min o with Some a => n <? a | None => false end then VBad
    else if match so_max o with Some b => b <? n | None => false end then VBad
    else if match so_regex o with Some id => negb (re_match id s2) | None => false end then VBad
    else if match so_choices o with [] => false | ch => negb (str_in s2 ch) end then VBad
    else VOk (PStr s2)
  else VUnm.

Section Validate.
  (* Python's float(str) is library behaviour: a table supplied with each case
     (None: not in the table; Some None: ValueError; Some (Some f): the parsed float) *)
  Variable float_of_str : str -> option (option spec_float).

  (* Field.validate: `if value is None: return value` (required=False everywhere here), then the
     subclass _validate *)
  Definition validate (k : leafkind) (x : pyval) : vres :=
    match x with
    | PNone => VOk PNone
    | _ =>
      match k with
      | KStr o => match x with PStr s => validate_str o s | _ => VBad end
      | KInt lo hi =>
          match x with
          | PInt z => if in_bounds lo hi z then VOk (PInt z) else VBad
          | PStr s => if all_ascii s
                      then match parse_int s with
                           | Some z => if in_bounds lo hi z then VOk (PInt z) else VBad
                           | None => VBad
                           end
                      else VUnm
          | PFloat _ => VUnm
          | _ => VBad
          end
      | KFloat lo hi =>
          match x with
          | PFloat f => if float_in_bounds lo hi f then VOk (PFloat f) else VBad
          | PStr s => match float_of_str s with
                      | None => VUnm
                      | Some None => VBad
                      | Some (Some f) => if float_in_bounds lo hi f then VOk (PFloat f) else VBad
                      end
          | PInt _ => VUnm
          | _ => VBad
          end
      | KBool =>
          match x with
          | PBool b => VOk (PBool b)
          | PInt z => VOk (PBool (negb (z =? 0)))
          | PFloat _ => VUnm
          | PStr s => if all_ascii s
                      then if str_in (lower s) TRUE_VALUES then VOk (PBool true)
                           else if str_in (lower s) FALSE_VALUES then VOk (PBool false)
                           else VBad
                      else VUnm
          | _ => VBad
          end
      | KAny => VOk x
      | KOther => VUnm
      | KVirtual _ _ => VOk x
      | KMethod => VOk x
      end
    end.

  (* Config._set_value.  Returns the (possibly changed) configuration and the outcome.
       field missing (non-dynamic): AttributeError
       Field: value = field.validate(..) [any exception -> ValidationError]; field.__setval__(..)
              [VirtualField without setter / InstanceMethodField: TypeError("field is readonly"), raised
               outside the try and therefore not wrapped]; _default_value_keys.discard(key)
       Schema / ConfigTypeField: Config object or map accepted (not reachable from a command line: a
              map is outside the model), anything else ValidationError *)
  Definition remove_key (k : str) (l : list str) : list str := filter (fun x => negb (str_eqb k x)) l.

  Definition set_value (c : cval) (key : str) (x : pyval) : cval * res pyval :=
    match c with
    | VLeaf _ => (c, Unmodelled)
    | VCfg s data dfl =>
        match field_of s key with
        | None => (c, Err EAttribute)
        | Some (SLeaf kind _) =>
            match validate kind x with
            | VBad => (c, Err (EValidation []))
            | VUnm => (c, Unmodelled)
            | VOk v =>
                match kind with
                | KMethod => (c, Err EType)
                | KVirtual _ false => (c, Err EType)
                | KVirtual _ true => (c, Ok v)
                | _ => (VCfg s (assoc_set str_eqb key (VLeaf v) data) (remove_key key dfl), Ok v)
                end
            end
        | Some _ => match x with
                    | PDict _ _ => (c, Unmodelled)
                    | _ => (c, Err (EValidation []))
                    end
        end
    end.

  (* the sub-configuration object reached through `key` is mutated in place: in a tree, written back *)
  Definition put (c : cval) (k : str) (sub : cval) : cval :=
    match c with
    | VCfg s data dfl => VCfg s (assoc_set str_eqb k sub data) dfl
    | VLeaf _ => c
    end.

  (* Config.__setitem__: if subkey: return self._get_value(key).__setitem__(subkey, value)
                          return self._set_value(key, value) *)
  Fixpoint setitem_k (c : cval) (k : str) (rest : list str) (x : pyval) {struct rest} : cval * res pyval :=
    match rest with
    | [] => set_value c k x
    | k' :: r =>
        match get_value c k with
        | Ok (VCfg s d f) =>
            match setitem_k (VCfg s d f) k' r x with
            | (sub', o) => (put c k sub', o)
            end
        | Ok (VLeaf _) => (c, Unmodelled)
        | Err e => (c, Err e)
        | Unmodelled => (c, Unmodelled)
        end
    end.

  (* setattr(getattr(getattr(c, k1), ...), kn, x): Config.__setattr__ -> _set_value *)
  Fixpoint setattr_chain (c : cval) (k : str) (rest : list str) (x : pyval) {struct rest} : cval * res pyval :=
    match rest with
    | [] => set_value c k x
    | k' :: r =>
        match getattr1 c k with
        | Ok (VCfg s d f) =>
            match setattr_chain (VCfg s d f) k' r x with
            | (sub', o) => (put c k sub', o)
            end
        | Ok (VLeaf _) => (c, Unmodelled)
        | Err e => (c, Err e)
        | Unmodelled => (c, Unmodelled)
        end
    end.

  (* cmdline_args_override: for key, value in vars(args).items():
                                if key not in ignore and value is not None: config.__setitem__(key, value)
     an exception aborts the loop; what was assigned before stays assigned *)
  Definition is_none (v : pyval) : bool := match v with PNone => true | _ => false end.
  Definition skipped (ignore : list str) (key : str) (v : pyval) : bool := str_in key ignore || is_none v.

  Fixpoint override (c : cval) (args : list (str * pyval)) (ignore : list str) {struct args} : cval * res unit :=
    match args with
    | [] => (c, Ok tt)
    | (key, v) :: r =>
        if skipped ignore key v then override c r ignore
        else match path_keys key with
             | [] => (c, Unmodelled)
             | k :: rest =>
                 match setitem_k c k rest v with
                 | (c', Ok _) => override c' r ignore
                 | (c', Err e) => (c', Err e)
                 | (c', Unmodelled) => (c', Unmodelled)
                 end
             end
    end.
End Validate.

(* dotted-string front ends *)
Definition on_path {A} (p : str) (dflt : A) (f : str -> list str -> A) : A :=
  match path_keys p with [] => dflt | k :: rest => f k rest end.
Definition getitem (c : cval) (p : str) : res cval := on_path p Unmodelled (getitem_k c).
Definition getattr_path (c : cval) (p : str) : res cval := on_path p Unmodelled (getattr_chain c).
Definition mem (c : cval) (p : str) : bool := on_path p false (mem_k c).
Definition is_defined (c : cval) (p : str) : res bool := on_path p Unmodelled (is_defined_k c).
Definition setitem fos (c : cval) (p : str) (x : pyval) : cval * res pyval :=
  on_path p (c, Unmodelled) (fun k rest => setitem_k fos c k rest x).
Definition setattr_path fos (c : cval) (p : str) (x : pyval) : cval * res pyval :=
  on_path p (c, Unmodelled) (fun k rest => setattr_chain fos c k rest x).

(* ------------------------------------------------------------------------------------------ *)
(* generate_argparse_parser                                                                    *)
(* ------------------------------------------------------------------------------------------ *)
Inductive oaction := AStore | AStoreTrue | AStoreFalse.
(* one argparse action: its single option string, dest, action class, default *)
Record opt := mkopt { o_string : str; o_dest : str; o_action : oaction; o_default : pyval }.

(* name.replace(".", "-").replace("_", "-").lower()   (ASCII keys) *)
Definition opt_char (c : N) : N := lower_c (if ((c =? 46) || (c =? 95))%N then DASH else c).
Definition opt_name (name : str) : str := DASH :: DASH :: map opt_char name.
Definition no_name (name : str) : str := sa "--no-" ++ map opt_char name.

(* `if not isinstance(field, Field): continue` (Schema, ConfigTypeField);
   storage_type in (str, float, int): add_argument(arg, action="store", dest=name) [argparse default None];
   storage_type is bool: add_argument(arg, dest=name, action="store_true", default=None)
                         add_argument(off_arg, dest=name, action="store_false", default=None) *)
Definition opts_of (name : str) (n : snode) : list opt :=
  match n with
  | SLeaf (KStr _) _ | SLeaf (KInt _ _) _ | SLeaf (KFloat _ _) _ => [mkopt (opt_name name) name AStore PNone]
  | SLeaf KBool _ => [mkopt (opt_name name) name AStoreTrue PNone; mkopt (no_name name) name AStoreFalse PNone]
  | _ => []
  end.
Fixpoint option_table_of (l : list (str * fld)) : list opt :=
  match l with
  | [] => []
  | (name, f) :: r => opts_of name (f_node f) ++ option_table_of r
  end.
Definition option_table_in (chain : list str) (s : snode) : list opt := option_table_of (gaf chain s).
Definition option_table (s : snode) : list opt := option_table_in [] s.

(* ------------------------------------------------------------------------------------------ *)
(* ArgumentParser.parse_args for exact long options of such a table (a model of library code:   *)
(* assumed, sampled by the `paths` stream against the real parser)                             *)
(* ------------------------------------------------------------------------------------------ *)
Fixpoint find_opt (t : str) (tbl : list opt) : option opt :=
  match tbl with
  | [] => None
  | o :: r => if str_eqb t (o_string o) then Some o else find_opt t r
  end.

(* namespace defaults: for action in _actions: if not hasattr(ns, dest): setattr(ns, dest, default) *)
Fixpoint init_ns (tbl : list opt) : list (str * pyval) :=
  match tbl with
  | [] => []
  | o :: r => let rest := init_ns r in
              (o_dest o, o_default o) :: filter (fun kv => negb (str_eqb (o_dest o) (fst kv))) rest
  end.

Definition starts_dash (t : str) : bool := match t with c :: _ => (c =? DASH)%N | [] => false end.

(* "--opt=value": option string and explicit argument *)
Fixpoint split_eq (acc t : str) : option (str * str) :=
  match t with
  | [] => None
  | c :: r => if (c =? 61)%N then Some (rev acc, r) else split_eq (c :: acc) r
  end.

Definition SYSTEM_EXIT : errk := EOtherExn.

Fixpoint parse_go (tbl : list opt) (ns : list (str * pyval)) (argv : list str) {struct argv}
  : res (list (str * pyval)) :=
  match argv with
  | [] => Ok ns
  | t :: r =>
      match find_opt t tbl with
      | Some o =>
          match o_action o with
          | AStoreTrue => parse_go tbl (assoc_set str_eqb (o_dest o) (PBool true) ns) r
          | AStoreFalse => parse_go tbl (assoc_set str_eqb (o_dest o) (PBool false) ns) r
          | AStore =>
              match r with
              | [] => Err SYSTEM_EXIT                       (* expected one argument *)
              | v :: r' =>
                  if starts_dash v
                  then match find_opt v tbl with
                       | Some _ => Err SYSTEM_EXIT          (* the next token is an option *)
                       | None => Unmodelled                 (* negative numbers, prefixes, "--" ... *)
                       end
                  else parse_go tbl (assoc_set str_eqb (o_dest o) (PStr v) ns) r'
              end
          end
      | None =>
          match split_eq [] t with
          | Some (name, v) =>
              match find_opt name tbl with
              | Some o =>
                  match o_action o with
                  | AStore => parse_go tbl (assoc_set str_eqb (o_dest o) (PStr v) ns) r
                  | _ => Err SYSTEM_EXIT                    (* ignored explicit argument *)
                  end
              | None => Unmodelled
              end
          | None => Unmodelled
          end
      end
  end.

Definition parse (tbl : list opt) (argv : list str) : res (list (str * pyval)) := parse_go tbl (init_ns tbl) argv.

(* the options a command line supplies: the destinations whose value is not None after parsing *)
Definition supplied (ns : list (str * pyval)) : list str :=
  map fst (filter (fun kv => negb (is_none (snd kv))) ns).

(* ------------------------------------------------------------------------------------------ *)
(* known-finding regions                                                                       *)
(* ------------------------------------------------------------------------------------------ *)
(* F40: the schema handed to the enumeration has a key of its own *)
Definition known_F40 (s : snode) : bool := nonempty (own_key_of s).
(* F27: virtual or instance-method field *)
Definition known_F27 (f : fld) : bool :=
  match f_node f with
  | SLeaf (KVirtual _ _) _ => true
  | SLeaf KMethod _ => true
  | _ => false
  end.

(* ------------------------------------------------------------------------------------------ *)
(* stream `paths`: observation of one case                                                     *)
(* ------------------------------------------------------------------------------------------ *)
Definition kind_tag (n : snode) : pyval :=
  match n with
  | SLeaf (KStr _) _ => o_str "str"
  | SLeaf (KInt _ _) _ => o_str "int"
  | SLeaf (KFloat _ _) _ => o_str "float"
  | SLeaf KBool _ => o_str "bool"
  | SLeaf KAny _ => o_str "any"
  | SLeaf KOther _ => o_str "other"
  | SLeaf (KVirtual _ _) _ => o_str "virtual"
  | SLeaf KMethod _ => o_str "method"
  | SCfgT _ => o_str "cfgtype"
  | SSchema _ _ => o_str "schema"
  end.

Fixpoint o_cval (c : cval) : pyval :=
  match c with
  | VLeaf v => v
  | VCfg _ data _ =>
      PDict 0 ((fix go (d : list (str * cval)) : list (pyval * pyval) :=
                  match d with
                  | [] => []
                  | (k, v) :: r => (PStr k, o_cval v) :: go r
                  end) data)
  end.

Definition o_err (e : errk) : pyval :=
  match e with
  | EValidation _ => PTuple [o_str "err"; o_str "validation"]
  | EAttribute => PTuple [o_str "err"; o_str "attribute"]
  | EKey => PTuple [o_str "err"; o_str "key"]
  | EType => PTuple [o_str "err"; o_str "type"]
  | EOtherExn => PTuple [o_str "err"; o_str "exit"]
  | _ => PTuple [o_str "err"; o_str "other"]
  end.
Definition o_rc (r : res cval) : pyval :=
  match r with
  | Ok v => PTuple [o_str "ok"; o_cval v]
  | Err e => o_err e
  | Unmodelled => o_str "unmodelled"
  end.
Definition o_rv (r : res pyval) : pyval :=
  match r with
  | Ok v => PTuple [o_str "ok"; v]
  | Err e => o_err e
  | Unmodelled => o_str "unmodelled"
  end.
Definition o_ro (r : res pyval) : pyval :=
  match r with
  | Ok _ => o_str "ok"
  | Err e => o_err e
  | Unmodelled => o_str "unmodelled"
  end.
Definition o_rb (r : res bool) : pyval :=
  match r with
  | Ok b => PBool b
  | Err e => o_err e
  | Unmodelled => o_str "unmodelled"
  end.

Definition fld_same (f g : fld) : bool :=
  list_eqb str_eqb (f_chain f) (f_chain g) && str_eqb (f_key f) (f_key g).

(* lookup of a path, seen against the enumerated field f (None: a path that was not enumerated) *)
Definition o_lookup (chain : list str) (s : snode) (p : str) (f : option fld) : pyval :=
  match lookup_in chain s p with
  | LField g => PTuple [o_str "field"; PStr (ref_path g); kind_tag (f_node g);
                        match f with Some f' => PBool (fld_same f' g) | None => PNone end]
  | LCreated => PTuple [o_str "created"]
  | LNotSchema => PTuple [o_str "err"; o_str "type"]
  end.

Definition o_action_tag (a : oaction) : pyval :=
  match a with AStore => o_str "store" | AStoreTrue => o_str "true" | AStoreFalse => o_str "false" end.
Definition o_opt_row (o : opt) : pyval :=
  PTuple [PStr (o_string o); PStr (o_dest o); o_action_tag (o_action o); o_default o].

Definition o_ns (ns : list (str * pyval)) : pyval := PList 0 (map (fun kv => PTuple [PStr (fst kv); snd kv]) ns).

Fixpoint ftab_fun (t : list (str * option spec_float)) (s : str) : option (option spec_float) :=
  match t with
  | [] => None
  | (k, v) :: r => if str_eqb k s then Some v else ftab_fun r s
  end.

(* values and default marks of every enumerated path *)
Definition o_state (c : cval) (paths : list str) : pyval :=
  PList 0 (map (fun p => PTuple [o_rc (getitem c p); o_rb (is_defined c p)]) paths).

(* the prior history: each (path, value) assigned once by item assignment on one configuration and by
   chained attribute assignment on a second one *)
Fixpoint run_sets fos (c1 c2 : cval) (ops : list (str * pyval)) : cval * cval * list pyval :=
  match ops with
  | [] => (c1, c2, [])
  | (p, x) :: r =>
      match setitem fos c1 p x, setattr_path fos c2 p x with
      | (c1', o1), (c2', o2) =>
          match run_sets fos c1' c2' r with
          | (a, b, l) => (a, b, PTuple [o_ro o1; o_ro o2] :: l)
          end
      end
  end.

Record pcase := mkcase {
  pc_chain : list str;                        (* own keys of the schemas above the one handed in *)
  pc_schema : snode;                          (* the schema handed to get_all_fields / the parser / called *)
  pc_ftab : list (str * option spec_float);   (* float(str) table *)
  pc_extra : list str;                        (* further paths to look up / read (not enumerated ones) *)
  pc_sets : list (str * pyval);               (* prior history *)
  pc_argv : option (list str);                (* None: a hand-made namespace is used instead *)
  pc_ns : list (str * pyval);                 (* the hand-made namespace *)
  pc_ignore : list str;
  pc_reserved : list str                      (* keys of this schema that are public attributes of the Config class:
                                                 `config.save` is the method, not the field -- chained attribute
                                                 access through such a key is outside the model and observed as a tag *)
}.

Definition o_getattr (reserved : list str) (c0 : cval) (p : str) : pyval :=
  if existsb (fun k => str_in k reserved) (path_keys p) then o_str "reserved" else o_rc (getattr_path c0 p).

Definition run_paths (c : pcase) : pyval :=
  let chain := pc_chain c in
  let s := pc_schema c in
  let fos := ftab_fun (pc_ftab c) in
  let en := gaf chain s in
  let paths := map fst en in
  let c0 := build s in
  let o_enum := PList 0 (map (fun pf => PTuple [PStr (fst pf); kind_tag (f_node (snd pf))]) en) in
  let o_names :=
    PList 0 (map (fun pf => PTuple [o_lookup chain s (fst pf) (Some (snd pf));
                                    PStr (ref_path (snd pf));
                                    PBool (mem c0 (fst pf));
                                    o_rc (getitem c0 (fst pf));
                                    o_getattr (pc_reserved c) c0 (fst pf)]) en) in
  let o_extra :=
    PList 0 (map (fun p => PTuple [o_lookup chain s p None; PBool (mem c0 p);
                                   o_rc (getitem c0 p); o_getattr (pc_reserved c) c0 p]) (pc_extra c)) in
  let tbl := option_table_in chain s in
  let o_tbl := PList 0 (map o_opt_row tbl) in
  match run_sets fos c0 c0 (pc_sets c) with
  | (c1, c2, outs) =>
      let before := o_state c1 paths in
      let before2 := o_state c2 paths in
      let nsr := match pc_argv c with Some argv => parse tbl argv | None => Ok (pc_ns c) end in
      match nsr with
      | Ok ns =>
          match override fos c1 ns (pc_ignore c) with
          | (c1', o) =>
              PTuple [o_enum; o_names; o_extra; o_tbl; PList 0 outs; before; before2;
                      PTuple [o_str "ok"; o_ns ns];
                      match o with Ok _ => o_str "ok" | Err e => o_err e | Unmodelled => o_str "unmodelled" end;
                      o_state c1' paths]
          end
      | Err e => PTuple [o_enum; o_names; o_extra; o_tbl; PList 0 outs; before; before2; o_err e; PNone; PNone]
      | Unmodelled => o_str "unmodelled"
      end
  end.
