(* Formats.v — the file formats of cincoconfig/formats/*.py and the ConfigFormat registry (core.py).
   XML has the only codec written in the repository (_to_element / _from_element with a `type`
   attribute per element); json / yaml / bson / pickle are wrappers over library codecs that add
   option handling (JSON pretty, YAML root_key).  Definitions only. *)
From Coq Require Import ZArith NArith String List Bool SpecFloat.
From Cinco Require Import Base Str.
Import ListNotations.
Open Scope Z_scope.

(* ---- plain-data trees: what Config.to_tree produces and a format must carry ---- *)
Inductive pdata :=
| VNull
| VBool (b : bool)
| VInt (z : Z)
| VFloat (f : spec_float)
| VStr (s : str)
| VList (l : list pdata)
| VMap (m : list (str * pdata)).     (* insertion ordered; keys are str *)

(* binary64 values: canonical SpecFloat representations with prec 53, emax 1024 *)
Definition valid_b64 (f : spec_float) : bool := valid_binary 53 1024 f.

Fixpoint o_pdata (v : pdata) : pyval :=
  match v with
  | VNull => PNone
  | VBool b => PBool b
  | VInt z => PInt z
  | VFloat f => PFloat f
  | VStr s => PStr s
  | VList l => PList 0 (map o_pdata l)
  | VMap m => PDict 0 ((fix go (m : list (str * pdata)) : list (pyval * pyval) :=
                          match m with [] => [] | (k, x) :: r => (PStr k, o_pdata x) :: go r end) m)
  end.

(* Python dict equality ignores order: normal form = every map sorted by key (keys are distinct) *)
Fixpoint insert_key (kv : str * pdata) (l : list (str * pdata)) : list (str * pdata) :=
  match l with
  | [] => [kv]
  | h :: r => if str_ltb (fst kv) (fst h) then kv :: h :: r else h :: insert_key kv r
  end.
Fixpoint sort_keys (v : pdata) : pdata :=
  match v with
  | VList l => VList (map sort_keys l)
  | VMap m => VMap ((fix go (m : list (str * pdata)) : list (str * pdata) :=
                       match m with [] => [] | (k, x) :: r => insert_key (k, sort_keys x) (go r) end) m)
  | _ => v
  end.
Definition py_eq (a b : pdata) : Prop := sort_keys a = sort_keys b.     (* Python == on plain data *)

(* ---- abstract ElementTree elements: tag, attrib, text, children (tails are not used by the code) ---- *)
Inductive elem := Elem (tag : str) (attrs : list (str * str)) (text : option str) (children : list elem).
Definition e_tag (e : elem) : str := match e with Elem t _ _ _ => t end.
Definition e_attrs (e : elem) := match e with Elem _ a _ _ => a end.
Definition e_text (e : elem) : option str := match e with Elem _ _ t _ => t end.
Definition e_children (e : elem) : list elem := match e with Elem _ _ _ c => c end.
Definition text_or_empty (t : option str) : str := match t with Some s => s | None => [] end.   (* ele.text or "" *)

Fixpoint o_elem (e : elem) : pyval :=
  match e with
  | Elem tag attrs text children =>
      PTuple [PStr tag;
              PDict 0 (map (fun kv => (PStr (fst kv), PStr (snd kv))) attrs);
              match text with Some s => PStr s | None => PNone end;
              PList 0 (map o_elem children)]
  end.

Definition ty_attr (s : string) : list (str * str) := [(sa "type", sa s)].
(* BoolField.TRUE_VALUES / FALSE_VALUES (fields/bool_field.py:20-22) *)
Definition true_values : list str := map sa ["t"; "true"; "1"; "on"; "yes"; "y"]%string.
Definition false_values : list str := map sa ["f"; "false"; "0"; "off"; "no"; "n"]%string.
Definition str_in (s : str) (l : list str) : bool := existsb (str_eqb s) l.

(* int(text) is modelled for ASCII / whitespace text (Str.parse_int); 670 non-ASCII digits are
   accepted by CPython too: such text is outside the model *)
Definition int_text_modelled (s : str) : bool := forallb (fun c => is_ascii c || is_num_space c) s.

Section Xml.
  (* str(float) / float(str) of the interpreter *)
  Variable str_of_float : spec_float -> str.
  Variable float_of_str : str -> option spec_float.      (* None = ValueError *)

  (* XmlConfigFormat._to_element (xml.py:49-84).  The isinstance cascade tests str, bool, int, float,
     None, list, dict in this order; bool before int matters because True is an int in Python: here
     VBool and VInt are different constructors and the harness maps True/False to VBool, so a cascade
     testing int first shows up as a disagreement on the element's type attribute. *)
  Fixpoint to_element (k : str) (v : pdata) {struct v} : elem :=
    match v with
    | VStr s => Elem k (ty_attr "str") (Some s) []
    | VBool b => Elem k (ty_attr "bool") (Some (if b then sa "true" else sa "false")) []
    | VInt z => Elem k (ty_attr "int") (Some (str_of_Z z)) []
    | VFloat f => Elem k (ty_attr "float") (Some (str_of_float f)) []
    | VNull => Elem k (ty_attr "none") None []
    | VList l => Elem k (ty_attr "list") None (map (to_element (sa "item")) l)
    | VMap m => Elem k (ty_attr "dict") None
                  ((fix go (m : list (str * pdata)) : list elem :=
                      match m with [] => [] | (k', x) :: r => to_element k' x :: go r end) m)
    end.

  (* XmlConfigFormat._from_element (xml.py:86-149).  `forced` is the py_type argument. *)
  Fixpoint from_element (forced : option str) (e : elem) {struct e} : res pdata :=
    match e with
    | Elem tag attrs text children =>
        let py_type :=                                   (* py_type or ele.attrib.get("type") *)
          match forced with
          | Some (c :: r) => Some (c :: r)
          | _ => assoc str_eqb (sa "type") attrs
          end in
        let txt := text_or_empty text in                 (* ele.text or "" *)
        match py_type with
        | None => Ok (VStr txt)
        | Some ty =>
            if str_eqb ty (sa "str") then Ok (VStr txt)
            else if str_eqb ty (sa "bool") then
              if str_in (lower txt) true_values then Ok (VBool true)
              else if str_in (lower txt) false_values then Ok (VBool false)
              else Ok (VStr txt)
            else if str_eqb ty (sa "int") then
              if int_text_modelled txt
              then match parse_int txt with Some z => Ok (VInt z) | None => Ok (VStr txt) end
              else Unmodelled
            else if str_eqb ty (sa "float") then
              match float_of_str txt with Some f => Ok (VFloat f) | None => Ok (VStr txt) end
            else if str_eqb ty (sa "none") then Ok VNull
            else if str_eqb ty (sa "list") then
              match (fix go (cs : list elem) : res (list pdata) :=
                       match cs with
                       | [] => Ok []
                       | c :: r =>
                           match from_element None c with
                           | Ok x => match go r with Ok xs => Ok (x :: xs) | Err e => Err e | Unmodelled => Unmodelled end
                           | Err e => Err e
                           | Unmodelled => Unmodelled
                           end
                       end) children with
              | Ok l => Ok (VList l) | Err e => Err e | Unmodelled => Unmodelled
              end
            else if str_eqb ty (sa "dict") then
              (* value = {}; for sub in ele: value[sub.tag] = item *)
              match (fix go (acc : list (str * pdata)) (cs : list elem) : res (list (str * pdata)) :=
                       match cs with
                       | [] => Ok acc
                       | c :: r =>
                           match from_element None c with
                           | Ok x => go (assoc_set str_eqb (e_tag c) x acc) r
                           | Err e => Err e
                           | Unmodelled => Unmodelled
                           end
                       end) [] children with
              | Ok m => Ok (VMap m) | Err e => Err e | Unmodelled => Unmodelled
              end
            else Ok (VStr txt)
        end
    end.

  (* the part of XmlConfigFormat.loads after ET.fromstring (xml.py:185-189) *)
  Definition xml_load_root (root_tag : str) (root : elem) : res pdata :=
    if str_eqb (e_tag root) root_tag then from_element (Some (sa "dict")) root
    else Err EValue.
End Xml.

(* ---- what ET.tostring -> minidom.toprettyxml -> ET.fromstring preserves of an element:
   tag, attributes, children in order; the text of an element without children up to None vs "";
   the text of an element with children becomes indentation ---- *)
Inductive elem_sim : elem -> elem -> Prop :=
| ESim : forall tag attrs t t' cs cs',
    Forall2 elem_sim cs cs' ->
    (cs = [] -> text_or_empty t = text_or_empty t') ->
    elem_sim (Elem tag attrs t cs) (Elem tag attrs t' cs').

(* XML 1.0 Char without carriage return (the parser turns CR LF and CR into LF) *)
Definition xml_char (c : N) : bool :=
  ((c =? 9) || (c =? 10) || ((32 <=? c) && (c <=? 55295)) || ((57344 <=? c) && (c <=? 65533))
   || ((65536 <=? c) && (c <=? 1114111)))%N.
Definition xml_text (s : str) : bool := forallb xml_char s.

Section XmlDomain.
  Variable name_ok : str -> bool.     (* the names the XML parser accepts as tags (NCNames of XML 1.0 4th ed.) *)
  Fixpoint elem_ok (e : elem) : bool :=
    match e with
    | Elem tag attrs text children =>
        name_ok tag
        && forallb (fun kv => name_ok (fst kv) && xml_text (snd kv)) attrs
        && xml_text (text_or_empty text)
        && forallb elem_ok children
    end.
  (* the XML domain of the property: strings of XML characters without CR, keys that are names *)
  Fixpoint xml_ok (v : pdata) : bool :=
    match v with
    | VStr s => xml_text s
    | VList l => forallb xml_ok l
    | VMap m => (fix go (m : list (str * pdata)) : bool :=
                   match m with [] => true | (k, x) :: r => name_ok k && xml_ok x && go r end) m
    | _ => true
    end.
End XmlDomain.

(* well-formed trees: floats are binary64 values, map keys are distinct (every Python dict) *)
Fixpoint keys_distinct (l : list str) : bool :=
  match l with [] => true | k :: r => negb (existsb (str_eqb k) r) && keys_distinct r end.
Fixpoint wf (v : pdata) : bool :=
  match v with
  | VFloat f => valid_b64 f
  | VList l => forallb wf l
  | VMap m => keys_distinct (map fst m)
              && (fix go (m : list (str * pdata)) : bool :=
                    match m with [] => true | (_, x) :: r => wf x && go r end) m
  | _ => true
  end.

(* ---- the five formats with their options ---- *)
Inductive fmt :=
| FJson (pretty : bool)
| FPickle
| FXml (root_tag : str)
| FYaml (root_key : option str)
| FBson.

Definition truthy (rk : option str) : bool := match rk with Some (_ :: _) => true | _ => false end.

Section Codecs.
  Variable B : Type.                                   (* documents (bytes) *)
  Variable str_of_float : spec_float -> str.
  Variable float_of_str : str -> option spec_float.
  (* ET.tostring + minidom.parseString + toprettyxml + encode ; decode + ET.fromstring *)
  Variable et_print : elem -> B.
  Variable et_parse : B -> option elem.
  (* yaml.dump(Dumper).encode / yaml.load(decode, Loader); json.dumps(indent).encode / json.loads;
     bson.dumps / loads; pickle.dumps / loads.  None = the library raised. *)
  Variable yaml_enc : pdata -> B.
  Variable yaml_dec : B -> option pdata.
  Variable json_enc : bool -> pdata -> B.
  Variable json_dec : B -> option pdata.
  Variable bson_enc : pdata -> B.
  Variable bson_dec : B -> option pdata.
  Variable pickle_enc : pdata -> B.
  Variable pickle_dec : B -> option pdata.

  (* XmlConfigFormat.dumps / loads *)
  Definition xml_dumps (root_tag : str) (m : list (str * pdata)) : B :=
    et_print (to_element str_of_float root_tag (VMap m)).
  Definition xml_loads (root_tag : str) (b : B) : res pdata :=
    match et_parse b with
    | None => Err EOtherExn
    | Some root => xml_load_root float_of_str root_tag root
    end.

  (* YamlConfigFormat.dumps / loads (yaml.py:70-103) *)
  Definition yaml_dumps (rk : option str) (m : list (str * pdata)) : B :=
    yaml_enc (match rk with
              | Some (c :: r) => VMap [(c :: r, VMap m)]      (* if self.root_key: tree = {root_key: tree} *)
              | _ => VMap m
              end).
  Definition yaml_loads (rk : option str) (b : B) : res pdata :=
    match yaml_dec b with
    | None => Err EOtherExn
    | Some v =>
        match rk with
        | Some (c :: r) =>                                    (* if self.root_key and self.root_key in tree *)
            match v with
            | VMap m' => match assoc str_eqb (c :: r) m' with Some x => Ok x | None => Ok v end
            | _ => Unmodelled          (* `in` on a non-map document (substring / TypeError): not modelled *)
            end
        | _ => Ok v
        end
    end.

  Definition dec_res (o : option pdata) : res pdata := match o with Some v => Ok v | None => Err EOtherExn end.

  Definition fmt_dumps (f : fmt) (m : list (str * pdata)) : B :=
    match f with
    | FJson pretty => json_enc pretty (VMap m)
    | FPickle => pickle_enc (VMap m)
    | FXml rt => xml_dumps rt m
    | FYaml rk => yaml_dumps rk m
    | FBson => bson_enc (VMap m)
    end.
  Definition fmt_loads (f : fmt) (b : B) : res pdata :=
    match f with
    | FJson _ => dec_res (json_dec b)
    | FPickle => dec_res (pickle_dec b)
    | FXml rt => xml_loads rt b
    | FYaml rk => yaml_loads rk b
    | FBson => dec_res (bson_dec b)
    end.
End Codecs.

(* ---- statement vocabulary: domains, "equal as Python values", the library record and its laws ---- *)
(* the document written under root_key rk: the tree itself, or the tree under the single key rk *)
Definition yaml_doc (rk : option str) (m : list (str * pdata)) : pdata :=
  match rk with Some (c :: r) => VMap [(c :: r, VMap m)] | _ => VMap m end.
Definition xml_domain (name_ok : str -> bool) (rt : str) (m : list (str * pdata)) : Prop :=
  name_ok rt = true /\ wf (VMap m) = true /\ xml_ok name_ok (VMap m) = true.
(* the representable domain of each format instance *)
Definition in_domain (name_ok : str -> bool) (yaml_dom json_dom bson_dom pickle_dom : pdata -> Prop)
    (f : fmt) (m : list (str * pdata)) : Prop :=
  match f with
  | FJson _ => json_dom (VMap m)
  | FPickle => pickle_dom (VMap m)
  | FXml rt => xml_domain name_ok rt m
  | FYaml rk => yaml_dom (yaml_doc rk m)
  | FBson => bson_dom (VMap m)
  end.
(* equal as Python values: dict comparison ignores key order (PyYAML returns the keys sorted) *)
Definition same_tree (v t : pdata) : Prop := v = t \/ v = sort_keys t.
Definition same_class (f g : fmt) : bool :=
  match f, g with
  | FJson _, FJson _ | FPickle, FPickle | FXml _, FXml _ | FYaml _, FYaml _ | FBson, FBson => true
  | _, _ => false
  end.

(* everything that is not code of the repository, and what is assumed about it *)
Record lib (B : Type) := Lib {
  l_str_of_float : spec_float -> str;  l_float_of_str : str -> option spec_float;
  l_et_print : elem -> B;              l_et_parse : B -> option elem;
  l_yaml_enc : pdata -> B;             l_yaml_dec : B -> option pdata;
  l_json_enc : bool -> pdata -> B;     l_json_dec : B -> option pdata;
  l_bson_enc : pdata -> B;             l_bson_dec : B -> option pdata;
  l_pickle_enc : pdata -> B;           l_pickle_dec : B -> option pdata;
  l_name_ok : str -> bool;             (* the names the XML parser accepts as tags *)
  l_yaml_dom : pdata -> Prop; l_json_dom : pdata -> Prop; l_bson_dom : pdata -> Prop; l_pickle_dom : pdata -> Prop
}.
Arguments l_str_of_float {B}. Arguments l_float_of_str {B}. Arguments l_et_print {B}. Arguments l_et_parse {B}.
Arguments l_yaml_enc {B}. Arguments l_yaml_dec {B}. Arguments l_json_enc {B}. Arguments l_json_dec {B}.
Arguments l_bson_enc {B}. Arguments l_bson_dec {B}. Arguments l_pickle_enc {B}. Arguments l_pickle_dec {B}.
Arguments l_name_ok {B}. Arguments l_yaml_dom {B}. Arguments l_json_dom {B}. Arguments l_bson_dom {B}. Arguments l_pickle_dom {B}.

Definition dumps {B} (L : lib B) : fmt -> list (str * pdata) -> B :=
  fmt_dumps B (l_str_of_float L) (l_et_print L) (l_yaml_enc L) (l_json_enc L) (l_bson_enc L) (l_pickle_enc L).
Definition loads {B} (L : lib B) : fmt -> B -> res pdata :=
  fmt_loads B (l_float_of_str L) (l_et_parse L) (l_yaml_dec L) (l_json_dec L) (l_bson_dec L) (l_pickle_dec L).
Definition representable {B} (L : lib B) : fmt -> list (str * pdata) -> Prop :=
  in_domain (l_name_ok L) (l_yaml_dom L) (l_json_dom L) (l_bson_dom L) (l_pickle_dom L).

Record lib_laws {B} (L : lib B) : Prop := {
  (* float(repr(f)) == f for every binary64 value, NaN to NaN; repr uses XML characters only *)
  law_float : forall f, valid_b64 f = true -> l_float_of_str L (l_str_of_float L f) = Some f;
  law_float_xml : forall f, xml_text (l_str_of_float L f) = true;
  law_name_item : l_name_ok L (sa "item") = true;
  law_name_type : l_name_ok L (sa "type") = true;
  (* ET.tostring -> minidom pretty printer -> ET.fromstring: structure, attributes and leaf text survive *)
  law_et : forall e, elem_ok (l_name_ok L) e = true ->
           exists e', l_et_parse L (l_et_print L e) = Some e' /\ elem_sim e e';
  (* PyYAML: dump sorts the keys of every map (sort_keys=True), load reads them back *)
  law_yaml : forall v, l_yaml_dom L v -> l_yaml_dec L (l_yaml_enc L v) = Some (sort_keys v);
  law_json : forall pretty v, l_json_dom L v -> l_json_dec L (l_json_enc L pretty v) = Some v;
  law_bson : forall v, l_bson_dom L v -> l_bson_dec L (l_bson_enc L v) = Some v;
  law_pickle : forall v, l_pickle_dom L v -> l_pickle_dec L (l_pickle_enc L v) = Some v
}.

(* ---- ConfigFormat registry (core.py: register / get / initialize_registry) ---- *)
(* class ids: the built-in classes in the order of formats/__init__.py FORMATS; others are user classes *)
Definition builtin_formats : list (str * N) :=
  [(sa "json", 0%N); (sa "pickle", 1%N); (sa "xml", 2%N); (sa "yaml", 3%N); (sa "bson", 4%N)].

Record regst := { r_tab : list (str * N); r_init : bool }.
Definition reg_fresh : regst := {| r_tab := []; r_init := false |}.
Definition reg_register (name : str) (c : N) (s : regst) : regst :=
  {| r_tab := assoc_set str_eqb name c (r_tab s); r_init := r_init s |}.
Definition reg_initialize (s : regst) : regst :=
  if r_init s then s
  else {| r_tab := fold_left (fun t nc => assoc_set str_eqb (fst nc) (snd nc) t) builtin_formats (r_tab s);
          r_init := true |}.
Definition reg_get (name : str) (s : regst) : regst * res N :=
  let s' := reg_initialize s in
  (s', match assoc str_eqb name (r_tab s') with Some c => Ok c | None => Err EKey end).

Inductive reg_op := RRegister (name : str) (c : N) | RGet (name : str) | RInit.
Definition reg_step (s : regst) (op : reg_op) : regst * pyval :=
  match op with
  | RRegister n c => (reg_register n c s, PNone)
  | RInit => (reg_initialize s, PNone)
  | RGet n => let '(s', r) := reg_get n s in
              (s', match r with Ok c => PInt (Z.of_N c) | Err e => o_errk e | Unmodelled => o_str "unmodelled" end)
  end.
Fixpoint reg_run (s : regst) (ops : list reg_op) : list pyval * regst :=
  match ops with
  | [] => ([], s)
  | op :: r => let '(s', o) := reg_step s op in let '(os, s'') := reg_run s' r in (o :: os, s'')
  end.
Definition o_table (t : list (str * N)) : pyval :=
  PList 0 (map (fun nc => PTuple [PStr (fst nc); PInt (Z.of_N (snd nc))]) t).

(* ---- stream `trees` ---- *)
(* ideal codecs for the wrapper cases: a document is the tree itself (PyYAML sorts keys on output) *)
Definition ideal_doc := (elem + pdata)%type.
Definition id_enc (v : pdata) : ideal_doc := inr v.
Definition id_dec (d : ideal_doc) : option pdata := match d with inr v => Some v | inl _ => None end.
Definition ideal_dumps (sf : spec_float -> str) :=
  fmt_dumps ideal_doc sf (fun e => inl e) (fun v => inr (sort_keys v)) (fun _ v => inr v) id_enc id_enc.
Definition ideal_loads (fs : str -> option spec_float) :=
  fmt_loads ideal_doc fs (fun d => match d with inl e => Some e | inr _ => None end) id_dec id_dec id_dec id_dec.

(* float text tables of a case, measured with repr() / float() directly *)
Definition ftab := list (spec_float * str).
Definition ptab := list (str * option spec_float).
Definition ftab_fun (t : ftab) (f : spec_float) : str :=
  match find (fun p => sf_eqb (fst p) f) t with Some p => snd p | None => [] end.
Definition ptab_fun (t : ptab) (s : str) : option spec_float :=
  match find (fun p => str_eqb (fst p) s) t with Some p => snd p | None => None end.

Inductive fcase :=
| CXml (ft : ftab) (pt : ptab) (dump_tag load_tag : str) (m : list (str * pdata)) (parsed : option elem)
    (* parsed = ET.fromstring of the real document *)
| CFromElem (pt : ptab) (forced : option str) (e : elem)
| CWrap (fd fl : fmt) (m : list (str * pdata))
| CReg (ops : list reg_op)
| CRegTable
| CProbe.

Definition o_rdata (sorted : bool) (r : res pdata) : pyval :=
  o_res (match r with
         | Ok v => Ok (o_pdata (if sorted then sort_keys v else v))
         | Err e => Err e
         | Unmodelled => Unmodelled
         end).

Definition is_yaml (f : fmt) : bool := match f with FYaml _ => true | _ => false end.

Definition run_trees (c : fcase) : pyval :=
  match c with
  | CXml ft pt dt lt m parsed =>
      PTuple [o_elem (to_element (ftab_fun ft) dt (VMap m));
              match parsed with
              | Some root => o_rdata false (xml_load_root (ptab_fun pt) lt root)
              | None => o_str "noparse"
              end]
  | CFromElem pt forced e => o_rdata false (from_element (ptab_fun pt) forced e)
  | CWrap fd fl m =>
      o_rdata (is_yaml fd || is_yaml fl)
              (ideal_loads (fun _ => None) fl (ideal_dumps (fun _ => []) fd m))
  | CReg ops => let '(os, s) := reg_run reg_fresh ops in PTuple [PList 0 os; o_table (r_tab s)]
  | CRegTable => o_table builtin_formats
  | CProbe => o_str "probe"
  end.
