(* Num.v — Python int/float conversions on Z and binary64 (SpecFloat.spec_float, canonical representation).
   Definitions only.  Facts measured on the interpreter: notes/semantics.md. *)
From Coq Require Import ZArith NArith List Bool SpecFloat.
From Cinco Require Import Base Str.
Import ListNotations.
Open Scope Z_scope.

(* float(int): round to nearest even; a result that does not fit raises OverflowError (None) *)
Definition sf_of_Z (z : Z) : spec_float := binary_normalize 53 1024 z 0 false.
Definition float_of_int (z : Z) : option spec_float :=
  match sf_of_Z z with
  | S754_infinity _ => None
  | f => Some f
  end.

(* int(float): truncation toward zero; nan -> ValueError, inf -> OverflowError (both None here) *)
Definition trunc_float (f : spec_float) : option Z :=
  match f with
  | S754_zero _ => Some 0
  | S754_finite s m e =>
      let mag := if 0 <=? e then Zpos m * 2 ^ e else Zpos m / 2 ^ (- e) in
      Some (if s then - mag else mag)
  | _ => None
  end.

Definition sf_is_nan (f : spec_float) : bool := match f with S754_nan => true | _ => false end.
Definition sf_is_inf (f : spec_float) : bool := match f with S754_infinity _ => true | _ => false end.
Definition sf_is_zero (f : spec_float) : bool := match f with S754_zero _ => true | _ => false end.

(* Python  a >= b  /  a <= b  on floats (False as soon as a NaN is involved) *)
Definition sf_ge (a b : spec_float) : bool := SFleb b a.
Definition sf_le (a b : spec_float) : bool := SFleb a b.

(* float(str) for the part of the grammar the model covers:
     decimal integer literals (same grammar as int(), sign kept on zero; overflow gives inf, no error),
     [sign] inf | infinity | nan  (case-insensitive).
   FNone = ValueError, FUnk = not covered (fractions, exponents, non-ASCII digits) *)
Inductive fparse := FVal (f : spec_float) | FNone | FUnk.
Local Open Scope N_scope.
Definition tok_inf : str := [105; 110; 102].
Definition tok_infinity : str := [105; 110; 102; 105; 110; 105; 116; 121].
Definition tok_nan : str := [110; 97; 110].
Local Close Scope N_scope.
Definition parse_float (s : str) : fparse :=
  match parse_int_sm s with
  | Some (neg, v) => FVal (binary_normalize 53 1024 (if neg then - v else v) 0 neg)
  | None =>
      let t := strip_by is_num_space s in
      let '(neg, body) := match t with
                          | 45%N :: r => (true, r)
                          | 43%N :: r => (false, r)
                          | _ => (false, t)
                          end in
      let lb := lower body in
      if str_eqb lb tok_inf || str_eqb lb tok_infinity then FVal (S754_infinity neg)
      else if str_eqb lb tok_nan then FVal S754_nan
      else if forallb (fun c => is_ascii c || is_space c) s && negb (existsb is_digit s) then FNone
      else FUnk
  end.
