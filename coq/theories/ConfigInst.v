(* ConfigInst.v — a concrete instance of the leaf fields of Config.v (IntField, StringField, BoolField,
   FeatureFlagField, AnyField with the options the config-level streams use) and the entry points the
   correspondence streams evaluate.  Definitions only. *)
From Coq Require Import ZArith NArith String List Bool.
From Cinco Require Import Base Str Config.
Import ListNotations.
Open Scope N_scope.

Inductive lkind :=
| LInt (lo hi : option Z)                           (* IntField(min, max) *)
| LStr (minlen maxlen : option nat) (lower strip : bool)   (* StringField(min_len, max_len, transform_case='lower', transform_strip=True) *)
| LBool                                             (* BoolField *)
| LFlag                                             (* FeatureFlagField *)
| LAny.                                             (* AnyField *)

Record leaf := { l_kind : lkind; l_required : bool; l_default : pyval; l_callable : bool; l_sensitive : bool;
                 l_reject : option pyval }.   (* Field(validator=...): a custom validator from the vocabulary "this value is refused" *)

(* int(str) for the strings the generators use: optional sign, ASCII digits *)
Definition ci_is_digit (c : N) : bool := (48 <=? c) && (c <=? 57).
Fixpoint ci_digits_val (s : str) (acc : Z) : Z :=
  match s with [] => acc | c :: r => ci_digits_val r (acc * 10 + Z.of_N (c - 48))%Z end.
Definition ci_int_of_str (s : str) : res Z :=
  if negb (forallb (fun c => (c <? 128) && negb (((9 <=? c) && (c <=? 13)) || ((28 <=? c) && (c <=? 32)) || (c =? 95))) s)
  then Unmodelled                                          (* whitespace, '_', other scripts: int() has rules of its own *)
  else match s with
       | 45 :: (_ :: _) as d => if forallb ci_is_digit d then Ok (- ci_digits_val d 0)%Z else Err EValue
       | 43 :: (_ :: _) as d => if forallb ci_is_digit d then Ok (ci_digits_val d 0) else Err EValue
       | _ :: _ => if forallb ci_is_digit s then Ok (ci_digits_val s 0) else Err EValue
       | [] => Err EValue
       end.

Definition in_bounds (lo hi : option Z) (z : Z) : bool :=
  (match lo with Some l => (l <=? z)%Z | None => true end) && (match hi with Some h => (z <=? h)%Z | None => true end).

(* int(x) for a finite binary float: toward zero *)
Definition float_trunc (f : SpecFloat.spec_float) : Z :=
  match f with
  | SpecFloat.S754_finite s m e =>
      let v := if (0 <=? e)%Z then (Zpos m * 2 ^ e)%Z else (Zpos m / 2 ^ (- e))%Z in
      if s then (- v)%Z else v
  | _ => 0%Z
  end.

Definition bool_true : list string := ["t"; "true"; "1"; "on"; "yes"; "y"]%string.
Definition bool_false : list string := ["f"; "false"; "0"; "off"; "no"; "n"]%string.
Definition str_in (s : str) (l : list string) : bool := existsb (fun t => str_eqb s (sa t)) l.

Definition validate_bool (x : pyval) : res pyval :=
  match x with
  | PBool b => Ok (PBool b)
  | PInt z => Ok (PBool (negb (Z.eqb z 0)))
  | PFloat (SpecFloat.S754_zero _) => Ok (PBool false)
  | PFloat _ => Ok (PBool true)
  | PStr s => if negb (all_ascii s) then Unmodelled
              else let l := lower s in
                   if str_in l bool_true then Ok (PBool true)
                   else if str_in l bool_false then Ok (PBool false) else Err EValue
  | POther _ => Unmodelled
  | _ => Err EValue
  end.

(* Field.validate: required / None, then the class's _validate *)
Definition lvalidate_kind (f : leaf) (x : pyval) : res pyval :=
  match x with
  | PNone => if l_required f then Err EValue else Ok PNone
  | _ =>
      match l_kind f with
      | LAny => Ok x
      | LBool | LFlag => validate_bool x
      | LInt lo hi =>
          match x with
          | PInt z => if in_bounds lo hi z then Ok (PInt z) else Err EValue
          | PStr s => match ci_int_of_str s with
                      | Ok z => if in_bounds lo hi z then Ok (PInt z) else Err EValue
                      | Err e => Err e
                      | Unmodelled => Unmodelled
                      end
          | PFloat fl =>                                  (* int(float): truncation; OverflowError for infinities, ValueError for NaN *)
              match fl with
              | SpecFloat.S754_nan => Err EValue
              | SpecFloat.S754_infinity _ => Err EOverflow
              | _ => let z := float_trunc fl in if in_bounds lo hi z then Ok (PInt z) else Err EValue
              end
          | POther _ => Unmodelled
          | _ => Err EValue
          end
      | LStr mn mx lw strip =>
          match x with
          | PStr s =>
              let s1 := if strip then strip_ws s else s in
              if l_required f && match s1 with [] => true | _ => false end then Err EValue
              else if lw && negb (all_ascii s1) then Unmodelled
              else
                let s2 := if lw then lower s1 else s1 in
                if match mn with Some m => (length s2 <? m)%nat | None => false end then Err EValue
                else if match mx with Some m => (m <? length s2)%nat | None => false end then Err EValue
                else Ok (PStr s2)
          | POther _ => Unmodelled
          | _ => Err EValue
          end
      end
  end.

(* ... then `if self.validator: value = self.validator(cfg, value)` (never reached for None) *)
Definition lvalidate_data (f : leaf) (x : pyval) : res pyval :=
  match lvalidate_kind f x with
  | Ok v => match x, l_reject f with
            | PNone, _ => Ok v
            | _, Some r => if pyval_eqb v r then Err EValue else Ok v
            | _, None => Ok v
            end
  | o => o
  end.
(* a Config object handed to a leaf field (Config.cfg_object): IntField "value type Config cannot be converted to int",
   StringField "value must be a string, not a Config", BoolField / FeatureFlagField "value is not a valid boolean" -- all
   ValueError raised by _validate, before any custom validator; AnyField keeps the object (outside the value model) *)
Definition lvalidate (f : leaf) (x : pyval) : res pyval :=
  if pyval_eqb x cfg_object then match l_kind f with LAny => Unmodelled | _ => Err EValue end
  else lvalidate_data f x.

Definition lto_python (f : leaf) (x : pyval) : res pyval := Ok x.
Definition lto_basic (f : leaf) (x : pyval) : res pyval := Ok x.
(* a callable default returns the constant plus the number of earlier evaluations (the harness uses a counter) *)
Definition ldefault (f : leaf) (calls : N) : pyval :=
  if l_callable f then match l_default f with PInt z => PInt (z + Z.of_N calls) | v => v end else l_default f.
Definition lflag (f : leaf) : bool := match l_kind f with LFlag => true | _ => false end.

(* schema validators of the vocabulary used by the streams: validator n fails iff the string field `key` equals `bad` *)
Definition vtable := list (N * (str * str)).
Definition vrun (vt : vtable) (n : N) (lv : list (str * pyval)) : bool :=
  match assoc N.eqb n vt with
  | Some (key, bad) => match assoc str_eqb key lv with Some (PStr s) => negb (str_eqb s bad) | _ => true end
  | None => true
  end.

(* len(str(v)) *)
Definition str_of_Z_len (z : Z) : nat :=
  match z with
  | Z0 => 1%nat
  | Zpos p => length (str_of_N (Npos p))
  | Zneg p => S (length (str_of_N (Npos p)))
  end.
Definition py_strlen (v : pyval) : option nat :=
  match v with
  | PStr s => Some (length s)
  | PInt z => Some (str_of_Z_len z)
  | PBool true => Some 4%nat
  | PBool false => Some 5%nat
  | _ => None
  end.

Notation inode := (node leaf).
Notation icfg := (cfg).

(* ---- sorting the lists of names in observations ---- *)
Fixpoint insert_str (s : str) (l : list str) : list str :=
  match l with [] => [s] | h :: r => if str_ltb s h then s :: h :: r else h :: insert_str s r end.
Definition sort_strs (l : list str) : list str := fold_right insert_str [] l.

Fixpoint o_val' (v : val) : pyval :=
  match v with
  | VLeaf x => x
  | VCfg c => o_cfg' c
  | VList l => PList 1 (map o_cfg' l)
  end
with o_cfg' (c : cfg) : pyval :=
  match c with
  | Cfg i d df dy =>
      PTuple [sort_dicts (PDict 0 ((fix go (d : list (str * val)) : list (pyval * pyval) :=
                                      match d with [] => [] | (k, v) :: r => (PStr k, o_val' v) :: go r end) d));
              PList 0 (map PStr (sort_strs df)); PList 0 (map PStr (sort_strs dy))]
  end.

Definition o_oc (o : oc) : pyval :=
  match o with
  | OOk => o_str "ok"
  | OErr e => PTuple [o_str "err"; o_errk e]
  | OErrs l => PTuple [o_str "errs"; PList 0 (map o_errk l)]
  | ONav => o_str "nav"
  | OUnm => o_str "unmodelled"
  end.

(* which configurations (by path) are the same objects as before the step *)
Definition same_ids (before after : list (str * N)) : pyval :=
  sort_dicts (PDict 0 (map (fun pi => (PStr (fst pi),
                                       PBool (match assoc str_eqb (fst pi) before with
                                              | Some j => N.eqb j (snd pi) | None => false end))) after)).

(* a constructor keyword: plain data, or a configuration object built on the side (schema, operations applied to it) *)
Inductive kwv :=
| KV (x : pyval)
| KObj (sdyn : bool) (svs : list N) (sfs : list (str * inode)) (dops : list (list pstep * cop)).

Section Run.
  Variable vt : vtable.
  Let build_val := build_val leaf lvalidate lto_python ldefault l_callable lflag (vrun vt).
  Let at_path := at_path_x leaf lvalidate lto_python ldefault l_callable lflag (vrun vt).

  (* Config(schema, **kw): keywords through _set_value on the still empty configuration, then defaults *)
  Fixpoint ctor_kw (kw : list (str * kwv)) (w : world) (c : cfg) (dynamic : bool) (vs : list N) (fs : list (str * inode))
    : world * cfg * oc :=
    match kw with
    | [] => (w, c, OOk)
    | (k, KV x) :: r =>
        match Config.set_value leaf lvalidate lto_python ldefault l_callable lflag (vrun vt) x w [] c fs dynamic k false with
        | (w1, c1, OOk) => ctor_kw r w1 c1 dynamic vs fs
        | other => other
        end
    | (k, KObj sdyn svs sfs dops) :: r =>
        match at_path [] w [] c dynamic vs fs (XObj RSet k sdyn svs sfs dops) with
        | (w1, c1, OOk) => ctor_kw r w1 c1 dynamic vs fs
        | other => other
        end
    end.
  Fixpoint ctor_defaults (fs : list (str * inode)) (kw : list (str * kwv)) (w : world) (c : cfg) : world * cfg :=
    match fs with
    | [] => (w, c)
    | (k, nd) :: r =>
        if assoc_mem str_eqb k kw then ctor_defaults r kw w c
        else let '(w1, v) := build_val w nd in
             match c with Cfg i d df dy => ctor_defaults r kw w1 (Cfg i (d ++ [(k, v)]) (df ++ [k]) dy) end
    end.
  Definition ctor (w : world) (dynamic : bool) (vs : list N) (fs : list (str * inode)) (kw : list (str * kwv)) : world * cfg * oc :=
    let c0 := Cfg (w_next w) [] [] [] in
    match ctor_kw kw {| w_next := w_next w + 1; w_calls := w_calls w |} c0 dynamic vs fs with
    | (w1, c1, OOk) => let '(w2, c2) := ctor_defaults fs kw w1 c1 in (w2, c2, OOk)
    | other => other
    end.

  Definition step_obs (root root' : cfg) (o : oc) : pyval :=
    PTuple [o_oc o; o_cfg' root'; same_ids (ids_cfg [] root) (ids_cfg [] root')].

  Fixpoint run_ops (ops : list (list pstep * xop leaf)) (w : world) (last : kept leaf) (root : cfg) (dynamic : bool) (vs : list N)
           (fs : list (str * inode)) : list pyval :=
    match ops with
    | [] => []
    | (ps, o) :: r =>
        let '(w1, last1, root', oc1) :=
          at_path_xs leaf lvalidate lto_python ldefault l_callable lflag (vrun vt) ps w last [] root dynamic vs fs o in
        step_obs root root' oc1 :: run_ops r w1 last1 root' dynamic vs fs
    end.
End Run.

(* stream `configops`: (validator table, root dynamic?, root validators, schema, constructor keywords, history) *)
Definition cocase := (vtable * bool * list N * list (str * inode) * list (str * kwv) * list (list pstep * xop leaf))%type.
Definition w0 : world := {| w_next := 0; w_calls := 0 |}.
Definition run_configops (c : cocase) : pyval :=
  let '(vt, dynamic, vs, fs, kw, ops) := c in
  match ctor vt w0 dynamic vs fs kw with
  | (w1, root, OOk) => PTuple [o_str "ok"; o_cfg' root; PList 0 (run_ops vt ops w1 None root dynamic vs fs)]
  | (_, _, o) => PTuple [o_oc o]
  end.

(* stream `mask`: render the final state with and without a mask *)
Definition o_rpy (r : res pyval) : pyval := o_res r.
Definition run_totree (c : cocase * option str) : pyval :=
  let '((vt, dynamic, vs, fs, kw, ops), mask) := c in
  match ctor vt w0 dynamic vs fs kw with
  | (w1, root, OOk) =>
      let final := (fix go (ops : list (list pstep * xop leaf)) (w : world) (last : kept leaf) (root : cfg) : cfg :=
                      match ops with
                      | [] => root
                      | (ps, o) :: r =>
                          let '(w', last', root', _) :=
                            at_path_xs leaf lvalidate lto_python ldefault l_callable lflag (vrun vt) ps w last [] root dynamic vs fs o in
                          go r w' last' root'
                      end) ops w1 None root in
      PTuple [o_rpy (to_tree leaf lto_basic l_sensitive py_strlen None fs final);
              o_rpy (to_tree leaf lto_basic l_sensitive py_strlen mask fs final)]
  | (_, _, o) => PTuple [o_oc o]
  end.
