(* Fields.v — field descriptors and the executable model of
     Field.validate (core.py: required check, then the class's _validate; no custom validator),
     Field.to_basic, Field.to_python
   for the built-in field classes of cincoconfig/fields/*.py.  Definitions only (lemmas: FieldsLemmas.v).

   What is outside /repo enters explicitly:
     * user regexes (re.match) are an ORACLE argument  pattern -> subject -> option bool  (None = the table
       has no answer = Unmodelled).  `validate` is the variant without an oracle.
     * DNS resolution, file-system and URL checks, hashing and encryption: descriptor FOpaque = Unmodelled.
   Values are `pyval`s; the tag of a PList/PDict is 0 for the builtin type and fid+1 for the ListProxy/DictProxy
   of the list/dict field with identity `fid`. *)
From Coq Require Import ZArith NArith String List Bool SpecFloat.
From Cinco Require Import Base Str Num Net Codec.
Import ListNotations.
Open Scope Z_scope.

(* ---- descriptors ---- *)
Inductive strip_opt := SNone | SWs | SChars (cs : str).     (* transform_strip: falsy | True | "chars" *)
Inductive case_opt := CNone | CLower | CUpper.              (* transform_case *)
Record sopts := mk_sopts {
  so_min : option Z; so_max : option Z;                     (* min_len / max_len *)
  so_regex : option str;                                    (* pattern text ("" is None in the code) *)
  so_choices : list str;                                    (* [] = no restriction (falsy in the code) *)
  so_case : case_opt; so_strip : strip_opt }.
Definition sopts0 : sopts := mk_sopts None None None [] CNone SNone.
Inductive benc := B64 | BHex.

Inductive field :=
| FAny (req : bool)                                                   (* Field / AnyField *)
| FStr (req : bool) (o : sopts)                                       (* StringField, LogLevelField, ApplicationModeField *)
| FInt (req : bool) (mn mx : option Z)                                (* IntField; PortField = bounds 1..65535 by default *)
| FFloat (req : bool) (mn mx : option spec_float)                     (* FloatField *)
| FBool (req : bool)                                                  (* BoolField, FeatureFlagField *)
| FIPv4 (req : bool) (o : sopts)                                      (* IPv4AddressField *)
| FNet (req : bool) (o : sopts) (minp maxp : option Z)                (* IPv4NetworkField *)
| FHost (req : bool) (o : sopts) (allow_ipv4 resolve : bool)          (* HostnameField *)
| FBytes (req : bool) (enc : benc)                                    (* BytesField *)
| FListU (req : bool)                                                 (* ListField() / ListField(AnyField()) *)
| FListT (fid : N) (req : bool) (item : field)                        (* ListField(item) *)
| FDictU (req : bool)                                                 (* DictField() *)
| FDictT (fid : N) (req : bool) (kf vf : field)                       (* DictField(k, v); a missing one is FAny false *)
| FOpaque (req : bool) (cls : N).                                     (* Filename/Url/Challenge/Secure/Include…: not modelled *)

Definition FPort (req : bool) : field := FInt req (Some 1) (Some 65535).

Definition field_req (f : field) : bool :=
  match f with
  | FAny r | FStr r _ | FInt r _ _ | FFloat r _ _ | FBool r | FIPv4 r _ | FNet r _ _ _ | FHost r _ _ _
  | FBytes r _ | FListU r | FListT _ r _ | FDictU r | FDictT _ r _ _ | FOpaque r _ => r
  end.

(* ---- the regex oracle ---- *)
Definition oracle := str -> str -> option bool.
Definition no_oracle : oracle := fun _ _ => None.
Definition table_oracle (t : list (str * str * bool)) : oracle :=
  fun p s => (fix go (t : list (str * str * bool)) : option bool :=
                match t with
                | [] => None
                | (p', s', b) :: r => if str_eqb p p' && str_eqb s s' then Some b else go r
                end) t.

(* ---- helpers ---- *)
Section MapRes.
  Context {A B : Type} (f : A -> res B).
  Fixpoint map_res (l : list A) : res (list B) :=
    match l with
    | [] => Ok []
    | a :: r => do b <- f a ;; do r' <- map_res r ;; Ok (b :: r')
    end.
End MapRes.

Definition str_mem (s : str) (l : list str) : bool := existsb (str_eqb s) l.
Definition len_z {A} (l : list A) : Z := Z.of_nat (length l).

(* code points on which str.lower()/upper() are known: ASCII (A-Z / a-z change) and the whitespace set (unchanged) *)
Definition case_known (c : N) : bool := is_ascii c || is_space c.
Definition case_modelled (s : str) : bool := forallb case_known s.

Definition apply_strip (st : strip_opt) (s : str) : str :=
  match st with SNone => s | SWs => strip_ws s | SChars cs => strip_chars cs s end.
Definition apply_case (c : case_opt) (s : str) : str :=
  match c with CNone => s | CLower => lower s | CUpper => upper s end.

(* StringField._validate (string_field.py:62-99), statement by statement *)
Definition str_validate (orc : oracle) (req : bool) (o : sopts) (x : pyval) : res str :=
  match x with
  | PStr s =>
      let s1 := apply_strip (so_strip o) s in
      if req && is_nil s1 then Err EValue
      else
        do s2 <- match so_case o with
                 | CNone => Ok s1
                 | c => if case_modelled s1 then Ok (apply_case c s1) else Unmodelled
                 end ;;
        if match so_min o with Some m => len_z s2 <? m | None => false end then Err EValue
        else if match so_max o with Some m => m <? len_z s2 | None => false end then Err EValue
        else
          do _ <- match so_regex o with
                  | None => Ok tt
                  | Some p => match orc p s2 with
                              | Some true => Ok tt
                              | Some false => Err EValue
                              | None => Unmodelled
                              end
                  end ;;
          if negb (is_nil (so_choices o)) && negb (str_mem s2 (so_choices o)) then Err EValue
          else Ok s2
  | _ => Err EValue
  end.

(* int(str) / float(str) are modelled on ASCII + whitespace text of moderate length (non-ASCII digits are accepted
   by Python; int() refuses more than 4300 digits) *)
Definition num_str_modelled (s : str) : bool :=
  forallb case_known s && (length s <=? 4000)%nat.

(* NumberField._validate with type_cls = int (number_field.py:44-74) *)
Definition int_convert (x : pyval) : res Z :=
  match x with
  | PBool _ => Err EValue
  | PInt z => Ok z
  | PFloat f => match trunc_float f with
                | Some z => Ok z
                | None => if sf_is_nan f then Err EValue else Err EOverflow
                end
  | PStr s => if num_str_modelled s
              then match parse_int s with Some z => Ok z | None => Err EValue end
              else Unmodelled
  | _ => Err EValue
  end.
Definition int_validate (mn mx : option Z) (x : pyval) : res pyval :=
  do n <- int_convert x ;;
  if match mn with Some m => negb (m <=? n) | None => false end then Err EValue
  else if match mx with Some m => negb (n <=? m) | None => false end then Err EValue
  else Ok (PInt n).

(* NumberField._validate with type_cls = float *)
Definition float_convert (x : pyval) : res spec_float :=
  match x with
  | PBool _ => Err EValue
  | PInt z => match float_of_int z with Some f => Ok f | None => Err EOverflow end
  | PFloat f => Ok f
  | PStr s => if num_str_modelled s
              then match parse_float s with FVal f => Ok f | FNone => Err EValue | FUnk => Unmodelled end
              else Unmodelled
  | _ => Err EValue
  end.
Definition float_validate (mn mx : option spec_float) (x : pyval) : res pyval :=
  do f <- float_convert x ;;
  if match mn with Some m => negb (sf_ge f m) | None => false end then Err EValue
  else if match mx with Some m => negb (sf_le f m) | None => false end then Err EValue
  else Ok (PFloat f).

(* BoolField (bool_field.py:16-42); the token tables are BoolField.TRUE_VALUES / FALSE_VALUES *)
Local Open Scope string_scope.
Definition true_tokens : list str := map sa ["t"; "true"; "1"; "on"; "yes"; "y"].
Definition false_tokens : list str := map sa ["f"; "false"; "0"; "off"; "no"; "n"].
Local Close Scope string_scope.
Definition bool_validate (x : pyval) : res pyval :=
  match x with
  | PBool b => Ok (PBool b)
  | PInt z => Ok (PBool (negb (z =? 0)))
  | PFloat f => Ok (PBool (negb (sf_is_zero f)))
  | PStr s => if all_ascii s
              then let l := lower s in
                   if str_mem l true_tokens then Ok (PBool true)
                   else if str_mem l false_tokens then Ok (PBool false)
                   else Err EValue
              else Unmodelled
  | _ => Err EValue
  end.

(* net_field.py *)
Definition ipv4_validate (orc : oracle) (req : bool) (o : sopts) (x : pyval) : res pyval :=
  do s <- str_validate orc req o x ;;
  match parse_ipv4 s with
  | Some a => Ok (PStr (print_ipv4 a))
  | None => Err EValue
  end.
(* IPv4NetworkField._validate (net_field.py:76-106): the StringField pipeline runs on the input text, the network
   is parsed and bounded; the canonical text must then pass the same pipeline UNCHANGED (F49) and is the result *)
Definition net_validate (orc : oracle) (req : bool) (o : sopts) (minp maxp : option Z) (x : pyval) : res pyval :=
  do s <- str_validate orc req o x ;;
  do ap <- parse_net s ;;
  match ap with
  | (a, p) =>
      if match minp with Some m => Z.of_N p <? m | None => false end then Err EValue
      else if match maxp with Some m => m <? Z.of_N p | None => false end then Err EValue
      else let c := print_net a p in
           do s' <- str_validate orc req o (PStr c) ;;
           if str_eqb s' c then Ok (PStr c) else Err EValue
  end.
Definition host_validate (orc : oracle) (req : bool) (o : sopts) (allow resolve : bool) (x : pyval) : res pyval :=
  do s <- str_validate orc req o x ;;
  match parse_ipv4 s with
  | Some a => if allow then Ok (PStr (print_ipv4 a)) else Err EValue
  | None =>
      if resolve then Unmodelled
      else if all_ascii s
           then (if dns_match s || netbios_match s then Ok (PStr s) else Err EValue)
           else Unmodelled     (* \w is Unicode-aware *)
  end.

(* bytes_field.py *)
Definition bytes_validate (x : pyval) : res pyval :=
  match x with
  | PStr s => match utf8_enc s with Some b => Ok (PBytes b) | None => Err EUnicode end
  | PBytes b => Ok (PBytes b)
  | _ => Err EValue
  end.
Definition bytes_to_basic (enc : benc) (v : pyval) : res pyval :=
  match v with
  | PNone => Ok PNone
  | PBytes b => Ok (PStr (match enc with B64 => b64_enc b | BHex => hex_enc b end))
  | _ => Err EType
  end.
Definition bytes_to_python (enc : benc) (v : pyval) : res pyval :=
  match v with
  | PNone => Ok PNone
  | PStr s => match enc with
              | B64 => do b <- b64_decode_py s ;; Ok (PBytes b)
              | BHex => match hex_dec s with Some b => Ok (PBytes b) | None => Err EValue end
              end
  | _ => Err EValue
  end.

(* dict([(k, v), ...]) / a dict comprehension: later pairs overwrite the value of an equal key, the first key
   object and its position stay.  Keys the model compares: None, bool, int, str, bytes (True == 1); floats
   (NaN identity, 1.0 == 1), tuples and unhashable keys are not modelled. *)
Definition key_ok (k : pyval) : bool :=
  match k with PNone | PBool _ | PInt _ | PStr _ | PBytes _ => true | _ => false end.
Definition key_eqb (a b : pyval) : bool :=
  match a, b with
  | PBool x, PInt y => (if x then 1 else 0) =? y
  | PInt x, PBool y => x =? (if y then 1 else 0)
  | _, _ => pyval_eqb a b
  end.
Fixpoint dict_build_acc (acc l : list (pyval * pyval)) : res (list (pyval * pyval)) :=
  match l with
  | [] => Ok acc
  | (k, v) :: r => if key_ok k then dict_build_acc (assoc_set key_eqb k v acc) r else Unmodelled
  end.
Definition dict_build (l : list (pyval * pyval)) : res (list (pyval * pyval)) := dict_build_acc [] l.

Section MapPair.
  Context (fk fv : pyval -> res pyval).
  Definition on_pair (kv : pyval * pyval) : res (pyval * pyval) :=
    match kv with (k, v) => do k' <- fk k ;; do v' <- fv v ;; Ok (k', v') end.
End MapPair.

(* ---- Field.validate ---- *)
Fixpoint validate_with (orc : oracle) (f : field) (x : pyval) {struct f} : res pyval :=
  match x with
  | PNone => if field_req f then Err EValue else Ok PNone      (* core.py:451-455 *)
  | _ =>
    match f with
    | FAny _ => Ok x
    | FStr req o => do s <- str_validate orc req o x ;; Ok (PStr s)
    | FInt _ mn mx => int_validate mn mx x
    | FFloat _ mn mx => float_validate mn mx x
    | FBool _ => bool_validate x
    | FIPv4 req o => ipv4_validate orc req o x
    | FNet req o mn mx => net_validate orc req o mn mx x
    | FHost req o al rs => host_validate orc req o al rs x
    | FBytes _ _ => bytes_validate x
    | FListU req =>                                             (* list_field.py:177-187 *)
        match x with
        | PList _ l => if req && is_nil l then Err EValue else Ok x
        | PTuple l => if req && is_nil l then Err EValue else Ok (PList 0%N l)
        | _ => Err EValue
        end
    | FListT fid req it =>                                      (* … and ListProxy.__init__ *)
        let go (tg : N) (l : list pyval) :=
          if req && is_nil l then Err EValue
          else if (tg =? fid + 1)%N then Ok (PList (fid + 1)%N l)          (* a proxy of this field: copied *)
          else if negb (tg =? 0)%N then Unmodelled                        (* a proxy of another field *)
          else do l' <- map_res (validate_with orc it) l ;; Ok (PList (fid + 1)%N l') in
        match x with
        | PList tg l => go tg l
        | PTuple l => go 0%N l
        | _ => Err EValue
        end
    | FDictU req =>                                             (* dict_field.py:171-184 *)
        match x with
        | PDict _ d => if req && is_nil d then Err EValue else Ok x
        | _ => Err EValue
        end
    | FDictT fid req kf vf =>                                   (* … and DictProxy.__init__ *)
        match x with
        | PDict tg d =>
            if req && is_nil d then Err EValue
            else if (tg =? fid + 1)%N then Ok (PDict (fid + 1)%N d)
            else if negb (tg =? 0)%N then Unmodelled
            else do d' <- map_res (on_pair (validate_with orc kf) (validate_with orc vf)) d ;;
                 do d'' <- dict_build d' ;;
                 Ok (PDict (fid + 1)%N d'')
        | _ => Err EValue
        end
    | FOpaque _ _ => Unmodelled
    end
  end.

Definition validate : field -> pyval -> res pyval := validate_with no_oracle.

(* ---- Field.to_basic ---- *)
Fixpoint to_basic (f : field) (v : pyval) {struct f} : res pyval :=
  match f with
  | FBytes _ enc => bytes_to_basic enc v
  | FListU _ =>
      match v with
      | PNone => Ok PNone
      | PList _ l | PTuple l => Ok (PList 0%N l)
      | _ => Unmodelled
      end
  | FListT _ _ it =>
      match v with
      | PNone => Ok PNone
      | PList _ l | PTuple l => do l' <- map_res (to_basic it) l ;; Ok (PList 0%N l')
      | _ => Unmodelled
      end
  | FDictU _ =>
      match v with
      | PNone => Ok PNone
      | PDict _ d => Ok (PDict 0%N d)
      | _ => Unmodelled
      end
  | FDictT _ _ kf vf =>
      match v with
      | PNone => Ok PNone
      | PDict _ d => do d' <- map_res (on_pair (to_basic kf) (to_basic vf)) d ;;
                     do d'' <- dict_build d' ;; Ok (PDict 0%N d'')
      | _ => Unmodelled
      end
  | FOpaque _ _ => Unmodelled
  | _ => Ok v
  end.

(* ---- Field.to_python (with the validating proxy constructors of the typed containers) ---- *)
Fixpoint to_python_with (orc : oracle) (f : field) (v : pyval) {struct f} : res pyval :=
  match f with
  | FBytes _ enc => bytes_to_python enc v
  | FListT fid _ it =>                                          (* list_field.py:207-216 *)
      match v with
      | PNone => Ok (PList (fid + 1)%N [])                      (* ListProxy(cfg, self, None) *)
      | PList _ l | PTuple l =>
          do l1 <- map_res (to_python_with orc it) l ;;
          do l2 <- map_res (validate_with orc it) l1 ;;
          Ok (PList (fid + 1)%N l2)
      | _ => Unmodelled
      end
  | FDictT fid _ kf vf =>                                       (* dict_field.py:219-233 *)
      match v with
      | PNone => Ok (PDict (fid + 1)%N [])
      | PDict _ d =>
          do d1 <- map_res (on_pair (to_python_with orc kf) (to_python_with orc vf)) d ;;
          do d2 <- dict_build d1 ;;
          do d3 <- map_res (on_pair (validate_with orc kf) (validate_with orc vf)) d2 ;;
          do d4 <- dict_build d3 ;;
          Ok (PDict (fid + 1)%N d4)
      | _ => Unmodelled
      end
  | FOpaque _ _ => Unmodelled
  | _ => Ok v
  end.
Definition to_python : field -> pyval -> res pyval := to_python_with no_oracle.

(* ---- the open finding F13: strip(chars) happens before the case transform ---- *)
Definition sopts_F13 (o : sopts) : bool :=
  match so_strip o, so_case o with
  | SChars _, CLower | SChars _, CUpper => true
  | _, _ => false
  end.
Definition known_F13 (f : field) : bool :=
  match f with
  | FStr _ o | FIPv4 _ o | FHost _ o _ _ => sopts_F13 o
  | _ => false
  end.

(* ---- the `fields` correspondence stream ---- *)
Definition o_resc (r : res pyval) : pyval :=
  match r with
  | Ok v => PTuple [o_str "ok"; v]
  | Err _ => o_str "err"
  | Unmodelled => o_str "unmodelled"
  end.
Definition o_then (r : res pyval) (k : pyval -> list pyval) : list pyval :=
  match r with Ok v => k v | _ => [] end.

(* op 0: validate x; validate again; to_basic; to_python of that; validate of that.
   op 1: to_python x (x is on-disk data); validate of that. *)
Definition run_fields (c : field * list (str * str * bool) * N * pyval) : pyval :=
  match c with
  | (f, t, op, x) =>
      let orc := table_oracle t in
      if (op =? 0)%N then
        let r1 := validate_with orc f x in
        PTuple (o_resc r1 ::
          o_then r1 (fun v =>
            let rb := to_basic f v in
            o_resc (validate_with orc f v) :: o_resc rb ::
            o_then rb (fun b =>
              let rp := to_python_with orc f b in
              o_resc rp :: o_then rp (fun p => [o_resc (validate_with orc f p)]))))
      else
        let rp := to_python_with orc f x in
        PTuple (o_resc rp :: o_then rp (fun p => [o_resc (validate_with orc f p)]))
  end.

(* cases the harness flags as possibly outside the model carry the implementation's observation: it is used
   ONLY when the model really answers Unmodelled somewhere; otherwise the model's own observation is compared *)
Definition run_fields_um (c : field * list (str * str * bool) * N * pyval * option pyval) : pyval :=
  match c with
  | (f, t, op, x, um) =>
      let obs := run_fields (f, t, op, x) in
      match um, obs with
      | Some e, PTuple l => if existsb (pyval_eqb (o_str "unmodelled")) l then e else obs
      | _, _ => obs
      end
  end.

(* hereditary version of known_F13 (the F13 region of the round-trip and normal-form theorems); IPv4NetworkField is
   not in it: since F49 it only returns text that its own string pipeline leaves alone *)
Fixpoint has_F13 (f : field) : bool :=
  match f with
  | FListT _ _ it => has_F13 it
  | FDictT _ _ kf vf => has_F13 kf || has_F13 vf
  | _ => known_F13 f
  end.

(* plain data: builtin lists/dicts only (no proxies), byte strings hold bytes *)
Fixpoint plain (x : pyval) : bool :=
  match x with
  | PBytes b => bytes_ok b
  | PList tg l => (tg =? 0)%N && forallb plain l
  | PTuple l => forallb plain l
  | PDict tg d => (tg =? 0)%N &&
      (fix go (d : list (pyval * pyval)) : bool :=
         match d with
         | [] => true
         | (k, v) :: r => plain k && plain v && go r
         end) d
  | PDigest _ _ _ => false
  | _ => true
  end.
