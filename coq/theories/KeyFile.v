(* KeyFile.v — state machine of encryption.KeyFile objects over one key-file path
   (encryption.py:60-213).  Statement order follows the code: __enter__ loads before it
   counts, __load_key assigns before it validates (and, since the F2 repair, forgets the key
   again when validation fails), __exit__ releases at refcount 0.  Definitions only. *)
From Coq Require Import ZArith NArith String List Bool.
From Cinco Require Import Base Crypto.
Import ListNotations.
Open Scope Z_scope.

Record kobj := { k_key : option bytes;      (* KeyFile.__key *)
                 k_ref : Z }.               (* KeyFile.__refcount *)

Record kworld := { w_file : option bytes;   (* content of the key file, None = no such file *)
                   w_writable : bool;        (* can the path be opened for writing *)
                   w_objs : list kobj;       (* KeyFile objects for this path *)
                   w_rng : list bytes }.     (* the os.urandom(32) draws still to come *)

Inductive kmethod := MXor | MAes | MBest | MBogus.

Inductive kop :=
| KNew                                        (* KeyFile(path) *)
| KEnter (i : nat)                            (* objs[i].__enter__() *)
| KExit (i : nat)                             (* objs[i].__exit__(None, None, None) *)
| KEncrypt (i : nat) (m : kmethod) (data : bytes)
| KDecrypt (i : nat) (m : kmethod) (data : bytes)
| KExt (content : option bytes) (writable : bool).   (* someone else changes the file *)

(* Python truthiness of `self.__key` *)
Definition key_falsy (k : option bytes) : bool :=
  match k with None => true | Some [] => true | Some (_ :: _) => false end.

Fixpoint set_nth {A} (i : nat) (x : A) (l : list A) : list A :=
  match l, i with
  | [], _ => []
  | _ :: r, O => x :: r
  | y :: r, S i' => y :: set_nth i' x r
  end.

Definition with_obj (w : kworld) (i : nat) (o : kobj) : kworld :=
  {| w_file := w_file w; w_writable := w_writable w; w_objs := set_nth i o (w_objs w); w_rng := w_rng w |}.

(* observable result of one operation *)
Inductive kout :=
| KOk                                    (* returned normally, nothing to show *)
| KOkBytes (method : kmethod) (b : bytes)(* encrypt/decrypt result: concrete method, bytes (xor only) *)
| KOkAes                                 (* an AES result (bytes not modelled here, see Crypto.v) *)
| KErr (e : errk)
| KNoObj.                                (* the harness addressed an object that does not exist *)

Definition enter (w : kworld) (i : nat) (o : kobj) : kworld * kout :=
  if key_falsy (k_key o) then
    (* __load_key *)
    match w_file w with
    | Some content =>
        (* self.__key = fp.read(); self._validate_key() *)
        if (length content =? 32)%nat then
          (with_obj w i {| k_key := Some content; k_ref := k_ref o + 1 |}, KOk)
        else
          (with_obj w i {| k_key := None; k_ref := k_ref o |}, KErr EEncryption)
    | None =>
        (* open() raised OSError: self.__key = self.__generate_key() *)
        match w_rng w with
        | [] => (w, KNoObj)               (* harness ran out of recorded randomness *)
        | r :: rest =>
            if w_writable w then
              ({| w_file := Some r; w_writable := w_writable w;
                  w_objs := set_nth i {| k_key := Some r; k_ref := k_ref o + 1 |} (w_objs w);
                  w_rng := rest |}, KOk)
            else
              (* os.urandom was consumed, open(.., "wb") raised: key stays as it was *)
              ({| w_file := w_file w; w_writable := w_writable w; w_objs := w_objs w; w_rng := rest |}, KErr EOS)
        end
    end
  else (with_obj w i {| k_key := k_key o; k_ref := k_ref o + 1 |}, KOk).

Definition exit_ (w : kworld) (i : nat) (o : kobj) : kworld * kout :=
  let r := k_ref o - 1 in
  (with_obj w i {| k_key := if r =? 0 then None else k_key o; k_ref := r |}, KOk).

(* KeyFile.encrypt / decrypt -> _get_provider; AES is available in this sandbox *)
Definition cipher (o : kobj) (m : kmethod) (data : bytes) : kout :=
  match k_key o with
  | None => KErr EType
  | Some [] => KErr EType
  | Some key =>
      match m with
      | MXor => KOkBytes MXor (xor_cycle key data)
      | MAes | MBest => KOkAes
      | MBogus => KErr EType
      end
  end.

Definition kstep (w : kworld) (op : kop) : kworld * kout :=
  match op with
  | KNew => ({| w_file := w_file w; w_writable := w_writable w;
                w_objs := w_objs w ++ [{| k_key := None; k_ref := 0 |}]; w_rng := w_rng w |}, KOk)
  | KEnter i => match nth_error (w_objs w) i with Some o => enter w i o | None => (w, KNoObj) end
  | KExit i => match nth_error (w_objs w) i with Some o => exit_ w i o | None => (w, KNoObj) end
  | KEncrypt i m d | KDecrypt i m d =>
      match nth_error (w_objs w) i with Some o => (w, cipher o m d) | None => (w, KNoObj) end
  | KExt c wr => ({| w_file := c; w_writable := wr; w_objs := w_objs w; w_rng := w_rng w |}, KOk)
  end.

Fixpoint krun (w : kworld) (ops : list kop) : kworld * list kout :=
  match ops with
  | [] => (w, [])
  | op :: r => let '(w1, o) := kstep w op in
               let '(w2, os) := krun w1 r in (w2, o :: os)
  end.

(* ---- observation, compared with the implementation after every step ---- *)
Definition o_bytes_opt (b : option bytes) : pyval := match b with Some x => PBytes x | None => PNone end.
Definition o_kout (o : kout) : pyval :=
  match o with
  | KOk => o_str "ok"
  | KOkBytes _ b => PTuple [o_str "xor"; PBytes b]
  | KOkAes => o_str "aes"
  | KErr e => PTuple [o_str "err"; o_errk e]
  | KNoObj => o_str "harness-error"
  end.
Definition o_world (w : kworld) : pyval :=
  PTuple [o_bytes_opt (w_file w);
          PList 0 (map (fun o => PTuple [o_bytes_opt (k_key o); PInt (k_ref o)]) (w_objs w))].

Fixpoint ktrace (w : kworld) (ops : list kop) : list pyval :=
  match ops with
  | [] => []
  | op :: r => let '(w1, o) := kstep w op in PTuple [o_kout o; o_world w1] :: ktrace w1 r
  end.

Definition run_keyfile (c : kworld * list kop) : pyval := PList 0 (ktrace (fst c) (snd c)).
