(* Secrets.v — key-file resolution and SecureField rendering / loading over a tree of configurations
   (core.py Config.__init__ / _key_filename / _keyfile / _set_value / to_tree / load_tree,
    Schema.__call__, ConfigType.__init__, fields/list_field.py ListProxy._validate / ListField.to_basic,
    fields/secure_field.py SecureField.to_basic / to_python).  Definitions only.

   What is modelled
   * a configuration is a node holding its own key file (`Config.__keyfile`, None = inherit), the
     class-level key file of its type (`ConfigType.__key_filename__`, None for a plain Schema), its
     SecureField values and its children: a sub-configuration, or a ListField of configurations;
   * `_keyfile` bubbles up through `_parent`: own key file if set, else the parent's, else the default
     path.  The walks below pass the inherited key file DOWN, which is the same computation seen from
     the root (`kf_impl_at`); the declarative spec (`kf_spec`: last `Some` on the path from the root)
     is separate and the two are proved equal in SecretsLemmas.v;
   * to_tree: every non-empty secret opens the key file of its configuration (one `with cfg._keyfile`
     per secret: the KeyFile drops the key at refcount 0, so each secret re-opens the file) and is
     replaced by {"method": concrete, "ciphertext": base64(enc ...)}; an empty / unset secret is null;
   * load_tree: a map under a sub-configuration key REPLACES the sub-configuration by a new object built
     from the field (`field(self)`: parent = self, own key file = the class-level one), list items are
     built by `item_field()` and linked to the owning configuration before their load; a secret given as
     a map is base64-decoded and decrypted under the key file of the configuration being loaded;
   * the file system is a map path -> key; a missing key file is created on first use with the random
     draw `newkey path` (the draw is named by the path: a path is created at most once, files are never
     rewritten).  The IV a secret will be encrypted with is named by the secret (`s_iv`).
   Outside the model: malformed key files (C07), cipher bytes (C08), formats (C04), order of keys in a
   document (the trace is observed as a set; the walk visits secrets first, then children). *)
From Coq Require Import ZArith NArith String List Bool.
From Cinco Require Import Base.
Import ListNotations.
Open Scope list_scope.

Definition path := N.                       (* a key-file path; the harness numbers the paths of a case *)
Definition kf_default : path := 0%N.        (* Config.DEFAULT_CINCOKEY_FILEPATH *)

Inductive smethod := SXor | SAes | SBest.
Definition smethod_eqb (a b : smethod) : bool :=
  match a, b with SXor, SXor | SAes, SAes | SBest, SBest => true | _, _ => false end.

Record secret := { s_method : smethod;      (* SecureField(method=...) *)
                   s_val : option str;      (* the value held: None = unset *)
                   s_iv : bytes }.          (* the randomness the next encryption of this secret draws *)

Inductive snode :=
| SNode (ct : option path)                  (* type(cfg).__key_filename__ : what a NEW object of this field starts with *)
        (own : option path)                 (* cfg.__keyfile : None = inherit *)
        (secs : list (str * secret))
        (ch : list (str * child))
with child :=
| CSub (n : snode)                          (* a sub-schema / config-type field *)
| CList (proto : snode) (items : list snode).   (* ListField(schema | config type): the item as built from the field, the items held *)

Definition ct_of (n : snode) : option path := match n with SNode c _ _ _ => c end.
Definition own_of (n : snode) : option path := match n with SNode _ o _ _ => o end.
Definition secs_of (n : snode) : list (str * secret) := match n with SNode _ _ s _ => s end.
Definition ch_of (n : snode) : list (str * child) := match n with SNode _ _ _ c => c end.

(* plain-data documents *)
Inductive rtree :=
| RNull
| RStr (s : str)
| RMap (es : list (str * rtree))
| RSeq (l : list rtree).

Definition rget (k : str) (es : list (str * rtree)) : option rtree := assoc str_eqb k es.

(* ---- key-file resolution ---- *)
Definition resolve (inh : path) (own : option path) : path :=
  match own with Some p => p | None => inh end.

Inductive step := StSub (name : str) | StItem (name : str) (i : nat).
Definition pos := list step.

Definition child_at (n : snode) (e : step) : option snode :=
  match e with
  | StSub name => match assoc str_eqb name (ch_of n) with Some (CSub c) => Some c | _ => None end
  | StItem name i => match assoc str_eqb name (ch_of n) with Some (CList _ items) => nth_error items i | _ => None end
  end.

Fixpoint node_at (n : snode) (p : pos) : option snode :=
  match p with
  | [] => Some n
  | e :: r => match child_at n e with Some c => node_at c r | None => None end
  end.

(* as the code computes it: the key file in force is handed from a configuration to its children *)
Fixpoint kf_impl_at (inh : path) (n : snode) (p : pos) : option path :=
  match p with
  | [] => Some (resolve inh (own_of n))
  | e :: r => match child_at n e with
              | Some c => kf_impl_at (resolve inh (own_of n)) c r
              | None => None
              end
  end.

(* the spec: the own key files on the path from the root to the position; the nearest one that is set *)
Fixpoint owns_on (n : snode) (p : pos) : option (list (option path)) :=
  match p with
  | [] => Some [own_of n]
  | e :: r => match child_at n e with
              | Some c => option_map (cons (own_of n)) (owns_on c r)
              | None => None
              end
  end.
Definition is_some {A} (o : option A) : bool := match o with Some _ => true | None => false end.
Definition nearest_from (dflt : path) (owns : list (option path)) : path :=
  match find is_some (rev owns) with Some (Some k) => k | _ => dflt end.
Definition kf_spec (t : snode) (p : pos) : option path :=
  option_map (nearest_from kf_default) (owns_on t p).

(* ---- Python truthiness of a secret's value: `if not value: return None` ---- *)
Definition nonempty (v : option str) : bool := match v with Some (_ :: _) => true | _ => false end.
Definition sec_nonempty (s : secret) : bool := nonempty (s_val s).
Definition sec_set (s : secret) : bool := is_some (s_val s).

Definition mname (m : smethod) : str :=
  match m with SXor => sa "xor" | SAes => sa "aes" | SBest => sa "best" end.
Definition mparse (s : str) : option smethod :=
  if str_eqb s (sa "xor") then Some SXor
  else if str_eqb s (sa "aes") then Some SAes
  else if str_eqb s (sa "best") then Some SBest
  else None.

Definition reset_sec (s : secret) : secret := {| s_method := s_method s; s_val := None; s_iv := s_iv s |}.
Definition set_val (s : secret) (v : option str) : secret := {| s_method := s_method s; s_val := v; s_iv := s_iv s |}.

(* what `field(self)` / `item_field()` builds: own key file = the class-level one, nothing set, lists empty *)
Fixpoint fresh (n : snode) : snode :=
  match n with
  | SNode c _ secs ch =>
      SNode c c (map (fun ns => (fst ns, reset_sec (snd ns))) secs)
            ((fix go (l : list (str * child)) : list (str * child) :=
                match l with [] => [] | (name, c) :: r => (name, fresh_child c) :: go r end) ch)
  end
with fresh_child (c : child) : child :=
  match c with
  | CSub n => CSub (fresh n)
  | CList proto _ => CList (fresh proto) []
  end.

Section Model.
  (* not code of this repository *)
  Variable aes_available : bool.                              (* encryption.AES_AVAILABLE *)
  Variable enc : smethod -> bytes -> bytes -> str -> bytes.   (* provider(key).encrypt(text.encode()) with the drawn IV *)
  Variable dec : smethod -> bytes -> bytes -> option str.     (* provider(key).decrypt(ct).decode(); None = any failure *)
  Variable b64 : bytes -> str.
  Variable unb64 : str -> option bytes.
  Variable newkey : path -> bytes.                            (* the os.urandom(32) draw when that path is created *)
  Variable fs : list (path * bytes).                          (* key files that exist *)

  (* KeyFile._get_provider: "best" resolves to a concrete method *)
  Definition concrete (m : smethod) : smethod :=
    match m with SBest => if aes_available then SAes else SXor | _ => m end.

  (* the key a `with KeyFile(p)` context holds: the file's content, or the freshly generated one *)
  Definition key_of (p : path) : bytes :=
    match assoc N.eqb p fs with Some k => k | None => newkey p end.

  (* ---- to_tree ---- *)
  (* SecureField.to_basic under the key file `cur` of the owning configuration; second component:
     the key files opened (read, or created when missing) *)
  Definition render_secret (cur : path) (s : secret) : rtree * list path :=
    match s_val s with
    | Some (c :: r) =>
        let m := concrete (s_method s) in
        (RMap [(sa "method", RStr (mname m));
               (sa "ciphertext", RStr (b64 (enc m (key_of cur) (s_iv s) (c :: r))))], [cur])
    | _ => (RNull, [])
    end.

  Fixpoint render_secs (cur : path) (secs : list (str * secret)) : list (str * rtree) * list path :=
    match secs with
    | [] => ([], [])
    | (name, s) :: r =>
        let x := render_secret cur s in
        let y := render_secs cur r in
        ((name, fst x) :: fst y, snd x ++ snd y)
    end.

  Fixpoint render (inh : path) (n : snode) {struct n} : rtree * list path :=
    match n with
    | SNode _ own secs ch =>
        let cur := resolve inh own in
        let rs := render_secs cur secs in
        let rc := (fix go (l : list (str * child)) : list (str * rtree) * list path :=
                     match l with
                     | [] => ([], [])
                     | (name, c) :: r =>
                         let x := render_child cur c in
                         let y := go r in
                         ((name, fst x) :: fst y, snd x ++ snd y)
                     end) ch in
        (RMap (fst rs ++ fst rc), snd rs ++ snd rc)
    end
  with render_child (cur : path) (c : child) {struct c} : rtree * list path :=
    match c with
    | CSub n => render cur n
    | CList _ items =>
        let r := (fix go (l : list snode) : list rtree * list path :=
                    match l with
                    | [] => ([], [])
                    | i :: r =>
                        let x := render cur i in
                        let y := go r in
                        (fst x :: fst y, snd x ++ snd y)
                    end) items in
        (RSeq (fst r), snd r)
    end.

  (* the same loops, named *)
  Fixpoint render_children (cur : path) (l : list (str * child)) : list (str * rtree) * list path :=
    match l with
    | [] => ([], [])
    | (name, c) :: r =>
        let x := render_child cur c in
        let y := render_children cur r in
        ((name, fst x) :: fst y, snd x ++ snd y)
    end.
  Fixpoint render_items (cur : path) (l : list snode) : list rtree * list path :=
    match l with
    | [] => ([], [])
    | i :: r =>
        let x := render cur i in
        let y := render_items cur r in
        (fst x :: fst y, snd x ++ snd y)
    end.

  Definition to_tree (t : snode) : rtree := fst (render kf_default t).
  Definition to_tree_opens (t : snode) : list path := snd (render kf_default t).

  (* ---- load_tree ---- *)
  (* SecureField.to_python under the key file `cur` *)
  Definition to_python (cur : path) (d : rtree) : res (option str * list path) :=
    match d with
    | RNull => Ok (None, [])
    | RStr s => Ok (Some s, [])
    | RMap es =>
        match rget (sa "method") es with
        | Some (RStr (c :: m)) =>
            match rget (sa "ciphertext") es with
            | Some (RStr b) =>
                match unb64 b with
                | Some ct =>
                    (* with cfg._keyfile as ctx: ctx.decrypt(SecureValue(method, ciphertext)) *)
                    match mparse (c :: m) with
                    | Some m' =>
                        match dec (concrete m') (key_of cur) ct with
                        | Some p => Ok (Some p, [cur])
                        | None => Err EValue
                        end
                    | None => Err EValue
                    end
                | None => Err EValue
                end
            | _ => Err EValue
            end
        | _ => Err EValue
        end
    | RSeq _ => Err EValue
    end.

  (* keep = the configuration object already existed (the root); otherwise it has just been built *)
  Fixpoint load_secs (keep : bool) (cur : path) (es : list (str * rtree)) (secs : list (str * secret))
    : res (list (str * secret) * list path) :=
    match secs with
    | [] => Ok ([], [])
    | (name, s) :: r =>
        do x <- match rget name es with
                | None => Ok ((if keep then s else reset_sec s), [])
                | Some d => do v <- to_python cur d ;; Ok (set_val s (fst v), snd v)
                end ;;
        do y <- load_secs keep cur es r ;;
        Ok ((name, fst x) :: fst y, snd x ++ snd y)
    end.

  Fixpoint load_node (inh : path) (own : option path) (keep : bool) (tg : snode) (doc : rtree) {struct tg}
    : res (snode * list path) :=
    match tg with
    | SNode c _ secs ch =>
        match doc with
        | RMap es =>
            let cur := resolve inh own in
            do s' <- load_secs keep cur es secs ;;
            do c' <- (fix go (l : list (str * child)) : res (list (str * child) * list path) :=
                        match l with
                        | [] => Ok ([], [])
                        | (name, c) :: r =>
                            do x <- match rget name es with
                                    | None => Ok ((if keep then c else fresh_child c), [])
                                    | Some d => load_child cur c d
                                    end ;;
                            do y <- go r ;;
                            Ok ((name, fst x) :: fst y, snd x ++ snd y)
                        end) ch ;;
            Ok (SNode c own (fst s') (fst c'), snd s' ++ snd c')
        | _ => Err EAttribute
        end
    end
  with load_child (cur : path) (c : child) (doc : rtree) {struct c} : res (child * list path) :=
    match c with
    | CSub n =>
        (* _set_value: cfg = field(self); cfg.load_tree(value) -- a new object, parent = self *)
        match doc with
        | RMap _ => do x <- load_node cur (ct_of n) false n doc ;; Ok (CSub (fst x), snd x)
        | _ => Err (EValidation [])
        end
    | CList proto _ =>
        (* ListProxy._validate: cfg = item_field(); cfg._parent = self.cfg; cfg.load_tree(value) *)
        match doc with
        | RNull => Ok (CList proto [], [])
        | RSeq ds =>
            do x <- (fix go (ds : list rtree) : res (list snode * list path) :=
                       match ds with
                       | [] => Ok ([], [])
                       | d :: r =>
                           do a <- load_node cur (ct_of proto) false proto d ;;
                           do b <- go r ;;
                           Ok (fst a :: fst b, snd a ++ snd b)
                       end) ds ;;
            Ok (CList proto (fst x), snd x)
        | _ => Err EValue
        end
    end.

  Definition load_slot (keep : bool) (cur : path) (es : list (str * rtree)) (name : str) (c : child)
    : res (child * list path) :=
    match rget name es with
    | None => Ok ((if keep then c else fresh_child c), [])
    | Some d => load_child cur c d
    end.
  Fixpoint load_children (keep : bool) (cur : path) (es : list (str * rtree)) (l : list (str * child))
    : res (list (str * child) * list path) :=
    match l with
    | [] => Ok ([], [])
    | (name, c) :: r =>
        do x <- load_slot keep cur es name c ;;
        do y <- load_children keep cur es r ;;
        Ok ((name, fst x) :: fst y, snd x ++ snd y)
    end.
  Fixpoint load_items (cur : path) (proto : snode) (ds : list rtree) : res (list snode * list path) :=
    match ds with
    | [] => Ok ([], [])
    | d :: r =>
        do a <- load_node cur (ct_of proto) false proto d ;;
        do b <- load_items cur proto r ;;
        Ok (fst a :: fst b, snd a ++ snd b)
    end.

  (* cfg.load_tree(doc) on an existing root configuration *)
  Definition load_tree (tg : snode) (doc : rtree) : res (snode * list path) :=
    load_node kf_default (own_of tg) true tg doc.
End Model.

(* ---- effect of a sequence of key-file openings on the file system ---- *)
Inductive eff := EffRead | EffCreate.
Section Effects.
  Variable newkey : path -> bytes.
  Fixpoint effects (fs : list (path * bytes)) (ops : list path) : list (path * eff) :=
    match ops with
    | [] => []
    | p :: r => if assoc_mem N.eqb p fs then (p, EffRead) :: effects fs r
                else (p, EffCreate) :: effects (fs ++ [(p, newkey p)]) r
    end.
  Fixpoint fs_after (fs : list (path * bytes)) (ops : list path) : list (path * bytes) :=
    match ops with
    | [] => fs
    | p :: r => if assoc_mem N.eqb p fs then fs_after fs r else fs_after (fs ++ [(p, newkey p)]) r
    end.
End Effects.

(* ---- walks used by specifications ---- *)
Section Sel.
  Variable sel : secret -> bool.
  Fixpoint sel_secs (cur : path) (secs : list (str * secret)) : list path :=
    match secs with
    | [] => []
    | (_, s) :: r => (if sel s then [cur] else []) ++ sel_secs cur r
    end.
  (* the key file in force at every selected secret, in walk order *)
  Fixpoint sel_kfs (inh : path) (n : snode) {struct n} : list path :=
    match n with
    | SNode _ own secs ch =>
        let cur := resolve inh own in
        sel_secs cur secs ++
        (fix go (l : list (str * child)) : list path :=
           match l with [] => [] | (_, c) :: r => sel_kfs_child cur c ++ go r end) ch
    end
  with sel_kfs_child (cur : path) (c : child) {struct c} : list path :=
    match c with
    | CSub n => sel_kfs cur n
    | CList _ items => (fix go (l : list snode) : list path :=
                          match l with [] => [] | i :: r => sel_kfs cur i ++ go r end) items
    end.
  Fixpoint sel_kfs_children (cur : path) (l : list (str * child)) : list path :=
    match l with [] => [] | (_, c) :: r => sel_kfs_child cur c ++ sel_kfs_children cur r end.
  Fixpoint sel_kfs_items (cur : path) (l : list snode) : list path :=
    match l with [] => [] | i :: r => sel_kfs cur i ++ sel_kfs_items cur r end.
End Sel.

(* the plaintexts held, with the stated normalisation (empty secret = unset) *)
Definition plain_sec (s : secret) : rtree :=
  match s_val s with Some (c :: r) => RStr (c :: r) | _ => RNull end.
Fixpoint plain (n : snode) : rtree :=
  match n with
  | SNode _ _ secs ch =>
      RMap (map (fun ns => (fst ns, plain_sec (snd ns))) secs ++
            (fix go (l : list (str * child)) : list (str * rtree) :=
               match l with [] => [] | (name, c) :: r => (name, plain_child c) :: go r end) ch)
  end
with plain_child (c : child) : rtree :=
  match c with
  | CSub n => plain n
  | CList _ items => RSeq ((fix go (l : list snode) : list rtree :=
                              match l with [] => [] | i :: r => plain i :: go r end) items)
  end.
Fixpoint plain_children (l : list (str * child)) : list (str * rtree) :=
  match l with [] => [] | (name, c) :: r => (name, plain_child c) :: plain_children r end.

(* lookup in a document by position, then by field name *)
Fixpoint rt_at (d : rtree) (p : pos) : option rtree :=
  match p with
  | [] => Some d
  | StSub name :: r =>
      match d with RMap es => match rget name es with Some x => rt_at x r | None => None end | _ => None end
  | StItem name i :: r =>
      match d with
      | RMap es => match rget name es with
                   | Some (RSeq l) => match nth_error l i with Some x => rt_at x r | None => None end
                   | _ => None
                   end
      | _ => None
      end
  end.
Definition rt_field (d : rtree) (p : pos) (name : str) : option rtree :=
  match rt_at d p with Some (RMap es) => rget name es | _ => None end.
Definition secret_at (t : snode) (p : pos) (name : str) : option secret :=
  match node_at t p with Some n => assoc str_eqb name (secs_of n) | None => None end.

(* ---- well-formedness (facts of every Python configuration) and the F34 region ---- *)
(* field names of one configuration are distinct (they are dict keys); every item of a list was built
   from the list's item field *)
Fixpoint wf (n : snode) : Prop :=
  match n with
  | SNode _ _ secs ch =>
      NoDup (map fst secs ++ map fst ch) /\
      (fix go (l : list (str * child)) : Prop :=
         match l with [] => True | (_, c) :: r => wf_child c /\ go r end) ch
  end
with wf_child (c : child) : Prop :=
  match c with
  | CSub n => wf n
  | CList proto items =>
      (fix go (l : list snode) : Prop :=
         match l with [] => True | i :: r => (fresh i = fresh proto /\ wf i) /\ go r end) items
  end.
Fixpoint wf_children (l : list (str * child)) : Prop :=
  match l with [] => True | (_, c) :: r => wf_child c /\ wf_children r end.
Fixpoint wf_items (proto : snode) (l : list snode) : Prop :=
  match l with [] => True | i :: r => (fresh i = fresh proto /\ wf i) /\ wf_items proto r end.

Definition opath_eqb (a b : option path) : bool :=
  match a, b with Some x, Some y => N.eqb x y | None, None => true | _, _ => false end.

(* own key file = the class-level one, here and in every configuration below *)
Fixpoint ct_all (n : snode) : bool :=
  match n with
  | SNode c o _ ch =>
      opath_eqb o c &&
      (fix go (l : list (str * child)) : bool :=
         match l with [] => true | (_, c) :: r => ct_all_child c && go r end) ch
  end
with ct_all_child (c : child) : bool :=
  match c with
  | CSub n => ct_all n
  | CList _ items => (fix go (l : list snode) : bool :=
                        match l with [] => true | i :: r => ct_all i && go r end) items
  end.
Fixpoint ct_all_children (l : list (str * child)) : bool :=
  match l with [] => true | (_, c) :: r => ct_all_child c && ct_all_children r end.
Fixpoint ct_all_items (l : list snode) : bool :=
  match l with [] => true | i :: r => ct_all i && ct_all_items r end.

(* DESIGN.md Appendix D: some configuration other than the root names a key file by assignment, or a
   config-type instance's class-level key file was cleared or changed *)
Definition known_F34 (t : snode) : bool := negb (ct_all_children (ch_of t)).

(* ---- histories: the operations of the `secrets` stream ---- *)
Fixpoint set_nth {A} (i : nat) (x : A) (l : list A) : list A :=
  match l, i with
  | [], _ => []
  | _ :: r, O => x :: r
  | y :: r, S i' => y :: set_nth i' x r
  end.

Fixpoint upd_at (f : snode -> snode) (n : snode) (p : pos) : option snode :=
  match p with
  | [] => Some (f n)
  | e :: r =>
      match n with
      | SNode c o secs ch =>
          match e with
          | StSub name =>
              match assoc str_eqb name ch with
              | Some (CSub x) =>
                  match upd_at f x r with
                  | Some x' => Some (SNode c o secs (assoc_set str_eqb name (CSub x') ch))
                  | None => None
                  end
              | _ => None
              end
          | StItem name i =>
              match assoc str_eqb name ch with
              | Some (CList pr items) =>
                  match nth_error items i with
                  | Some x =>
                      match upd_at f x r with
                      | Some x' => Some (SNode c o secs (assoc_set str_eqb name (CList pr (set_nth i x' items)) ch))
                      | None => None
                      end
                  | None => None
                  end
              | _ => None
              end
          end
      end
  end.

Inductive sop :=
| OKf (p : pos) (k : option path)              (* node._key_filename = k  (None: `= None`) *)
| OSec (p : pos) (name : str) (v : option str) (* node.<name> = v *)
| OItems (p : pos) (name : str) (n : nat)      (* node.<name> = [n new items built from the item field] *)
| ODump.                                       (* cfg.dumps(...): opens / creates key files *)

Definition set_own (k : option path) (n : snode) : snode :=
  match n with SNode c _ s ch => SNode c k s ch end.
Definition set_secret (name : str) (v : option str) (n : snode) : snode :=
  match n with
  | SNode c o s ch =>
      SNode c o (match assoc str_eqb name s with
                 | Some x => assoc_set str_eqb name (set_val x v) s
                 | None => s end) ch
  end.
(* a new item: `Config(item_schema)` / `CT()`, then linked to the owning configuration *)
Definition set_items (name : str) (k : nat) (n : snode) : snode :=
  match n with
  | SNode c o s ch =>
      SNode c o s (match assoc str_eqb name ch with
                   | Some (CList pr _) => assoc_set str_eqb name (CList pr (repeat (fresh pr) k)) ch
                   | _ => ch end)
  end.

Section Run.
  Variable aes_available : bool.
  Variable newkey : path -> bytes.

  Definition sstep (st : snode * list (path * bytes)) (op : sop) : option (snode * list (path * bytes)) :=
    let '(t, fs) := st in
    match op with
    | OKf p k => option_map (fun t' => (t', fs)) (upd_at (set_own k) t p)
    | OSec p name v => option_map (fun t' => (t', fs)) (upd_at (set_secret name v) t p)
    | OItems p name k => option_map (fun t' => (t', fs)) (upd_at (set_items name k) t p)
    | ODump =>
        (* which files a dump opens does not depend on the cipher *)
        Some (t, fs_after newkey fs (sel_kfs sec_nonempty kf_default t))
    end.
  Fixpoint srun (st : snode * list (path * bytes)) (ops : list sop) : option (snode * list (path * bytes)) :=
    match ops with
    | [] => Some st
    | op :: r => match sstep st op with Some st' => srun st' r | None => None end
    end.
End Run.

(* ---- the `secrets` correspondence stream ---- *)
(* The real cipher is not re-run inside Coq (os.urandom stays real; bytes are C08's business): the
   model is evaluated with a toy cipher that satisfies the laws the theorems assume and fails under a
   different key, and only key-file names, file sets and plaintexts are observed. *)
Definition toy_key (p : path) : bytes := [p].
Definition toy_enc (m : smethod) (k iv : bytes) (p : str) : bytes :=
  (match m with SXor => 1 | SAes => 2 | SBest => 3 end)%N :: N.of_nat (length k) :: k ++ p.
Definition toy_dec (m : smethod) (k ct : bytes) : option str :=
  match ct with
  | tag :: n :: r =>
      if (tag =? match m with SXor => 1 | SAes => 2 | SBest => 3 end)%N
         && (n =? N.of_nat (length k))%N && bytes_eqb (firstn (length k) r) k
      then Some (skipn (length k) r) else None
  | _ => None
  end.
Definition toy_b64 (b : bytes) : str := b.
Definition toy_unb64 (s : str) : option bytes := Some s.

Fixpoint ins_n (x : N) (l : list N) : list N :=
  match l with
  | [] => [x]
  | y :: r => if (x <? y)%N then x :: y :: r else if (x =? y)%N then y :: r else y :: ins_n x r
  end.
Definition sort_set (l : list N) : list N := fold_right ins_n [] l.
Definition o_paths (l : list path) : pyval := PList 0 (map (fun p => PInt (Z.of_N p)) (sort_set l)).

Fixpoint rtree_eqb (a b : rtree) {struct a} : bool :=
  match a, b with
  | RNull, RNull => true
  | RStr x, RStr y => str_eqb x y
  | RMap l, RMap m =>
      (fix go (l m : list (str * rtree)) : bool :=
         match l, m with
         | [], [] => true
         | (k, x) :: r, (k', y) :: r' => str_eqb k k' && rtree_eqb x y && go r r'
         | _, _ => false
         end) l m
  | RSeq l, RSeq m =>
      (fix go (l m : list rtree) : bool :=
         match l, m with
         | [], [] => true
         | x :: r, y :: r' => rtree_eqb x y && go r r'
         | _, _ => false
         end) l m
  | _, _ => false
  end.

(* the document with every ciphertext blanked: {method, ciphertext} -> the method name *)
Fixpoint doc_shape (d : rtree) : pyval :=
  match d with
  | RNull => PNone
  | RStr s => PStr s
  | RMap es =>
      match rget (sa "method") es with
      | Some (RStr m) => PTuple [PStr m]
      | _ => PDict 0 ((fix go (l : list (str * rtree)) : list (pyval * pyval) :=
                         match l with [] => [] | (k, x) :: r => (PStr k, doc_shape x) :: go r end) es)
      end
  | RSeq [] => PNone     (* an unset typed list (null) and an empty one ([]) are not distinguished *)
  | RSeq l => PList 0 ((fix go (l : list rtree) : list pyval :=
                          match l with [] => [] | x :: r => doc_shape x :: go r end) l)
  end.

(* (AES available?, key files existing beforehand, the configuration as built, the history,
    the root key file given to the new session's configuration) *)
Definition scase := (bool * list path * snode * list sop * option path)%type.

Definition o_effects (es : list (path * eff)) : pyval :=
  PTuple [o_paths (map fst (filter (fun e => match snd e with EffRead => true | EffCreate => false end) es));
          o_paths (map fst (filter (fun e => match snd e with EffCreate => true | EffRead => false end) es))].

Definition run_secrets (c : scase) : pyval :=
  let '(aes, existing, t0, ops, root2) := c in
  let fs0 := map (fun p => (p, toy_key p)) existing in
  match srun toy_key (t0, fs0) ops with
  | None => o_str "unmodelled"
  | Some (t, fs) =>
      let r := render aes toy_enc toy_b64 toy_key fs kf_default t in
      let fs1 := fs_after toy_key fs (snd r) in
      let tg := set_own root2 (fresh t) in
      PTuple [ (* the key file in force at every secret field, in walk order *)
               PList 0 (map (fun p => PInt (Z.of_N p)) (sel_kfs (fun _ => true) kf_default t));
               (* key files read / created by the final dump *)
               o_effects (effects toy_key fs (snd r));
               PBool (known_F34 t);
               (* the document, ciphertexts blanked *)
               doc_shape (fst r);
               match load_tree aes toy_dec toy_unb64 toy_key fs1 tg (fst r) with
               | Ok (t', ops') =>
                   if rtree_eqb (plain t') (plain t)
                   then PTuple [o_str "same"; o_effects (effects toy_key fs1 ops')]
                   else o_str "broken"
               | _ => o_str "broken"
               end ]
  end.

(* ---- two configurations of one schema; configuration OBJECTS moved from the first into the second ----
   `b.sub = a.sub`, `b.items = [a.items[0], ...]`, `b.items[:] = ...`, `b.items[i] = a.items[j]`,
   `b.items.append(...)` / `extend([...])`: _set_value / ListProxy._validate set `_parent` to the new owner.
   In the tree model the moved sub-tree keeps everything it holds (its own key file included) and sits at a
   new position, so what it inherits changes.  The source configuration still refers to the moved object
   (aliasing is outside the model): the stream does not use the source after the first move. *)
Inductive mroute :=
| MSub (name : str)                 (* dst.<name> = x *)
| MReplace (name : str)             (* dst.<name> = [x; ...]   /   dst.<name>[:] = ... *)
| MSetItem (name : str) (i : nat)   (* dst.<name>[i] = x *)
| MAppend (name : str).             (* dst.<name>.append(x) / .extend([x; ...]) / += [x; ...] *)

Fixpoint nodes_at (t : snode) (ps : list pos) : option (list snode) :=
  match ps with
  | [] => Some []
  | p :: r => match node_at t p, nodes_at t r with
              | Some n, Some l => Some (n :: l)
              | _, _ => None
              end
  end.

Definition apply_move (r : mroute) (ns : list snode) (n : snode) : option snode :=
  match n with
  | SNode c o s ch =>
      match r with
      | MSub name =>
          match ns, assoc str_eqb name ch with
          | [x], Some (CSub _) => Some (SNode c o s (assoc_set str_eqb name (CSub x) ch))
          | _, _ => None
          end
      | MReplace name =>
          match assoc str_eqb name ch with
          | Some (CList pr _) => Some (SNode c o s (assoc_set str_eqb name (CList pr ns) ch))
          | _ => None
          end
      | MSetItem name i =>
          match ns, assoc str_eqb name ch with
          | [x], Some (CList pr items) =>
              if (i <? length items)%nat
              then Some (SNode c o s (assoc_set str_eqb name (CList pr (set_nth i x items)) ch))
              else None
          | _, _ => None
          end
      | MAppend name =>
          match assoc str_eqb name ch with
          | Some (CList pr items) => Some (SNode c o s (assoc_set str_eqb name (CList pr (items ++ ns)) ch))
          | _ => None
          end
      end
  end.

Fixpoint upd_at_o (f : snode -> option snode) (n : snode) (p : pos) : option snode :=
  match p with
  | [] => f n
  | e :: r =>
      match n with
      | SNode c o secs ch =>
          match e with
          | StSub name =>
              match assoc str_eqb name ch with
              | Some (CSub x) =>
                  match upd_at_o f x r with
                  | Some x' => Some (SNode c o secs (assoc_set str_eqb name (CSub x') ch))
                  | None => None
                  end
              | _ => None
              end
          | StItem name i =>
              match assoc str_eqb name ch with
              | Some (CList pr items) =>
                  match nth_error items i with
                  | Some x =>
                      match upd_at_o f x r with
                      | Some x' => Some (SNode c o secs (assoc_set str_eqb name (CList pr (set_nth i x' items)) ch))
                      | None => None
                      end
                  | None => None
                  end
              | _ => None
              end
          end
      end
  end.

Inductive sop2 :=
| OnA (op : sop)
| OnB (op : sop)
| OMove (dst : pos) (r : mroute) (srcs : list pos).

Section Run2.
  Variable newkey : path -> bytes.
  Definition st2 := (snode * snode * list (path * bytes))%type.
  Definition sstep2 (st : st2) (op : sop2) : option st2 :=
    let '(a, b, fs) := st in
    match op with
    | OnA o => option_map (fun r => (fst r, b, snd r)) (sstep newkey (a, fs) o)
    | OnB o => option_map (fun r => (a, fst r, snd r)) (sstep newkey (b, fs) o)
    | OMove dst r srcs =>
        match nodes_at a srcs with
        | Some ns => option_map (fun b' => (a, b', fs)) (upd_at_o (apply_move r ns) b dst)
        | None => None
        end
    end.
  Fixpoint srun2 (st : st2) (ops : list sop2) : option st2 :=
    match ops with
    | [] => Some st
    | op :: r => match sstep2 st op with Some st' => srun2 st' r | None => None end
    end.
End Run2.

(* as scase; both configurations start as the schema builds them; the observation is of the second *)
Definition scase2 := (bool * list path * snode * list sop2 * option path)%type.

(* the constructor route for a saved tree: schema(key_filename=K, **tree).  Config.__init__ names the key file
   first, then `_set_value`s every keyword: a map under a sub-configuration key / a list of maps is loaded
   exactly as load_tree loads it (new object, parent = the configuration under construction); a SecureField
   keyword is an ASSIGNMENT (validated, not converted: an encrypted map is refused there), so the harness hands
   the root's own secrets over as plaintext.  For the model this is load_tree of the document whose root-level
   secrets are the plaintexts. *)
Definition ctor_doc (t : snode) (d : rtree) : rtree :=
  match d with
  | RMap es => RMap (map (fun ns => (fst ns, plain_sec (snd ns))) (secs_of t) ++ skipn (length (secs_of t)) es)
  | _ => d
  end.

Definition observe_secrets (aes : bool) (t : snode) (fs : list (path * bytes)) (root2 : option path) : pyval :=
  let r := render aes toy_enc toy_b64 toy_key fs kf_default t in
  let fs1 := fs_after toy_key fs (snd r) in
  let tg := set_own root2 (fresh t) in
  PTuple [ PList 0 (map (fun p => PInt (Z.of_N p)) (sel_kfs (fun _ => true) kf_default t));
           o_effects (effects toy_key fs (snd r));
           PBool (known_F34 t);
           doc_shape (fst r);
           match load_tree aes toy_dec toy_unb64 toy_key fs1 tg (fst r) with
           | Ok (t', ops') =>
               if rtree_eqb (plain t') (plain t)
               then PTuple [o_str "same"; o_effects (effects toy_key fs1 ops')]
               else o_str "broken"
           | _ => o_str "broken"
           end;
           match load_tree aes toy_dec toy_unb64 toy_key fs1 tg (ctor_doc t (fst r)) with
           | Ok (t', ops') =>
               if rtree_eqb (plain t') (plain t)
               then PTuple [o_str "same"; o_effects (effects toy_key fs1 ops')]
               else o_str "broken"
           | _ => o_str "broken"
           end ].

Definition run_secrets2 (c : scase2) : pyval :=
  let '(aes, existing, t0, ops, root2) := c in
  let fs0 := map (fun p => (p, toy_key p)) existing in
  match srun2 toy_key (t0, t0, fs0) ops with
  | None => o_str "unmodelled"
  | Some (_, t, fs) => observe_secrets aes t fs root2
  end.
