(* Codec.v — the byte/text codecs BytesField uses: str.encode() (UTF-8), bytes.hex / bytes.fromhex,
   base64.b64encode / the canonical part of (non-strict) base64.b64decode.  Definitions only. *)
From Coq Require Import ZArith NArith List Bool.
From Cinco Require Import Base.
Import ListNotations.
Open Scope N_scope.

Definition byte_ok (x : N) : bool := x <? 256.
Definition bytes_ok (b : bytes) : bool := forallb byte_ok b.

(* ---- str.encode(): UTF-8; surrogates raise UnicodeEncodeError (None) ---- *)
Definition utf8_cp (c : N) : option bytes :=
  if c <? 128 then Some [c]
  else if c <? 2048 then Some [192 + c / 64; 128 + c mod 64]
  else if c <? 65536 then
    if (55296 <=? c) && (c <=? 57343) then None
    else Some [224 + c / 4096; 128 + (c / 64) mod 64; 128 + c mod 64]
  else if c <? 1114112 then
    Some [240 + c / 262144; 128 + (c / 4096) mod 64; 128 + (c / 64) mod 64; 128 + c mod 64]
  else None.
Fixpoint utf8_enc (s : str) : option bytes :=
  match s with
  | [] => Some []
  | c :: r => match utf8_cp c, utf8_enc r with
              | Some a, Some b => Some (a ++ b)
              | _, _ => None
              end
  end.

(* ---- hex ---- *)
Definition hexdig_of (n : N) : N := if n <? 10 then 48 + n else 87 + n.
Fixpoint hex_enc (b : bytes) : str :=
  match b with
  | [] => []
  | x :: r => hexdig_of (x / 16) :: hexdig_of (x mod 16) :: hex_enc r
  end.
Definition hexdig (c : N) : option N :=
  if (48 <=? c) && (c <=? 57) then Some (c - 48)
  else if (97 <=? c) && (c <=? 102) then Some (c - 87)
  else if (65 <=? c) && (c <=? 70) then Some (c - 55)
  else None.
(* bytes.fromhex skips ASCII whitespace (Py_ISSPACE: 9-13, 32) between byte pairs only *)
Definition is_hex_space (c : N) : bool := ((9 <=? c) && (c <=? 13)) || (c =? 32).
Fixpoint hex_dec (s : str) : option bytes :=
  match s with
  | [] => Some []
  | c :: r =>
      if is_hex_space c then hex_dec r
      else match r with
           | [] => None
           | d :: r' =>
               match hexdig c, hexdig d with
               | Some h, Some l => match hex_dec r' with Some t => Some (16 * h + l :: t) | None => None end
               | _, _ => None
               end
           end
  end.

(* ---- base64 (standard alphabet) ---- *)
Definition b64_al (i : N) : N :=
  if i <? 26 then 65 + i else if i <? 52 then 71 + i else if i <? 62 then i - 4 else if i =? 62 then 43 else 47.
Definition b64_de (c : N) : option N :=
  if (65 <=? c) && (c <=? 90) then Some (c - 65)
  else if (97 <=? c) && (c <=? 122) then Some (c - 71)
  else if (48 <=? c) && (c <=? 57) then Some (c + 4)
  else if c =? 43 then Some 62
  else if c =? 47 then Some 63
  else None.
Fixpoint b64_enc (b : bytes) : str :=
  match b with
  | [] => []
  | [x] => [b64_al (x / 4); b64_al ((x mod 4) * 16); 61; 61]
  | [x; y] => [b64_al (x / 4); b64_al ((x mod 4) * 16 + y / 16); b64_al ((y mod 16) * 4); 61]
  | x :: y :: z :: r =>
      b64_al (x / 4) :: b64_al ((x mod 4) * 16 + y / 16) :: b64_al ((y mod 16) * 4 + z / 64)
      :: b64_al (z mod 64) :: b64_enc r
  end.

(* decoder for canonical text: groups of four alphabet characters, the last group possibly xx== or xxx=
   (left-over bits ignored, as the non-strict library decoder does).  None = not of this shape. *)
Fixpoint b64_dec (s : str) : option bytes :=
  match s with
  | [] => Some []
  | a :: s1 =>
    match s1 with
    | b :: s2 =>
      match s2 with
      | c :: s3 =>
        match s3 with
        | d :: r =>
            match b64_de a, b64_de b with
            | Some p, Some q =>
                if c =? 61 then
                  if (d =? 61) && (match r with [] => true | _ => false end) then Some [p * 4 + q / 16] else None
                else match b64_de c with
                     | Some u =>
                         if d =? 61 then
                           match r with [] => Some [p * 4 + q / 16; (q mod 16) * 16 + u / 4] | _ => None end
                         else match b64_de d with
                              | Some v =>
                                  match b64_dec r with
                                  | Some t => Some (p * 4 + q / 16 :: (q mod 16) * 16 + u / 4 :: (u mod 4) * 64 + v :: t)
                                  | None => None
                                  end
                              | None => None
                              end
                     | None => None
                     end
            | _, _ => None
            end
        | [] => None
        end
      | [] => None
      end
    | [] => None
    end
  end.

(* base64.b64decode(text) as BytesField.to_python sees it: Ok / error / outside the modelled shapes.
   Measured (notes/semantics.md + s_fields.py self-test): non-ASCII -> ValueError; only alphabet characters
   and no '=': length mod 4 must be 0 (1: invalid, 2 and 3: incorrect padding); canonical padded text
   decodes; everything else (characters outside the alphabet are skipped, '=' in odd places) is not modelled. *)
Definition is_b64_char (c : N) : bool := match b64_de c with Some _ => true | None => false end.
Definition b64_decode_py (s : str) : res bytes :=
  if existsb (fun c => 128 <=? c) s then Err EValue
  else match b64_dec s with
       | Some b => Ok b
       | None =>
           if forallb is_b64_char s
           then (if (N.of_nat (length s) mod 4 =? 0) then Unmodelled (* unreachable *) else Err EValue)
           else Unmodelled
       end.
