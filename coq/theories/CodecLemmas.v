(* CodecLemmas.v — round-trip, injectivity and range lemmas for the codecs of Codec.v.
   Per-byte / per-pair facts are established by exhaustive computation over 0..255 (vm_compute). *)
From Coq Require Import ZArith NArith List Bool Lia.
From Cinco Require Import Base Codec.
Import ListNotations.
Open Scope N_scope.

(* ---------- exhaustive enumeration helpers ---------- *)
Definition range256 : list N := map N.of_nat (seq 0 256).
Definition range64 : list N := map N.of_nat (seq 0 64).

Lemma in_range256 : forall x, byte_ok x = true -> In x range256.
Proof.
  intros x H. unfold byte_ok in H. apply N.ltb_lt in H. unfold range256.
  rewrite <- (N2Nat.id x). apply in_map. apply in_seq. lia.
Qed.

Lemma in_range64 : forall x, (x <? 64) = true -> In x range64.
Proof.
  intros x H. apply N.ltb_lt in H. unfold range64.
  rewrite <- (N2Nat.id x). apply in_map. apply in_seq. lia.
Qed.

Lemma all1 : forall f : N -> bool,
  forallb f range256 = true -> forall x, byte_ok x = true -> f x = true.
Proof.
  intros f H x Hx. rewrite forallb_forall in H. apply H. apply in_range256. exact Hx.
Qed.

Lemma all2 : forall f : N -> N -> bool,
  forallb (fun x => forallb (f x) range256) range256 = true ->
  forall x y, byte_ok x = true -> byte_ok y = true -> f x y = true.
Proof.
  intros f H x y Hx Hy. rewrite forallb_forall in H.
  specialize (H x (in_range256 x Hx)). rewrite forallb_forall in H.
  apply H. apply in_range256. exact Hy.
Qed.

Lemma all64 : forall f : N -> bool,
  forallb f range64 = true -> forall i, (i <? 64) = true -> f i = true.
Proof.
  intros f H x Hx. rewrite forallb_forall in H. apply H. apply in_range64. exact Hx.
Qed.

Lemma opt_chk : forall (o : option N) v,
  (match o with Some j => j =? v | None => false end) = true -> o = Some v.
Proof.
  intros o v. destruct o as [j|]; [|discriminate].
  intro H. apply N.eqb_eq in H. subst. reflexivity.
Qed.

Ltac split_andb :=
  repeat match goal with
         | K : (_ && _) = true |- _ => apply andb_prop in K; destruct K
         end.
Ltac eqb_to_eq :=
  repeat match goal with
         | K : (_ =? _) = true |- _ => apply N.eqb_eq in K
         end.

Lemma bytes_ok_cons : forall x r, bytes_ok (x :: r) = true -> byte_ok x = true /\ bytes_ok r = true.
Proof. intros x r H. unfold bytes_ok in *. cbn [forallb] in H. apply andb_prop in H. exact H. Qed.

Lemma bytes_ok_cons_intro : forall x r, byte_ok x = true -> bytes_ok r = true -> bytes_ok (x :: r) = true.
Proof. intros x r H1 H2. unfold bytes_ok in *. cbn [forallb]. rewrite H1, H2. reflexivity. Qed.

Lemma lt256 : forall x, x < 256 -> byte_ok x = true.
Proof. intros x H. unfold byte_ok. apply N.ltb_lt. exact H. Qed.

(* ---------- hex ---------- *)
Definition chk_hex (x : N) : bool :=
  let c := hexdig_of (x / 16) in
  let d := hexdig_of (x mod 16) in
  negb (is_hex_space c)
  && (match hexdig c with Some h => h =? x / 16 | None => false end)
  && (match hexdig d with Some l => l =? x mod 16 | None => false end)
  && (16 * (x / 16) + x mod 16 =? x).

Lemma chk_hex_all : forallb chk_hex range256 = true.
Proof. vm_compute. reflexivity. Qed.

Lemma hex_facts : forall x, byte_ok x = true ->
  is_hex_space (hexdig_of (x / 16)) = false /\
  hexdig (hexdig_of (x / 16)) = Some (x / 16) /\
  hexdig (hexdig_of (x mod 16)) = Some (x mod 16) /\
  16 * (x / 16) + x mod 16 = x.
Proof.
  intros x Hx. pose proof (all1 chk_hex chk_hex_all x Hx) as K.
  unfold chk_hex in K. cbv zeta in K. split_andb.
  repeat split.
  - apply negb_true_iff. assumption.
  - apply opt_chk. assumption.
  - apply opt_chk. assumption.
  - apply N.eqb_eq. assumption.
Qed.

Lemma hex_dec_step : forall c d r h l,
  is_hex_space c = false -> hexdig c = Some h -> hexdig d = Some l ->
  hex_dec (c :: d :: r) =
  match hex_dec r with Some t => Some (16 * h + l :: t) | None => None end.
Proof.
  intros c d r h l H1 H2 H3. cbn [hex_dec]. rewrite H1, H2, H3. reflexivity.
Qed.

Lemma hex_dec_enc : forall b, bytes_ok b = true -> hex_dec (hex_enc b) = Some b.
Proof.
  induction b as [|x r IH]; intro H.
  - reflexivity.
  - apply bytes_ok_cons in H. destruct H as [Hx Hr].
    destruct (hex_facts x Hx) as (F1 & F2 & F3 & F4).
    cbn [hex_enc]. rewrite (hex_dec_step _ _ _ _ _ F1 F2 F3).
    rewrite (IH Hr). rewrite F4. reflexivity.
Qed.

Lemma hex_enc_inj : forall a b, bytes_ok a = true -> bytes_ok b = true -> hex_enc a = hex_enc b -> a = b.
Proof.
  intros a b Ha Hb E. apply hex_dec_enc in Ha. apply hex_dec_enc in Hb.
  rewrite E in Ha. rewrite Ha in Hb. injection Hb as Hb. exact Hb.
Qed.

(* ---------- base64 ---------- *)
Definition chk_idx (i : N) : bool :=
  (match b64_de (b64_al i) with Some j => j =? i | None => false end)
  && negb (b64_al i =? 61)
  && negb (128 <=? b64_al i).

Lemma chk_idx_all : forallb chk_idx range64 = true.
Proof. vm_compute. reflexivity. Qed.

Lemma idx_facts : forall i, (i <? 64) = true ->
  b64_de (b64_al i) = Some i /\ (b64_al i =? 61) = false /\ (128 <=? b64_al i) = false.
Proof.
  intros i Hi. pose proof (all64 chk_idx chk_idx_all i Hi) as K.
  unfold chk_idx in K. split_andb.
  repeat split.
  - apply opt_chk. assumption.
  - apply negb_true_iff. assumption.
  - apply negb_true_iff. assumption.
Qed.

Definition chk_xy (x y : N) : bool :=
  let p := x / 4 in
  let q0 := (x mod 4) * 16 in
  let q := q0 + y / 16 in
  (p <? 64) && (q0 <? 64) && (q <? 64)
  && (p * 4 + q0 / 16 =? x) && (p * 4 + q / 16 =? x) && (q mod 16 =? y / 16).

Lemma chk_xy_all : forallb (fun x => forallb (chk_xy x) range256) range256 = true.
Proof. vm_compute. reflexivity. Qed.

Lemma xy_facts : forall x y, byte_ok x = true -> byte_ok y = true ->
  (x / 4 <? 64) = true /\
  ((x mod 4) * 16 <? 64) = true /\
  ((x mod 4) * 16 + y / 16 <? 64) = true /\
  (x / 4) * 4 + ((x mod 4) * 16) / 16 = x /\
  (x / 4) * 4 + ((x mod 4) * 16 + y / 16) / 16 = x /\
  ((x mod 4) * 16 + y / 16) mod 16 = y / 16.
Proof.
  intros x y Hx Hy. pose proof (all2 chk_xy chk_xy_all x y Hx Hy) as K.
  unfold chk_xy in K. cbv zeta in K. split_andb. eqb_to_eq.
  repeat split; assumption.
Qed.

Definition chk_yz (y z : N) : bool :=
  let u0 := (y mod 16) * 4 in
  let u := u0 + z / 64 in
  let v := z mod 64 in
  (u0 <? 64) && (u <? 64) && (v <? 64)
  && (u0 / 4 =? y mod 16) && (u / 4 =? y mod 16) && (u mod 4 =? z / 64)
  && ((y / 16) * 16 + y mod 16 =? y) && ((z / 64) * 64 + z mod 64 =? z).

Lemma chk_yz_all : forallb (fun y => forallb (chk_yz y) range256) range256 = true.
Proof. vm_compute. reflexivity. Qed.

Lemma yz_facts : forall y z, byte_ok y = true -> byte_ok z = true ->
  ((y mod 16) * 4 <? 64) = true /\
  ((y mod 16) * 4 + z / 64 <? 64) = true /\
  (z mod 64 <? 64) = true /\
  ((y mod 16) * 4) / 4 = y mod 16 /\
  ((y mod 16) * 4 + z / 64) / 4 = y mod 16 /\
  ((y mod 16) * 4 + z / 64) mod 4 = z / 64 /\
  (y / 16) * 16 + y mod 16 = y /\
  (z / 64) * 64 + z mod 64 = z.
Proof.
  intros y z Hy Hz. pose proof (all2 chk_yz chk_yz_all y z Hy Hz) as K.
  unfold chk_yz in K. cbv zeta in K. split_andb. eqb_to_eq.
  repeat split; assumption.
Qed.

Lemma b64_enc_3 : forall x y z r,
  b64_enc (x :: y :: z :: r) =
  b64_al (x / 4) :: b64_al ((x mod 4) * 16 + y / 16) :: b64_al ((y mod 16) * 4 + z / 64)
  :: b64_al (z mod 64) :: b64_enc r.
Proof. reflexivity. Qed.

Lemma b64_enc_2 : forall x y,
  b64_enc [x; y] = [b64_al (x / 4); b64_al ((x mod 4) * 16 + y / 16); b64_al ((y mod 16) * 4); 61].
Proof. reflexivity. Qed.

Lemma b64_enc_1 : forall x,
  b64_enc [x] = [b64_al (x / 4); b64_al ((x mod 4) * 16); 61; 61].
Proof. reflexivity. Qed.

Lemma b64_dec_step4 : forall a b c d r p q u v,
  b64_de a = Some p -> b64_de b = Some q -> b64_de c = Some u -> b64_de d = Some v ->
  (c =? 61) = false -> (d =? 61) = false ->
  b64_dec (a :: b :: c :: d :: r) =
  match b64_dec r with
  | Some t => Some (p * 4 + q / 16 :: (q mod 16) * 16 + u / 4 :: (u mod 4) * 64 + v :: t)
  | None => None
  end.
Proof.
  intros a b c d r p q u v H1 H2 H3 H4 H5 H6.
  cbn [b64_dec]. rewrite H1, H2, H5, H3, H6, H4. reflexivity.
Qed.

Lemma b64_dec_pad1 : forall a b c p q u,
  b64_de a = Some p -> b64_de b = Some q -> b64_de c = Some u -> (c =? 61) = false ->
  b64_dec [a; b; c; 61] = Some [p * 4 + q / 16; (q mod 16) * 16 + u / 4].
Proof.
  intros a b c p q u H1 H2 H3 H5.
  cbn [b64_dec]. rewrite H1, H2, H5, H3. reflexivity.
Qed.

Lemma b64_dec_pad2 : forall a b p q,
  b64_de a = Some p -> b64_de b = Some q ->
  b64_dec [a; b; 61; 61] = Some [p * 4 + q / 16].
Proof.
  intros a b p q H1 H2.
  cbn [b64_dec]. rewrite H1, H2. reflexivity.
Qed.

Lemma list_ind3 : forall (A : Type) (P : list A -> Prop),
  P [] -> (forall x, P [x]) -> (forall x y, P [x; y]) ->
  (forall x y z r, P r -> P (x :: y :: z :: r)) ->
  forall l, P l.
Proof.
  intros A P H0 H1 H2 H3.
  assert (K : forall l, P l /\ (forall x, P (x :: l)) /\ (forall x y, P (x :: y :: l))).
  { induction l as [|a l IH].
    - repeat split; auto.
    - destruct IH as (A1 & A2 & A3). repeat split.
      + apply A2.
      + intro x. apply A3.
      + intros x y. apply H3. exact A1. }
  intro l. apply (K l).
Qed.

Lemma b64_dec_enc : forall b, bytes_ok b = true -> b64_dec (b64_enc b) = Some b.
Proof.
  intro b. induction b as [| x | x y | x y z r IH] using list_ind3; intro H.
  - reflexivity.
  - apply bytes_ok_cons in H. destruct H as [Hx _].
    destruct (xy_facts x x Hx Hx) as (Bp & Bq0 & _ & E1 & _ & _).
    destruct (idx_facts _ Bp) as (Dp & _ & _).
    destruct (idx_facts _ Bq0) as (Dq & _ & _).
    rewrite b64_enc_1. rewrite (b64_dec_pad2 _ _ _ _ Dp Dq). rewrite E1. reflexivity.
  - apply bytes_ok_cons in H. destruct H as [Hx H].
    apply bytes_ok_cons in H. destruct H as [Hy _].
    destruct (xy_facts x y Hx Hy) as (Bp & _ & Bq & _ & E1 & E2).
    destruct (yz_facts y y Hy Hy) as (Bu0 & _ & _ & E3 & _ & _ & E5 & _).
    destruct (idx_facts _ Bp) as (Dp & _ & _).
    destruct (idx_facts _ Bq) as (Dq & _ & _).
    destruct (idx_facts _ Bu0) as (Du & Nu & _).
    rewrite b64_enc_2. rewrite (b64_dec_pad1 _ _ _ _ _ _ Dp Dq Du Nu).
    rewrite E1, E2, E3, E5. reflexivity.
  - apply bytes_ok_cons in H. destruct H as [Hx H].
    apply bytes_ok_cons in H. destruct H as [Hy H].
    apply bytes_ok_cons in H. destruct H as [Hz Hr].
    destruct (xy_facts x y Hx Hy) as (Bp & _ & Bq & _ & E1 & E2).
    destruct (yz_facts y z Hy Hz) as (_ & Bu & Bv & _ & E3 & E4 & E5 & E6).
    destruct (idx_facts _ Bp) as (Dp & _ & _).
    destruct (idx_facts _ Bq) as (Dq & _ & _).
    destruct (idx_facts _ Bu) as (Du & Nu & _).
    destruct (idx_facts _ Bv) as (Dv & Nv & _).
    rewrite b64_enc_3. rewrite (b64_dec_step4 _ _ _ _ _ _ _ _ _ Dp Dq Du Dv Nu Nv).
    rewrite (IH Hr). rewrite E1, E2, E3, E4, E5, E6. reflexivity.
Qed.

Lemma b64_enc_ascii : forall b, bytes_ok b = true -> existsb (fun c => 128 <=? c) (b64_enc b) = false.
Proof.
  intro b. induction b as [| x | x y | x y z r IH] using list_ind3; intro H.
  - reflexivity.
  - apply bytes_ok_cons in H. destruct H as [Hx _].
    destruct (xy_facts x x Hx Hx) as (Bp & Bq0 & _ & _ & _ & _).
    destruct (idx_facts _ Bp) as (_ & _ & Ap).
    destruct (idx_facts _ Bq0) as (_ & _ & Aq).
    rewrite b64_enc_1. cbn [existsb]. rewrite Ap, Aq. reflexivity.
  - apply bytes_ok_cons in H. destruct H as [Hx H].
    apply bytes_ok_cons in H. destruct H as [Hy _].
    destruct (xy_facts x y Hx Hy) as (Bp & _ & Bq & _ & _ & _).
    destruct (yz_facts y y Hy Hy) as (Bu0 & _).
    destruct (idx_facts _ Bp) as (_ & _ & Ap).
    destruct (idx_facts _ Bq) as (_ & _ & Aq).
    destruct (idx_facts _ Bu0) as (_ & _ & Au).
    rewrite b64_enc_2. cbn [existsb]. rewrite Ap, Aq, Au. reflexivity.
  - apply bytes_ok_cons in H. destruct H as [Hx H].
    apply bytes_ok_cons in H. destruct H as [Hy H].
    apply bytes_ok_cons in H. destruct H as [Hz Hr].
    destruct (xy_facts x y Hx Hy) as (Bp & _ & Bq & _ & _ & _).
    destruct (yz_facts y z Hy Hz) as (_ & Bu & Bv & _).
    destruct (idx_facts _ Bp) as (_ & _ & Ap).
    destruct (idx_facts _ Bq) as (_ & _ & Aq).
    destruct (idx_facts _ Bu) as (_ & _ & Au).
    destruct (idx_facts _ Bv) as (_ & _ & Av).
    rewrite b64_enc_3. cbn [existsb]. rewrite Ap, Aq, Au, Av. rewrite (IH Hr). reflexivity.
Qed.

Lemma b64_decode_py_enc : forall b, bytes_ok b = true -> b64_decode_py (b64_enc b) = Ok b.
Proof.
  intros b H. unfold b64_decode_py.
  rewrite (b64_enc_ascii b H). rewrite (b64_dec_enc b H). reflexivity.
Qed.

Lemma b64_enc_inj : forall a b, bytes_ok a = true -> bytes_ok b = true -> b64_enc a = b64_enc b -> a = b.
Proof.
  intros a b Ha Hb E. apply b64_dec_enc in Ha. apply b64_dec_enc in Hb.
  rewrite E in Ha. rewrite Ha in Hb. injection Hb as Hb. exact Hb.
Qed.

(* ---------- decoded / encoded bytes are < 256 ---------- *)
Lemma some_inj : forall (A : Type) (x y : A), Some x = Some y -> x = y.
Proof. intros A x y H. injection H. auto. Qed.

Lemma div_lt : forall a b q, b <> 0 -> a < b * q -> a / b < q.
Proof. intros a b q Hb H. apply N.div_lt_upper_bound; assumption. Qed.

Lemma bytes_ok_app : forall a b, bytes_ok a = true -> bytes_ok b = true -> bytes_ok (a ++ b) = true.
Proof.
  intros a b Ha Hb. unfold bytes_ok in *. rewrite forallb_app. rewrite Ha, Hb. reflexivity.
Qed.

Lemma utf8_cp_bytes_ok : forall c a, utf8_cp c = Some a -> bytes_ok a = true.
Proof.
  intros c a. unfold utf8_cp.
  assert (M1 : c mod 64 < 64) by (apply N.mod_lt; lia).
  assert (M2 : (c / 64) mod 64 < 64) by (apply N.mod_lt; lia).
  assert (M3 : (c / 4096) mod 64 < 64) by (apply N.mod_lt; lia).
  destruct (c <? 128) eqn:E1.
  { intro H. apply some_inj in H. subst. apply N.ltb_lt in E1.
    apply bytes_ok_cons_intro; [apply lt256; lia | reflexivity]. }
  destruct (c <? 2048) eqn:E2.
  { intro H. apply some_inj in H. subst. apply N.ltb_lt in E2.
    assert (D : c / 64 < 32) by (apply div_lt; lia).
    repeat (apply bytes_ok_cons_intro; [apply lt256; lia | ]). reflexivity. }
  destruct (c <? 65536) eqn:E3.
  { destruct ((55296 <=? c) && (c <=? 57343)); [discriminate|].
    intro H. apply some_inj in H. subst. apply N.ltb_lt in E3.
    assert (D : c / 4096 < 16) by (apply div_lt; lia).
    repeat (apply bytes_ok_cons_intro; [apply lt256; lia | ]). reflexivity. }
  destruct (c <? 1114112) eqn:E4; [|discriminate].
  intro H. apply some_inj in H. subst. apply N.ltb_lt in E4.
  assert (D : c / 262144 < 5) by (apply div_lt; lia).
  repeat (apply bytes_ok_cons_intro; [apply lt256; lia | ]). reflexivity.
Qed.

Lemma utf8_enc_bytes_ok : forall s b, utf8_enc s = Some b -> bytes_ok b = true.
Proof.
  induction s as [|c r IH]; intros b H.
  - cbn [utf8_enc] in H. apply some_inj in H. subst. reflexivity.
  - cbn [utf8_enc] in H.
    destruct (utf8_cp c) as [a|] eqn:Ea; [|discriminate].
    destruct (utf8_enc r) as [t|] eqn:Et; [|discriminate].
    apply some_inj in H. subst. apply bytes_ok_app.
    + apply (utf8_cp_bytes_ok c a Ea).
    + apply IH. reflexivity.
Qed.

Lemma hexdig_lt16 : forall c h, hexdig c = Some h -> h < 16.
Proof.
  intros c h. unfold hexdig.
  destruct ((48 <=? c) && (c <=? 57)) eqn:E1.
  { intro H. apply some_inj in H. subst. apply andb_prop in E1. destruct E1 as [A B].
    apply N.leb_le in A. apply N.leb_le in B. lia. }
  destruct ((97 <=? c) && (c <=? 102)) eqn:E2.
  { intro H. apply some_inj in H. subst. apply andb_prop in E2. destruct E2 as [A B].
    apply N.leb_le in A. apply N.leb_le in B. lia. }
  destruct ((65 <=? c) && (c <=? 70)) eqn:E3; [|discriminate].
  intro H. apply some_inj in H. subst. apply andb_prop in E3. destruct E3 as [A B].
  apply N.leb_le in A. apply N.leb_le in B. lia.
Qed.

Lemma hex_dec_bytes_ok : forall s b, hex_dec s = Some b -> bytes_ok b = true.
Proof.
  assert (K : forall s,
            (forall b, hex_dec s = Some b -> bytes_ok b = true) /\
            (forall c b, hex_dec (c :: s) = Some b -> bytes_ok b = true)).
  { induction s as [|d r IH].
    - split.
      + intros b H. cbn [hex_dec] in H. apply some_inj in H. subst. reflexivity.
      + intros c b H. cbn [hex_dec] in H. destruct (is_hex_space c); [|discriminate].
        apply some_inj in H. subst. reflexivity.
    - destruct IH as [I1 I2]. split.
      + intros b H. apply (I2 d b H).
      + intros c b H. cbn [hex_dec] in H. fold (hex_dec (d :: r)) in H.
        destruct (is_hex_space c).
        * apply (I2 d b H).
        * destruct (hexdig c) as [h|] eqn:Eh; [|discriminate].
          destruct (hexdig d) as [l|] eqn:El; [|discriminate].
          destruct (hex_dec r) as [t|] eqn:Et; [|discriminate].
          apply some_inj in H. subst.
          apply hexdig_lt16 in Eh. apply hexdig_lt16 in El.
          apply bytes_ok_cons_intro; [apply lt256; lia | apply I1; reflexivity]. }
  intros s b H. apply (proj1 (K s) b H).
Qed.

Lemma b64_de_lt64 : forall c i, b64_de c = Some i -> i < 64.
Proof.
  intros c i. unfold b64_de.
  destruct ((65 <=? c) && (c <=? 90)) eqn:E1.
  { intro H. apply some_inj in H. subst. apply andb_prop in E1. destruct E1 as [A B].
    apply N.leb_le in A. apply N.leb_le in B. lia. }
  destruct ((97 <=? c) && (c <=? 122)) eqn:E2.
  { intro H. apply some_inj in H. subst. apply andb_prop in E2. destruct E2 as [A B].
    apply N.leb_le in A. apply N.leb_le in B. lia. }
  destruct ((48 <=? c) && (c <=? 57)) eqn:E3.
  { intro H. apply some_inj in H. subst. apply andb_prop in E3. destruct E3 as [A B].
    apply N.leb_le in A. apply N.leb_le in B. lia. }
  destruct (c =? 43); [intro H; apply some_inj in H; subst; lia|].
  destruct (c =? 47); [intro H; apply some_inj in H; subst; lia|].
  discriminate.
Qed.

Lemma b64_byte1 : forall p q, p < 64 -> q < 64 -> byte_ok (p * 4 + q / 16) = true.
Proof.
  intros p q Hp Hq. apply lt256.
  assert (q / 16 < 4) by (apply div_lt; lia). lia.
Qed.

Lemma b64_byte2 : forall q u, u < 64 -> byte_ok ((q mod 16) * 16 + u / 4) = true.
Proof.
  intros q u Hu. apply lt256.
  assert (q mod 16 < 16) by (apply N.mod_lt; lia).
  assert (u / 4 < 16) by (apply div_lt; lia). lia.
Qed.

Lemma b64_byte3 : forall u v, v < 64 -> byte_ok ((u mod 4) * 64 + v) = true.
Proof.
  intros u v Hv. apply lt256.
  assert (u mod 4 < 4) by (apply N.mod_lt; lia). lia.
Qed.

Lemma b64_dec_bytes_ok_aux : forall (n : nat) s, (length s <= n)%nat ->
  forall b, b64_dec s = Some b -> bytes_ok b = true.
Proof.
  induction n as [|n IH]; intros s L b H.
  - destruct s as [|a s]; [|cbn [length] in L; lia].
    cbn [b64_dec] in H. apply some_inj in H. subst. reflexivity.
  - destruct s as [|a [|b' [|c [|d r]]]]; cbn [b64_dec] in H; try discriminate.
    + apply some_inj in H. subst. reflexivity.
    + destruct (b64_de a) as [p|] eqn:Ea; [|discriminate].
      destruct (b64_de b') as [q|] eqn:Eb; [|discriminate].
      apply b64_de_lt64 in Ea. apply b64_de_lt64 in Eb.
      destruct (c =? 61).
      * destruct ((d =? 61) && match r with [] => true | _ :: _ => false end); [|discriminate].
        apply some_inj in H. subst.
        apply bytes_ok_cons_intro; [apply b64_byte1; assumption | reflexivity].
      * destruct (b64_de c) as [u|] eqn:Ec; [|discriminate].
        apply b64_de_lt64 in Ec.
        destruct (d =? 61).
        { destruct r; [|discriminate]. apply some_inj in H. subst.
          apply bytes_ok_cons_intro; [apply b64_byte1; assumption |].
          apply bytes_ok_cons_intro; [apply b64_byte2; assumption | reflexivity]. }
        destruct (b64_de d) as [v|] eqn:Ed; [|discriminate].
        apply b64_de_lt64 in Ed.
        destruct (b64_dec r) as [t|] eqn:Et; [|discriminate].
        apply some_inj in H. subst.
        apply bytes_ok_cons_intro; [apply b64_byte1; assumption |].
        apply bytes_ok_cons_intro; [apply b64_byte2; assumption |].
        apply bytes_ok_cons_intro; [apply b64_byte3; assumption |].
        apply (IH r); [cbn [length] in L; lia | exact Et].
Qed.

Lemma b64_dec_bytes_ok : forall s b, b64_dec s = Some b -> bytes_ok b = true.
Proof.
  intros s b H. apply (b64_dec_bytes_ok_aux (length s) s (le_n _) b H).
Qed.
