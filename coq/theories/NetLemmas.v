(* NetLemmas.v — round-trip, bound and canonicity facts for the IPv4 address / network text syntax of Net.v. *)
From Coq Require Import ZArith NArith List Bool Lia.
From Cinco Require Import Base Str Net.
Import ListNotations.
Open Scope N_scope.

(* ---------- finite ranges ---------- *)
Definition range256 := map N.of_nat (seq 0 256).

Lemma range_forall : forall (n : nat) (P : N -> bool),
  forallb P (map N.of_nat (seq 0 n)) = true -> forall x, (N.to_nat x < n)%nat -> P x = true.
Proof.
  intros n P H x Hx. rewrite forallb_forall in H. apply H.
  apply in_map_iff. exists (N.to_nat x). split.
  - apply N2Nat.id.
  - apply in_seq. lia.
Qed.

Lemma in_range256 : forall x, x < 256 -> In x range256.
Proof.
  intros x H. unfold range256. apply in_map_iff. exists (N.to_nat x). split.
  - apply N2Nat.id.
  - apply in_seq. lia.
Qed.

(* ---------- octet level, by exhaustive computation ---------- *)
Definition dec_ok (v : N) : bool :=
  match parse_octet (dec_N v) with Some w => w =? v | None => false end
  && negb (existsb (N.eqb 46) (dec_N v))
  && negb (existsb (N.eqb 47) (dec_N v))
  && forallb is_digit (dec_N v).

Lemma dec_ok_all : forallb dec_ok range256 = true.
Proof. vm_compute. reflexivity. Qed.

Lemma dec_octet : forall v, v < 256 ->
  parse_octet (dec_N v) = Some v
  /\ existsb (N.eqb 46) (dec_N v) = false
  /\ existsb (N.eqb 47) (dec_N v) = false
  /\ forallb is_digit (dec_N v) = true.
Proof.
  intros v Hv.
  assert (H : dec_ok v = true).
  { apply (range_forall 256 dec_ok dec_ok_all). lia. }
  unfold dec_ok in H.
  apply andb_true_iff in H as [H H4].
  apply andb_true_iff in H as [H H3].
  apply andb_true_iff in H as [H1 H2].
  apply negb_true_iff in H2. apply negb_true_iff in H3.
  destruct (parse_octet (dec_N v)) as [w|]; [|discriminate].
  apply N.eqb_eq in H1. subst w. repeat split; assumption.
Qed.

Definition pfx_ok (v : N) : bool :=
  negb (is_nil (dec_N v))
  && forallb is_digit (dec_N v)
  && (Z.to_N (digits_val 0%Z (dec_N v)) =? v)
  && negb (existsb (N.eqb 47) (dec_N v))
  && negb (existsb (N.eqb 46) (dec_N v)).

Lemma pfx_ok_all : forallb pfx_ok (map N.of_nat (seq 0 33)) = true.
Proof. vm_compute. reflexivity. Qed.

Lemma dec_prefix : forall p, p <= 32 ->
  negb (is_nil (dec_N p)) = true
  /\ forallb is_digit (dec_N p) = true
  /\ Z.to_N (digits_val 0%Z (dec_N p)) = p
  /\ existsb (N.eqb 47) (dec_N p) = false
  /\ existsb (N.eqb 46) (dec_N p) = false.
Proof.
  intros p Hp.
  assert (H : pfx_ok p = true).
  { apply (range_forall 33 pfx_ok pfx_ok_all). lia. }
  unfold pfx_ok in H.
  apply andb_true_iff in H as [H H5].
  apply andb_true_iff in H as [H H4].
  apply andb_true_iff in H as [H H3].
  apply andb_true_iff in H as [H1 H2].
  apply negb_true_iff in H4. apply negb_true_iff in H5.
  apply N.eqb_eq in H3. repeat split; assumption.
Qed.

Lemma parse_octet_inv : forall s v, parse_octet s = Some v ->
  forallb is_digit s = true /\ (length s <= 3)%nat /\ s <> [] /\ v < 256.
Proof.
  intros s v H. unfold parse_octet in H.
  destruct s as [|c r]; [discriminate|].
  match type of H with (if ?b then _ else _) = _ => destruct b eqn:E end; [|discriminate].
  apply andb_true_iff in E as [E E3].
  apply andb_true_iff in E as [E1 E2].
  cbv zeta in H.
  match type of H with (if ?b then _ else _) = _ => destruct b eqn:E4 end; [|discriminate].
  apply N.leb_le in E4. apply Nat.leb_le in E2.
  set (vv := Z.to_N (digits_val 0%Z (c :: r))) in *.
  assert (Hv : vv = v) by congruence.
  repeat split; try assumption.
  - discriminate.
  - lia.
Qed.

Lemma str_eqb_eq : forall a b : str, str_eqb a b = true -> a = b.
Proof.
  unfold str_eqb.
  induction a as [|x xs IH]; intros [|y ys] H; simpl in H; try discriminate.
  - reflexivity.
  - apply andb_true_iff in H as [H1 H2]. apply N.eqb_eq in H1. subst.
    f_equal. apply IH. assumption.
Qed.

Definition digs : list N := [48; 49; 50; 51; 52; 53; 54; 55; 56; 57].

Lemma is_digit_in : forall c, is_digit c = true -> In c digs.
Proof.
  intros c H. unfold is_digit in H. apply andb_true_iff in H as [H1 H2].
  apply N.leb_le in H1. apply N.leb_le in H2.
  assert (Hk : (N.to_nat c - 48 < 10)%nat) by lia.
  assert (Hc : c = N.of_nat (48 + (N.to_nat c - 48))) by lia.
  rewrite Hc.
  generalize dependent (N.to_nat c - 48)%nat. intros k Hk _.
  do 10 (destruct k as [|k]; [simpl; tauto|]).
  lia.
Qed.

Definition chk (s : str) : bool :=
  match parse_octet s with Some v => str_eqb (dec_N v) s | None => true end.

Definition chk_all : bool :=
  forallb (fun a => chk [a] &&
    forallb (fun b => chk [a; b] &&
      forallb (fun c => chk [a; b; c]) digs) digs) digs.

Lemma chk_all_true : chk_all = true.
Proof. vm_compute. reflexivity. Qed.

Lemma chk_digits : forall s, forallb is_digit s = true -> (length s <= 3)%nat -> s <> [] -> chk s = true.
Proof.
  intros s Hd Hl Hn.
  pose proof chk_all_true as H. unfold chk_all in H.
  rewrite forallb_forall in H.
  destruct s as [|a [|b [|c [|d r]]]].
  - congruence.
  - simpl in Hd. apply andb_true_iff in Hd as [Ha _].
    specialize (H a (is_digit_in a Ha)). apply andb_true_iff in H as [H _]. exact H.
  - simpl in Hd. apply andb_true_iff in Hd as [Ha Hd]. apply andb_true_iff in Hd as [Hb _].
    specialize (H a (is_digit_in a Ha)). apply andb_true_iff in H as [_ H].
    rewrite forallb_forall in H.
    specialize (H b (is_digit_in b Hb)). apply andb_true_iff in H as [H _]. exact H.
  - simpl in Hd. apply andb_true_iff in Hd as [Ha Hd]. apply andb_true_iff in Hd as [Hb Hd].
    apply andb_true_iff in Hd as [Hc _].
    specialize (H a (is_digit_in a Ha)). apply andb_true_iff in H as [_ H].
    rewrite forallb_forall in H.
    specialize (H b (is_digit_in b Hb)). apply andb_true_iff in H as [_ H].
    rewrite forallb_forall in H.
    exact (H c (is_digit_in c Hc)).
  - simpl in Hl. lia.
Qed.

Lemma parse_octet_canonical : forall s v, parse_octet s = Some v -> dec_N v = s.
Proof.
  intros s v H.
  destruct (parse_octet_inv s v H) as (Hd & Hl & Hn & _).
  pose proof (chk_digits s Hd Hl Hn) as Hc.
  unfold chk in Hc. rewrite H in Hc. apply str_eqb_eq. exact Hc.
Qed.

(* ---------- split / join ---------- *)
Lemma split_on_nosep : forall sep u cur,
  existsb (N.eqb sep) u = false -> split_on sep cur u = [rev cur ++ u].
Proof.
  intros sep u. induction u as [|c u IH]; intros cur H.
  - simpl. rewrite app_nil_r. reflexivity.
  - simpl in H. apply orb_false_iff in H as [H1 H2].
    simpl. rewrite N.eqb_sym, H1. rewrite IH by assumption.
    simpl. rewrite <- app_assoc. reflexivity.
Qed.

Lemma split_on_sep : forall sep u cur r,
  existsb (N.eqb sep) u = false ->
  split_on sep cur (u ++ sep :: r) = (rev cur ++ u) :: split_on sep [] r.
Proof.
  intros sep u. induction u as [|c u IH]; intros cur r H.
  - simpl. rewrite N.eqb_refl. rewrite app_nil_r. reflexivity.
  - simpl in H. apply orb_false_iff in H as [H1 H2].
    simpl. rewrite N.eqb_sym, H1. rewrite IH by assumption.
    simpl. rewrite <- app_assoc. reflexivity.
Qed.

Lemma split_on_not_nil : forall sep s cur, split_on sep cur s <> [].
Proof.
  intros sep s. induction s as [|c r IH]; intros cur; simpl.
  - discriminate.
  - destruct (c =? sep); [discriminate|apply IH].
Qed.

Lemma join_split_on : forall sep s cur, join [sep] (split_on sep cur s) = rev cur ++ s.
Proof.
  intros sep s. induction s as [|c r IH]; intros cur.
  - simpl. rewrite app_nil_r. reflexivity.
  - simpl split_on. destruct (c =? sep) eqn:E.
    + apply N.eqb_eq in E. subst c.
      destruct (split_on sep [] r) as [|y l] eqn:E2.
      * exfalso. exact (split_on_not_nil sep r [] E2).
      * change (join [sep] (rev cur :: y :: l)) with (rev cur ++ [sep] ++ join [sep] (y :: l)).
        rewrite <- E2. rewrite IH. reflexivity.
    + rewrite IH. simpl. rewrite <- app_assoc. reflexivity.
Qed.

Lemma join_split : forall sep s, join [sep] (split sep s) = s.
Proof. intros. unfold split. rewrite join_split_on. reflexivity. Qed.

Lemma split4 : forall sep a b c d,
  existsb (N.eqb sep) a = false -> existsb (N.eqb sep) b = false ->
  existsb (N.eqb sep) c = false -> existsb (N.eqb sep) d = false ->
  split sep (a ++ [sep] ++ b ++ [sep] ++ c ++ [sep] ++ d) = [a; b; c; d].
Proof.
  intros sep a b c d Ha Hb Hc Hd. unfold split. cbn [app].
  rewrite split_on_sep by assumption.
  rewrite split_on_sep by assumption.
  rewrite split_on_sep by assumption.
  rewrite split_on_nosep by assumption.
  reflexivity.
Qed.

(* ---------- arithmetic ---------- *)
Lemma quad_div : forall a, a < 4294967296 ->
  a / 16777216 < 256 /\ (a / 65536) mod 256 < 256 /\ (a / 256) mod 256 < 256 /\ a mod 256 < 256
  /\ ((a / 16777216 * 256 + (a / 65536) mod 256) * 256 + (a / 256) mod 256) * 256 + a mod 256 = a.
Proof.
  intros a H.
  replace (a / 65536) with (a / 256 / 256) by (rewrite N.div_div by discriminate; reflexivity).
  replace (a / 16777216) with (a / 256 / 256 / 256) by (rewrite !N.div_div by discriminate; reflexivity).
  Zify.zify. Z.to_euclidean_division_equations. lia.
Qed.

Lemma quad_mul : forall w x y z, w < 256 -> x < 256 -> y < 256 -> z < 256 ->
  forall a, a = ((w * 256 + x) * 256 + y) * 256 + z ->
  a < 4294967296 /\ a / 16777216 = w /\ (a / 65536) mod 256 = x /\ (a / 256) mod 256 = y /\ a mod 256 = z.
Proof.
  intros w x y z Hw Hx Hy Hz a Ha.
  replace (a / 65536) with (a / 256 / 256) by (rewrite N.div_div by discriminate; reflexivity).
  replace (a / 16777216) with (a / 256 / 256 / 256) by (rewrite !N.div_div by discriminate; reflexivity).
  Zify.zify. Z.to_euclidean_division_equations. lia.
Qed.

(* ---------- addresses ---------- *)
Lemma parse_ipv4_parts : forall a b c d w x y z,
  parse_octet a = Some w -> parse_octet b = Some x -> parse_octet c = Some y -> parse_octet d = Some z ->
  existsb (N.eqb 46) a = false -> existsb (N.eqb 46) b = false ->
  existsb (N.eqb 46) c = false -> existsb (N.eqb 46) d = false ->
  parse_ipv4 (a ++ [46] ++ b ++ [46] ++ c ++ [46] ++ d) = Some (((w * 256 + x) * 256 + y) * 256 + z).
Proof.
  intros a b c d w x y z Pa Pb Pc Pd Ha Hb Hc Hd.
  unfold parse_ipv4. rewrite split4 by assumption.
  rewrite Pa, Pb, Pc, Pd. reflexivity.
Qed.

Lemma ipv4_roundtrip : forall a, a < 4294967296 -> parse_ipv4 (print_ipv4 a) = Some a.
Proof.
  intros a H.
  destruct (quad_div a H) as (H1 & H2 & H3 & H4 & H5).
  destruct (dec_octet _ H1) as (P1 & D1 & _ & _).
  destruct (dec_octet _ H2) as (P2 & D2 & _ & _).
  destruct (dec_octet _ H3) as (P3 & D3 & _ & _).
  destruct (dec_octet _ H4) as (P4 & D4 & _ & _).
  unfold print_ipv4.
  rewrite (parse_ipv4_parts _ _ _ _ _ _ _ _ P1 P2 P3 P4 D1 D2 D3 D4).
  rewrite H5. reflexivity.
Qed.

Lemma parse_ipv4_inv : forall s a, parse_ipv4 s = Some a ->
  exists sa sb sc sd w x y z,
    split 46 s = [sa; sb; sc; sd]
    /\ parse_octet sa = Some w /\ parse_octet sb = Some x /\ parse_octet sc = Some y /\ parse_octet sd = Some z
    /\ a = ((w * 256 + x) * 256 + y) * 256 + z.
Proof.
  intros s a H. unfold parse_ipv4 in H.
  destruct (split 46 s) as [|sa [|sb [|sc [|sd [|? ?]]]]]; try discriminate.
  destruct (parse_octet sa) as [w|] eqn:Ea; [|discriminate].
  destruct (parse_octet sb) as [x|] eqn:Eb; [|discriminate].
  destruct (parse_octet sc) as [y|] eqn:Ec; [|discriminate].
  destruct (parse_octet sd) as [z|] eqn:Ed; [|discriminate].
  exists sa, sb, sc, sd, w, x, y, z.
  injection H as H. repeat split; try assumption. symmetry. exact H.
Qed.

Lemma parse_ipv4_bound : forall s a, parse_ipv4 s = Some a -> a < 4294967296.
Proof.
  intros s a H.
  destruct (parse_ipv4_inv s a H) as (sa & sb & sc & sd & w & x & y & z & _ & Pa & Pb & Pc & Pd & Ha).
  apply parse_octet_inv in Pa as (_ & _ & _ & Hw).
  apply parse_octet_inv in Pb as (_ & _ & _ & Hx).
  apply parse_octet_inv in Pc as (_ & _ & _ & Hy).
  apply parse_octet_inv in Pd as (_ & _ & _ & Hz).
  destruct (quad_mul w x y z Hw Hx Hy Hz a Ha) as (Hb & _). exact Hb.
Qed.

Lemma parse_ipv4_canonical : forall s a, parse_ipv4 s = Some a -> print_ipv4 a = s.
Proof.
  intros s a H.
  destruct (parse_ipv4_inv s a H) as (sa & sb & sc & sd & w & x & y & z & Hs & Pa & Pb & Pc & Pd & Ha).
  pose proof (parse_octet_canonical _ _ Pa) as Ca.
  pose proof (parse_octet_canonical _ _ Pb) as Cb.
  pose proof (parse_octet_canonical _ _ Pc) as Cc.
  pose proof (parse_octet_canonical _ _ Pd) as Cd.
  apply parse_octet_inv in Pa as (_ & _ & _ & Hw).
  apply parse_octet_inv in Pb as (_ & _ & _ & Hx).
  apply parse_octet_inv in Pc as (_ & _ & _ & Hy).
  apply parse_octet_inv in Pd as (_ & _ & _ & Hz).
  destruct (quad_mul w x y z Hw Hx Hy Hz a Ha) as (_ & Q1 & Q2 & Q3 & Q4).
  unfold print_ipv4. rewrite Q1, Q2, Q3, Q4, Ca, Cb, Cc, Cd.
  rewrite <- (join_split 46 s) at 1. rewrite Hs. reflexivity.
Qed.

(* ---------- networks ---------- *)
Lemma print_ipv4_no47 : forall a, a < 4294967296 -> existsb (N.eqb 47) (print_ipv4 a) = false.
Proof.
  intros a H.
  destruct (quad_div a H) as (H1 & H2 & H3 & H4 & _).
  destruct (dec_octet _ H1) as (_ & _ & D1 & _).
  destruct (dec_octet _ H2) as (_ & _ & D2 & _).
  destruct (dec_octet _ H3) as (_ & _ & D3 & _).
  destruct (dec_octet _ H4) as (_ & _ & D4 & _).
  unfold print_ipv4. rewrite !existsb_app. rewrite D1, D2, D3, D4. reflexivity.
Qed.

Lemma split_print_net : forall a p, a < 4294967296 -> p <= 32 ->
  split 47 (print_net a p) = [print_ipv4 a; dec_N p].
Proof.
  intros a p Ha Hp.
  destruct (dec_prefix p Hp) as (_ & _ & _ & D & _).
  unfold print_net, split.
  change ([47] ++ dec_N p) with (47 :: dec_N p).
  rewrite split_on_sep by (apply print_ipv4_no47; assumption).
  rewrite split_on_nosep by assumption.
  reflexivity.
Qed.

Lemma net_roundtrip : forall a p, a < 4294967296 -> p <= 32 -> a mod 2 ^ (32 - p) = 0 ->
  parse_net (print_net a p) = Ok (a, p).
Proof.
  intros a p Ha Hp Hm.
  destruct (dec_prefix p Hp) as (D1 & D2 & D3 & _ & _).
  unfold parse_net. rewrite (split_print_net a p Ha Hp).
  rewrite (ipv4_roundtrip a Ha).
  rewrite D1, D2. cbv zeta. rewrite D3.
  apply N.leb_le in Hp. rewrite Hp. rewrite Hm. reflexivity.
Qed.

Lemma parse_net_sound : forall s a p, parse_net s = Ok (a, p) ->
  a < 4294967296 /\ p <= 32 /\ a mod 2 ^ (32 - p) = 0.
Proof.
  intros s a p H. unfold parse_net in H.
  destruct (split 47 s) as [|x [|m [|? ?]]]; try discriminate.
  - destruct (parse_ipv4 x) as [v|] eqn:E; [|discriminate].
    inversion H; subst. apply parse_ipv4_bound in E.
    split; [assumption|]. split; [lia|].
    change (32 - 32) with 0. change (2 ^ 0) with 1. apply N.mod_1_r.
  - destruct (parse_ipv4 x) as [v|] eqn:E; [|discriminate].
    apply parse_ipv4_bound in E.
    match type of H with (if ?b then _ else _) = _ => destruct b end.
    + cbv zeta in H.
      set (pp := Z.to_N (digits_val 0%Z m)) in *.
      destruct (pp <=? 32) eqn:E1; [|discriminate].
      destruct (v mod 2 ^ (32 - pp) =? 0) eqn:E2; [|discriminate].
      inversion H; subst.
      apply N.leb_le in E1. apply N.eqb_eq in E2.
      repeat split; assumption.
    + destruct (existsb (N.eqb 46) m); discriminate.
Qed.
