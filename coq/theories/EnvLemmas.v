(* EnvLemmas.v — proofs about Env.v (property C14). *)
From Coq Require Import ZArith NArith String List Bool Lia.
From Cinco Require Import Base Str Env.
Import ListNotations.
Open Scope Z_scope.

Lemma str_eqb_eq : forall a b : str, str_eqb a b = true -> a = b.
Proof.
  unfold str_eqb. induction a as [|x a IH]; destruct b as [|y b]; simpl; intros H; try discriminate; auto.
  apply andb_true_iff in H as [H1 H2]. apply N.eqb_eq in H1. f_equal; auto.
Qed.

Lemma assoc_map_kids : forall {A B} (f : str -> A -> B) k kids,
  assoc str_eqb k (map_kids f kids) =
  match assoc str_eqb k kids with Some c => Some (f k c) | None => None end.
Proof.
  intros A B f k kids. induction kids as [|[k' c] r IH]; simpl; auto.
  destruct (str_eqb k k') eqn:E; auto. apply str_eqb_eq in E. subst. reflexivity.
Qed.

(* ---------------------------------------------------------------------------------------------- *)
Section NameLemmas.
  Variable up : str -> str.

  (* how the code extends a stored prefix by one component *)
  Definition sj (a x : str) : str := match a with [] => x | _ => a ++ us ++ x end.
  Definition sjoin (c : list str) : str := fold_left sj c [].
  Definition tailj (c : list str) : str := concat (map (fun x => us ++ x) c).

  Lemma sjoin_snoc : forall c x, sjoin (c ++ [x]) = sj (sjoin c) x.
  Proof. intros. unfold sjoin. rewrite fold_left_app. reflexivity. Qed.

  Lemma pre_of_sj : forall p x, pre_of (PfStr p) ++ x = sj p x.
  Proof. intros [|c r] x; cbn [pre_of sj]; auto. rewrite <- app_assoc. reflexivity. Qed.

  Lemma fold_sj_nonempty : forall c a, a <> [] -> fold_left sj c a = a ++ tailj c.
  Proof.
    induction c as [|x c IH]; intros a Ha; cbn [fold_left tailj map concat].
    - rewrite app_nil_r. reflexivity.
    - rewrite IH.
      + destruct a as [|a0 a]; [congruence|]. cbn [sj]. fold (tailj c).
        rewrite <- !app_assoc. reflexivity.
      + destruct a as [|a0 a]; [congruence|]. cbn [sj]. discriminate.
  Qed.

  Lemma join_cons : forall c x, join us (x :: c) = x ++ tailj c.
  Proof.
    induction c as [|y c IH]; intros x.
    - cbn. rewrite app_nil_r. reflexivity.
    - change (join us (x :: y :: c)) with (x ++ us ++ join us (y :: c)). rewrite IH.
      cbn [tailj map concat]. fold (tailj c). rewrite <- !app_assoc. reflexivity.
  Qed.

  Lemma sjoin_join : forall c, sjoin c = join_name c.
  Proof.
    unfold sjoin, join_name. induction c as [|x c IH]; auto.
    destruct x as [|x0 x].
    - cbn [fold_left sj drop_empty]. exact IH.
    - cbn [fold_left sj drop_empty]. rewrite fold_sj_nonempty by discriminate.
      rewrite join_cons. reflexivity.
  Qed.

  Lemma join_name_plain : forall c, Forall (fun x => x <> []) c -> join_name c = join us c.
  Proof.
    intros c H. unfold join_name. destruct H as [|x c Hx Hc]; auto.
    destruct x; [congruence|]. reflexivity.
  Qed.

  (* the stored prefix `p` represents the declarative governing prefix `g` *)
  Definition rep (p : pfx) (g : option (list str)) : Prop :=
    match g with
    | Some c => p = PfStr (sjoin c)
    | None => p = PfNone \/ p = PfOff
    end.

  Lemma rep_root : forall e, rep (init_prefix e) (gov up e []).
  Proof. destruct e; cbn; auto. Qed.

  Lemma rep_step : forall parent root outer k e,
    rep parent (gov up root outer) ->
    rep (schema_setkey up parent (init_prefix e) k) (gov up root ((k, e) :: outer)).
  Proof.
    intros parent root outer k e H. destruct e; cbn [init_prefix schema_setkey gov rep]; auto.
    destruct (gov up root outer) as [c|]; cbn [rep] in *.
    - subst parent. rewrite pre_of_sj, sjoin_snoc. reflexivity.
    - destruct H; subst parent; auto.
  Qed.

  Lemma leaf_attr : forall parent root rchain key fe,
    rep parent (gov up root rchain) ->
    field_setkey up parent fe key = decl_attr up root rchain key fe.
  Proof.
    intros parent root rchain key fe H.
    destruct fe; cbn [field_setkey decl_attr]; auto;
      destruct (gov up root rchain) as [c|]; cbn [rep] in H.
    - subst parent. rewrite <- sjoin_join, pre_of_sj, sjoin_snoc. reflexivity.
    - destruct H; subst parent; reflexivity.
    - subst parent. rewrite <- sjoin_join, pre_of_sj, sjoin_snoc. reflexivity.
    - rewrite <- sjoin_join. destruct H; subst parent; reflexivity.
  Qed.

  Lemma attach_walk : forall path t key parent root rchain,
    rep parent (gov up root rchain) ->
    match blookup (attach up parent key t) path with Some (BLeaf e) => Some e | _ => None end
    = decl_walk up root rchain t key path.
  Proof.
    induction path as [|k r IH]; intros t key parent root rchain H; destruct t as [fe|e kids];
      cbn [attach blookup decl_walk]; auto.
    - rewrite (leaf_attr _ _ _ _ _ H). reflexivity.
    - rewrite assoc_map_kids. destruct (assoc str_eqb k kids) as [c|]; auto.
      apply IH. apply rep_step. exact H.
  Qed.

  (* what the code stores = what the declarative rule says, for every schema tree and path *)
  Theorem attr_spec : forall s path, env_attr_impl up s path = env_attr_decl up s path.
  Proof.
    intros s path. unfold env_attr_impl, env_attr_decl.
    destruct s as [fe|e kids]; destruct path as [|k r]; cbn [build_root blookup]; auto.
    rewrite assoc_map_kids. destruct (assoc str_eqb k kids) as [c|]; auto.
    apply attach_walk. apply rep_root.
  Qed.

  Theorem name_spec : forall s path, env_name_impl up s path = env_name_decl up s path.
  Proof. intros. unfold env_name_impl, env_name_decl. rewrite attr_spec. reflexivity. Qed.

  (* readable corollaries of the declarative rule *)
  Lemma optout_field_unbound : forall root rchain key, bound_name (decl_attr up root rchain key EOff) = None.
  Proof. reflexivity. Qed.

  Lemma optout_schema_unbound : forall root rchain k key,
    bound_name (decl_attr up root ((k, EOff) :: rchain) key EAbsent) = None.
  Proof. reflexivity. Qed.

  Lemma explicit_name : forall root rchain key s, decl_attr up root rchain key (ENamed s) = ENamed s.
  Proof. reflexivity. Qed.
End NameLemmas.

(* the rule on the documentation's example: Schema(env="APP"); schema.db.host -> APP_DB_HOST *)
Example name_example :
  env_name_decl upper (SNode (ENamed (sa "APP")) [(sa "db", SNode EAbsent [(sa "host", SLeaf EAbsent)])])
                [sa "db"; sa "host"] = Some (sa "APP_DB_HOST").
Proof. vm_compute. reflexivity. Qed.

Example join_name_plain_sat : Forall (fun x : str => x <> []) [sa "APP"; sa "DB"; sa "HOST"].
Proof. repeat constructor; discriminate. Qed.

(* ---------------------------------------------------------------------------------------------- *)
Section MachineLemmas.
  Variable validate : pyval -> res pyval.
  Variable to_py : pyval -> res pyval.
  Variable dflt : pyval.
  Variable lookup : bool.
  Variable name : envset.
  Variable environ : list (str * str).
  Variable path : str.

  Notation fvalidate := (fvalidate validate).
  Notation fto_py := (fto_py to_py).
  Notation env_text := (env_text name environ).
  Notation setdefault := (setdefault validate dflt lookup name environ path).
  Notation load_leaf := (load_leaf validate to_py name environ path).
  Notation estep := (estep validate to_py dflt lookup name environ path).
  Notation erun := (erun validate to_py dflt lookup name environ path).
  Notation known_F20 := (known_F20 lookup name).

  (* ---- the property's view of a history (most recent operation first) ---- *)

  (* what construction yields according to the property: the validated variable when the field is
     bound and the variable non-empty (the default when the validator yields None); None: construction
     fails *)
  Definition build_spec : option (pyval * vsrc) :=
    match env_text with
    | Some s => match fvalidate (PStr s) with
                | Ok PNone => Some (dflt, SDefault)
                | Ok v => Some (v, SEnv)
                | _ => None
                end
    | None => Some (dflt, SDefault)
    end.

  (* the last accepted assignment since the configuration (or the sub-configuration holding the
     field) was last built *)
  Fixpoint last_assign (hr : list eop) : option pyval :=
    match hr with
    | [] => None
    | OAssign x :: r => match fvalidate x with Ok v => Some v | _ => last_assign r end
    | OLoad _ :: r => last_assign r
    | (OBuild | OReset | ONested _) :: _ => None
    end.

  Definition loaded (x : pyval) : option pyval :=
    match fto_py x with
    | Ok y => match fvalidate y with Ok v => Some v | _ => None end
    | _ => None
    end.

  (* the last accepted write (assignment or loaded document) since the last build *)
  Fixpoint last_write (hr : list eop) : option (pyval * vsrc) :=
    match hr with
    | [] => None
    | OAssign x :: r => match fvalidate x with Ok v => Some (v, SAssigned) | _ => last_write r end
    | OLoad None :: r => last_write r
    | OLoad (Some x) :: r => match loaded x with Some v => Some (v, SLoaded) | None => last_write r end
    | ONested None :: _ => None
    | ONested (Some x) :: r => match loaded x with Some v => Some (v, SLoaded) | None => last_write r end
    | (OBuild | OReset) :: _ => None
    end.

  Definition spec_state (hr : list eop) : fstate :=
    match build_spec with
    | None => None
    | Some b =>
        Some (match env_text with
              | Some _ => match last_assign hr with Some a => (a, SAssigned) | None => b end
              | None => match last_write hr with Some w => w | None => b end
              end)
    end.

  (* C14, value clause, for every history *)
  Definition precedence_stmt : Prop :=
    forall h, erun None (OBuild :: h) = spec_state (rev h).

  (* C14, failure clause *)
  Definition invalid_stmt : Prop :=
    forall s e st, env_text = Some s -> validate (PStr s) = Err e ->
                   estep st OBuild = (None, Err (EValidation path)).

  Lemma known_F20_false : known_F20 = false -> forall s, env_text = Some s -> lookup = true.
  Proof.
    unfold Env.known_F20, Env.env_text. intros H s E.
    destruct (bound_name name); [|discriminate]. destruct lookup; auto.
  Qed.

  Lemma setdefault_spec : (lookup = true \/ env_text = None) ->
    setdefault = match env_text with
                 | Some s => match fvalidate (PStr s) with
                             | Ok PNone => Ok (dflt, SDefault)
                             | Ok v => Ok (v, SEnv)
                             | Err _ => Err (EValidation path)
                             | Unmodelled => Unmodelled
                             end
                 | None => Ok (dflt, SDefault)
                 end.
  Proof.
    unfold Env.setdefault. intros [H|H].
    - rewrite H. reflexivity.
    - rewrite H. destruct lookup; reflexivity.
  Qed.

  Lemma erun_snoc : forall s h o, erun s (h ++ [o]) = fst (estep (erun s h) o).
  Proof. intros. unfold Env.erun. rewrite fold_left_app. reflexivity. Qed.

  Lemma erun_none : forall h, build_spec = None -> (lookup = true \/ env_text = None) ->
    erun None (OBuild :: h) = None.
  Proof.
    intros h Hb Hl. induction h as [|o h IH] using rev_ind.
    - unfold Env.erun. cbn [fold_left Env.estep]. rewrite (setdefault_spec Hl).
      unfold build_spec in Hb. destruct env_text as [s|]; [|discriminate].
      destruct (fvalidate (PStr s)) as [[]| |]; try discriminate; reflexivity.
    - rewrite app_comm_cons, erun_snoc, IH.
      destruct o; cbn [Env.estep fst]; auto.
      rewrite (setdefault_spec Hl).
      unfold build_spec in Hb. destruct env_text as [s|]; [|discriminate].
      destruct (fvalidate (PStr s)) as [[]| |]; try discriminate; reflexivity.
  Qed.

  Theorem precedence_partial : known_F20 = false -> precedence_stmt.
  Proof.
    intros HF h.
    assert (Hl : lookup = true \/ env_text = None).
    { destruct env_text as [s|] eqn:E; auto. left. eapply known_F20_false; eauto. }
    unfold spec_state. destruct build_spec as [b|] eqn:Hb; [|apply erun_none; auto].
    assert (Hsd : setdefault = Ok b).
    { rewrite (setdefault_spec Hl). unfold build_spec in Hb.
      destruct env_text as [s|]; [|congruence].
      destruct (fvalidate (PStr s)) as [[]| |]; congruence. }
    induction h as [|o h IH] using rev_ind.
    - unfold Env.erun. cbn [fold_left Env.estep rev]. rewrite Hsd. cbn [fst].
      destruct env_text; reflexivity.
    - rewrite app_comm_cons, erun_snoc, IH, rev_app_distr. cbn [rev app].
      destruct env_text as [s|] eqn:E.
      + (* bound, variable non-empty: loads are skipped *)
        destruct o as [|v|v|x|]; cbn [Env.estep last_assign fst].
        * rewrite Hsd. reflexivity.
        * destruct v as [x|]; [|reflexivity]. unfold Env.load_leaf. rewrite E. reflexivity.
        * rewrite Hsd. destruct v as [x|]; [|reflexivity]. unfold Env.load_leaf. rewrite E. reflexivity.
        * destruct (fvalidate x); reflexivity.
        * rewrite Hsd. reflexivity.
      + (* unbound / unset / empty *)
        destruct o as [|v|v|x|]; cbn [Env.estep last_write fst].
        * rewrite Hsd. reflexivity.
        * destruct v as [x|]; [|reflexivity]. unfold Env.load_leaf, loaded. rewrite E.
          destruct (fto_py x) as [y| |]; try reflexivity.
          destruct (fvalidate y); reflexivity.
        * rewrite Hsd. destruct v as [x|]; [|reflexivity].
          unfold Env.load_leaf, loaded. rewrite E.
          destruct (fto_py x) as [y| |]; try reflexivity.
          destruct (fvalidate y); reflexivity.
        * destruct (fvalidate x); reflexivity.
        * rewrite Hsd. reflexivity.
  Qed.

  (* readable corollaries *)
  Corollary precedence_bound : known_F20 = false ->
    forall s ev h, env_text = Some s -> validate (PStr s) = Ok ev -> ev <> PNone ->
    exists src, erun None (OBuild :: h) =
                Some (match last_assign (rev h) with Some a => a | None => ev end, src).
  Proof.
    intros HF s ev h E V N. rewrite (precedence_partial HF h). unfold spec_state, build_spec.
    rewrite E. cbn [Env.fvalidate]. rewrite V.
    destruct ev; try congruence; destruct (last_assign (rev h)); eexists; reflexivity.
  Qed.

  Corollary precedence_unbound :
    forall h, env_text = None ->
    erun None (OBuild :: h) =
    Some (match last_write (rev h) with Some w => w | None => (dflt, SDefault) end).
  Proof.
    intros h E.
    assert (HF : lookup = true \/ env_text = None) by auto.
    (* the F20 classes behave like every other class when nothing is bound *)
    assert (Hsd : setdefault = Ok (dflt, SDefault)).
    { rewrite (setdefault_spec HF). rewrite E. reflexivity. }
    induction h as [|o h IH] using rev_ind.
    - unfold Env.erun. cbn [fold_left Env.estep rev]. rewrite Hsd. reflexivity.
    - rewrite app_comm_cons, erun_snoc, IH, rev_app_distr. cbn [rev app].
      destruct o as [|v|v|x|]; cbn [Env.estep last_write fst].
      + rewrite Hsd. reflexivity.
      + destruct v as [x|]; [|reflexivity]. unfold Env.load_leaf, loaded. rewrite E.
        destruct (fto_py x) as [y| |]; try reflexivity.
        destruct (fvalidate y); reflexivity.
      + rewrite Hsd. destruct v as [x|]; [|reflexivity].
        unfold Env.load_leaf, loaded. rewrite E.
        destruct (fto_py x) as [y| |]; try reflexivity.
        destruct (fvalidate y); reflexivity.
      + destruct (fvalidate x); reflexivity.
      + rewrite Hsd. reflexivity.
  Qed.

  Theorem invalid_env_fails_build : known_F20 = false -> invalid_stmt.
  Proof.
    intros HF s e st E V. cbn [Env.estep].
    rewrite setdefault_spec by (left; eapply known_F20_false; eauto).
    rewrite E. cbn [Env.fvalidate]. rewrite V. reflexivity.
  Qed.

  (* unset or empty variables and opted-out fields: the field behaves, step by step, like a field
     of the same class with no binding in an empty environment *)
  Definition unbound_cond : Prop :=
    bound_name name = None \/
    exists n, bound_name name = Some n /\
              (assoc str_eqb n environ = None \/ assoc str_eqb n environ = Some []).

  Lemma unbound_env_text : unbound_cond -> env_text = None.
  Proof.
    unfold unbound_cond, Env.env_text. intros [H|[n [H [H1|H1]]]]; rewrite H; auto; rewrite H1; auto.
  Qed.

  Theorem empty_or_optout_as_unbound : unbound_cond ->
    forall st o, estep st o = Env.estep validate to_py dflt lookup EAbsent [] path st o.
  Proof.
    intros H st o. apply unbound_env_text in H.
    assert (Hsd : setdefault = Env.setdefault validate dflt lookup EAbsent [] path).
    { unfold Env.setdefault. rewrite H. reflexivity. }
    assert (Hll : forall s x, load_leaf s x = Env.load_leaf validate to_py EAbsent [] path s x).
    { intros. unfold Env.load_leaf. rewrite H. reflexivity. }
    destruct o as [|v|v|x|]; cbn [Env.estep]; try rewrite Hsd; auto.
    - destruct st; auto. destruct v; auto. rewrite Hll. reflexivity.
    - destruct st; auto. destruct (Env.setdefault validate dflt lookup EAbsent [] path); auto.
      destruct v; auto. rewrite Hll. reflexivity.
  Qed.

  Corollary empty_or_optout_trace : unbound_cond ->
    forall ops st, etrace validate to_py dflt lookup name environ path st ops
                   = etrace validate to_py dflt lookup EAbsent [] path st ops.
  Proof.
    intros H. induction ops as [|o r IH]; intros st; cbn [etrace]; auto.
    rewrite (empty_or_optout_as_unbound H). destruct (Env.estep _ _ _ _ EAbsent [] _ st o) as [s1 out].
    rewrite IH. reflexivity.
  Qed.
End MachineLemmas.

(* ---------------------------------------------------------------------------------------------- *)
(* the environment is read anew by every construction *)
Section GlobalLemmas.
  Variable validate : pyval -> res pyval.
  Variable to_py : pyval -> res pyval.
  Variable dflt : pyval.
  Variable lookup : bool.
  Variable name : envset.
  Variable path : str.

  Notation gstep := (gstep validate to_py dflt lookup name path).
  Notation grun := (grun validate to_py dflt lookup name path).

  Lemma grun_app : forall a b g, grun g (a ++ b) = grun (grun g a) b.
  Proof. intros. unfold Env.grun. apply fold_left_app. Qed.

  Lemma grun_ops : forall h e s,
    grun (e, s) (map GOp h) = (e, erun validate to_py dflt lookup name e path s h).
  Proof.
    induction h as [|o h IH]; intros e s; [reflexivity|].
    cbn [map]. unfold Env.grun, Env.erun. cbn [fold_left].
    change (fold_left (fun g o0 => fst (gstep g o0)) (map GOp h) (fst (gstep (e, s) (GOp o)))
            = (e, fold_left (fun s0 o0 => fst (estep validate to_py dflt lookup name e path s0 o0)) h
                            (fst (estep validate to_py dflt lookup name e path s o)))).
    cbn [Env.gstep fst snd].
    destruct (estep validate to_py dflt lookup name e path s o) as [s1 r]. cbn [fst].
    apply IH.
  Qed.

  (* whatever happened before (other environments, other configurations, failed constructions), the
     state after `GBuild e` followed by operations on that configuration is the state of the
     one-environment machine under `e`: C14's clauses apply to every construction separately *)
  Theorem env_per_build : forall before g e h,
    grun g (before ++ GBuild e :: map GOp h)
    = (e, erun validate to_py dflt lookup name e path None (OBuild :: h)).
  Proof.
    intros before g e h. rewrite grun_app.
    destruct (grun g before) as [e0 s0].
    change (GBuild e :: map GOp h) with ([GBuild e] ++ map GOp h). rewrite grun_app.
    unfold Env.grun at 2. cbn [fold_left Env.gstep fst snd].
    unfold Env.erun. cbn [fold_left].
    (* OBuild does not look at the state it replaces *)
    assert (Hb : forall s, estep validate to_py dflt lookup name e path s OBuild
                           = estep validate to_py dflt lookup name e path None OBuild) by reflexivity.
    rewrite (Hb s0).
    destruct (estep validate to_py dflt lookup name e path None OBuild) as [s1 r]. cbn [fst].
    apply grun_ops.
  Qed.

  Corollary precedence_per_build : known_F20 lookup name = false ->
    forall before g e h,
    grun g (before ++ GBuild e :: map GOp h)
    = (e, spec_state validate to_py dflt name e (rev h)).
  Proof.
    intros HF before g e h. rewrite env_per_build.
    rewrite (precedence_partial validate to_py dflt lookup name e path HF h). reflexivity.
  Qed.
End GlobalLemmas.

(* ---------------------------------------------------------------------------------------------- *)
(* F20: inside the region both clauses fail *)

(* ChallengeField(default="pw", env="C"), C=envpw: the built value is the default's digest, not the
   variable's, and the loaded document is skipped as well *)
Theorem precedence_refuted :
  exists validate to_py dflt lookup name environ path,
    known_F20 lookup name = true /\
    ~ precedence_stmt validate to_py dflt lookup name environ path.
Proof.
  exists (kvalidate (KChal true)), (kto_py (KChal true)), (digest_of (sa "pw")), (klookup (KChal true)),
         (ENamed (sa "C")), [(sa "C", sa "envpw")], (sa "c").
  split; [reflexivity|]. intros H.
  specialize (H [OLoad (Some (PStr (sa "filepw")))]). vm_compute in H. discriminate.
Qed.

(* ListField(default=[1], env="L"), L=x: construction succeeds although "x" is not a list *)
Theorem invalid_env_refuted :
  exists validate to_py dflt lookup name environ path,
    known_F20 lookup name = true /\
    ~ invalid_stmt validate to_py dflt lookup name environ path.
Proof.
  exists (kvalidate KList), (kto_py KList), (PList 0 [PInt 1]), (klookup KList),
         (ENamed (sa "L")), [(sa "L", sa "x")], (sa "l").
  split; [reflexivity|]. intros H.
  specialize (H (sa "x") EValue None eq_refl eq_refl). vm_compute in H. discriminate.
Qed.

(* ---- the hypotheses of the theorems are satisfiable ---- *)
Example partial_sat : known_F20 (klookup (KInt None None)) (ENamed (sa "APP_F")) = false.
Proof. reflexivity. Qed.

Example bound_sat :
  env_text (ENamed (sa "APP_F")) [(sa "APP_F", sa "7")] = Some (sa "7") /\
  kvalidate (KInt None None) (PStr (sa "7")) = Ok (PInt 7) /\ PInt 7 <> PNone.
Proof. repeat split; discriminate. Qed.

Example invalid_sat :
  env_text (ENamed (sa "APP_F")) [(sa "APP_F", sa "bad")] = Some (sa "bad") /\
  kvalidate (KInt None None) (PStr (sa "bad")) = Err EValue.
Proof. split; reflexivity. Qed.

Example unbound_sat_optout : unbound_cond EOff [(sa "F", sa "7")].
Proof. left. reflexivity. Qed.
Example unbound_sat_empty : unbound_cond (ENamed (sa "F")) [(sa "F", [])].
Proof. right. exists (sa "F"). split; [reflexivity|]. right. reflexivity. Qed.
Example unbound_sat_unset : unbound_cond (ENamed (sa "F")) [].
Proof. right. exists (sa "F"). split; [reflexivity|]. left. reflexivity. Qed.

(* the machine on the probe of the design round: APP_SUB_F=7, load 5, assign 9, load 6 *)
Example precedence_example :
  erun (kvalidate (KInt None None)) (kto_py (KInt None None)) (PInt 1) true (ENamed (sa "APP_SUB_F"))
       [(sa "APP_SUB_F", sa "7")] (sa "sub.f") None
       [OBuild; OLoad (Some (PInt 5))] = Some (PInt 7, SEnv) /\
  erun (kvalidate (KInt None None)) (kto_py (KInt None None)) (PInt 1) true (ENamed (sa "APP_SUB_F"))
       [(sa "APP_SUB_F", sa "7")] (sa "sub.f") None
       [OBuild; OLoad (Some (PInt 5)); OAssign (PInt 9); OLoad (Some (PInt 6))] = Some (PInt 9, SAssigned).
Proof. split; vm_compute; reflexivity. Qed.
