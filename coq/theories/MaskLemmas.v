(* MaskLemmas.v — property C10: what Config.to_tree(sensitive_mask=m) (Config.v tree_slot / to_tree) renders.

   The declarative reference `spec_slot` is a map over the schema: every leaf position is rendered by a
   leaf function, sub-configurations field by field, lists of configurations item by item.  tree_slot with
   a mask IS that map with the leaf function "sensitive -> mask_leaf, else to_basic" (mask_tree), without a
   mask it is that map with to_basic everywhere (mask_none).  Everything else follows from the map form:
   schemas without sensitive leaves render identically with and without a mask, the rendering with a mask
   does not depend on how sensitive values would have been converted, the value rendered at every
   sensitive leaf position (any depth, inside list items) is mask_leaf of the stored value, masked and
   unmasked trees have the same keys and list lengths. *)
From Coq Require Import ZArith NArith String List Bool Lia.
From Cinco Require Import Base Config ConfigLemmas ConfigInst.
Import ListNotations.
Open Scope N_scope.

(* ---------------------------------------------------------------------------------------------- *)
(* combinators of the declarative rendering (the function is a Section variable: nested recursion)   *)
(* ---------------------------------------------------------------------------------------------- *)
Section Comb.
  Context {A : Type} (slot : A -> str -> val -> res pyval).
  (* the declared fields, in schema order, that have a slot in _data *)
  Fixpoint render_fields (pre : str) (d : list (str * val)) (fs : list (str * A)) {struct fs} : res (list (pyval * pyval)) :=
    match fs with
    | [] => Ok []
    | (k, a) :: r =>
        match dget k d with
        | None => render_fields pre d r
        | Some fv =>
            match slot a (path_join pre k) fv with
            | Ok t => match render_fields pre d r with Ok ts => Ok ((PStr k, t) :: ts) | Err e => Err e | Unmodelled => Unmodelled end
            | Err e => Err e
            | Unmodelled => Unmodelled
            end
        end
    end.
End Comb.

(* dynamic fields (AnyField registered on the configuration object): values verbatim, after the schema's fields *)
Definition dyn_items (d : list (str * val)) (dy : list str) : list (pyval * pyval) :=
  flat_map (fun k => match dget k d with Some (VLeaf x) => [(PStr k, x)] | _ => [] end) dy.

Definition render_cfg (fields : str -> list (str * val) -> res (list (pyval * pyval))) (pre : str) (c : cfg) : res pyval :=
  match c with
  | Cfg _ d _ dy => match fields pre d with
                    | Ok ts => Ok (PDict 0 (ts ++ dyn_items d dy))
                    | Err e => Err e
                    | Unmodelled => Unmodelled
                    end
  end.

Section Items.
  Context (one : str -> cfg -> res pyval).
  Fixpoint render_items (p : str) (l : list cfg) (i : N) {struct l} : res (list pyval) :=
    match l with
    | [] => Ok []
    | it :: r => match one (path_index p i) it with
                 | Ok t => match render_items p r (i + 1) with Ok ts => Ok (t :: ts) | Err e => Err e | Unmodelled => Unmodelled end
                 | Err e => Err e
                 | Unmodelled => Unmodelled
                 end
    end.
End Items.

Definition list_result (r : res (list pyval)) : res pyval :=
  match r with Ok ts => Ok (PList 0 ts) | Err e => Err e | Unmodelled => Unmodelled end.

Section Spec.
  Variable F : Type.
  Variable leaf : F -> str -> pyval -> res pyval.        (* how a leaf slot (field, reference path, stored value) is rendered *)

  Fixpoint spec_slot (nd : node F) (p : str) (v : val) {struct nd} : res pyval :=
    match nd, v with
    | NLeaf f, VLeaf x => leaf f p x
    | NSub _ _ fs, VCfg c => render_cfg (fun pre d => render_fields spec_slot pre d fs) p c
    | NCfgList _ _ _ _, VLeaf PNone => Ok PNone
    | NCfgList _ _ fs _, VList l =>
        list_result (render_items (render_cfg (fun pre d => render_fields spec_slot pre d fs)) p l 0)
    | _, _ => Unmodelled
    end.
End Spec.

(* leaves reachable in a schema node (sub-configurations and item schemas of lists included) *)
Inductive leaf_in {F : Type} : node F -> F -> Prop :=
| li_leaf : forall f, leaf_in (NLeaf f) f
| li_sub : forall dy vs fs k nd f, In (k, nd) fs -> leaf_in nd f -> leaf_in (NSub dy vs fs) f
| li_list : forall rq vs fs fsq k nd f, In (k, nd) fs -> leaf_in nd f -> leaf_in (NCfgList rq vs fs fsq) f.

(* same keys in the same order at every configuration level, same list lengths: what "same shape" means
   for two renderings of one schema node (leaf values themselves are not compared) *)
Inductive shape {F : Type} : node F -> pyval -> pyval -> Prop :=
| sh_leaf : forall f a b, shape (NLeaf f) a b
| sh_sub : forall dy vs fs t1 t2, shape_cfg fs t1 t2 -> shape (NSub dy vs fs) t1 t2
| sh_list_none : forall rq vs fs fsq, shape (NCfgList rq vs fs fsq) PNone PNone
| sh_list : forall rq vs fs fsq l1 l2, shape_items fs l1 l2 -> shape (NCfgList rq vs fs fsq) (PList 0 l1) (PList 0 l2)
with shape_cfg {F : Type} : list (str * node F) -> pyval -> pyval -> Prop :=
| sc_dict : forall fs d1 d2 extra, shape_fields fs d1 d2 -> shape_cfg fs (PDict 0 (d1 ++ extra)) (PDict 0 (d2 ++ extra))
with shape_fields {F : Type} : list (str * node F) -> list (pyval * pyval) -> list (pyval * pyval) -> Prop :=
| sf_nil : shape_fields [] [] []
| sf_skip : forall k nd fs d1 d2, shape_fields fs d1 d2 -> shape_fields ((k, nd) :: fs) d1 d2
| sf_cons : forall k nd fs t1 t2 d1 d2, shape nd t1 t2 -> shape_fields fs d1 d2 ->
                                        shape_fields ((k, nd) :: fs) ((PStr k, t1) :: d1) ((PStr k, t2) :: d2)
with shape_items {F : Type} : list (str * node F) -> list pyval -> list pyval -> Prop :=
| si_nil : forall fs, shape_items fs [] []
| si_cons : forall fs t1 t2 l1 l2, shape_cfg fs t1 t2 -> shape_items fs l1 l2 -> shape_items fs (t1 :: l1) (t2 :: l2).

(* positions: a leaf of a configuration is addressed by keys and (list key, index) steps *)
Fixpoint tget (k : str) (d : list (pyval * pyval)) : option pyval :=
  match d with
  | [] => None
  | (PStr k', t) :: r => if str_eqb k k' then Some t else tget k r
  | _ :: r => tget k r
  end.

Fixpoint out_at (t : pyval) (ps : list pstep) {struct ps} : option pyval :=
  match ps with
  | [] => Some t
  | PKey k :: r =>
      match t with
      | PDict _ d => match tget k d with Some t' => out_at t' r | None => None end
      | _ => None
      end
  | PItem k i :: r =>
      match t with
      | PDict _ d => match tget k d with
                     | Some (PList _ l) => match nth_error l i with Some t' => out_at t' r | None => None end
                     | _ => None
                     end
      | _ => None
      end
  end.

Fixpoint leaf_at {F : Type} (fs : list (str * node F)) (c : cfg) (ps : list pstep) {struct ps} : option (F * pyval) :=
  match ps with
  | [] => None
  | PKey k :: r =>
      match fget F k fs, dget k (c_data c) with
      | Some (NLeaf f), Some (VLeaf x) => match r with [] => Some (f, x) | _ :: _ => None end
      | Some (NSub _ _ fs'), Some (VCfg sub) => leaf_at fs' sub r
      | _, _ => None
      end
  | PItem k i :: r =>
      match fget F k fs, dget k (c_data c) with
      | Some (NCfgList _ _ fs' _), Some (VList l) =>
          match nth_error l i with Some it => leaf_at fs' it r | None => None end
      | _, _ => None
      end
  end.

(* ---------------------------------------------------------------------------------------------- *)
(* generic facts about the combinators                                                            *)
(* ---------------------------------------------------------------------------------------------- *)
Section CombFacts.
  Context {A : Type}.

  Lemma render_fields_ext : forall (s1 s2 : A -> str -> val -> res pyval) pre d fs,
    (forall k a, In (k, a) fs -> forall p v, s1 a p v = s2 a p v) ->
    render_fields s1 pre d fs = render_fields s2 pre d fs.
  Proof.
    intros s1 s2 pre d. induction fs as [|[k a] fs IH]; intro H; [reflexivity|].
    cbn [render_fields]. rewrite IH by (intros k0 a0 Hin; apply (H k0 a0); right; exact Hin).
    destruct (dget k d) as [fv|]; [|reflexivity].
    rewrite (H k a) by (left; reflexivity). reflexivity.
  Qed.

  Lemma render_fields_lookup : forall (s : A -> str -> val -> res pyval) pre d fs ts k a v,
    render_fields s pre d fs = Ok ts -> assoc str_eqb k fs = Some a -> dget k d = Some v ->
    exists t, s a (path_join pre k) v = Ok t /\ tget k ts = Some t.
  Proof.
    intros s pre d. induction fs as [|[k0 a0] fs IH]; intros ts k a v H Hf Hd; cbn [assoc] in Hf; [discriminate|].
    cbn [render_fields] in H. destruct (str_eqb k k0) eqn:E.
    - apply str_eqb_eq in E. subst k0. inversion Hf; subst a0. rewrite Hd in H.
      destruct (s a (path_join pre k) v) as [t| |]; try discriminate.
      destruct (render_fields s pre d fs) as [ts'| |]; try discriminate. inversion H; subst.
      exists t. split; [reflexivity|]. cbn [tget]. rewrite str_eqb_refl. reflexivity.
    - destruct (dget k0 d) as [fv|]; [|eapply IH; eauto].
      destruct (s a0 (path_join pre k0) fv) as [t0| |]; try discriminate.
      destruct (render_fields s pre d fs) as [ts'| |] eqn:Er; try discriminate. inversion H; subst.
      destruct (IH ts' k a v eq_refl Hf Hd) as [t [H1 H2]]. exists t. split; [exact H1|].
      cbn [tget]. rewrite E. exact H2.
  Qed.
End CombFacts.

Lemma render_cfg_ext : forall f1 f2 pre c, (forall p d, f1 p d = f2 p d) -> render_cfg f1 pre c = render_cfg f2 pre c.
Proof. intros f1 f2 pre [i d df dy] H. cbn [render_cfg]. rewrite H. reflexivity. Qed.

Lemma render_items_ext : forall o1 o2 p l i, (forall q c, o1 q c = o2 q c) -> render_items o1 p l i = render_items o2 p l i.
Proof.
  intros o1 o2 p l. induction l as [|it l IH]; intros i H; [reflexivity|].
  cbn [render_items]. rewrite H, IH by exact H. reflexivity.
Qed.

Lemma render_items_lookup : forall one p l i ts j it,
  render_items one p l i = Ok ts -> nth_error l j = Some it ->
  exists t, one (path_index p (i + N.of_nat j)) it = Ok t /\ nth_error ts j = Some t.
Proof.
  intros one p. induction l as [|it0 l IH]; intros i ts j it H Hn; [destruct j; discriminate|].
  cbn [render_items] in H.
  destruct (one (path_index p i) it0) as [t0| |] eqn:E0; try discriminate.
  destruct (render_items one p l (i + 1)) as [ts'| |] eqn:Er; try discriminate. inversion H; subst.
  destruct j as [|j]; cbn [nth_error] in *.
  - inversion Hn; subst. exists t0. split; [|reflexivity]. replace (i + N.of_nat 0) with i by lia. exact E0.
  - destruct (IH (i + 1) ts' j it Er Hn) as [t [H1 H2]]. exists t. split; [|exact H2].
    replace (i + N.of_nat (S j)) with (i + 1 + N.of_nat j) by lia. exact H1.
Qed.

Lemma tget_app : forall k d e t, tget k d = Some t -> tget k (d ++ e) = Some t.
Proof.
  intros k d e t. induction d as [|[k0 t0] d IH]; intro H; [discriminate|].
  cbn [app tget] in *. destruct k0; try (apply IH; exact H).
  destruct (str_eqb k s); [exact H | apply IH; exact H].
Qed.

Lemma nsize_cfglist : forall F r v (fs : list (str * node F)) fsq, nsize F (NCfgList r v fs fsq) = S (fsize F fs).
Proof. intros. cbn [nsize]. f_equal. induction fs as [|[k n] fs IH]; [reflexivity|]. cbn [fsize fold_right snd]. f_equal. exact IH. Qed.

(* ---------------------------------------------------------------------------------------------- *)
(* the declarative rendering only looks at the leaves reachable in the schema                      *)
(* ---------------------------------------------------------------------------------------------- *)
Section SpecFacts.
  Variable F : Type.

  Lemma spec_slot_ext_on_n : forall (leaf1 leaf2 : F -> str -> pyval -> res pyval) n nd p v,
    (nsize F nd <= n)%nat ->
    (forall f, leaf_in nd f -> forall q x, leaf1 f q x = leaf2 f q x) ->
    spec_slot F leaf1 nd p v = spec_slot F leaf2 nd p v.
  Proof.
    intros leaf1 leaf2. induction n as [|n IH]; intros nd p v Hn H.
    - destruct nd; cbn [nsize] in Hn; lia.
    - destruct nd as [f|dy vs fs|rq vs fs fsq].
      + destruct v; try reflexivity. cbn [spec_slot]. apply H. constructor.
      + destruct v as [x|c|l]; try reflexivity. cbn [spec_slot]. rewrite nsize_sub in Hn.
        apply render_cfg_ext. intros q d. apply render_fields_ext. intros k a Hin q' v'.
        apply IH; [pose proof (fsize_in F _ _ _ Hin); lia|]. intros f Hf. apply H. eapply li_sub; eauto.
      + rewrite nsize_cfglist in Hn.
        assert (E : forall q c, render_cfg (fun pre d => render_fields (spec_slot F leaf1) pre d fs) q c
                              = render_cfg (fun pre d => render_fields (spec_slot F leaf2) pre d fs) q c).
        { intros q c. apply render_cfg_ext. intros q0 d. apply render_fields_ext. intros k a Hin q' v'.
          apply IH; [pose proof (fsize_in F _ _ _ Hin); lia|]. intros f Hf. apply H. eapply li_list; eauto. }
        destruct v as [x|c|l]; try reflexivity. cbn [spec_slot].
        rewrite (render_items_ext _ _ p l 0 E). reflexivity.
  Qed.

  Theorem spec_slot_ext_on : forall (leaf1 leaf2 : F -> str -> pyval -> res pyval) nd p v,
    (forall f, leaf_in nd f -> forall q x, leaf1 f q x = leaf2 f q x) ->
    spec_slot F leaf1 nd p v = spec_slot F leaf2 nd p v.
  Proof. intros. eapply spec_slot_ext_on_n; [apply le_n | assumption]. Qed.
End SpecFacts.

(* ---------------------------------------------------------------------------------------------- *)
(* Config.tree_slot                                                                               *)
(* ---------------------------------------------------------------------------------------------- *)
Section M.
  Variable F : Type.
  Variable lto_basic : F -> pyval -> res pyval.
  Variable lsensitive : F -> bool.
  Variable py_strlen : pyval -> option nat.

  Notation tree_slot := (Config.tree_slot F lto_basic lsensitive py_strlen).
  Notation to_tree := (Config.to_tree F lto_basic lsensitive py_strlen).
  Notation mask_leaf := (Config.mask_leaf py_strlen).

  (* Field.to_basic with core.py's wrapping of a plain exception into a ValidationError at the field's path *)
  Definition basic_leaf (f : F) (p : str) (x : pyval) : res pyval :=
    match lto_basic f x with Err e => Err (wrap p e) | o => o end.

  (* what to_tree does at a leaf slot *)
  Definition leaf_of (mask : option str) (f : F) (p : str) (x : pyval) : res pyval :=
    match mask with
    | Some m => if lsensitive f then mask_leaf m x else basic_leaf f p x
    | None => basic_leaf f p x
    end.

  (* (1) unfolding lemmas: a (sub)configuration is rendered field by field, a list item by item, with the same mask *)
  Definition fields_of (mask : option str) (fs : list (str * node F)) : str -> list (str * val) -> res (list (pyval * pyval)) :=
    fun pre d => render_fields (tree_slot mask) pre d fs.

  Lemma tree_slot_leaf : forall mask f p x, tree_slot mask (NLeaf f) p (VLeaf x) = leaf_of mask f p x.
  Proof. intros [m|] f p x; reflexivity. Qed.

  Lemma tree_slot_unfold_sub : forall mask dy vs fs p c,
    tree_slot mask (NSub dy vs fs) p (VCfg c) = render_cfg (fields_of mask fs) p c.
  Proof.
    intros mask dy vs fs p [i d df dy']. cbn [Config.tree_slot render_cfg]. unfold fields_of.
    match goal with |- match ?a with _ => _ end = match ?b with _ => _ end => assert (E : a = b) end.
    { induction fs as [|[k nd'] fs IH]; [reflexivity|]. cbn [render_fields]. rewrite <- IH. reflexivity. }
    rewrite E. reflexivity.
  Qed.

  Lemma tree_slot_unfold_list : forall mask rq vs fs fsq p l,
    tree_slot mask (NCfgList rq vs fs fsq) p (VList l) = list_result (render_items (render_cfg (fields_of mask fs)) p l 0).
  Proof.
    intros mask rq vs fs fsq p l. cbn [Config.tree_slot]. unfold list_result.
    match goal with |- match ?f l 0 with _ => _ end = _ =>
      assert (E : forall l1 i1, f l1 i1 = render_items (render_cfg (fields_of mask fs)) p l1 i1) end.
    { induction l1 as [|[i0 d df dy'] l1 IH]; intro i; [reflexivity|].
      cbn [render_items render_cfg]. rewrite <- IH. unfold fields_of.
      match goal with |- match (match ?a with _ => _ end) with _ => _ end = match (match ?b with _ => _ end) with _ => _ end =>
        assert (E : a = b) end.
      { clear IH. induction fs as [|[k nd'] fs IH]; [reflexivity|]. cbn [render_fields]. rewrite <- IH. reflexivity. }
      rewrite E. reflexivity. }
    rewrite E. reflexivity.
  Qed.

  (* (3) declarative characterisation: to_tree is the map over the schema with leaf_of at the leaves *)
  Lemma tree_slot_is_spec_n : forall mask n nd p v, (nsize F nd <= n)%nat ->
    tree_slot mask nd p v = spec_slot F (leaf_of mask) nd p v.
  Proof.
    intros mask. induction n as [|n IH]; intros nd p v Hn.
    - destruct nd; cbn [nsize] in Hn; lia.
    - destruct nd as [f|dy vs fs|rq vs fs fsq].
      + destruct v as [x|c|l]; [apply tree_slot_leaf | reflexivity | reflexivity].
      + destruct v as [x|c|l]; try reflexivity. rewrite tree_slot_unfold_sub. cbn [spec_slot]. rewrite nsize_sub in Hn.
        apply render_cfg_ext. intros q d. unfold fields_of. apply render_fields_ext. intros k a Hin q' v'.
        apply IH. pose proof (fsize_in F _ _ _ Hin). lia.
      + rewrite nsize_cfglist in Hn. destruct v as [x|c|l].
        * destruct x; reflexivity.
        * reflexivity.
        * rewrite tree_slot_unfold_list. cbn [spec_slot]. f_equal. apply render_items_ext. intros q c.
          apply render_cfg_ext. intros q0 d. unfold fields_of. apply render_fields_ext. intros k a Hin q' v'.
          apply IH. pose proof (fsize_in F _ _ _ Hin). lia.
  Qed.

  Theorem tree_slot_is_spec : forall mask nd p v, tree_slot mask nd p v = spec_slot F (leaf_of mask) nd p v.
  Proof. intros. eapply tree_slot_is_spec_n. apply le_n. Qed.

  (* with a mask: every sensitive leaf, wherever it sits, is rendered by mask_leaf alone; every other leaf by to_basic *)
  Theorem mask_tree : forall m nd p v,
    tree_slot (Some m) nd p v = spec_slot F (fun f q x => if lsensitive f then mask_leaf m x else basic_leaf f q x) nd p v.
  Proof. intros. apply tree_slot_is_spec. Qed.

  (* without a mask nothing is altered: plain to_basic at every leaf, sensitive or not *)
  Theorem mask_none : forall nd p v, tree_slot None nd p v = spec_slot F basic_leaf nd p v.
  Proof. intros. apply tree_slot_is_spec. Qed.

  (* (2) a schema (node) without reachable sensitive leaves renders identically with and without a mask *)
  Theorem nonsensitive_identical : forall m nd p v,
    (forall f, leaf_in nd f -> lsensitive f = false) ->
    tree_slot (Some m) nd p v = tree_slot None nd p v.
  Proof.
    intros m nd p v H. rewrite !tree_slot_is_spec. apply spec_slot_ext_on.
    intros f Hf q x. cbn [leaf_of]. rewrite (H f Hf). reflexivity.
  Qed.

  (* the masked rendering of a value: None for a falsy value; a one-character mask once per character of str(value);
     any other mask (empty, two or more characters) verbatim *)
  Lemma repeat_str_one : forall ch n, repeat_str [ch] n = repeat ch n.
  Proof. intros ch n. induction n as [|n IH]; [reflexivity|]. cbn [repeat_str repeat app]. rewrite IH. reflexivity. Qed.

  Theorem mask_leaf_cases : forall m x,
    (py_falsy x = true -> mask_leaf m x = Ok PNone)
    /\ (py_falsy x = false -> forall ch n, m = [ch] -> py_strlen x = Some n -> mask_leaf m x = Ok (PStr (repeat ch n)))
    /\ (py_falsy x = false -> length m <> 1%nat -> mask_leaf m x = Ok (PStr m)).
  Proof.
    intros m x. unfold Config.mask_leaf. repeat split.
    - intros ->. reflexivity.
    - intros -> ch n -> ->. rewrite repeat_str_one. reflexivity.
    - intros -> Hl. destruct m as [|a [|b m]]; try reflexivity. exfalso. apply Hl. reflexivity.
  Qed.

  (* the stored value enters the masked rendering only through its truthiness and the length of its text *)
  Theorem mask_leaf_noninterference : forall m x y,
    py_falsy x = py_falsy y -> py_strlen x = py_strlen y -> mask_leaf m x = mask_leaf m y.
  Proof. intros m x y H1 H2. unfold Config.mask_leaf. rewrite H1, H2. reflexivity. Qed.

  Theorem mask_leaf_never_value : forall m x r, mask_leaf m x = Ok r ->
    r = PNone \/ r = PStr m \/ exists ch n, m = [ch] /\ py_strlen x = Some n /\ r = PStr (repeat ch n).
  Proof.
    intros m x r. unfold Config.mask_leaf. destruct (py_falsy x); [intro H; inversion H; left; reflexivity|].
    destruct m as [|ch [|b m]]; try (intro H; inversion H; right; left; reflexivity).
    destruct (py_strlen x) as [n|]; [|discriminate]. intro H; inversion H. right; right. exists ch, n.
    rewrite repeat_str_one. repeat split.
  Qed.

  (* positions: the value rendered at the position of any leaf (any depth, inside list items) is leaf_of of the stored value *)
  Theorem rendered_at_position : forall mask ps fs pre c t f x,
    render_cfg (fields_of mask fs) pre c = Ok t ->
    leaf_at fs c ps = Some (f, x) ->
    exists q r, out_at t ps = Some r /\ leaf_of mask f q x = Ok r.
  Proof.
    intros mask. induction ps as [|[k|k i] ps IH]; intros fs pre c t f x H Hl; cbn [leaf_at] in Hl; [discriminate| |].
    - destruct c as [i0 d df dy]. cbn [c_data] in Hl. cbn [render_cfg] in H. unfold fields_of in H at 1.
      destruct (render_fields (tree_slot mask) pre d fs) as [ts| |] eqn:Er; try discriminate. inversion H; subst t. clear H.
      destruct (fget F k fs) as [nd|] eqn:Ef; [|discriminate].
      destruct (dget k d) as [v|] eqn:Ed; [|destruct nd; discriminate].
      destruct (render_fields_lookup _ _ _ _ _ _ _ _ Er Ef Ed) as [t0 [Ht0 Hg]].
      cbn [out_at]. rewrite (tget_app _ _ _ _ Hg).
      destruct nd as [f0|dy0 vs0 fs0|rq0 vs0 fs0]; destruct v as [x0|c0|l0]; try discriminate.
      + destruct ps; [|discriminate]. inversion Hl; subst.
        rewrite tree_slot_leaf in Ht0. exists (path_join pre k), t0. split; [reflexivity | exact Ht0].
      + rewrite tree_slot_unfold_sub in Ht0. eapply IH; eauto.
    - destruct c as [i0 d df dy]. cbn [c_data] in Hl. cbn [render_cfg] in H. unfold fields_of in H at 1.
      destruct (render_fields (tree_slot mask) pre d fs) as [ts| |] eqn:Er; try discriminate. inversion H; subst t. clear H.
      destruct (fget F k fs) as [nd|] eqn:Ef; [|discriminate].
      destruct (dget k d) as [v|] eqn:Ed; [|destruct nd; discriminate].
      destruct (render_fields_lookup _ _ _ _ _ _ _ _ Er Ef Ed) as [t0 [Ht0 Hg]].
      cbn [out_at]. rewrite (tget_app _ _ _ _ Hg).
      destruct nd as [f0|dy0 vs0 fs0|rq0 vs0 fs0]; destruct v as [x0|c0|l0]; try discriminate.
      destruct (nth_error l0 i) as [it|] eqn:En; [|discriminate].
      rewrite tree_slot_unfold_list in Ht0. unfold list_result in Ht0.
      destruct (render_items (render_cfg (fields_of mask fs0)) (path_join pre k) l0 0) as [tl| |] eqn:Ei; try discriminate.
      inversion Ht0; subst t0.
      destruct (render_items_lookup _ _ _ _ _ _ _ Ei En) as [t1 [Ht1 Hn1]]. rewrite Hn1. eapply IH; eauto.
  Qed.

  Lemma to_tree_unfold : forall mask fs c, to_tree mask fs c = render_cfg (fields_of mask fs) [] c.
  Proof. intros. unfold Config.to_tree. apply tree_slot_unfold_sub. Qed.

  Theorem sensitive_position_masked : forall m ps fs c t f x,
    to_tree (Some m) fs c = Ok t -> leaf_at fs c ps = Some (f, x) -> lsensitive f = true ->
    exists r, out_at t ps = Some r /\ mask_leaf m x = Ok r.
  Proof.
    intros m ps fs c t f x H Hl Hs. rewrite to_tree_unfold in H.
    destruct (rendered_at_position _ _ _ _ _ _ _ _ H Hl) as [q [r [H1 H2]]]. cbn [leaf_of] in H2. rewrite Hs in H2. eauto.
  Qed.

  Theorem nonsensitive_position_plain : forall mask ps fs c t f x,
    to_tree mask fs c = Ok t -> leaf_at fs c ps = Some (f, x) -> lsensitive f = false ->
    exists r, out_at t ps = Some r /\ lto_basic f x = Ok r.
  Proof.
    intros mask ps fs c t f x H Hl Hs. rewrite to_tree_unfold in H.
    destruct (rendered_at_position _ _ _ _ _ _ _ _ H Hl) as [q [r [H1 H2]]]. exists r. split; [exact H1|].
    assert (Hb : basic_leaf f q x = Ok r) by (destruct mask; cbn [leaf_of] in H2; [rewrite Hs in H2|]; exact H2).
    unfold basic_leaf in Hb. destruct (lto_basic f x); try discriminate. exact Hb.
  Qed.

  (* (4) masked and unmasked renderings have the same keys, in the same order, at every level, and lists the same lengths *)
  Lemma shape_fields_of : forall (s1 s2 : node F -> str -> val -> res pyval) pre d fs ts1 ts2,
    (forall k a, In (k, a) fs -> forall p v t1 t2, s1 a p v = Ok t1 -> s2 a p v = Ok t2 -> shape a t1 t2) ->
    render_fields s1 pre d fs = Ok ts1 -> render_fields s2 pre d fs = Ok ts2 -> shape_fields fs ts1 ts2.
  Proof.
    intros s1 s2 pre d. induction fs as [|[k a] fs IH]; intros ts1 ts2 H H1 H2; cbn [render_fields] in *.
    - inversion H1; inversion H2; constructor.
    - destruct (dget k d) as [fv|].
      + destruct (s1 a (path_join pre k) fv) as [t1| |] eqn:E1; try discriminate.
        destruct (render_fields s1 pre d fs) as [r1| |] eqn:R1; try discriminate.
        destruct (s2 a (path_join pre k) fv) as [t2| |] eqn:E2; try discriminate.
        destruct (render_fields s2 pre d fs) as [r2| |] eqn:R2; try discriminate.
        inversion H1; inversion H2; subst. apply sf_cons.
        * eapply H; eauto. left; reflexivity.
        * apply IH; auto. intros k0 a0 Hin. apply (H k0 a0). right; exact Hin.
      + apply sf_skip. apply IH; auto. intros k0 a0 Hin. apply (H k0 a0). right; exact Hin.
  Qed.

  Lemma shape_cfg_of : forall (s1 s2 : node F -> str -> val -> res pyval) fs p c t1 t2,
    (forall k a, In (k, a) fs -> forall p v t1 t2, s1 a p v = Ok t1 -> s2 a p v = Ok t2 -> shape a t1 t2) ->
    render_cfg (fun pre d => render_fields s1 pre d fs) p c = Ok t1 ->
    render_cfg (fun pre d => render_fields s2 pre d fs) p c = Ok t2 -> shape_cfg fs t1 t2.
  Proof.
    intros s1 s2 fs p [i d df dy] t1 t2 H H1 H2. cbn [render_cfg] in *.
    destruct (render_fields s1 p d fs) as [r1| |] eqn:R1; try discriminate.
    destruct (render_fields s2 p d fs) as [r2| |] eqn:R2; try discriminate.
    inversion H1; inversion H2; subst. constructor. eapply shape_fields_of; eauto.
  Qed.

  Lemma shape_items_of : forall (o1 o2 : str -> cfg -> res pyval) (fs : list (str * node F)) p l i l1 l2,
    (forall q c t1 t2, o1 q c = Ok t1 -> o2 q c = Ok t2 -> shape_cfg fs t1 t2) ->
    render_items o1 p l i = Ok l1 -> render_items o2 p l i = Ok l2 -> shape_items fs l1 l2.
  Proof.
    intros o1 o2 fs p. induction l as [|it l IH]; intros i l1 l2 H H1 H2; cbn [render_items] in *.
    - inversion H1; inversion H2; constructor.
    - destruct (o1 (path_index p i) it) as [t1| |] eqn:E1; try discriminate.
      destruct (render_items o1 p l (i + 1)) as [r1| |] eqn:R1; try discriminate.
      destruct (o2 (path_index p i) it) as [t2| |] eqn:E2; try discriminate.
      destruct (render_items o2 p l (i + 1)) as [r2| |] eqn:R2; try discriminate.
      inversion H1; inversion H2; subst. constructor; [eapply H; eauto | eapply IH; eauto].
  Qed.

  Lemma mask_structure_n : forall m n nd p v t1 t2, (nsize F nd <= n)%nat ->
    tree_slot (Some m) nd p v = Ok t1 -> tree_slot None nd p v = Ok t2 -> shape nd t1 t2.
  Proof.
    intros m. induction n as [|n IH]; intros nd p v t1 t2 Hn H1 H2.
    - destruct nd; cbn [nsize] in Hn; lia.
    - destruct nd as [f|dy vs fs|rq vs fs fsq].
      + constructor.
      + destruct v as [x|c|l]; try discriminate. rewrite tree_slot_unfold_sub in H1, H2. rewrite nsize_sub in Hn.
        constructor. eapply shape_cfg_of; [| exact H1 | exact H2].
        intros k a Hin q v' u1 u2 Hu1 Hu2. eapply IH; eauto. pose proof (fsize_in F _ _ _ Hin). lia.
      + rewrite nsize_cfglist in Hn. destruct v as [x|c|l]; try discriminate.
        * destruct x; try discriminate. inversion H1; inversion H2; subst. constructor.
        * rewrite tree_slot_unfold_list in H1, H2. unfold list_result in H1, H2.
          destruct (render_items (render_cfg (fields_of (Some m) fs)) p l 0) as [r1| |] eqn:R1; try discriminate.
          destruct (render_items (render_cfg (fields_of None fs)) p l 0) as [r2| |] eqn:R2; try discriminate.
          inversion H1; inversion H2; subst. constructor. eapply shape_items_of; [| exact R1 | exact R2].
          intros q c u1 u2 Hu1 Hu2. eapply shape_cfg_of; [| exact Hu1 | exact Hu2].
          intros k a Hin q' v' w1 w2 Hw1 Hw2. eapply IH; eauto. pose proof (fsize_in F _ _ _ Hin). lia.
  Qed.

  Theorem mask_structure : forall m nd p v t1 t2,
    tree_slot (Some m) nd p v = Ok t1 -> tree_slot None nd p v = Ok t2 -> shape nd t1 t2.
  Proof. intros. eapply mask_structure_n; eauto. Qed.
End M.

Lemma shape_fields_keys : forall F (fs : list (str * node F)) d1 d2, shape_fields fs d1 d2 -> map fst d1 = map fst d2.
Proof. intros F fs d1 d2 H. induction H; cbn [map fst]; congruence. Qed.

Lemma shape_items_length : forall F (fs : list (str * node F)) l1 l2, shape_items fs l1 l2 -> length l1 = length l2.
Proof. intros F fs l1 l2 H. induction H; cbn [length]; congruence. Qed.

(* the top-level consequence: same keys in the same order *)
Theorem mask_same_keys : forall F lto_basic lsensitive py_strlen m fs c t1 t2,
  to_tree F lto_basic lsensitive py_strlen (Some m) fs c = Ok t1 ->
  to_tree F lto_basic lsensitive py_strlen None fs c = Ok t2 ->
  exists d1 d2, t1 = PDict 0 d1 /\ t2 = PDict 0 d2 /\ map fst d1 = map fst d2.
Proof.
  intros F lb ls sl m fs c t1 t2 H1 H2. pose proof (mask_structure _ _ _ _ _ _ _ _ _ _ H1 H2) as H.
  inversion H as [|dy vs fs0 u1 u2 Hc| |]; subst. inversion Hc as [fs1 d1 d2 extra Hf]; subst.
  exists (d1 ++ extra), (d2 ++ extra). repeat split. rewrite !map_app. f_equal. eapply shape_fields_keys; eauto.
Qed.

(* (3, continued) the rendering with a mask does not depend on how sensitive values would have been converted:
   two to_basic functions that agree on the non-sensitive leaves give the same masked tree *)
Theorem mask_independent_of_sensitive_rendering :
  forall F (lb1 lb2 : F -> pyval -> res pyval) lsensitive py_strlen m nd p v,
    (forall f x, lsensitive f = false -> lb1 f x = lb2 f x) ->
    tree_slot F lb1 lsensitive py_strlen (Some m) nd p v = tree_slot F lb2 lsensitive py_strlen (Some m) nd p v.
Proof.
  intros F lb1 lb2 ls sl m nd p v H. rewrite !tree_slot_is_spec. apply spec_slot_ext_on.
  intros f _ q x. cbn [leaf_of]. destruct (ls f) eqn:E; [reflexivity|]. unfold basic_leaf. rewrite (H f x E). reflexivity.
Qed.

(* ---------------------------------------------------------------------------------------------- *)
(* noninterference: two states that differ only in the values of sensitive leaves -- and there only in  *)
(* ways that keep truthiness and text length -- render to the same masked tree                        *)
(* ---------------------------------------------------------------------------------------------- *)
Section NI.
  Variable F : Type.
  Variable lto_basic : F -> pyval -> res pyval.
  Variable lsensitive : F -> bool.
  Variable py_strlen : pyval -> option nat.
  Notation tree_slot := (Config.tree_slot F lto_basic lsensitive py_strlen).

  Inductive low_eq : node F -> val -> val -> Prop :=
  | le_pub : forall f x, lsensitive f = false -> low_eq (NLeaf f) (VLeaf x) (VLeaf x)
  | le_sec : forall f x y, lsensitive f = true -> py_falsy x = py_falsy y -> py_strlen x = py_strlen y ->
                           low_eq (NLeaf f) (VLeaf x) (VLeaf y)
  | le_sub : forall dy vs fs c1 c2, low_eq_cfg fs c1 c2 -> low_eq (NSub dy vs fs) (VCfg c1) (VCfg c2)
  | le_none : forall rq vs fs fsq, low_eq (NCfgList rq vs fs fsq) (VLeaf PNone) (VLeaf PNone)
  | le_list : forall rq vs fs fsq l1 l2, low_eq_items fs l1 l2 -> low_eq (NCfgList rq vs fs fsq) (VList l1) (VList l2)
  with low_eq_cfg : list (str * node F) -> cfg -> cfg -> Prop :=
  | lec : forall fs i1 i2 d1 d2 df1 df2 dy1 dy2,
      dyn_items d1 dy1 = dyn_items d2 dy2 ->
      (forall k nd, In (k, nd) fs ->
         (dget k d1 = None /\ dget k d2 = None)
         \/ (exists a b, dget k d1 = Some a /\ dget k d2 = Some b /\ low_eq nd a b)) ->
      low_eq_cfg fs (Cfg i1 d1 df1 dy1) (Cfg i2 d2 df2 dy2)
  with low_eq_items : list (str * node F) -> list cfg -> list cfg -> Prop :=
  | lei_nil : forall fs, low_eq_items fs [] []
  | lei_cons : forall fs c1 c2 l1 l2, low_eq_cfg fs c1 c2 -> low_eq_items fs l1 l2 -> low_eq_items fs (c1 :: l1) (c2 :: l2).

  Lemma render_fields_two : forall (s : node F -> str -> val -> res pyval) pre d1 d2 fs,
    (forall k a, In (k, a) fs ->
       (dget k d1 = None /\ dget k d2 = None)
       \/ (exists v1 v2, dget k d1 = Some v1 /\ dget k d2 = Some v2 /\ forall p, s a p v1 = s a p v2)) ->
    render_fields s pre d1 fs = render_fields s pre d2 fs.
  Proof.
    intros s pre d1 d2. induction fs as [|[k a] fs IH]; intro H; [reflexivity|]. cbn [render_fields].
    rewrite IH by (intros k0 a0 Hin; apply (H k0 a0); right; exact Hin).
    destruct (H k a (or_introl eq_refl)) as [[-> ->]|[v1 [v2 [-> [-> E]]]]]; [reflexivity|]. rewrite E. reflexivity.
  Qed.

  Lemma render_items_two : forall (one : str -> cfg -> res pyval) fs p l1 l2,
    low_eq_items fs l1 l2 -> (forall c1 c2 q, low_eq_cfg fs c1 c2 -> one q c1 = one q c2) ->
    forall i, render_items one p l1 i = render_items one p l2 i.
  Proof.
    intros one fs p l1 l2 H. induction H as [|fs c1 c2 l1 l2 Hc Hl IH]; intros Ho i; [reflexivity|].
    cbn [render_items]. rewrite (Ho c1 c2 _ Hc), IH by exact Ho. reflexivity.
  Qed.

  Lemma masked_low_eq_n : forall m n nd p v1 v2, (nsize F nd <= n)%nat -> low_eq nd v1 v2 ->
    tree_slot (Some m) nd p v1 = tree_slot (Some m) nd p v2.
  Proof.
    intros m. induction n as [|n IH]; intros nd p v1 v2 Hn H.
    - destruct nd; cbn [nsize] in Hn; lia.
    - assert (Hcfg : forall fs, (fsize F fs <= n)%nat -> forall c1 c2 q, low_eq_cfg fs c1 c2 ->
                render_cfg (fields_of F lto_basic lsensitive py_strlen (Some m) fs) q c1
                = render_cfg (fields_of F lto_basic lsensitive py_strlen (Some m) fs) q c2).
      { intros fs Hfs c1 c2 q Hc. inversion Hc as [fs0 i1 i2 d1 d2 df1 df2 dy1 dy2 Hdy Hf]; subst.
        cbn [render_cfg]. unfold fields_of. rewrite Hdy.
        rewrite (render_fields_two (tree_slot (Some m)) q d1 d2 fs); [reflexivity|].
        intros k a Hin. destruct (Hf k a Hin) as [Hnone|[a1 [a2 [H1 [H2 Hl]]]]]; [left; exact Hnone|].
        right. exists a1, a2. repeat split; auto. intro p0. apply IH; [|exact Hl].
        pose proof (fsize_in F _ _ _ Hin). lia. }
      inversion H as [f x Hs|f x y Hs Hf Hl|dy vs fs c1 c2 Hc|rq vs fs fsq|rq vs fs fsq l1 l2 Hi]; subst.
      + reflexivity.
      + rewrite !tree_slot_leaf. cbn [leaf_of]. rewrite Hs. apply mask_leaf_noninterference; assumption.
      + rewrite !tree_slot_unfold_sub. rewrite nsize_sub in Hn. apply Hcfg; [lia | exact Hc].
      + reflexivity.
      + rewrite !tree_slot_unfold_list. rewrite nsize_cfglist in Hn. f_equal.
        apply (render_items_two _ fs p l1 l2 Hi). intros c1 c2 q Hc. apply Hcfg; [lia | exact Hc].
  Qed.

  Theorem masked_noninterference : forall m nd p v1 v2, low_eq nd v1 v2 ->
    tree_slot (Some m) nd p v1 = tree_slot (Some m) nd p v2.
  Proof. intros. eapply masked_low_eq_n; eauto. Qed.

  Theorem masked_tree_noninterference : forall m fs c1 c2, low_eq_cfg fs c1 c2 ->
    to_tree F lto_basic lsensitive py_strlen (Some m) fs c1 = to_tree F lto_basic lsensitive py_strlen (Some m) fs c2.
  Proof. intros. unfold to_tree. apply masked_noninterference. constructor. assumption. Qed.
End NI.

(* ---------------------------------------------------------------------------------------------- *)
(* non-vacuity: the concrete leaf instance of ConfigInst.v, evaluated                              *)
(* ---------------------------------------------------------------------------------------------- *)
Section Examples.
  Open Scope string_scope.
  Let sleaf (sens : bool) : leaf :=
    {| l_kind := LStr None None false false; l_required := false; l_default := PNone; l_callable := false; l_sensitive := sens; l_reject := None |}.
  Let ileaf (sens : bool) : leaf :=
    {| l_kind := LInt None None; l_required := false; l_default := PInt 7; l_callable := false; l_sensitive := sens; l_reject := None |}.
  Let item_fs : list (str * inode) := [(sa "pw", NLeaf (sleaf true)); (sa "n", NLeaf (ileaf false))].
  Let ex_fs : list (str * inode) :=
    [(sa "pw", NLeaf (sleaf true)); (sa "n", NLeaf (ileaf false)); (sa "pin", NLeaf (ileaf true));
     (sa "sub", NSub false [] [(sa "tok", NLeaf (sleaf true)); (sa "host", NLeaf (sleaf false))]);
     (sa "items", NCfgList false [] item_fs None)].
  Let ex_ops : list (list pstep * xop leaf) :=
    [([], XOp (CSet (sa "pw") (PStr (sa "hunter22"))));
     ([PKey (sa "sub")], XOp (CSet (sa "tok") (PStr (sa "abc"))));
     ([PKey (sa "sub")], XOp (CSet (sa "host") (PStr (sa "example.org"))));
     ([], XOp (CSet (sa "items") (PList 0 [PDict 0 [(PStr (sa "pw"), PStr (sa "s3cret")); (PStr (sa "n"), PInt 1)];
                                           PDict 0 [(PStr (sa "pw"), PStr (sa ""))]])))].
  Let ex_case : cocase := ([], false, [], ex_fs, [], ex_ops).
  Let plain : pyval :=
    PDict 0 [(PStr (sa "pw"), PStr (sa "hunter22")); (PStr (sa "n"), PInt 7); (PStr (sa "pin"), PInt 7);
             (PStr (sa "sub"), PDict 0 [(PStr (sa "tok"), PStr (sa "abc")); (PStr (sa "host"), PStr (sa "example.org"))]);
             (PStr (sa "items"), PList 0 [PDict 0 [(PStr (sa "pw"), PStr (sa "s3cret")); (PStr (sa "n"), PInt 1)];
                                          PDict 0 [(PStr (sa "pw"), PStr (sa "")); (PStr (sa "n"), PInt 7)]])].
  Let masked (a b c d : pyval) : pyval :=
    PDict 0 [(PStr (sa "pw"), a); (PStr (sa "n"), PInt 7); (PStr (sa "pin"), b);
             (PStr (sa "sub"), PDict 0 [(PStr (sa "tok"), c); (PStr (sa "host"), PStr (sa "example.org"))]);
             (PStr (sa "items"), PList 0 [PDict 0 [(PStr (sa "pw"), d); (PStr (sa "n"), PInt 1)];
                                          PDict 0 [(PStr (sa "pw"), PNone); (PStr (sa "n"), PInt 7)]])].

  (* sensitive leaf at the root, in a sub-configuration, in list items (one of them empty); one-character mask *)
  Example mask_star : run_totree (ex_case, Some (sa "*")) =
    PTuple [o_res (Ok plain);
            o_res (Ok (masked (PStr (sa "********")) (PStr (sa "*")) (PStr (sa "***")) (PStr (sa "******"))))].
  Proof. vm_compute. reflexivity. Qed.

  Example mask_long : run_totree (ex_case, Some (sa "[hidden]")) =
    PTuple [o_res (Ok plain);
            o_res (Ok (masked (PStr (sa "[hidden]")) (PStr (sa "[hidden]")) (PStr (sa "[hidden]")) (PStr (sa "[hidden]"))))].
  Proof. vm_compute. reflexivity. Qed.

  Example mask_empty : run_totree (ex_case, Some (sa "")) =
    PTuple [o_res (Ok plain); o_res (Ok (masked (PStr []) (PStr []) (PStr []) (PStr [])))].
  Proof. vm_compute. reflexivity. Qed.

  Example mask_absent : run_totree (ex_case, None) = PTuple [o_res (Ok plain); o_res (Ok plain)].
  Proof. vm_compute. reflexivity. Qed.

  (* the hypotheses of sensitive_position_masked are satisfiable: a sensitive leaf inside a list item *)
  Let ex_cfg : cfg :=
    Cfg 0 [(sa "pw", VLeaf (PStr (sa "hunter22")));
           (sa "items", VList [Cfg 1 [(sa "pw", VLeaf (PStr (sa "s3cret"))); (sa "n", VLeaf (PInt 1))] [] []])] [] [].
  Example position_in_list_item :
    leaf_at ex_fs ex_cfg [PItem (sa "items") 0; PKey (sa "pw")] = Some (sleaf true, PStr (sa "s3cret"))
    /\ exists t, to_tree leaf lto_basic l_sensitive py_strlen (Some (sa "#")) ex_fs ex_cfg = Ok t
                 /\ out_at t [PItem (sa "items") 0; PKey (sa "pw")] = Some (PStr (sa "######")).
  Proof. split; [vm_compute; reflexivity|]. eexists. split; vm_compute; reflexivity. Qed.

  (* the hypothesis of nonsensitive_identical is satisfiable *)
  Example no_sensitive_leaf : forall f,
    leaf_in (NSub false [] [(sa "n", NLeaf (ileaf false)); (sa "sub", NSub false [] [(sa "host", NLeaf (sleaf false))])]) f ->
    l_sensitive f = false.
  Proof.
    intros f H. inversion H as [|dy vs fs k nd f0 Hin Hl|]; subst.
    destruct Hin as [E|[E|[]]]; inversion E; subst.
    - inversion Hl; subst. reflexivity.
    - inversion Hl as [|dy vs fs k' nd' f0 Hin' Hl'|]; subst. destruct Hin' as [E'|[]]. inversion E'; subst.
      inversion Hl'; subst. reflexivity.
  Qed.

  (* the hypothesis of masked_tree_noninterference is satisfiable, and the conclusion is not trivial: two states holding
     different secrets (same length) in a list item render to the same masked tree but to different plain trees *)
  Let ex_cfg' : cfg :=
    Cfg 5 [(sa "pw", VLeaf (PStr (sa "hunter22")));
           (sa "items", VList [Cfg 6 [(sa "pw", VLeaf (PStr (sa "abcdef"))); (sa "n", VLeaf (PInt 1))] [] []])] [] [].
  Example secrets_differ_low_eq : low_eq_cfg leaf l_sensitive py_strlen ex_fs ex_cfg ex_cfg'
    /\ to_tree leaf lto_basic l_sensitive py_strlen None ex_fs ex_cfg <> to_tree leaf lto_basic l_sensitive py_strlen None ex_fs ex_cfg'.
  Proof.
    split; [|vm_compute; discriminate].
    constructor; [reflexivity|]. intros k nd Hin.
    destruct Hin as [E|[E|[E|[E|[E|[]]]]]]; inversion E; subst; clear E.
    - right. do 2 eexists. split; [vm_compute; reflexivity|]. split; [vm_compute; reflexivity|]. apply le_sec; reflexivity.
    - left. split; reflexivity.
    - left. split; reflexivity.
    - left. split; reflexivity.
    - right. do 2 eexists. split; [vm_compute; reflexivity|]. split; [vm_compute; reflexivity|].
      apply le_list. constructor; [|constructor]. constructor; [reflexivity|]. intros k' nd' Hin'.
      destruct Hin' as [E|[E|[]]]; inversion E; subst; clear E; right; do 2 eexists.
      + split; [vm_compute; reflexivity|]. split; [vm_compute; reflexivity|]. apply le_sec; reflexivity.
      + split; [vm_compute; reflexivity|]. split; [vm_compute; reflexivity|]. apply le_pub; reflexivity.
  Qed.

  (* the unrepaired rendering (finding F5: ListField.to_basic called item.to_tree() without the mask) is NOT the
     declarative map: the theorem mask_tree tells the two apart *)
  Fixpoint slot_f5 (mask : option str) (nd : inode) (p : str) (v : val) {struct nd} : res pyval :=
    match nd, v with
    | NLeaf f, VLeaf x => leaf_of leaf lto_basic l_sensitive py_strlen mask f p x
    | NSub _ _ fs, VCfg c => render_cfg (fun pre d => render_fields (slot_f5 mask) pre d fs) p c
    | NCfgList _ _ _ _, VLeaf PNone => Ok PNone
    | NCfgList _ _ fs _, VList l =>
        list_result (render_items (render_cfg (fun pre d => render_fields (slot_f5 None) pre d fs)) p l 0)
    | _, _ => Unmodelled
    end.
  Example unrepaired_list_rendering_leaks :
    slot_f5 (Some (sa "*")) (NSub false [] ex_fs) [] (VCfg ex_cfg)
    <> tree_slot leaf lto_basic l_sensitive py_strlen (Some (sa "*")) (NSub false [] ex_fs) [] (VCfg ex_cfg).
  Proof. vm_compute. discriminate. Qed.
End Examples.
