(* Property C18 — including files is a deep merge in the including scope, included values win.
   Property theorems only. *)
From Coq Require Import ZArith NArith List Bool.
From Cinco Require Import Base Tree TreeLemmas.
Import ListNotations.

Theorem C18_merge_get : forall base child k,
  NoDup (map fst child) ->
  tget k (combine base child) =
    match tget k child with
    | None => tget k base
    | Some v => Some (merge_val (tget k base) v)
    end.
Proof. exact merge_get. Qed.
Print Assumptions C18_merge_get.

Theorem C18_merge_keys : forall base child,
  NoDup (map fst child) ->
  map fst (combine base child) = map fst base ++ filter (fun k => negb (tmem k base)) (map fst child).
Proof. exact merge_keys. Qed.
Print Assumptions C18_merge_keys.

Theorem C18_included_leaf_wins : forall bv x, merge_val bv (TLeaf x) = TLeaf x.
Proof. exact merge_val_leaf. Qed.
Print Assumptions C18_included_leaf_wins.

Theorem C18_maps_merge_recursively : forall bm cm, merge_val (Some (TMap bm)) (TMap cm) = TMap (combine bm cm).
Proof. exact merge_val_map. Qed.
Print Assumptions C18_maps_merge_recursively.

Theorem C18_map_replaces_non_map : forall x cm,
  merge_val (Some (TLeaf x)) (TMap cm) = TMap cm /\ merge_val None (TMap cm) = TMap cm.
Proof. intros; split; [apply merge_val_map_over_leaf | apply merge_val_map_over_none]. Qed.
Print Assumptions C18_map_replaces_non_map.

Theorem C18_include_root : forall load_file k fid doc fname child,
  tget k doc = Some (TLeaf fname) -> fname <> PNone ->
  load_file fid fname = Ok child ->
  process load_file (ISchema [(k, fid)] []) doc = Ok (combine doc child).
Proof. exact include_root. Qed.
Print Assumptions C18_include_root.

Theorem C18_include_nested : forall load_file sk k fid doc sub fname child,
  tget sk doc = Some (TMap sub) ->
  tget k sub = Some (TLeaf fname) -> fname <> PNone ->
  load_file fid fname = Ok child ->
  process load_file (ISchema [] [(sk, ISchema [(k, fid)] [])]) doc
    = Ok (tset sk (TMap (combine sub child)) doc).
Proof. exact include_nested. Qed.
Print Assumptions C18_include_nested.

Theorem C18_include_must_exist : forall load_file k fid doc fname e,
  tget k doc = Some (TLeaf fname) -> fname <> PNone ->
  load_file fid fname = Err e ->
  process load_file (ISchema [(k, fid)] []) doc = Err e.
Proof. exact include_must_exist. Qed.
Print Assumptions C18_include_must_exist.

Theorem C18_include_absent : forall load_file k fid doc,
  tget k doc = None \/ tget k doc = Some (TLeaf PNone) ->
  process load_file (ISchema [(k, fid)] []) doc = Ok doc.
Proof. exact include_absent. Qed.
Print Assumptions C18_include_absent.

(* ---- chains of include fields in one scope ---- *)
Theorem C18_includes_app : forall load_file a b t,
  do_includes load_file (a ++ b) t =
    match do_includes load_file a t with
    | Ok t1 => do_includes load_file b t1
    | Err e => Err e
    | Unmodelled => Unmodelled
    end.
Proof. exact includes_app. Qed.
Print Assumptions C18_includes_app.

Theorem C18_include_chain2 : forall load_file k1 f1 k2 f2 doc n1 c1 n2 c2,
  tget k1 doc = Some (TLeaf n1) -> n1 <> PNone -> load_file f1 n1 = Ok c1 ->
  tget k2 (combine doc c1) = Some (TLeaf n2) -> n2 <> PNone -> load_file f2 n2 = Ok c2 ->
  process load_file (ISchema [(k1, f1); (k2, f2)] []) doc = Ok (combine (combine doc c1) c2).
Proof. exact include_chain2. Qed.
Print Assumptions C18_include_chain2.

Theorem C18_include_chain2_later_wins : forall load_file k1 f1 k2 f2 doc n1 c1 n2 c2 k x,
  tget k1 doc = Some (TLeaf n1) -> n1 <> PNone -> load_file f1 n1 = Ok c1 ->
  tget k2 (combine doc c1) = Some (TLeaf n2) -> n2 <> PNone -> load_file f2 n2 = Ok c2 ->
  NoDup (map fst c2) -> tget k c2 = Some (TLeaf x) ->
  exists t, process load_file (ISchema [(k1, f1); (k2, f2)] []) doc = Ok t /\ tget k t = Some (TLeaf x).
Proof. exact include_chain2_later_wins. Qed.
Print Assumptions C18_include_chain2_later_wins.

Theorem C18_include_chain2_earlier_kept : forall load_file k1 f1 k2 f2 doc n1 c1 n2 c2 k,
  tget k1 doc = Some (TLeaf n1) -> n1 <> PNone -> load_file f1 n1 = Ok c1 ->
  tget k2 (combine doc c1) = Some (TLeaf n2) -> n2 <> PNone -> load_file f2 n2 = Ok c2 ->
  NoDup (map fst c1) -> NoDup (map fst c2) -> tget k c2 = None ->
  exists t, process load_file (ISchema [(k1, f1); (k2, f2)] []) doc = Ok t /\
            tget k t = match tget k c1 with
                       | None => tget k doc
                       | Some v => Some (merge_val (tget k doc) v)
                       end.
Proof. exact include_chain2_earlier_kept. Qed.
Print Assumptions C18_include_chain2_earlier_kept.

Theorem C18_include_chain_fails : forall load_file a k fid b doc t1 n e,
  do_includes load_file a doc = Ok t1 ->
  tget k t1 = Some (TLeaf n) -> n <> PNone -> load_file fid n = Err e ->
  process load_file (ISchema (a ++ (k, fid) :: b) []) doc = Err e.
Proof. exact include_chain_fails. Qed.
Print Assumptions C18_include_chain_fails.

(* ---- identity laws of the merge ---- *)
Theorem C18_combine_nil_r : forall base, combine base [] = base.
Proof. exact combine_nil_r. Qed.
Print Assumptions C18_combine_nil_r.

Theorem C18_combine_nil_l : forall child, NoDup (map fst child) -> combine [] child = child.
Proof. exact combine_nil_l. Qed.
Print Assumptions C18_combine_nil_l.

(* ---- order of the walk: include fields of a scope first, then its nested scopes ---- *)
Theorem C18_include_root_then_nested : forall load_file k fid sk k2 f2 doc n1 c1 sub n2 c2,
  tget k doc = Some (TLeaf n1) -> n1 <> PNone -> load_file fid n1 = Ok c1 ->
  tget sk (combine doc c1) = Some (TMap sub) ->
  tget k2 sub = Some (TLeaf n2) -> n2 <> PNone -> load_file f2 n2 = Ok c2 ->
  process load_file (ISchema [(k, fid)] [(sk, ISchema [(k2, f2)] [])]) doc
    = Ok (tset sk (TMap (combine sub c2)) (combine doc c1)).
Proof. exact include_root_then_nested. Qed.
Print Assumptions C18_include_root_then_nested.

Theorem C18_include_nested_fails : forall load_file incs sk k2 f2 doc t1 sub n2 e,
  do_includes load_file incs doc = Ok t1 ->
  tget sk t1 = Some (TMap sub) ->
  tget k2 sub = Some (TLeaf n2) -> n2 <> PNone -> load_file f2 n2 = Err e ->
  process load_file (ISchema incs [(sk, ISchema [(k2, f2)] [])]) doc = Err e.
Proof. exact include_nested_fails. Qed.
Print Assumptions C18_include_nested_fails.

(* ---- idempotence: merging a tree (distinct keys at every level) into itself changes nothing ---- *)
Theorem C18_merge_idem : forall v, twf v -> merge_val (Some v) v = v.
Proof. exact merge_idem. Qed.
Print Assumptions C18_merge_idem.

Theorem C18_combine_idem : forall m, twf (TMap m) -> combine m m = m.
Proof. exact combine_idem. Qed.
Print Assumptions C18_combine_idem.

(* ---- scopes with any number of include fields ---- *)
Theorem C18_process_flat : forall load_file incs t,
  process load_file (ISchema incs []) t = do_includes load_file incs t.
Proof. exact process_flat. Qed.
Print Assumptions C18_process_flat.

Theorem C18_includes_unnamed : forall load_file incs t,
  (forall k fid, In (k, fid) incs -> tget k t = None \/ tget k t = Some (TLeaf PNone)) ->
  do_includes load_file incs t = Ok t.
Proof. exact includes_unnamed. Qed.
Print Assumptions C18_includes_unnamed.

(* ---- a schema without include fields at any depth: the document is loaded as it is ---- *)
Theorem C18_process_no_incs : forall load_file s t, no_incs s = true -> process load_file s t = Ok t.
Proof. exact process_no_incs. Qed.
Print Assumptions C18_process_no_incs.
