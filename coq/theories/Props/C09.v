(* Property C09 — challenge fields keep only a salted hash that verifies exactly the secret.
   Property theorems only.  hashlib (H, digest_size), str.encode (utf8) and base64 (b64enc/b64dec) are not
   code of this repository: they are universally quantified, and what a theorem assumes about them is an
   explicit premise:   |H a x| = digest_size a ;  b64dec (b64enc b) = Some b ;  utf8 injective ;
   and the IDEALISATION  H a x = H a y -> x = y  (collision freedom) for "every other secret fails".
   `c_rng` is the stream of bytes os.urandom will return; `c_val` is what the configuration holds. *)
From Coq Require Import ZArith NArith List Bool.
From Cinco Require Import Base Challenge ChallengeLemmas.
Import ListNotations.
Open Scope nat_scope.

Definition hashT := N -> bytes -> bytes.
Definition encT := str -> option bytes.

(* assigning a secret stores DigestValue(salt, H(salt ++ bytes p), alg); the salt is the next digest_size
   bytes of the random stream, which advances by exactly that much *)
Theorem C09_assign_stores : forall (H : hashT) (digest_size : N -> nat) (utf8 : encT) a req st p b,
  plain_bytes utf8 p = Ok b -> digest_size a <= length (c_rng st) ->
  let ds := digest_size a in
  let salt := firstn ds (c_rng st) in
  let dv := stored_of a salt (H a (salt ++ b)) in
  cfg_assign H digest_size utf8 a req st p = (mk_cst (skipn ds (c_rng st)) dv, Ok dv) /\
  length salt = ds /\ c_rng st = salt ++ skipn ds (c_rng st).
Proof. exact assign_stores. Qed.
Print Assumptions C09_assign_stores.

Theorem C09_salt_len_is_digest_len : forall (H : hashT) (digest_size : N -> nat) (utf8 : encT),
  (forall a x, length (H a x) = digest_size a) ->
  forall a req st p b st' salt d a',
  plain_bytes utf8 p = Ok b -> digest_size a <= length (c_rng st) ->
  cfg_assign H digest_size utf8 a req st p = (st', Ok (PDigest salt d a')) ->
  length salt = length d /\ a' = a.
Proof. exact salt_len_is_digest_len. Qed.
Print Assumptions C09_salt_len_is_digest_len.

(* no assumption at all: a challenge succeeds exactly when the candidate hashes to the stored digest *)
Theorem C09_challenge_exact : forall (H : hashT) (utf8 : encT) a salt d q bq,
  plain_bytes utf8 q = Ok bq ->
  (challenge H utf8 (PDigest salt d a) q = Ok PNone <-> d = H a (salt ++ bq)) /\
  (challenge H utf8 (PDigest salt d a) q = Err EValue <-> d <> H a (salt ++ bq)).
Proof. exact challenge_exact. Qed.
Print Assumptions C09_challenge_exact.

Theorem C09_challenge_ok : forall (H : hashT) (utf8 : encT) a salt p b,
  plain_bytes utf8 p = Ok b -> challenge H utf8 (stored_of a salt (H a (salt ++ b))) p = Ok PNone.
Proof. exact challenge_ok. Qed.
Print Assumptions C09_challenge_ok.

Theorem C09_salt_prefix_cancel : forall salt p q : bytes, salt ++ p = salt ++ q -> p = q.
Proof. exact salt_prefix_cancel. Qed.
Print Assumptions C09_salt_prefix_cancel.

Theorem C09_challenge_other_fails : forall (H : hashT) (utf8 : encT),
  (forall a x y, H a x = H a y -> x = y) ->
  forall a salt p q bp bq,
  plain_bytes utf8 p = Ok bp -> plain_bytes utf8 q = Ok bq -> bp <> bq ->
  challenge H utf8 (stored_of a salt (H a (salt ++ bp))) q = Err EValue.
Proof. exact challenge_other_fails. Qed.
Print Assumptions C09_challenge_other_fails.

Theorem C09_challenge_other_str_fails : forall (H : hashT) (utf8 : encT),
  (forall a x y, H a x = H a y -> x = y) ->
  (forall s t b, utf8 s = Some b -> utf8 t = Some b -> s = t) ->
  forall a salt s t bs bt,
  utf8 s = Some bs -> utf8 t = Some bt -> s <> t ->
  challenge H utf8 (stored_of a salt (H a (salt ++ bs))) (PStr t) = Err EValue.
Proof. exact challenge_other_str_fails. Qed.
Print Assumptions C09_challenge_other_str_fails.

(* why the encoder's injectivity is a premise: anything with the same bytes verifies *)
Theorem C09_challenge_same_encoding_ok : forall (H : hashT) (utf8 : encT) a salt p q b,
  plain_bytes utf8 p = Ok b -> plain_bytes utf8 q = Ok b ->
  challenge H utf8 (stored_of a salt (H a (salt ++ b))) q = Ok PNone.
Proof. exact challenge_same_encoding_ok. Qed.
Print Assumptions C09_challenge_same_encoding_ok.

Theorem C09_assign_then_challenge : forall (H : hashT) (digest_size : N -> nat) (utf8 : encT),
  (forall a x y, H a x = H a y -> x = y) ->
  forall a req st p q bp bq st' dv,
  plain_bytes utf8 p = Ok bp -> plain_bytes utf8 q = Ok bq -> digest_size a <= length (c_rng st) ->
  cfg_assign H digest_size utf8 a req st p = (st', Ok dv) ->
  c_val st' = dv /\ challenge H utf8 (c_val st') p = Ok PNone /\
  (bp <> bq -> challenge H utf8 (c_val st') q = Err EValue).
Proof. exact assign_then_challenge. Qed.
Print Assumptions C09_assign_then_challenge.

(* two assignments (of the same or of different secrets) use consecutive draws; distinct draws give
   distinct salts and distinct stored values *)
Theorem C09_salts_differ : forall (H : hashT) (digest_size : N -> nat) (utf8 : encT) a req st p1 p2 b1 b2,
  plain_bytes utf8 p1 = Ok b1 -> plain_bytes utf8 p2 = Ok b2 ->
  2 * digest_size a <= length (c_rng st) ->
  let ds := digest_size a in
  let s1 := firstn ds (c_rng st) in
  let s2 := firstn ds (skipn ds (c_rng st)) in
  let st1 := fst (cfg_assign H digest_size utf8 a req st p1) in
  let st2 := fst (cfg_assign H digest_size utf8 a req st1 p2) in
  c_val st1 = stored_of a s1 (H a (s1 ++ b1)) /\
  c_val st2 = stored_of a s2 (H a (s2 ++ b2)) /\
  c_rng st2 = skipn ds (skipn ds (c_rng st)) /\
  (s1 <> s2 -> c_val st1 <> c_val st2).
Proof. exact salts_differ. Qed.
Print Assumptions C09_salts_differ.

Theorem C09_digest_roundtrip : forall (H : hashT) (digest_size : N -> nat) (utf8 : encT) (b64enc : bytes -> str) (b64dec : encT),
  (forall b, b64dec (b64enc b) = Some b) ->
  forall a r salt d a' t,
  to_basic b64enc (PDigest salt d a') = Ok t ->
  to_python H digest_size utf8 b64dec a r t = (r, Ok (PDigest salt d a)).
Proof. exact digest_roundtrip. Qed.
Print Assumptions C09_digest_roundtrip.

Theorem C09_saveload_keeps : forall (H : hashT) (digest_size : N -> nat) (utf8 : encT) (b64enc : bytes -> str) (b64dec : encT),
  (forall b, b64dec (b64enc b) = Some b) ->
  forall a req dflt st salt d r1 dv,
  c_val st = PDigest salt d a ->
  setdefault H digest_size utf8 a (c_rng st) dflt = (r1, Ok dv) ->
  cfg_saveload H digest_size utf8 b64enc b64dec a req dflt st = (mk_cst r1 (c_val st), Ok (c_val st)).
Proof. exact saveload_keeps. Qed.
Print Assumptions C09_saveload_keeps.

Theorem C09_saveload_same_challenges : forall (H : hashT) (digest_size : N -> nat) (utf8 : encT) (b64enc : bytes -> str) (b64dec : encT),
  (forall b, b64dec (b64enc b) = Some b) ->
  forall a req dflt st salt d r1 dv x,
  c_val st = PDigest salt d a ->
  setdefault H digest_size utf8 a (c_rng st) dflt = (r1, Ok dv) ->
  challenge H utf8 (c_val (fst (cfg_saveload H digest_size utf8 b64enc b64dec a req dflt st))) x =
  challenge H utf8 (c_val st) x.
Proof. exact saveload_same_challenges. Qed.
Print Assumptions C09_saveload_same_challenges.

Theorem C09_plaintext_on_disk_hashed : forall (H : hashT) (digest_size : N -> nat) (utf8 b64dec : encT) a req st s b,
  utf8 s = Some b -> digest_size a <= length (c_rng st) ->
  let ds := digest_size a in
  let salt := firstn ds (c_rng st) in
  let dv := stored_of a salt (H a (salt ++ b)) in
  cfg_load H digest_size utf8 b64dec a req st (PStr s) = (mk_cst (skipn ds (c_rng st)) dv, Ok dv) /\
  challenge H utf8 dv (PStr s) = Ok PNone.
Proof. exact plaintext_on_disk_hashed. Qed.
Print Assumptions C09_plaintext_on_disk_hashed.

Theorem C09_malformed_rejected : forall (H : hashT) (digest_size : N -> nat) (utf8 b64dec : encT) a r tg d,
  assoc pyval_eqb k_salt d = None \/ assoc pyval_eqb k_digest d = None \/
  (exists s, assoc pyval_eqb k_salt d = Some (PStr s) /\ b64dec s = None) \/
  (exists s, assoc pyval_eqb k_digest d = Some (PStr s) /\ b64dec s = None) ->
  (forall k v, assoc pyval_eqb k d = Some v -> exists s, v = PStr s) ->
  snd (to_python H digest_size utf8 b64dec a r (PDict tg d)) = Err EValue.
Proof. exact malformed_rejected. Qed.
Print Assumptions C09_malformed_rejected.

(* everything kept after assigning p is a function of (alg, salt, H a (salt ++ bytes p)) alone *)
Theorem C09_no_plaintext : forall (H : hashT) (digest_size : N -> nat) (utf8 : encT) (b64enc : bytes -> str) a req st p b,
  plain_bytes utf8 p = Ok b -> digest_size a <= length (c_rng st) ->
  let salt := firstn (digest_size a) (c_rng st) in
  let d := H a (salt ++ b) in
  let st' := fst (cfg_assign H digest_size utf8 a req st p) in
  st' = mk_cst (skipn (digest_size a) (c_rng st)) (stored_of a salt d) /\
  to_basic b64enc (c_val st') = Ok (disk_of b64enc salt d) /\
  dv_str b64enc (c_val st') = Ok (PStr (b64enc salt ++ colon :: b64enc d)).
Proof. exact no_plaintext. Qed.
Print Assumptions C09_no_plaintext.

Theorem C09_no_plaintext_factor : forall (H : hashT) (digest_size : N -> nat) (utf8 : encT) a req st p p' b b',
  plain_bytes utf8 p = Ok b -> plain_bytes utf8 p' = Ok b' -> digest_size a <= length (c_rng st) ->
  H a (firstn (digest_size a) (c_rng st) ++ b) = H a (firstn (digest_size a) (c_rng st) ++ b') ->
  cfg_assign H digest_size utf8 a req st p = cfg_assign H digest_size utf8 a req st p'.
Proof. exact no_plaintext_factor. Qed.
Print Assumptions C09_no_plaintext_factor.

(* the concrete UTF-8 encoder of the correspondence stream is injective, so for it the premise disappears *)
Theorem C09_utf8_injective : forall s t b, utf8_enc s = Some b -> utf8_enc t = Some b -> s = t.
Proof. exact utf8_enc_inj. Qed.
Print Assumptions C09_utf8_injective.

Theorem C09_challenge_other_str_fails_utf8 : forall (H : hashT),
  (forall a x y, H a x = H a y -> x = y) ->
  forall a salt s t bs bt,
  utf8_enc s = Some bs -> utf8_enc t = Some bt -> s <> t ->
  challenge H utf8_enc (stored_of a salt (H a (salt ++ bs))) (PStr t) = Err EValue.
Proof. exact challenge_other_str_fails_utf8. Qed.
Print Assumptions C09_challenge_other_str_fails_utf8.

(* the concrete base64 codec of the correspondence stream (CPython's lenient decoder) gives the bytes back,
   so for it the base64 premise disappears as well: salt and digest survive save/load for ANY hash function *)
Theorem C09_b64_roundtrip : forall b, Forall byte b -> b64_decode (b64_encode b) = Some b.
Proof. exact b64_roundtrip. Qed.
Print Assumptions C09_b64_roundtrip.

Theorem C09_saveload_keeps_b64 : forall (H : hashT) ds (utf8 : encT) a req dflt st salt d r1 dv,
  Forall byte salt -> Forall byte d ->
  c_val st = PDigest salt d a ->
  setdefault H ds utf8 a (c_rng st) dflt = (r1, Ok dv) ->
  cfg_saveload H ds utf8 b64_encode b64_decode a req dflt st = (mk_cst r1 (c_val st), Ok (c_val st)).
Proof. exact saveload_keeps_b64. Qed.
Print Assumptions C09_saveload_keeps_b64.
