From Coq Require Import ZArith NArith List Bool.
From Cinco Require Import Base Challenge.
Theorem C09_placeholder : True.
Proof. exact I. Qed.
Print Assumptions C09_placeholder.
