(* Property C06 — a rejected operation leaves the configuration exactly as it was (assignments, constructor keywords, maps to sub-configurations, single items of lists of configurations, documents that do not parse: reject_unchanged / set_value_err; single items of typed lists and dicts: rejected_single_unchanged / drejected_single_unchanged; an include that cannot be resolved never yields a tree to load: include_must_exist)
   Property theorems only: every statement is proved in the *Lemmas files. *)
From Coq Require Import ZArith NArith String List Bool.
From Cinco Require Import Base Config ConfigLemmas ListModel ListModelLemmas DictModel DictModelLemmas Tree TreeLemmas.
Import ListNotations.

Theorem C06_reject_unchanged :
  forall (F : Type) (lvalidate lto_python : F -> pyval -> res pyval) (ldefault : F -> N -> pyval) (lcallable lflag : F -> bool) (vrun : N -> list (str * pyval) -> bool) (ps : list pstep) (o : cop) (w : world) (pre : str) (c : cfg) (dyn : bool) (vs : list N) (fs : list (str * node F)) (w' : world) (c' : cfg) (oc1 : oc), covered o = true -> at_path F lvalidate lto_python ldefault lcallable lflag vrun ps w pre c dyn vs fs o = (w', c', oc1) -> oc1 <> OOk -> c' = c.
Proof. exact reject_unchanged. Qed.
Print Assumptions C06_reject_unchanged.

Theorem C06_set_value_err :
  forall (F : Type) (lvalidate lto_python : F -> pyval -> res pyval) (ldefault : F -> N -> pyval) (lcallable lflag : F -> bool) (vrun : N -> list (str * pyval) -> bool) (x : pyval) (w : world) (pre : str) (c : cfg) (fs : list (str * node F)) (dyn : bool) (k : str) (rl : bool) (w' : world) (c' : cfg) (o : oc), set_value F lvalidate lto_python ldefault lcallable lflag vrun x w pre c fs dyn k rl = (w', c', o) -> o <> OOk -> c' = c.
Proof. exact set_value_err. Qed.
Print Assumptions C06_set_value_err.

Theorem C06_rejected_single_unchanged :
  forall (V : pyval -> res pyval) (tg : N) (s : list pyval) (op : lop), match op with | LAppend _ | LInsert _ _ | LSetItem _ _ => True | _ => False end -> accepted V s op = false -> fst (proxy_step V tg s op) = s.
Proof. exact rejected_single_unchanged. Qed.
Print Assumptions C06_rejected_single_unchanged.

Theorem C06_drejected_single_unchanged :
  forall (VK VV : pyval -> res pyval) (tg : N) (s : pairs) (op : dop), match op with | DSetItem _ _ | DSetDefault _ _ => True | _ => False end -> daccepted VK VV s op = false -> fst (proxy_dstep VK VV tg s op) = s.
Proof. exact drejected_single_unchanged. Qed.
Print Assumptions C06_drejected_single_unchanged.

Theorem C06_include_must_exist :
  forall (load_file : N -> pyval -> res (list (str * tree))) (k : str) (fid : N) (doc : list (str * tree)) (fname : pyval) (e : errk), tget k doc = Some (TLeaf fname) -> fname <> PNone -> load_file fid fname = Err e -> process load_file (ISchema [(k, fid)] []) doc = Err e.
Proof. exact include_must_exist. Qed.
Print Assumptions C06_include_must_exist.

(* configuration objects: a refused object -- assigned by attribute, dotted path or constructor keyword (also to a sub-configuration slot), appended to / assigned into / inserted into a list of configurations -- leaves the configuration exactly as it was (covered now includes these operations: obj_op_covered) *)

Theorem C06_apply_cop_err :
  forall (F : Type) (lvalidate lto_python : F -> pyval -> res pyval) (ldefault : F -> N -> pyval) (lcallable lflag : F -> bool) (vrun : N -> list (str * pyval) -> bool) (o : cop) (w : world) (pre : str) (c : cfg) (dyn : bool) (vs : list N) (fs : list (str * node F)) (w' : world) (c' : cfg) (oc1 : oc), covered o = true -> apply_cop F lvalidate lto_python ldefault lcallable lflag vrun w pre c dyn vs fs o = (w', c', oc1) -> oc1 <> OOk -> c' = c.
Proof. exact apply_cop_err. Qed.
Print Assumptions C06_apply_cop_err.

Theorem C06_obj_op_covered :
  forall o : cop, is_obj_op o = true -> covered o = true.
Proof. exact obj_op_covered. Qed.
Print Assumptions C06_obj_op_covered.

Theorem C06_reject_obj_unchanged :
  forall (F : Type) (lvalidate lto_python : F -> pyval -> res pyval) (ldefault : F -> N -> pyval) (lcallable lflag : F -> bool) (vrun : N -> list (str * pyval) -> bool) (ps : list pstep) (o : cop) (w : world) (pre : str) (c : cfg) (dyn : bool) (vs : list N) (fs : list (str * node F)) (w' : world) (c' : cfg) (oc1 : oc), is_obj_op o = true -> at_path F lvalidate lto_python ldefault lcallable lflag vrun ps w pre c dyn vs fs o = (w', c', oc1) -> oc1 <> OOk -> c' = c.
Proof. exact reject_obj_unchanged. Qed.
Print Assumptions C06_reject_obj_unchanged.

Theorem C06_reject_built_obj_unchanged :
  forall (F : Type) (lvalidate lto_python : F -> pyval -> res pyval) (ldefault : F -> N -> pyval) (lcallable lflag : F -> bool) (vrun : N -> list (str * pyval) -> bool) (ps : list pstep) (r : objroute) (k : str) (sdyn : bool) (svs : list N) (sfs : list (str * node F)) (dops : list (list pstep * cop)) (w : world) (pre : str) (c : cfg) (dyn : bool) (vs : list N) (fs : list (str * node F)) (w' : world) (c' : cfg) (oc1 : oc), at_path_x F lvalidate lto_python ldefault lcallable lflag vrun ps w pre c dyn vs fs (XObj r k sdyn svs sfs dops) = (w', c', oc1) -> oc1 <> OOk -> c' = c.
Proof. exact reject_built_obj_unchanged. Qed.
Print Assumptions C06_reject_built_obj_unchanged.

Theorem C06_reject_kept_obj_unchanged :
  forall (F : Type) (lvalidate lto_python : F -> pyval -> res pyval) (ldefault : F -> N -> pyval) (lcallable lflag : F -> bool) (vrun : N -> list (str * pyval) -> bool) (ps : list pstep) (x : xop F) (w : world) (last : kept F) (pre : str) (c : cfg) (dyn : bool) (vs : list N) (fs : list (str * node F)) (w' : world) (last' : kept F) (c' : cfg) (oc1 : oc), match x with | XOp _ => False | _ => True end -> at_path_xs F lvalidate lto_python ldefault lcallable lflag vrun ps w last pre c dyn vs fs x = (w', last', c', oc1) -> oc1 <> OOk -> c' = c.
Proof. exact reject_kept_obj_unchanged. Qed.
Print Assumptions C06_reject_kept_obj_unchanged.

From Cinco Require Import ConfigInst ConfigInstLemmas.

(* an item that lives in one list offered to another list over the same item fields (XFrom; covered by reject_kept_obj_unchanged above): refused, BOTH lists are as they were -- witness by computation *)

Theorem C06_moved_item_rejected_both_lists_unchanged :
  let mk_need := fun z : Z => PDict 0 [(PStr (sa "need"), PInt z)] in let '(w0', c0) := build_cfg leaf lvalidate lto_python ldefault l_callable lflag (vrun []) w0 ex_fs_two in let '(w1, c1, _) := ex_two_step w0' c0 [] (XOp (CSet (sa "a") (PList 0 [mk_need 1%Z; mk_need 2%Z]))) in let '(w2, c2, _) := ex_two_step w1 c1 [] (XOp (CSet (sa "b") (PList 0 [mk_need 3%Z]))) in let '(w3, c3, o3) := ex_two_step w2 c2 [PItem (sa "a") 0] (XOp (CReset (sa "need"))) in let '(w4, c4, o4) := ex_two_step w3 c3 [] (XFrom RAppend (sa "b") [PItem (sa "a") 0]) in let '(w5, c5, o5) := ex_two_step w4 c4 [] (XFrom (RInsert 0) (sa "b") [PItem (sa "a") 0]) in let '(_, c6, o6) := ex_two_step w5 c5 [] (XFrom RAppend (sa "b") [PItem (sa "a") 1]) in o3 = OOk /\ o4 = OErr (EValidation (sa "b[1].need")) /\ c4 = c3 /\ o5 = o4 /\ c5 = c3 /\ o6 = OOk /\ map snd (ids_cfg [] c6) = [0%N; 1%N; 2%N; 3%N; 2%N].
Proof. exact moved_item_rejected_both_lists_unchanged. Qed.
Print Assumptions C06_moved_item_rejected_both_lists_unchanged.
