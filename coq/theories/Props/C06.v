(* Property C06 — a rejected operation leaves the configuration exactly as it was
   Property theorems only: every statement is proved in the *Lemmas files. *)
From Coq Require Import ZArith NArith String List Bool.
From Cinco Require Import Base Config ConfigLemmas.
Import ListNotations.

Theorem C06_reject_unchanged :
  forall (F : Type) (lvalidate lto_python : F -> pyval -> res pyval) (ldefault : F -> N -> pyval) (lcallable lflag : F -> bool) (vrun : N -> list (str * pyval) -> bool) (ps : list pstep) (o : cop) (w : world) (pre : str) (c : cfg) (dyn : bool) (vs : list N) (fs : list (str * node F)) (w' : world) (c' : cfg) (oc1 : oc), covered o = true -> at_path F lvalidate lto_python ldefault lcallable lflag vrun ps w pre c dyn vs fs o = (w', c', oc1) -> oc1 <> OOk -> c' = c.
Proof. exact reject_unchanged. Qed.
Print Assumptions C06_reject_unchanged.

Theorem C06_set_value_err :
  forall (F : Type) (lvalidate lto_python : F -> pyval -> res pyval) (ldefault : F -> N -> pyval) (lcallable lflag : F -> bool) (vrun : N -> list (str * pyval) -> bool) (x : pyval) (w : world) (pre : str) (c : cfg) (fs : list (str * node F)) (dyn : bool) (k : str) (rl : bool) (w' : world) (c' : cfg) (o : oc), set_value F lvalidate lto_python ldefault lcallable lflag vrun x w pre c fs dyn k rl = (w', c', o) -> o <> OOk -> c' = c.
Proof. exact set_value_err. Qed.
Print Assumptions C06_set_value_err.

