(* Property C05 — field validation is exact and idempotent; the on-disk encoding is invertible.
   Property theorems only.  `orc` is the user-regex oracle (re.match is not code of this repository):
   every theorem holds for all oracles, hence for `validate` = `validate_with no_oracle` too. *)
From Coq Require Import ZArith NArith String List Bool SpecFloat.
From Cinco Require Import Base Str Num Net Codec NetLemmas CodecLemmas StrLemmas Fields FieldsLemmas.
Import ListNotations.

(* ---- idempotence ---- *)
Theorem C05_validate_idem : forall orc f x v,
  known_F13 f = false -> validate_with orc f x = Ok v -> validate_with orc f v = Ok v.
Proof. exact validate_idem. Qed.
Print Assumptions C05_validate_idem.

Theorem C05_validate_idem_refuted :
  exists f x v, known_F13 f = true /\ validate f x = Ok v /\ validate f v <> Ok v.
Proof. exact validate_idem_refuted. Qed.
Print Assumptions C05_validate_idem_refuted.

(* ---- exactness of the scalar classes ---- *)
Theorem C05_string_exact : forall orc req o s v,
  str_validate orc req o (PStr s) = Ok v <-> str_accepts orc req o s /\ v = str_norm o s.
Proof. exact str_validate_exact. Qed.
Print Assumptions C05_string_exact.

Theorem C05_int_exact : forall mn mx x v,
  int_validate mn mx x = Ok v <-> exists z, int_of x z /\ in_bounds mn mx z /\ v = PInt z.
Proof. exact int_validate_exact. Qed.
Print Assumptions C05_int_exact.

Theorem C05_bool_exact : forall x v, bool_validate x = Ok v <-> exists b, bool_of x b /\ v = PBool b.
Proof. exact bool_validate_exact. Qed.
Print Assumptions C05_bool_exact.

Theorem C05_float_bounds : forall mn mx x v,
  float_validate mn mx x = Ok v <-> exists f, float_convert x = Ok f /\ f_in_bounds mn mx f /\ v = PFloat f.
Proof. exact float_validate_ok. Qed.
Print Assumptions C05_float_bounds.

Theorem C05_nan_rejected_by_bounds : forall mn mx x f,
  float_validate mn mx x = Ok (PFloat f) -> mn <> None \/ mx <> None -> sf_is_nan f = false.
Proof. exact nan_rejected_by_bounds. Qed.
Print Assumptions C05_nan_rejected_by_bounds.

(* ---- syntax round trips ---- *)
Theorem C05_ipv4_roundtrip : forall a, (a < 4294967296)%N -> parse_ipv4 (print_ipv4 a) = Some a.
Proof. exact ipv4_roundtrip. Qed.
Print Assumptions C05_ipv4_roundtrip.

Theorem C05_ipv4_canonical : forall s a, parse_ipv4 s = Some a -> print_ipv4 a = s.
Proof. exact parse_ipv4_canonical. Qed.
Print Assumptions C05_ipv4_canonical.

Theorem C05_cidr_roundtrip : forall a p,
  (a < 4294967296)%N -> (p <= 32)%N -> (a mod 2 ^ (32 - p) = 0)%N -> parse_net (print_net a p) = Ok (a, p).
Proof. exact net_roundtrip. Qed.
Print Assumptions C05_cidr_roundtrip.

Theorem C05_hex_roundtrip : forall b, bytes_ok b = true -> hex_dec (hex_enc b) = Some b.
Proof. exact hex_dec_enc. Qed.
Print Assumptions C05_hex_roundtrip.

Theorem C05_base64_roundtrip : forall b, bytes_ok b = true -> b64_decode_py (b64_enc b) = Ok b.
Proof. exact b64_decode_py_enc. Qed.
Print Assumptions C05_base64_roundtrip.

(* ---- transforms ---- *)
Theorem C05_strip_idem : forall p s, strip_by p (strip_by p s) = strip_by p s.
Proof. exact strip_by_idem. Qed.
Print Assumptions C05_strip_idem.

Theorem C05_case_maps : forall s,
  lower (lower s) = lower s /\ upper (upper s) = upper s /\ length (lower s) = length s /\ length (upper s) = length s.
Proof. intro s. repeat split; [apply lower_idem|apply upper_idem|apply lower_length|apply upper_length]. Qed.
Print Assumptions C05_case_maps.

(* ---- soundness, normal forms, fixed points (all classes, typed containers by induction) ---- *)
(* meets = the constraints the field declares; normal = meets + every transform is the identity;
   plain x = the input is plain data (no proxies; byte strings hold bytes) *)
Theorem C05_validate_sound : forall orc f x v,
  plain x = true -> validate_with orc f x = Ok v -> meets orc f v.
Proof. exact validate_sound. Qed.
Print Assumptions C05_validate_sound.

Theorem C05_validate_normal : forall orc f x v,
  has_F13 f = false -> plain x = true -> validate_with orc f x = Ok v -> normal orc f v.
Proof. exact validate_normal. Qed.
Print Assumptions C05_validate_normal.

Theorem C05_validate_fixpoint : forall orc f v, normal orc f v -> validate_with orc f v = Ok v.
Proof. exact validate_fixpoint. Qed.
Print Assumptions C05_validate_fixpoint.

(* ---- the on-disk round trip: every modelled class, typed lists and dicts of anything (bytes included) by induction.
   rt_dom: typed-container positions hold a container (None comes back empty, next theorem), untyped containers are
   builtin, dict keys are pairwise different hashable scalars under a scalar key field ---- *)
Theorem C05_basic_roundtrip : forall orc f v,
  normal orc f v -> rt_dom f v ->
  exists b p, to_basic f v = Ok b /\ to_python_with orc f b = Ok p /\ validate_with orc f p = Ok v.
Proof. exact basic_roundtrip. Qed.
Print Assumptions C05_basic_roundtrip.

Theorem C05_unset_typed_container : forall orc fid req it kf vf,
  to_basic (FListT fid req it) PNone = Ok PNone /\
  to_python_with orc (FListT fid req it) PNone = Ok (PList (fid + 1)%N []) /\
  to_basic (FDictT fid req kf vf) PNone = Ok PNone /\
  to_python_with orc (FDictT fid req kf vf) PNone = Ok (PDict (fid + 1)%N []).
Proof. exact unset_typed_container_roundtrip. Qed.
Print Assumptions C05_unset_typed_container.

(* ---- named corner rules ---- *)
Theorem C05_required_empty_rejected : forall orc,
  (forall o, validate_with orc (FStr true o) (PStr []) = Err EValue) /\
  (forall t, validate_with orc (FListU true) (PList t []) = Err EValue) /\
  (validate_with orc (FListU true) (PTuple []) = Err EValue) /\
  (forall fid it t, validate_with orc (FListT fid true it) (PList t []) = Err EValue) /\
  (forall t, validate_with orc (FDictU true) (PDict t []) = Err EValue) /\
  (forall fid kf vf t, validate_with orc (FDictT fid true kf vf) (PDict t []) = Err EValue) /\
  (forall f, field_req f = true -> validate_with orc f PNone = Err EValue).
Proof. exact required_empty_rejected. Qed.
Print Assumptions C05_required_empty_rejected.

Theorem C05_tuple_stored_as_list : forall orc req l v,
  validate_with orc (FListU req) (PTuple l) = Ok v -> v = PList 0%N l.
Proof. exact tuple_stored_as_list. Qed.
Print Assumptions C05_tuple_stored_as_list.

Theorem C05_numbers_reject_bool : forall mn mx fmn fmx b,
  int_validate mn mx (PBool b) = Err EValue /\ float_validate fmn fmx (PBool b) = Err EValue.
Proof. intros; split; [apply int_rejects_bool|apply float_rejects_bool]. Qed.
Print Assumptions C05_numbers_reject_bool.

(* ---- FilenameField and UrlField (FileFields.v).  F : fsys is the file system and path algebra (os.path.isabs / join /
   expanduser / abspath / exists / isdir / isfile), U : uparse is urllib's urlparse: every theorem holds for ALL of them;
   `abspath_absolute F` = "what os.path.abspath returns is absolute" is the only os.path fact used, and only for idempotence ---- *)
From Cinco Require Import FileFields FileFieldsLemmas.

Theorem C05_file_validate_exact : forall (orc : oracle) (F : fsys) (req : bool) (o : sopts) (m : emode) (sd : option str) (x v : pyval),
  file_validate orc F req o m sd x = Ok v <->
  (exists s : str, str_validate orc req o x = Ok s /\
     (s = nil /\ v = PStr nil \/
      s <> nil /\ (exists p : str, resolved F sd s p /\ (exists ex : bool, fs_exists F p = Some ex) /\ mode_holds F m p /\ v = PStr p))).
Proof. exact file_validate_exact. Qed.
Print Assumptions C05_file_validate_exact.

Theorem C05_file_validate_sound : forall (orc : oracle) (F : fsys) (req : bool) (o : sopts) (m : emode) (sd : option str) (x v : pyval),
  file_validate orc F req o m sd x = Ok v -> file_meets F m v.
Proof. exact file_validate_sound. Qed.
Print Assumptions C05_file_validate_sound.

(* idempotent when the stored path passes the field's own string pipeline unchanged ... *)
Theorem C05_file_validate_idem : forall (orc : oracle) (F : fsys) (req : bool) (o : sopts) (m : emode) (sd : option str) (x : pyval) (p : str),
  abspath_absolute F -> file_validate orc F req o m sd x = Ok (PStr p) -> str_validate orc req o (PStr p) = Ok p ->
  file_validate orc F req o m sd (PStr p) = Ok (PStr p).
Proof. exact file_validate_idem. Qed.
Print Assumptions C05_file_validate_idem.

(* ... which is always so for a field without string options ... *)
Theorem C05_file_validate_idem_plain : forall (orc : oracle) (F : fsys) (req : bool) (m : emode) (sd : option str) (x : pyval) (p : str),
  abspath_absolute F -> fs_isabs F nil = Some false -> file_validate orc F req sopts0 m sd x = Ok (PStr p) ->
  file_validate orc F req sopts0 m sd (PStr p) = Ok (PStr p).
Proof. exact file_validate_idem_plain. Qed.
Print Assumptions C05_file_validate_idem_plain.

(* ... and FALSE in general: FilenameField(startdir="/Tmp", transform_case="lower"): "a" -> "/Tmp/a" -> "/tmp/a" *)
Theorem C05_file_validate_idem_refuted :
  abspath_absolute refute_fs /\
  ff_validate no_oracle refute_fs (fun _ => None) refute_field (PStr (sa "a")) = Ok (PStr (sa "/Tmp/a")) /\
  ff_validate no_oracle refute_fs (fun _ => None) refute_field (PStr (sa "/Tmp/a")) = Ok (PStr (sa "/tmp/a")).
Proof. exact file_validate_idem_refuted. Qed.
Print Assumptions C05_file_validate_idem_refuted.

Theorem C05_url_validate_exact : forall (orc : oracle) (U : uparse) (req : bool) (o : sopts) (x v : pyval),
  url_validate orc U req o x = Ok v <->
  (exists s sch : str, str_validate orc req o x = Ok s /\ U s = Some (Some sch) /\ sch <> nil /\ v = PStr s).
Proof. exact url_validate_exact. Qed.
Print Assumptions C05_url_validate_exact.

Theorem C05_url_validate_idem : forall (orc : oracle) (U : uparse) (req : bool) (o : sopts) (x v : pyval),
  sopts_F13 o = false -> url_validate orc U req o x = Ok v -> url_validate orc U req o v = Ok v.
Proof. exact url_validate_idem. Qed.
Print Assumptions C05_url_validate_idem.

(* both classes through Field.validate (required / None first), and the on-disk round trip (to_basic / to_python are the identity) *)
Theorem C05_filefields_idem : forall (orc : oracle) (F : fsys) (U : uparse) (f : ffield) (x v : pyval),
  abspath_absolute F -> ff_validate orc F U f x = Ok v -> ff_stable orc f v -> ff_validate orc F U f v = Ok v.
Proof. exact ff_validate_idem. Qed.
Print Assumptions C05_filefields_idem.

Theorem C05_filefields_roundtrip : forall (orc : oracle) (F : fsys) (U : uparse) (f : ffield) (x v : pyval),
  abspath_absolute F -> ff_validate orc F U f x = Ok v -> ff_stable orc f v ->
  exists b p : pyval, ff_to_basic f v = Ok b /\ ff_to_python f b = Ok p /\ ff_validate orc F U f p = Ok v.
Proof. exact ff_roundtrip. Qed.
Print Assumptions C05_filefields_roundtrip.

(* idempotence of both classes outside the two open findings: known_F56 f = a (non-empty) start directory together with an
   inherited string option (C05_file_validate_idem_refuted is its witness), ff_F13 f = the F13 region of the string options *)
Theorem C05_filefields_idem_partial : forall (orc : oracle) (F : fsys) (U : uparse) (f : ffield) (x v : pyval),
  known_F56 f = false -> ff_F13 f = false -> abspath_absolute F -> fs_isabs F nil = Some false ->
  ff_validate orc F U f x = Ok v -> ff_validate orc F U f v = Ok v.
Proof. exact ff_validate_idem_partial. Qed.
Print Assumptions C05_filefields_idem_partial.

Theorem C05_known_F56_witness : known_F56 refute_field = true.
Proof. reflexivity. Qed.
Print Assumptions C05_known_F56_witness.
