(* Property C05 — field validation is exact and idempotent; the on-disk encoding is invertible.
   Property theorems only. *)
From Coq Require Import ZArith NArith String List Bool SpecFloat.
From Cinco Require Import Base Str Num Net Codec Fields FieldsLemmas.
Import ListNotations.

Theorem C05_validate_idem_refuted :
  exists f x v, known_F13 f = true /\ validate f x = Ok v /\ validate f v <> Ok v.
Proof. exact validate_idem_refuted. Qed.
Print Assumptions C05_validate_idem_refuted.
