(* Property C01 — every value a configuration holds satisfies its field's declared constraints
   Property theorems only: every statement is proved in the *Lemmas files. *)
From Coq Require Import ZArith NArith String List Bool.
From Cinco Require Import Base Config ConfigInst ConfigLemmas ConfigWF ConfigInstLemmas.
Import ListNotations.

Theorem C01_build_cfg_wf :
  forall (F : Type) (lvalidate lto_python : F -> pyval -> res pyval) (ldefault : F -> N -> pyval) (lcallable lflag : F -> bool) (vrun : N -> list (str * pyval) -> bool) (lmeets : F -> pyval -> Prop), (forall (f : F) (x v : pyval), lvalidate f x = Ok v -> lmeets f v) -> (forall (f : F) (n : N), lmeets f (ldefault f n)) -> forall (fs : list (str * node F)) (w : world), ok_fields F lvalidate lto_python ldefault lcallable lflag vrun fs -> wf_cfg F lmeets fs (snd (build_cfg F lvalidate lto_python ldefault lcallable lflag vrun w fs)).
Proof. exact build_cfg_wf. Qed.
Print Assumptions C01_build_cfg_wf.

Theorem C01_step_wf :
  forall (F : Type) (lvalidate lto_python : F -> pyval -> res pyval) (ldefault : F -> N -> pyval) (lcallable lflag : F -> bool) (vrun : N -> list (str * pyval) -> bool) (lmeets : F -> pyval -> Prop), (forall (f : F) (x v : pyval), lvalidate f x = Ok v -> lmeets f v) -> (forall (f : F) (n : N), lmeets f (ldefault f n)) -> forall (ps : list pstep) (o : cop) (w : world) (pre : str) (c : icfg) (dyn : bool) (vs : list N) (fs : list (str * node F)) (w' : world) (c' : icfg) (oc1 : oc), ok_fields F lvalidate lto_python ldefault lcallable lflag vrun fs -> wf_cfg F lmeets fs c -> obj_ok F lmeets fs ps o -> at_path F lvalidate lto_python ldefault lcallable lflag vrun ps w pre c dyn vs fs o = (w', c', oc1) -> wf_cfg F lmeets fs c'.
Proof. exact step_wf. Qed.
Print Assumptions C01_step_wf.

Theorem C01_run_wf :
  forall (F : Type) (lvalidate lto_python : F -> pyval -> res pyval) (ldefault : F -> N -> pyval) (lcallable lflag : F -> bool) (vrun : N -> list (str * pyval) -> bool) (lmeets : F -> pyval -> Prop), (forall (f : F) (x v : pyval), lvalidate f x = Ok v -> lmeets f v) -> (forall (f : F) (n : N), lmeets f (ldefault f n)) -> forall (ops : list (list pstep * cop)) (w : world) (c : icfg) (dyn : bool) (vs : list N) (fs : list (str * node F)), ok_fields F lvalidate lto_python ldefault lcallable lflag vrun fs -> wf_cfg F lmeets fs c -> objs_ok F lmeets fs ops -> wf_cfg F lmeets fs (run F lvalidate lto_python ldefault lcallable lflag vrun ops w c dyn vs fs).
Proof. exact run_wf. Qed.
Print Assumptions C01_run_wf.

Theorem C01_reachable_wf :
  forall (F : Type) (lvalidate lto_python : F -> pyval -> res pyval) (ldefault : F -> N -> pyval) (lcallable lflag : F -> bool) (vrun : N -> list (str * pyval) -> bool) (lmeets : F -> pyval -> Prop), (forall (f : F) (x v : pyval), lvalidate f x = Ok v -> lmeets f v) -> (forall (f : F) (n : N), lmeets f (ldefault f n)) -> forall (ops : list (list pstep * cop)) (w : world) (dyn : bool) (vs : list N) (fs : list (str * node F)), ok_fields F lvalidate lto_python ldefault lcallable lflag vrun fs -> objs_ok F lmeets fs ops -> wf_cfg F lmeets fs (run F lvalidate lto_python ldefault lcallable lflag vrun ops (fst (build_cfg F lvalidate lto_python ldefault lcallable lflag vrun w fs)) (snd (build_cfg F lvalidate lto_python ldefault lcallable lflag vrun w fs)) dyn vs fs).
Proof. exact reachable_wf. Qed.
Print Assumptions C01_reachable_wf.

Theorem C01_set_get :
  forall (F : Type) (lvalidate lto_python : F -> pyval -> res pyval) (ldefault : F -> N -> pyval) (lcallable lflag : F -> bool) (vrun : N -> list (str * pyval) -> bool) (lmeets : F -> pyval -> Prop), (forall (f : F) (x v : pyval), lvalidate f x = Ok v -> lmeets f v) -> forall (x : pyval) (w : world) (pre : str) (c : icfg) (fs : list (str * node F)) (dyn : bool) (k : str) (rl : bool) (w' : world) (c' : icfg) (f : F), fget F k fs = Some (NLeaf f) -> set_value F lvalidate lto_python ldefault lcallable lflag vrun x w pre c fs dyn k rl = (w', c', OOk) -> exists v : pyval, lvalidate f x = Ok v /\ dget k (c_data c') = Some (VLeaf v) /\ lmeets f v.
Proof. exact set_get. Qed.
Print Assumptions C01_set_get.

Theorem C01_store_spec :
  forall (c : icfg) (k : str) (v : val) (k' : str), defined (store c k v) k' = defined c k' || str_eqb k' k /\ dget k (c_data (store c k v)) = Some v /\ (str_eqb k' k = false -> dget k' (c_data (store c k v)) = dget k' (c_data c)) /\ c_id (store c k v) = c_id c /\ c_dyn (store c k v) = c_dyn c.
Proof. exact store_spec. Qed.
Print Assumptions C01_store_spec.

Theorem C01_set_value_err :
  forall (F : Type) (lvalidate lto_python : F -> pyval -> res pyval) (ldefault : F -> N -> pyval) (lcallable lflag : F -> bool) (vrun : N -> list (str * pyval) -> bool) (x : pyval) (w : world) (pre : str) (c : icfg) (fs : list (str * node F)) (dyn : bool) (k : str) (rl : bool) (w' : world) (c' : icfg) (o : oc), set_value F lvalidate lto_python ldefault lcallable lflag vrun x w pre c fs dyn k rl = (w', c', o) -> o <> OOk -> c' = c.
Proof. exact set_value_err. Qed.
Print Assumptions C01_set_value_err.

Theorem C01_inst_validate_sound :
  forall (f : leaf) (x v : pyval), lvalidate f x = Ok v -> inst_meets f v.
Proof. exact inst_validate_sound. Qed.
Print Assumptions C01_inst_validate_sound.

Theorem C01_inst_reachable_wf :
  forall (vt : vtable) (ops : list (list pstep * cop)) (w : world) (dyn : bool) (vs : list N) (fs : list (str * inode)), (forall (f : leaf) (n : N), inst_meets f (ldefault f n)) -> ok_fields leaf lvalidate lto_python ldefault l_callable lflag (vrun vt) fs -> objs_ok leaf inst_meets fs ops -> wf_cfg leaf inst_meets fs (run leaf lvalidate lto_python ldefault l_callable lflag (vrun vt) ops (fst (build_cfg leaf lvalidate lto_python ldefault l_callable lflag (vrun vt) w fs)) (snd (build_cfg leaf lvalidate lto_python ldefault l_callable lflag (vrun vt) w fs)) dyn vs fs).
Proof. exact inst_reachable_wf. Qed.
Print Assumptions C01_inst_reachable_wf.


(* ---- the full field model of Fields.v as the leaves of the configuration (instance ConfigFields.v) ---- *)
From Cinco Require Import Fields FieldsLemmas ConfigFields ConfigFieldsLemmas.

(* an accepted value meets the field's declared constraints (Fields' `meets`), for EVERY input the state machine can
   present: plain data, and proxies of the field whose items are validated values (anything else is Unmodelled) *)
Theorem C01_fields_validate_sound :
  forall (orc : oracle) (f : fleaf) (x v : pyval), cf_validate orc f x = Ok v -> meets orc (fl_fld f) v.
Proof. exact cf_validate_sound. Qed.
Print Assumptions C01_fields_validate_sound.

(* on plain data (arguments, constructor keywords, documents) the guard is transparent: the leaf validator IS Fields.validate_with *)
Theorem C01_fields_validate_plain_input :
  forall (orc : oracle) (f : fleaf) (x : pyval), plain x = true -> cf_validate orc f x = validate_with orc (fl_fld f) x.
Proof. exact cf_validate_plain_input. Qed.
Print Assumptions C01_fields_validate_plain_input.

(* every state reachable by any history over a schema whose leaves are field classes of Fields.v is well-formed w.r.t.
   Fields' `meets`, at every depth, given valid declared defaults *)
Theorem C01_fields_reachable_wf :
  forall (orc : oracle) (vt : vtable) (ops : list (list pstep * cop)) (w : world) (dyn : bool) (vs : list N) (fs : list (str * fnode)),
    (forall (f : fleaf) (n : N), cf_meets orc f (cf_default orc f n)) -> ok_fields fleaf (cf_validate orc) (cf_to_python orc) (cf_default orc) fl_callable fl_flag (vrun vt) fs ->
    objs_ok fleaf (cf_meets orc) fs ops ->
    wf_cfg fleaf (cf_meets orc) fs
      (run fleaf (cf_validate orc) (cf_to_python orc) (cf_default orc) fl_callable fl_flag (vrun vt) ops
           (fst (build_cfg fleaf (cf_validate orc) (cf_to_python orc) (cf_default orc) fl_callable fl_flag (vrun vt) w fs))
           (snd (build_cfg fleaf (cf_validate orc) (cf_to_python orc) (cf_default orc) fl_callable fl_flag (vrun vt) w fs)) dyn vs fs).
Proof. exact cf_reachable_wf. Qed.
Print Assumptions C01_fields_reachable_wf.

(* ... and over histories that build configuration objects on the side from the schema of the slot they are handed to *)
Theorem C01_fields_reachable_x_wf :
  forall (orc : oracle) (vt : vtable) (ops : list (list pstep * xop fleaf)) (w : world) (dyn : bool) (vs : list N) (fs : list (str * fnode)),
    (forall (f : fleaf) (n : N), cf_meets orc f (cf_default orc f n)) -> ok_fields fleaf (cf_validate orc) (cf_to_python orc) (cf_default orc) fl_callable fl_flag (vrun vt) fs ->
    xobjs_ok fleaf (cf_meets orc) fs ops ->
    wf_cfg fleaf (cf_meets orc) fs
      (run_x fleaf (cf_validate orc) (cf_to_python orc) (cf_default orc) fl_callable fl_flag (vrun vt) ops
           (fst (build_cfg fleaf (cf_validate orc) (cf_to_python orc) (cf_default orc) fl_callable fl_flag (vrun vt) w fs))
           (snd (build_cfg fleaf (cf_validate orc) (cf_to_python orc) (cf_default orc) fl_callable fl_flag (vrun vt) w fs)) dyn vs fs).
Proof. exact cf_reachable_x_wf. Qed.
Print Assumptions C01_fields_reachable_x_wf.

(* the guard never fires on the load route either: to_python of plain document data yields plain data or a proxy of the
   field with validated items, on which the leaf validator is Fields.validate_with (outside the F13 region, where a
   validated item need not be a fixed point of its own field) *)
Theorem C01_fields_load_route_transparent :
  forall (orc : oracle) (f : fleaf) (xi x' : pyval), has_F13 (fl_fld f) = false -> plain xi = true ->
    cf_to_python orc f xi = Ok x' -> cf_validate orc f x' = validate_with orc (fl_fld f) x'.
Proof. exact cf_validate_after_to_python. Qed.
Print Assumptions C01_fields_load_route_transparent.

(* configuration objects handed over as they are (CSetObj / CAppendObj / CSetIdxObj / CInsertObj): step_wf / run_wf / reachable_wf above carry the side condition obj_ok (the object is well-formed for the fields of the slot it goes to); histories without such objects need nothing (plain_objs_ok); objects the model builds on the side from the slot's own schema meet it (detached_wf, resolve_obj_ok), which gives the unconditional statements over extended histories (step_x_wf, run_x_wf, reachable_x_wf) *)

Theorem C01_plain_objs_ok :
  forall (F : Type) (lmeets : F -> pyval -> Prop) (fs : list (str * node F)) (ops : list (list pstep * cop)), forallb (fun po : list pstep * cop => plain_op (snd po)) ops = true -> objs_ok F lmeets fs ops.
Proof. exact plain_objs_ok. Qed.
Print Assumptions C01_plain_objs_ok.

Theorem C01_detached_wf :
  forall (F : Type) (lvalidate lto_python : F -> pyval -> res pyval) (ldefault : F -> N -> pyval) (lcallable lflag : F -> bool) (vrun : N -> list (str * pyval) -> bool) (lmeets : F -> pyval -> Prop), (forall (f : F) (x v : pyval), lvalidate f x = Ok v -> lmeets f v) -> (forall (f : F) (n : N), lmeets f (ldefault f n)) -> forall (w : world) (sdyn : bool) (svs : list N) (sfs : list (str * node F)) (dops : list (list pstep * cop)), ok_fields F lvalidate lto_python ldefault lcallable lflag vrun sfs -> objs_ok F lmeets sfs dops -> wf_cfg F lmeets sfs (snd (detached F lvalidate lto_python ldefault lcallable lflag vrun w sdyn svs sfs dops)).
Proof. exact detached_wf. Qed.
Print Assumptions C01_detached_wf.

Theorem C01_resolve_obj_ok :
  forall (F : Type) (lvalidate lto_python : F -> pyval -> res pyval) (ldefault : F -> N -> pyval) (lcallable lflag : F -> bool) (vrun : N -> list (str * pyval) -> bool) (lmeets : F -> pyval -> Prop), (forall (f : F) (x v : pyval), lvalidate f x = Ok v -> lmeets f v) -> (forall (f : F) (n : N), lmeets f (ldefault f n)) -> forall (fs : list (str * node F)) (ps : list pstep) (x : xop F) (w : world) (o : cop), ok_fields F lvalidate lto_python ldefault lcallable lflag vrun fs -> xobj_ok F lmeets fs ps x -> snd (resolve F lvalidate lto_python ldefault lcallable lflag vrun w x) = Some o -> obj_ok F lmeets fs ps o.
Proof. exact resolve_obj_ok. Qed.
Print Assumptions C01_resolve_obj_ok.

Theorem C01_step_x_wf :
  forall (F : Type) (lvalidate lto_python : F -> pyval -> res pyval) (ldefault : F -> N -> pyval) (lcallable lflag : F -> bool) (vrun : N -> list (str * pyval) -> bool) (lmeets : F -> pyval -> Prop), (forall (f : F) (x v : pyval), lvalidate f x = Ok v -> lmeets f v) -> (forall (f : F) (n : N), lmeets f (ldefault f n)) -> forall (ps : list pstep) (x : xop F) (w : world) (pre : str) (c : icfg) (dyn : bool) (vs : list N) (fs : list (str * node F)) (w' : world) (c' : icfg) (oc1 : oc), ok_fields F lvalidate lto_python ldefault lcallable lflag vrun fs -> wf_cfg F lmeets fs c -> xobj_ok F lmeets fs ps x -> at_path_x F lvalidate lto_python ldefault lcallable lflag vrun ps w pre c dyn vs fs x = (w', c', oc1) -> wf_cfg F lmeets fs c'.
Proof. exact step_x_wf. Qed.
Print Assumptions C01_step_x_wf.

Theorem C01_run_x_wf :
  forall (F : Type) (lvalidate lto_python : F -> pyval -> res pyval) (ldefault : F -> N -> pyval) (lcallable lflag : F -> bool) (vrun : N -> list (str * pyval) -> bool) (lmeets : F -> pyval -> Prop), (forall (f : F) (x v : pyval), lvalidate f x = Ok v -> lmeets f v) -> (forall (f : F) (n : N), lmeets f (ldefault f n)) -> forall (ops : list (list pstep * xop F)) (w : world) (c : icfg) (dyn : bool) (vs : list N) (fs : list (str * node F)), ok_fields F lvalidate lto_python ldefault lcallable lflag vrun fs -> wf_cfg F lmeets fs c -> xobjs_ok F lmeets fs ops -> wf_cfg F lmeets fs (run_x F lvalidate lto_python ldefault lcallable lflag vrun ops w c dyn vs fs).
Proof. exact run_x_wf. Qed.
Print Assumptions C01_run_x_wf.

Theorem C01_reachable_x_wf :
  forall (F : Type) (lvalidate lto_python : F -> pyval -> res pyval) (ldefault : F -> N -> pyval) (lcallable lflag : F -> bool) (vrun : N -> list (str * pyval) -> bool) (lmeets : F -> pyval -> Prop), (forall (f : F) (x v : pyval), lvalidate f x = Ok v -> lmeets f v) -> (forall (f : F) (n : N), lmeets f (ldefault f n)) -> forall (ops : list (list pstep * xop F)) (w : world) (dyn : bool) (vs : list N) (fs : list (str * node F)), ok_fields F lvalidate lto_python ldefault lcallable lflag vrun fs -> xobjs_ok F lmeets fs ops -> wf_cfg F lmeets fs (run_x F lvalidate lto_python ldefault lcallable lflag vrun ops (fst (build_cfg F lvalidate lto_python ldefault lcallable lflag vrun w fs)) (snd (build_cfg F lvalidate lto_python ldefault lcallable lflag vrun w fs)) dyn vs fs).
Proof. exact reachable_x_wf. Qed.
Print Assumptions C01_reachable_x_wf.

Theorem C01_inst_reachable_x_wf :
  forall (vt : vtable) (ops : list (list pstep * xop leaf)) (w : world) (dyn : bool) (vs : list N) (fs : list (str * inode)), (forall (f : leaf) (n : N), inst_meets f (ldefault f n)) -> ok_fields leaf lvalidate lto_python ldefault l_callable lflag (vrun vt) fs -> xobjs_ok leaf inst_meets fs ops -> wf_cfg leaf inst_meets fs (run_x leaf lvalidate lto_python ldefault l_callable lflag (vrun vt) ops (fst (build_cfg leaf lvalidate lto_python ldefault l_callable lflag (vrun vt) w fs)) (snd (build_cfg leaf lvalidate lto_python ldefault l_callable lflag (vrun vt) w fs)) dyn vs fs).
Proof. exact inst_reachable_x_wf. Qed.
Print Assumptions C01_inst_reachable_x_wf.

Theorem C01_inst_reachable_xs_wf :
  forall (vt : vtable) (ops : list (list pstep * xop leaf)) (w : world) (dyn : bool) (vs : list N) (fs : list (str * inode)), (forall (f : leaf) (n : N), inst_meets f (ldefault f n)) -> ok_fields leaf lvalidate lto_python ldefault l_callable lflag (vrun vt) fs -> xs_ok leaf lvalidate lto_python ldefault l_callable lflag (vrun vt) inst_meets fs ops None -> wf_cfg leaf inst_meets fs (run_xs leaf lvalidate lto_python ldefault l_callable lflag (vrun vt) ops (fst (build_cfg leaf lvalidate lto_python ldefault l_callable lflag (vrun vt) w fs)) None (snd (build_cfg leaf lvalidate lto_python ldefault l_callable lflag (vrun vt) w fs)) dyn vs fs).
Proof. exact inst_reachable_xs_wf. Qed.
Print Assumptions C01_inst_reachable_xs_wf.

(* histories in which the caller keeps an object that was refused, works on it through its own reference and offers it again (XAgain, Config.at_path_xs): the static condition xs_ok follows the schema of the object the caller may still hold *)

Theorem C01_run_xs_wf :
  forall (F : Type) (lvalidate lto_python : F -> pyval -> res pyval) (ldefault : F -> N -> pyval) (lcallable lflag : F -> bool) (vrun : N -> list (str * pyval) -> bool) (lmeets : F -> pyval -> Prop), (forall (f : F) (x v : pyval), lvalidate f x = Ok v -> lmeets f v) -> (forall (f : F) (n : N), lmeets f (ldefault f n)) -> forall (ops : list (list pstep * xop F)) (w : world) (last : kept F) (c : icfg) (dyn : bool) (vs : list N) (fs : list (str * node F)) (held : option (list (str * node F))), ok_fields F lvalidate lto_python ldefault lcallable lflag vrun fs -> wf_cfg F lmeets fs c -> kept_ok F lvalidate lto_python ldefault lcallable lflag vrun lmeets held last -> xs_ok F lvalidate lto_python ldefault lcallable lflag vrun lmeets fs ops held -> wf_cfg F lmeets fs (run_xs F lvalidate lto_python ldefault lcallable lflag vrun ops w last c dyn vs fs).
Proof. exact run_xs_wf. Qed.
Print Assumptions C01_run_xs_wf.

Theorem C01_reachable_xs_wf :
  forall (F : Type) (lvalidate lto_python : F -> pyval -> res pyval) (ldefault : F -> N -> pyval) (lcallable lflag : F -> bool) (vrun : N -> list (str * pyval) -> bool) (lmeets : F -> pyval -> Prop), (forall (f : F) (x v : pyval), lvalidate f x = Ok v -> lmeets f v) -> (forall (f : F) (n : N), lmeets f (ldefault f n)) -> forall (ops : list (list pstep * xop F)) (w : world) (dyn : bool) (vs : list N) (fs : list (str * node F)), ok_fields F lvalidate lto_python ldefault lcallable lflag vrun fs -> xs_ok F lvalidate lto_python ldefault lcallable lflag vrun lmeets fs ops None -> wf_cfg F lmeets fs (run_xs F lvalidate lto_python ldefault lcallable lflag vrun ops (fst (build_cfg F lvalidate lto_python ldefault lcallable lflag vrun w fs)) None (snd (build_cfg F lvalidate lto_python ldefault lcallable lflag vrun w fs)) dyn vs fs).
Proof. exact reachable_xs_wf. Qed.
Print Assumptions C01_reachable_xs_wf.

(* the premise on declared defaults of lists of configurations (part of ok_fields: building the default never fails) is satisfiable, and violated by a default that does not load *)

Theorem C01_flat_load_wf :
  forall (F : Type) (lvalidate lto_python : F -> pyval -> res pyval) (lmeets : F -> pyval -> Prop), (forall (f : F) (x v : pyval), lvalidate f x = Ok v -> lmeets f v) -> forall (fs : list (str * node F)) (d : list (pyval * pyval)) (it it' : icfg) (o : oc), wf_cfg F lmeets fs it -> flat_load F lvalidate lto_python d it fs = (it', o) -> wf_cfg F lmeets fs it'.
Proof. exact flat_load_wf. Qed.
Print Assumptions C01_flat_load_wf.

Theorem C01_ex_dflt_ok_fields :
  ok_fields leaf lvalidate lto_python ldefault l_callable lflag (vrun []) ex_fs_dflt.
Proof. exact ex_dflt_ok_fields. Qed.
Print Assumptions C01_ex_dflt_ok_fields.

Theorem C01_default_list_invalid :
  snd (build_val leaf lvalidate lto_python ldefault l_callable lflag (vrun []) w0 (ex_dflt_node [PDict 0 [(PStr (sa "n"), PInt 99)]])) = VLeaf default_failed /\ snd (build_val leaf lvalidate lto_python ldefault l_callable lflag (vrun []) w0 (ex_dflt_node [PDict 0 [(PStr (sa "zz"), PInt 1)]])) = VLeaf default_failed /\ ~ ok_fields leaf lvalidate lto_python ldefault l_callable lflag (vrun []) [(sa "items", ex_dflt_node [PDict 0 [(PStr (sa "n"), PInt 99)]])].
Proof. exact default_list_invalid. Qed.
Print Assumptions C01_default_list_invalid.

Theorem C01_cfg_at_wf :
  forall (F : Type) (lmeets : F -> pyval -> Prop) (sp : list pstep) (fs : list (str * node F)) (c src : icfg), wf_cfg F lmeets fs c -> cfg_at F sp c fs = Some src -> exists sfs : list (str * node F), fields_at F sp fs = Some sfs /\ wf_cfg F lmeets sfs src.
Proof. exact cfg_at_wf. Qed.
Print Assumptions C01_cfg_at_wf.
