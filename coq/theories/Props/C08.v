(* Property C08 — ciphers invert exactly; AES is CBC/PKCS7 behind a fresh 16-byte IV; bad input is rejected.
   Property theorems only.  E/D are the AES-256 block functions under one key (the primitive of the
   `cryptography` package, not code of this repository): their inverse law is a hypothesis. *)
From Coq Require Import ZArith NArith List Bool.
From Cinco Require Import Base Crypto CryptoLemmas.
Import ListNotations.
Open Scope nat_scope.

Theorem C08_xor_involutive : forall key d, xor_cycle key (xor_cycle key d) = d.
Proof. exact xor_involutive. Qed.
Print Assumptions C08_xor_involutive.

Theorem C08_xor_spec : forall key d i x,
  key <> [] -> nth_error d i = Some x ->
  nth_error (xor_cycle key d) i = Some (N.lxor x (nth (i mod length key) key 0%N)).
Proof. exact xor_spec. Qed.
Print Assumptions C08_xor_spec.

Theorem C08_pkcs7_unpad_pad : forall p, pkcs7_unpad (pkcs7_pad p) = Some p.
Proof. exact pkcs7_unpad_pad. Qed.
Print Assumptions C08_pkcs7_unpad_pad.

Theorem C08_cbc_dec_enc : forall E D : bytes -> bytes,
  (forall b, length b = blk -> D (E b) = b) -> (forall b, length b = blk -> length (E b) = blk) ->
  forall bs prev, length prev = blk -> Forall (fun b => length b = blk) bs ->
  cbc_dec D prev (cbc_enc E prev bs) = bs.
Proof. exact cbc_dec_enc. Qed.
Print Assumptions C08_cbc_dec_enc.

Theorem C08_aes_roundtrip : forall E D : bytes -> bytes,
  (forall b, length b = blk -> D (E b) = b) -> (forall b, length b = blk -> length (E b) = blk) ->
  forall iv text, length iv = blk -> aes_decrypt D (aes_encrypt E iv text) = Ok text.
Proof. exact aes_roundtrip. Qed.
Print Assumptions C08_aes_roundtrip.

Theorem C08_aes_layout : forall E : bytes -> bytes,
  (forall b, length b = blk -> length (E b) = blk) ->
  forall iv text, length iv = blk ->
  firstn blk (aes_encrypt E iv text) = iv /\
  length (aes_encrypt E iv text) = blk + blk * (length text / blk + 1).
Proof. exact aes_layout. Qed.
Print Assumptions C08_aes_layout.

Theorem C08_iv_fresh : forall E : bytes -> bytes,
  (forall b, length b = blk -> length (E b) = blk) ->
  forall iv1 iv2 t1 t2, length iv1 = blk -> length iv2 = blk -> iv1 <> iv2 ->
  aes_encrypt E iv1 t1 <> aes_encrypt E iv2 t2.
Proof. exact iv_fresh. Qed.
Print Assumptions C08_iv_fresh.

Theorem C08_aes_rejects : forall (D : bytes -> bytes) ct,
  length ct < 32 \/ length ct mod blk <> 0 -> exists e, aes_decrypt D ct = Err e.
Proof. exact aes_rejects. Qed.
Print Assumptions C08_aes_rejects.

(* ---- the AES-256 block primitive itself (Aes.v): the block-cipher hypotheses above are discharged ---- *)
From Cinco Require Import Codec Aes AesLemmas.
Open Scope nat_scope.   (* Codec opens N_scope *)

(* for every 32-byte key and every 16-byte block the inverse cipher undoes the cipher; the result is a
   16-byte block of bytes again *)
Theorem C08_aes_block_inverse : forall k b,
  length k = 32 -> bytes_ok k = true -> length b = 16 -> bytes_ok b = true ->
  aes256_decrypt_block k (aes256_encrypt_block k b) = b /\
  length (aes256_encrypt_block k b) = 16 /\
  bytes_ok (aes256_encrypt_block k b) = true.
Proof. exact aes256_block_inverse. Qed.
Print Assumptions C08_aes_block_inverse.

(* ... and the other way round: under each key the cipher is a permutation of the 16-byte blocks *)
Theorem C08_aes_block_permutation : forall k c,
  bytes_ok k = true -> bytes_ok c = true ->
  aes256_encrypt_block k (aes256_decrypt_block k c) = c.
Proof. exact aes256_encrypt_decrypt. Qed.
Print Assumptions C08_aes_block_permutation.

(* C08_aes_roundtrip for a block cipher whose inverse law is only known on blocks of BYTES (a cipher built
   on a 256-entry S-box cannot invert on numbers >= 256, so C08_aes_roundtrip itself cannot be instantiated) *)
Theorem C08_aes_roundtrip_over_bytes : forall E D : bytes -> bytes,
  (forall b, length b = blk -> bytes_ok b = true -> D (E b) = b) ->
  (forall b, length b = blk -> bytes_ok b = true -> length (E b) = blk /\ bytes_ok (E b) = true) ->
  forall iv text, length iv = blk -> bytes_ok iv = true -> bytes_ok text = true ->
  aes_decrypt D (aes_encrypt E iv text) = Ok text.
Proof. exact aes_roundtrip_over_bytes. Qed.
Print Assumptions C08_aes_roundtrip_over_bytes.

(* AesProvider.decrypt (AesProvider.encrypt p) = p with the AES-256 of Aes.v: no hypothesis about the block
   cipher is left -- every 32-byte key, every plaintext byte string, every 16-byte IV *)
Theorem C08_aes_roundtrip_concrete : forall k iv text,
  length k = 32 -> bytes_ok k = true -> length iv = 16 -> bytes_ok iv = true -> bytes_ok text = true ->
  aes_decrypt (aes256_decrypt_block k) (aes_encrypt (aes256_encrypt_block k) iv text) = Ok text.
Proof. exact aes256_cbc_roundtrip. Qed.
Print Assumptions C08_aes_roundtrip_concrete.

Theorem C08_aes_layout_concrete : forall k iv text, length iv = 16 ->
  firstn blk (aes_encrypt (aes256_encrypt_block k) iv text) = iv /\
  length (aes_encrypt (aes256_encrypt_block k) iv text) = blk + blk * (length text / blk + 1).
Proof. exact aes256_cbc_layout. Qed.
Print Assumptions C08_aes_layout_concrete.
