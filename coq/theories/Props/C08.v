(* Property C08 — ciphers invert exactly; AES is CBC/PKCS7 behind a fresh 16-byte IV; bad input is rejected.
   Property theorems only.  E/D are the AES-256 block functions under one key (the primitive of the
   `cryptography` package, not code of this repository): their inverse law is a hypothesis. *)
From Coq Require Import ZArith NArith List Bool.
From Cinco Require Import Base Crypto CryptoLemmas.
Import ListNotations.
Open Scope nat_scope.

Theorem C08_xor_involutive : forall key d, xor_cycle key (xor_cycle key d) = d.
Proof. exact xor_involutive. Qed.
Print Assumptions C08_xor_involutive.

Theorem C08_xor_spec : forall key d i x,
  key <> [] -> nth_error d i = Some x ->
  nth_error (xor_cycle key d) i = Some (N.lxor x (nth (i mod length key) key 0%N)).
Proof. exact xor_spec. Qed.
Print Assumptions C08_xor_spec.

Theorem C08_pkcs7_unpad_pad : forall p, pkcs7_unpad (pkcs7_pad p) = Some p.
Proof. exact pkcs7_unpad_pad. Qed.
Print Assumptions C08_pkcs7_unpad_pad.

Theorem C08_cbc_dec_enc : forall E D : bytes -> bytes,
  (forall b, length b = blk -> D (E b) = b) -> (forall b, length b = blk -> length (E b) = blk) ->
  forall bs prev, length prev = blk -> Forall (fun b => length b = blk) bs ->
  cbc_dec D prev (cbc_enc E prev bs) = bs.
Proof. exact cbc_dec_enc. Qed.
Print Assumptions C08_cbc_dec_enc.

Theorem C08_aes_roundtrip : forall E D : bytes -> bytes,
  (forall b, length b = blk -> D (E b) = b) -> (forall b, length b = blk -> length (E b) = blk) ->
  forall iv text, length iv = blk -> aes_decrypt D (aes_encrypt E iv text) = Ok text.
Proof. exact aes_roundtrip. Qed.
Print Assumptions C08_aes_roundtrip.

Theorem C08_aes_layout : forall E : bytes -> bytes,
  (forall b, length b = blk -> length (E b) = blk) ->
  forall iv text, length iv = blk ->
  firstn blk (aes_encrypt E iv text) = iv /\
  length (aes_encrypt E iv text) = blk + blk * (length text / blk + 1).
Proof. exact aes_layout. Qed.
Print Assumptions C08_aes_layout.

Theorem C08_iv_fresh : forall E : bytes -> bytes,
  (forall b, length b = blk -> length (E b) = blk) ->
  forall iv1 iv2 t1 t2, length iv1 = blk -> length iv2 = blk -> iv1 <> iv2 ->
  aes_encrypt E iv1 t1 <> aes_encrypt E iv2 t2.
Proof. exact iv_fresh. Qed.
Print Assumptions C08_iv_fresh.

Theorem C08_aes_rejects : forall (D : bytes -> bytes) ct,
  length ct < 32 \/ length ct mod blk <> 0 -> exists e, aes_decrypt D ct = Err e.
Proof. exact aes_rejects. Qed.
Print Assumptions C08_aes_rejects.

(* ---- the AES-256 block primitive itself (Aes.v): the block-cipher hypotheses above are discharged ---- *)
From Cinco Require Import Codec Aes AesLemmas.
Open Scope nat_scope.   (* Codec opens N_scope *)

(* for every 32-byte key and every 16-byte block the inverse cipher undoes the cipher; the result is a
   16-byte block of bytes again *)
Theorem C08_aes_block_inverse : forall k b,
  length k = 32 -> bytes_ok k = true -> length b = 16 -> bytes_ok b = true ->
  aes256_decrypt_block k (aes256_encrypt_block k b) = b /\
  length (aes256_encrypt_block k b) = 16 /\
  bytes_ok (aes256_encrypt_block k b) = true.
Proof. exact aes256_block_inverse. Qed.
Print Assumptions C08_aes_block_inverse.

(* ... and the other way round: under each key the cipher is a permutation of the 16-byte blocks *)
Theorem C08_aes_block_permutation : forall k c,
  bytes_ok k = true -> bytes_ok c = true ->
  aes256_encrypt_block k (aes256_decrypt_block k c) = c.
Proof. exact aes256_encrypt_decrypt. Qed.
Print Assumptions C08_aes_block_permutation.

(* C08_aes_roundtrip for a block cipher whose inverse law is only known on blocks of BYTES (a cipher built
   on a 256-entry S-box cannot invert on numbers >= 256, so C08_aes_roundtrip itself cannot be instantiated) *)
Theorem C08_aes_roundtrip_over_bytes : forall E D : bytes -> bytes,
  (forall b, length b = blk -> bytes_ok b = true -> D (E b) = b) ->
  (forall b, length b = blk -> bytes_ok b = true -> length (E b) = blk /\ bytes_ok (E b) = true) ->
  forall iv text, length iv = blk -> bytes_ok iv = true -> bytes_ok text = true ->
  aes_decrypt D (aes_encrypt E iv text) = Ok text.
Proof. exact aes_roundtrip_over_bytes. Qed.
Print Assumptions C08_aes_roundtrip_over_bytes.

(* AesProvider.decrypt (AesProvider.encrypt p) = p with the AES-256 of Aes.v: no hypothesis about the block
   cipher is left -- every 32-byte key, every plaintext byte string, every 16-byte IV *)
Theorem C08_aes_roundtrip_concrete : forall k iv text,
  length k = 32 -> bytes_ok k = true -> length iv = 16 -> bytes_ok iv = true -> bytes_ok text = true ->
  aes_decrypt (aes256_decrypt_block k) (aes_encrypt (aes256_encrypt_block k) iv text) = Ok text.
Proof. exact aes256_cbc_roundtrip. Qed.
Print Assumptions C08_aes_roundtrip_concrete.

Theorem C08_aes_layout_concrete : forall k iv text, length iv = 16 ->
  firstn blk (aes_encrypt (aes256_encrypt_block k) iv text) = iv /\
  length (aes_encrypt (aes256_encrypt_block k) iv text) = blk + blk * (length text / blk + 1).
Proof. exact aes256_cbc_layout. Qed.
Print Assumptions C08_aes_layout_concrete.

(* ---- the field-level wrapper: SecureField.to_basic / to_python (SecureShape.v) over an arbitrary stored value ---- *)
From Coq Require Import String.
From Cinco Require Import Challenge SecureShape SecureShapeLemmas.

(* bytes.decode() inverts str.encode() *)
Theorem C08_utf8_dec_enc : forall s b, Codec.utf8_enc s = Some b -> utf8_dec b = Some s.
Proof. exact utf8_dec_enc. Qed.
Print Assumptions C08_utf8_dec_enc.

(* (a) stored secrets of the wrong shape or encoding are rejected with an error rather than returning a value:
   everything that is not None, not a str and not a map {method: "aes"|"xor"|"best", ciphertext: str that the
   (non-validating) base64 decoder accepts} gives Err -- any types, any extra keys, any key, AES available or not *)
Theorem C08_shape_rejected : forall aes key v,
  stored_shape v = false -> shape_modelled v = true -> exists e, to_python aes key v = Err e.
Proof. exact shape_rejected. Qed.
Print Assumptions C08_shape_rejected.

Theorem C08_value_only_from_shape : forall aes key v r, to_python aes key v = Ok r -> stored_shape v = true.
Proof. exact value_only_from_shape. Qed.
Print Assumptions C08_value_only_from_shape.

(* inside the shape the outcome is the cipher's: the recorded method picks the provider, nothing else is read *)
Theorem C08_shape_accepted : forall aes key tg d m c ct pm,
  dget k_method d = Some (PStr m) -> dget k_ciphertext d = Some (PStr c) ->
  b64_decode c = Some ct -> provider_of_str aes m = Some pm ->
  to_python aes key (PDict tg d) = finish (cdecrypt aes key pm ct).
Proof. exact shape_accepted. Qed.
Print Assumptions C08_shape_accepted.

Theorem C08_to_python_ok_iff : forall aes key v r,
  to_python aes key v = Ok r <->
  (v = PNone /\ r = PNone) \/ (exists s, v = PStr s /\ r = PStr s) \/
  (exists tg d m c ct pm t s,
      v = PDict tg d /\ dget k_method d = Some (PStr m) /\ dget k_ciphertext d = Some (PStr c) /\
      b64_decode c = Some ct /\ provider_of_str aes m = Some pm /\
      cdecrypt aes key pm ct = Ok t /\ utf8_dec t = Some s /\ r = PStr s).
Proof. exact to_python_ok_iff. Qed.
Print Assumptions C08_to_python_ok_iff.

(* (b) C08_aes_rejects lifted through the wrapper *)
Theorem C08_field_aes_short_rejected : forall aes key tg d m c ct,
  dget k_method d = Some (PStr m) -> dget k_ciphertext d = Some (PStr c) ->
  b64_decode c = Some ct -> provider_of_str aes m = Some UseAes ->
  (List.length ct < 32 \/ List.length ct mod 16 <> 0)%nat ->
  exists e, to_python aes key (PDict tg d) = Err e.
Proof. exact aes_short_rejected. Qed.
Print Assumptions C08_field_aes_short_rejected.

(* (c) to_python (to_basic p) = p for every non-empty str that UTF-8 encodes, every 32-byte key, every 16-byte IV,
   every declared method: base64, XOR / CBC + PKCS7 + the AES-256 of Aes.v and UTF-8 composed, no hypothesis left *)
Theorem C08_field_roundtrip : forall aes key iv declared p b pm,
  List.length key = 32%nat -> bytes_ok key = true -> List.length iv = 16%nat -> bytes_ok iv = true ->
  p <> [] -> Codec.utf8_enc p = Some b ->
  provider_of_str aes declared = Some pm -> (pm = UseAes -> aes = true) ->
  exists v, to_basic aes key declared iv (PStr p) = Ok v /\
            stored_shape v = true /\
            to_python aes key v = Ok (PStr p).
Proof. exact field_roundtrip. Qed.
Print Assumptions C08_field_roundtrip.

Theorem C08_field_empty_is_null : forall aes key declared iv,
  to_basic aes key declared iv (PStr []) = Ok PNone /\ to_basic aes key declared iv PNone = Ok PNone /\
  to_python aes key PNone = Ok PNone.
Proof. exact empty_is_null. Qed.
Print Assumptions C08_field_empty_is_null.

(* (d) what to_basic writes: null, or {method: concrete, ciphertext: base64 text} *)
Theorem C08_to_basic_shape : forall aes key declared iv v r,
  to_basic aes key declared iv v = Ok r ->
  r = PNone \/
  exists pm ct, r = PDict 0 [(k_method, PStr (cmeth_name pm)); (k_ciphertext, PStr (b64_encode ct))] /\
                provider_of_str aes declared = Some pm.
Proof. exact to_basic_shape. Qed.
Print Assumptions C08_to_basic_shape.

Theorem C08_to_basic_method_concrete : forall aes key declared iv v tg d,
  to_basic aes key declared iv v = Ok (PDict tg d) ->
  dget k_method d = Some (PStr (sa "aes")) \/ dget k_method d = Some (PStr (sa "xor")).
Proof. exact to_basic_method_concrete. Qed.
Print Assumptions C08_to_basic_method_concrete.
