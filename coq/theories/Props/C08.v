(* Property C08 — ciphers invert exactly; AES is CBC/PKCS7 behind a fresh 16-byte IV; bad input is rejected.
   Property theorems only.  E/D are the AES-256 block functions under one key (the primitive of the
   `cryptography` package, not code of this repository): their inverse law is a hypothesis. *)
From Coq Require Import ZArith NArith List Bool.
From Cinco Require Import Base Crypto CryptoLemmas.
Import ListNotations.
Open Scope nat_scope.

Theorem C08_xor_involutive : forall key d, xor_cycle key (xor_cycle key d) = d.
Proof. exact xor_involutive. Qed.
Print Assumptions C08_xor_involutive.

Theorem C08_xor_spec : forall key d i x,
  key <> [] -> nth_error d i = Some x ->
  nth_error (xor_cycle key d) i = Some (N.lxor x (nth (i mod length key) key 0%N)).
Proof. exact xor_spec. Qed.
Print Assumptions C08_xor_spec.

Theorem C08_pkcs7_unpad_pad : forall p, pkcs7_unpad (pkcs7_pad p) = Some p.
Proof. exact pkcs7_unpad_pad. Qed.
Print Assumptions C08_pkcs7_unpad_pad.

Theorem C08_cbc_dec_enc : forall E D : bytes -> bytes,
  (forall b, length b = blk -> D (E b) = b) -> (forall b, length b = blk -> length (E b) = blk) ->
  forall bs prev, length prev = blk -> Forall (fun b => length b = blk) bs ->
  cbc_dec D prev (cbc_enc E prev bs) = bs.
Proof. exact cbc_dec_enc. Qed.
Print Assumptions C08_cbc_dec_enc.

Theorem C08_aes_roundtrip : forall E D : bytes -> bytes,
  (forall b, length b = blk -> D (E b) = b) -> (forall b, length b = blk -> length (E b) = blk) ->
  forall iv text, length iv = blk -> aes_decrypt D (aes_encrypt E iv text) = Ok text.
Proof. exact aes_roundtrip. Qed.
Print Assumptions C08_aes_roundtrip.

Theorem C08_aes_layout : forall E : bytes -> bytes,
  (forall b, length b = blk -> length (E b) = blk) ->
  forall iv text, length iv = blk ->
  firstn blk (aes_encrypt E iv text) = iv /\
  length (aes_encrypt E iv text) = blk + blk * (length text / blk + 1).
Proof. exact aes_layout. Qed.
Print Assumptions C08_aes_layout.

Theorem C08_iv_fresh : forall E : bytes -> bytes,
  (forall b, length b = blk -> length (E b) = blk) ->
  forall iv1 iv2 t1 t2, length iv1 = blk -> length iv2 = blk -> iv1 <> iv2 ->
  aes_encrypt E iv1 t1 <> aes_encrypt E iv2 t2.
Proof. exact iv_fresh. Qed.
Print Assumptions C08_iv_fresh.

Theorem C08_aes_rejects : forall (D : bytes -> bytes) ct,
  length ct < 32 \/ length ct mod blk <> 0 -> exists e, aes_decrypt D ct = Err e.
Proof. exact aes_rejects. Qed.
Print Assumptions C08_aes_rejects.
