(* Property C16 — all ways of naming a field agree; command-line overrides touch only what is given.
   Property theorems only. *)
From Coq Require Import ZArith NArith List Bool.
From Cinco Require Import Base Str Paths PathsLemmas.
Import ListNotations.

(* For every well-formed schema tree of any depth and width whose own key is empty (known_F40 = false):
   each enumerated (path, field) resolves by dotted lookup to that very field, the field's reference path
   is the path, and on every conforming configuration: for value-holding fields (known_F27 = false)
   membership holds and item access = chained attribute access; for every field and value, dotted
   assignment = chained attribute assignment (new configuration and outcome). *)
Theorem C16_enum_lookup_partial : forall s, wf s -> known_F40 s = false ->
  forall p f, In (p, f) (get_all_fields s) ->
    lookup s p = LField f /\
    ref_path f = p /\
    (forall c, conforms s c -> known_F27 f = false ->
               mem c p = true /\ getitem c p = getattr_path c p /\ exists v, getitem c p = Ok v) /\
    (forall fos c x, conforms s c -> setitem fos c p x = setattr_path fos c p x).
Proof. exact enum_lookup_partial. Qed.
Print Assumptions C16_enum_lookup_partial.

(* the statement without the two exclusions is false of the model *)
Theorem C16_enum_lookup_refuted : ~ enum_lookup_full.
Proof. exact enum_lookup_full_refuted. Qed.
Print Assumptions C16_enum_lookup_refuted.

(* F40: Schema(key="root"): the enumerated path "root.x" does not resolve (the lookup creates a new
   sub-schema), is not a member, and item access raises AttributeError *)
Theorem C16_enum_lookup_refuted_F40 :
  exists s p f, wf s /\ In (p, f) (get_all_fields s) /\ known_F40 s = true /\
    lookup s p = LCreated /\ mem (build s) p = false /\ getitem (build s) p = Err EAttribute.
Proof. exact enum_lookup_refuted_F40. Qed.
Print Assumptions C16_enum_lookup_refuted_F40.

(* F40: a sub-schema at depth 2 handed in directly: the path neither resolves nor is the reference path *)
Theorem C16_enum_lookup_refuted_F40_sub :
  exists chain s p f, wf s /\ In (p, f) (gaf chain s) /\ known_F40 s = true /\
    lookup_in chain s p = LCreated /\ ref_path f <> p.
Proof. exact enum_lookup_refuted_F40_sub. Qed.
Print Assumptions C16_enum_lookup_refuted_F40_sub.

(* F27: virtual and instance-method fields are enumerated but are not members; config["m"] raises KeyError
   while config.m is the bound method *)
Theorem C16_enum_lookup_refuted_F27 :
  exists s c p f p' f', wf s /\ known_F40 s = false /\ conforms s c /\
    In (p, f) (get_all_fields s) /\ known_F27 f = true /\ mem c p = false /\
    In (p', f') (get_all_fields s) /\ known_F27 f' = true /\ mem c p' = false /\
    getitem c p' = Err EKey /\ getattr_path c p' = Ok (VLeaf BOUND_METHOD).
Proof. exact enum_lookup_refuted_F27. Qed.
Print Assumptions C16_enum_lookup_refuted_F27.

(* the dotted walk visits exactly the keys a path was joined from (identifier keys) *)
Theorem C16_path_keys_dotted : forall ks, ks <> [] -> Forall ident ks -> path_keys (dotted ks) = ks.
Proof. exact path_keys_dotted. Qed.
Print Assumptions C16_path_keys_dotted.

(* the generated parser (any schema, keyed or not): every option comes from an enumerated str/int/float/bool
   field, its destination is that field's path, its default is None; if no two paths collide after the
   '.'/'_' -> '-' mapping, the options with destination p are exactly one `store` option for a scalar
   field, exactly the on and off switches for a bool field, none otherwise; if the claimed option strings
   are distinct, so are the generated ones *)
Theorem C16_parser_options : forall chain s,
  let en := gaf chain s in
  let tbl := option_table_in chain s in
  (forall o, In o tbl -> exists p f, In (p, f) en /\ In o (opts_of p (f_node f)) /\ o_dest o = p /\ o_default o = PNone) /\
  (NoDup (map (fun pf => opt_name (fst pf)) en) ->
   forall p f, In (p, f) en ->
     filter (dest_is p) tbl =
       match opt_class (f_node f) with
       | OScalar => [mkopt (opt_name p) p AStore PNone]
       | OBool => [mkopt (opt_name p) p AStoreTrue PNone; mkopt (no_name p) p AStoreFalse PNone]
       | ONone => []
       end) /\
  (NoDup (flat_map (fun pf => names_of (fst pf) (f_node (snd pf))) en) -> NoDup (map o_string tbl)).
Proof. exact parser_options_lemma. Qed.
Print Assumptions C16_parser_options.

(* the empty command line supplies nothing and the override returns the configuration untouched (F3) *)
Theorem C16_empty_cmdline : forall fos chain s c ignore,
  exists ns, parse (option_table_in chain s) [] = Ok ns /\ supplied ns = [] /\
             override fos c ns ignore = (c, Ok tt).
Proof. exact empty_cmdline_lemma. Qed.
Print Assumptions C16_empty_cmdline.

(* the override visits exactly the destinations that are supplied (value not None) and not ignored *)
Theorem C16_override_visits : forall args ignore,
  visited args ignore = filter (fun k => negb (str_in k ignore)) (supplied args) /\
  (forall key, In key (visited args ignore) <-> exists v, In (key, v) args /\ v <> PNone /\ ~ In key ignore).
Proof. intros; split; [apply visited_supplied | apply visited_spec]. Qed.
Print Assumptions C16_override_visits.

(* frame: for every configuration (any state, conforming or not), every namespace and ignore list, every
   position that is not comparable with a visited destination shows the same value and the same default
   mark after the override as before — also when the override is aborted by a rejected value *)
Theorem C16_override_frame : forall fos c args ignore q qrest,
  (forall key, In key (visited args ignore) -> comparable (path_keys key) (q :: qrest) = false) ->
  view (fst (override fos c args ignore)) q qrest = view c q qrest.
Proof. exact override_frame_thm. Qed.
Print Assumptions C16_override_frame.

(* application: when the override completes, every visited destination was assigned by setitem (hence
   validated) and shows the validated value, marked user-defined (a settable virtual field: unchanged) *)
Theorem C16_override_applies : forall fos args ignore c c',
  override fos c args ignore = (c', Ok tt) ->
  NoDup (visited args ignore) ->
  (forall a b, In a (visited args ignore) -> In b (visited args ignore) -> a <> b ->
               comparable (path_keys a) (path_keys b) = false) ->
  forall key, In key (visited args ignore) ->
    exists k rest, path_keys key = k :: rest /\
      exists c1 c2 x v, In (key, x) args /\ setitem_k fos c1 k rest x = (c2, Ok v) /\
        (view c' k rest = (Ok (VLeaf v), Ok true) \/ view c' k rest = view c1 k rest).
Proof. exact override_applies. Qed.
Print Assumptions C16_override_applies.
