(* Property C14 — environment variables beat files, assignment beats both, names are predictable.
   Property theorems only; each is closed by `exact` of a lemma of EnvLemmas.v. *)
From Coq Require Import ZArith NArith List Bool.
From Cinco Require Import Base Str Env EnvLemmas.
Import ListNotations.

(* names: what Field.__setkey__ / Schema.__setkey__ store when the schema is built top-down equals the
   declarative rule, for every schema tree, every path and every combination of settings
   (`up` = str.upper) *)
Theorem C14_name_spec : forall (up : str -> str) (s : stree) (path : list str),
  env_name_impl up s path = env_name_decl up s path.
Proof. exact name_spec. Qed.
Print Assumptions C14_name_spec.

(* the same for the raw attribute (None / False / name) *)
Theorem C14_attr_spec : forall (up : str -> str) (s : stree) (path : list str),
  env_attr_impl up s path = env_attr_decl up s path.
Proof. exact attr_spec. Qed.
Print Assumptions C14_attr_spec.

(* with non-empty components the derived name is the plain underscore join *)
Theorem C14_join_plain : forall comps, Forall (fun x => x <> []) comps -> join_name comps = join us comps.
Proof. exact join_name_plain. Qed.
Print Assumptions C14_join_plain.

(* value after any history: last accepted assignment since the last (re)build, else the validated
   variable when bound and non-empty, else the last accepted loaded value, else the default; an
   invalid variable leaves no configuration.  Outside the region of the open finding F20. *)
Theorem C14_precedence_partial : forall validate to_py dflt lookup name environ path,
  known_F20 lookup name = false ->
  precedence_stmt validate to_py dflt lookup name environ path.
Proof. exact precedence_partial. Qed.
Print Assumptions C14_precedence_partial.

Theorem C14_precedence_refuted :
  exists validate to_py dflt lookup name environ path,
    known_F20 lookup name = true /\ ~ precedence_stmt validate to_py dflt lookup name environ path.
Proof. exact precedence_refuted. Qed.
Print Assumptions C14_precedence_refuted.

(* the bound case spelled out: loads never matter *)
Theorem C14_precedence_bound : forall validate to_py dflt lookup name environ path,
  known_F20 lookup name = false ->
  forall s ev h, env_text name environ = Some s -> validate (PStr s) = Ok ev -> ev <> PNone ->
  exists src, erun validate to_py dflt lookup name environ path None (OBuild :: h) =
              Some (match last_assign validate (rev h) with Some a => a | None => ev end, src).
Proof. exact precedence_bound. Qed.
Print Assumptions C14_precedence_bound.

(* an invalid variable makes construction fail with a validation error naming the field *)
Theorem C14_invalid_env_fails_build : forall validate to_py dflt lookup name environ path,
  known_F20 lookup name = false ->
  invalid_stmt validate to_py dflt lookup name environ path.
Proof. exact invalid_env_fails_build. Qed.
Print Assumptions C14_invalid_env_fails_build.

Theorem C14_invalid_env_refuted :
  exists validate to_py dflt lookup name environ path,
    known_F20 lookup name = true /\ ~ invalid_stmt validate to_py dflt lookup name environ path.
Proof. exact invalid_env_refuted. Qed.
Print Assumptions C14_invalid_env_refuted.

(* unset / empty variables and opted-out fields behave as if no binding existed (every class) *)
Theorem C14_empty_or_optout_as_unbound : forall validate to_py dflt lookup name environ path,
  unbound_cond name environ ->
  forall st o, estep validate to_py dflt lookup name environ path st o
               = estep validate to_py dflt lookup EAbsent [] path st o.
Proof. exact empty_or_optout_as_unbound. Qed.
Print Assumptions C14_empty_or_optout_as_unbound.

Theorem C14_unbound_value : forall validate to_py dflt lookup name environ path h,
  env_text name environ = None ->
  erun validate to_py dflt lookup name environ path None (OBuild :: h) =
  Some (match last_write validate to_py (rev h) with Some w => w | None => (dflt, SDefault) end).
Proof. exact precedence_unbound. Qed.
Print Assumptions C14_unbound_value.

(* environments per construction: whatever happened before (other environments, other configurations
   of the same schema, failed constructions), after `GBuild e` and operations on that configuration the
   state is that of the one-environment machine under `e` -- nothing read or validated earlier survives *)
Theorem C14_env_per_build : forall validate to_py dflt lookup name path before g e h,
  grun validate to_py dflt lookup name path g (before ++ GBuild e :: map GOp h)
  = (e, erun validate to_py dflt lookup name e path None (OBuild :: h)).
Proof. exact env_per_build. Qed.
Print Assumptions C14_env_per_build.

Theorem C14_precedence_per_build : forall validate to_py dflt lookup name path,
  known_F20 lookup name = false ->
  forall before g e h,
  grun validate to_py dflt lookup name path g (before ++ GBuild e :: map GOp h)
  = (e, spec_state validate to_py dflt name e (rev h)).
Proof. exact precedence_per_build. Qed.
Print Assumptions C14_precedence_per_build.
