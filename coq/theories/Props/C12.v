(* Property C12 — defaults, user-defined status and reset behave as a consistent state machine
   Property theorems only: every statement is proved in the *Lemmas files. *)
From Coq Require Import ZArith NArith String List Bool.
From Cinco Require Import Base Config ConfigLemmas.
Import ListNotations.

Theorem C12_fresh_all_default :
  forall (F : Type) (lvalidate lto_python : F -> pyval -> res pyval) (ldefault : F -> N -> pyval) (lcallable lflag : F -> bool) (vrun : N -> list (str * pyval) -> bool) (w : world) (fs : list (str * node F)) (w' : world) (c : cfg) (k : str), build_cfg F lvalidate lto_python ldefault lcallable lflag vrun w fs = (w', c) -> In k (map fst fs) -> defined c k = false.
Proof. exact fresh_all_default. Qed.
Print Assumptions C12_fresh_all_default.

Theorem C12_fresh_exposes_defaults :
  forall (F : Type) (lvalidate lto_python : F -> pyval -> res pyval) (ldefault : F -> N -> pyval) (lcallable lflag : F -> bool) (vrun : N -> list (str * pyval) -> bool) (w : world) (fs : list (str * node F)) (w' : world) (c : cfg) (k : str) (f : F), build_cfg F lvalidate lto_python ldefault lcallable lflag vrun w fs = (w', c) -> fget F k fs = Some (NLeaf f) -> exists n : N, dget k (c_data c) = Some (VLeaf (ldefault f n)).
Proof. exact fresh_exposes_defaults. Qed.
Print Assumptions C12_fresh_exposes_defaults.

Theorem C12_store_spec :
  forall (c : cfg) (k : str) (v : val) (k' : str), defined (store c k v) k' = defined c k' || str_eqb k' k /\ dget k (c_data (store c k v)) = Some v /\ (str_eqb k' k = false -> dget k' (c_data (store c k v)) = dget k' (c_data c)) /\ c_id (store c k v) = c_id c /\ c_dyn (store c k v) = c_dyn c.
Proof. exact store_spec. Qed.
Print Assumptions C12_store_spec.

Theorem C12_set_value_ok :
  forall (F : Type) (lvalidate lto_python : F -> pyval -> res pyval) (ldefault : F -> N -> pyval) (lcallable lflag : F -> bool) (vrun : N -> list (str * pyval) -> bool) (x : pyval) (w : world) (pre : str) (c : cfg) (fs : list (str * node F)) (k : str) (rl : bool) (w' : world) (c' : cfg), fget F k fs <> None -> set_value F lvalidate lto_python ldefault lcallable lflag vrun x w pre c fs false k rl = (w', c', OOk) -> exists v : val, c' = store c k v.
Proof. exact set_value_ok. Qed.
Print Assumptions C12_set_value_ok.

Theorem C12_set_value_err :
  forall (F : Type) (lvalidate lto_python : F -> pyval -> res pyval) (ldefault : F -> N -> pyval) (lcallable lflag : F -> bool) (vrun : N -> list (str * pyval) -> bool) (x : pyval) (w : world) (pre : str) (c : cfg) (fs : list (str * node F)) (dyn : bool) (k : str) (rl : bool) (w' : world) (c' : cfg) (o : oc), set_value F lvalidate lto_python ldefault lcallable lflag vrun x w pre c fs dyn k rl = (w', c', o) -> o <> OOk -> c' = c.
Proof. exact set_value_err. Qed.
Print Assumptions C12_set_value_err.

Theorem C12_reset_spec :
  forall (F : Type) (lvalidate lto_python : F -> pyval -> res pyval) (ldefault : F -> N -> pyval) (lcallable lflag : F -> bool) (vrun : N -> list (str * pyval) -> bool) (w : world) (c : cfg) (fs : list (str * node F)) (k : str) (w' : world) (c' : cfg) (nd : node F), fget F k fs = Some nd -> reset_key F lvalidate lto_python ldefault lcallable lflag vrun w c fs k = (w', c', OOk) -> defined c' k = false /\ dget k (c_data c') = Some (snd (build_val F lvalidate lto_python ldefault lcallable lflag vrun w nd)) /\ (forall k' : str, str_eqb k' k = false -> defined c' k' = defined c k' /\ dget k' (c_data c') = dget k' (c_data c)) /\ c_id c' = c_id c.
Proof. exact reset_spec. Qed.
Print Assumptions C12_reset_spec.

Theorem C12_apply_cop_marks :
  forall (F : Type) (lvalidate lto_python : F -> pyval -> res pyval) (ldefault : F -> N -> pyval) (lcallable lflag : F -> bool) (vrun : N -> list (str * pyval) -> bool) (o : cop) (w : world) (pre : str) (c : cfg) (vs : list N) (fs : list (str * node F)) (w' : world) (c' : cfg) (r : oc), no_load o = true -> declared_target F fs o = true -> apply_cop F lvalidate lto_python ldefault lcallable lflag vrun w pre c false vs fs o = (w', c', r) -> forall k : str, defined c' k = mark_effect o r k (defined c k).
Proof. exact apply_cop_marks. Qed.
Print Assumptions C12_apply_cop_marks.

Theorem C12_defined_history :
  forall (F : Type) (lvalidate lto_python : F -> pyval -> res pyval) (ldefault : F -> N -> pyval) (lcallable lflag : F -> bool) (vrun : N -> list (str * pyval) -> bool) (ops : list cop) (w : world) (c : cfg) (vs : list N) (fs : list (str * node F)), forallb no_load ops = true -> forallb (declared_target F fs) ops = true -> forall k : str, defined (snd (run_marks F lvalidate lto_python ldefault lcallable lflag vrun ops w c vs fs)) k = spec_marks (fst (run_marks F lvalidate lto_python ldefault lcallable lflag vrun ops w c vs fs)) k (defined c k).
Proof. exact defined_history. Qed.
Print Assumptions C12_defined_history.

(* configuration objects: an accepted object assignment stores that very object and makes exactly its key user-defined; the list routes and every refusal change no mark (mark_effect / declared_target above include CSetObj) *)

Theorem C12_set_obj_ok :
  forall (F : Type) (lvalidate lto_python : F -> pyval -> res pyval) (ldefault : F -> N -> pyval) (lcallable lflag : F -> bool) (vrun : N -> list (str * pyval) -> bool) (k : str) (src : cfg) (w : world) (pre : str) (c : cfg) (dyn : bool) (vs : list N) (fs : list (str * node F)) (w' : world) (c' : cfg), apply_cop F lvalidate lto_python ldefault lcallable lflag vrun w pre c dyn vs fs (CSetObj k src) = (w', c', OOk) -> c' = store c k (VCfg src) /\ w' = w /\ (exists (d' : bool) (vs' : list N) (fs' : list (str * node F)), fget F k fs = Some (NSub d' vs' fs')).
Proof. exact set_obj_ok. Qed.
Print Assumptions C12_set_obj_ok.

Theorem C12_obj_marks :
  forall (F : Type) (lvalidate lto_python : F -> pyval -> res pyval) (ldefault : F -> N -> pyval) (lcallable lflag : F -> bool) (vrun : N -> list (str * pyval) -> bool) (o : cop) (w : world) (pre : str) (c : cfg) (vs : list N) (fs : list (str * node F)) (w' : world) (c' : cfg) (r : oc), is_obj_op o = true -> declared_target F fs o = true -> apply_cop F lvalidate lto_python ldefault lcallable lflag vrun w pre c false vs fs o = (w', c', r) -> forall k : str, defined c' k = match o with | CSetObj k' _ => match r with | OOk => defined c k || str_eqb k k' | _ => defined c k end | _ => defined c k end.
Proof. exact obj_marks. Qed.
Print Assumptions C12_obj_marks.

(* lists of configurations with declared default items (ListField(schema, default=[maps]) constant or callable): every slot of a fresh configuration holds what build_val makes of the declaration (fresh_slot, as reset_spec says for a reset key); for such a list that is one freshly built item per declared map, the key marked default (fresh_list_default, reset_list_default; build_items_spec says what each item is) *)

Theorem C12_fresh_slot :
  forall (F : Type) (lvalidate lto_python : F -> pyval -> res pyval) (ldefault : F -> N -> pyval) (lcallable lflag : F -> bool) (vrun : N -> list (str * pyval) -> bool) (w : world) (fs : list (str * node F)) (w' : world) (c : cfg) (k : str) (nd : node F), build_cfg F lvalidate lto_python ldefault lcallable lflag vrun w fs = (w', c) -> fget F k fs = Some nd -> exists w0 : world, dget k (c_data c) = Some (snd (build_val F lvalidate lto_python ldefault lcallable lflag vrun w0 nd)).
Proof. exact fresh_slot. Qed.
Print Assumptions C12_fresh_slot.

Theorem C12_build_items_spec :
  forall (F : Type) (lvalidate lto_python : F -> pyval -> res pyval) (ldefault : F -> N -> pyval) (lcallable lflag : F -> bool) (vrun : N -> list (str * pyval) -> bool) (vs : list N) (fs' : list (str * node F)) (ts : list pyval) (w : world) (acc : list cfg) (w' : world) (l : list cfg), build_items F lvalidate lto_python ldefault lcallable lflag vrun vs fs' ts w acc = (w', Some l) -> exists l1 : list cfg, l = rev acc ++ l1 /\ Datatypes.length l1 = Datatypes.length ts /\ Forall (fun it : cfg => validate_errs F lvalidate lflag vrun (NSub false vs fs') [] (VCfg it) = []) l1 /\ Forall2 (fun (m : pyval) (it : cfg) => exists (t : N) (d : list (pyval * pyval)) (w0 : world) (dd : list (str * val)), m = PDict t d /\ snd (build_fields F lvalidate lto_python ldefault lcallable lflag vrun {| w_next := w_next w0 + 1; w_calls := w_calls w0 |} fs') = dd /\ flat_load F lvalidate lto_python d (Cfg (w_next w0) dd (map fst fs') []) fs' = (it, OOk)) ts l1.
Proof. exact build_items_spec. Qed.
Print Assumptions C12_build_items_spec.

Theorem C12_fresh_list_default :
  forall (F : Type) (lvalidate lto_python : F -> pyval -> res pyval) (ldefault : F -> N -> pyval) (lcallable lflag : F -> bool) (vrun : N -> list (str * pyval) -> bool) (w : world) (fs : list (str * node F)) (w' : world) (c : cfg) (k : str) (r : bool) (vs : list N) (fs' : list (str * node F)) (callable : bool) (maps : list pyval), build_cfg F lvalidate lto_python ldefault lcallable lflag vrun w fs = (w', c) -> fget F k fs = Some (NCfgList r vs fs' (Some (callable, maps))) -> defined c k = false /\ (exists w0 : world, let (_, o) := build_items F lvalidate lto_python ldefault lcallable lflag vrun vs fs' maps (bump_calls callable w0) [] in match o with | Some l => dget k (c_data c) = Some (VList l) /\ Datatypes.length l = Datatypes.length maps | None => dget k (c_data c) = Some (VLeaf default_failed) end).
Proof. exact fresh_list_default. Qed.
Print Assumptions C12_fresh_list_default.

Theorem C12_reset_list_default :
  forall (F : Type) (lvalidate lto_python : F -> pyval -> res pyval) (ldefault : F -> N -> pyval) (lcallable lflag : F -> bool) (vrun : N -> list (str * pyval) -> bool) (w : world) (c : cfg) (fs : list (str * node F)) (k : str) (w' : world) (c' : cfg) (r : bool) (vs : list N) (fs' : list (str * node F)) (callable : bool) (maps : list pyval), fget F k fs = Some (NCfgList r vs fs' (Some (callable, maps))) -> reset_key F lvalidate lto_python ldefault lcallable lflag vrun w c fs k = (w', c', OOk) -> defined c' k = false /\ (forall k' : str, str_eqb k' k = false -> defined c' k' = defined c k' /\ dget k' (c_data c') = dget k' (c_data c)) /\ (let (_, o) := build_items F lvalidate lto_python ldefault lcallable lflag vrun vs fs' maps (bump_calls callable w) [] in match o with | Some l => dget k (c_data c') = Some (VList l) /\ Datatypes.length l = Datatypes.length maps | None => dget k (c_data c') = Some (VLeaf default_failed) end).
Proof. exact reset_list_default. Qed.
Print Assumptions C12_reset_list_default.
