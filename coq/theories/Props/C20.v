(* Property C20 — generated type stubs are valid Python declaring every field and method.
   Property theorems only. *)
From Coq Require Import ZArith NArith List Bool.
From Cinco Require Import Base Str Stubs StubsLemmas.
Import ListNotations.

Theorem C20_stub_silent : forall tgt cn fs, snd (generate_stub_io tgt cn fs) = [].
Proof. exact stub_silent. Qed.
Print Assumptions C20_stub_silent.
