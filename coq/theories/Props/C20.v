(* Property C20 — generated type stubs are valid Python declaring every field and method.
   Property theorems only.  "Valid" is validity for the stub fragment grammar (parse_stub), tied to
   Python's own parser by the `stubs` correspondence stream. *)
From Coq Require Import ZArith NArith String List Bool.
From Cinco Require Import Base Str Stubs StubsLemmas.
Import ListNotations.
Open Scope string_scope.

(* main theorem.  Preconditions (all boolean, checked on cases by the harness' domain): class name and
   keys are identifiers, every type string is a bracket-balanced single-line token, parameter names are
   identifiers and the function has a plain leading positional parameter (known_F45 = false). *)
Theorem C20_stub_valid_partial : forall tgt cn fs lines,
  class_ok tgt cn = true -> fields_ok fs = true ->
  stub_lines tgt cn fs = Ok lines ->
  exists s, stub_ast tgt cn fs = Ok s /\ lines = render s /\ parse_stub lines = Some s /\ structure tgt cn fs s.
Proof. exact stub_valid_partial. Qed.
Print Assumptions C20_stub_valid_partial.

(* one class, an annotated attribute for every non-method field in order (virtual included), __init__
   parameters = the persistent fields, one method per instance method with the names and kinds of the
   bound function *)
Theorem C20_structure : forall tgt cn fs s, stub_ast tgt cn fs = Ok s ->
  class_name_of tgt cn = Ok (st_class s) /\
  map fst (st_attrs s) = keys_where (fun f => negb (is_method f)) fs /\
  map fst (st_init s) = keys_where (fun f => negb (is_method f) && negb (is_virtual f)) fs /\
  Forall2 (fun km d => m_name d = fst km /\ sig_matches (snd km) d) (methods_of fs) (st_methods s).
Proof. exact stub_structure. Qed.
Print Assumptions C20_structure.

(* the text the code assembles (items, "*" markers, items[0] = "self") is the rendering of that AST *)
Theorem C20_text_is_render : forall tgt cn fs,
  methods_ok fs = true -> stub_lines tgt cn fs = fmap render (stub_ast tgt cn fs).
Proof. exact stub_lines_render. Qed.
Print Assumptions C20_text_is_render.

(* rendering is inverted by the fragment parser, for every AST (defaults do not exist in stubs.py's output) *)
Theorem C20_parse_render : forall s, stub_ok s = true -> parse_stub (render s) = Some s.
Proof. exact parse_render. Qed.
Print Assumptions C20_parse_render.

(* the same for the text generate_stub returns ("\n".join of the lines), given no line contains a line break *)
Theorem C20_parse_text_render : forall s,
  stub_ok s = true -> forallb no_nl (render s) = true -> parse_text (join [10%N] (render s)) = Some s.
Proof. exact parse_text_render. Qed.
Print Assumptions C20_parse_text_render.

(* open finding F45: without a plain leading positional parameter *args and keyword-only-ness are lost *)
Theorem C20_method_sig_refuted :
  exists sp, spec_names_ok sp = true /\ known_F45 sp = true /\
    exists text d, method_annotation (sa "m") sp = Ok text /\ parse_def (indent text) = Some d /\
      a_vararg (m_args d) <> as_varargs sp /\ map fst (a_kwonly (m_args d)) <> as_kwonly sp.
Proof. exact method_sig_refuted. Qed.
Print Assumptions C20_method_sig_refuted.

(* open finding F52: a type string containing '<' or '>' (str() of a typing construct over a function-local
   class: "...<locals>...") is outside typestr_ok, hence outside the preconditions of C20_stub_valid_partial;
   that such a line is not valid Python is decided by ast.parse in the stubs stream *)
Theorem C20_F52_excluded : forall t, known_F52 t = true -> typestr_ok t = false.
Proof. exact known_F52_excluded. Qed.
Print Assumptions C20_F52_excluded.

(* by construction: the model is a function without an output channel *)
Theorem C20_stub_silent : forall tgt cn fs, snd (generate_stub_io tgt cn fs) = [].
Proof. exact stub_silent. Qed.
Print Assumptions C20_stub_silent.
