(* Property C15 — every rejection is a validation error that names the offending field's full path
   Property theorems only: every statement is proved in the *Lemmas files. *)
From Coq Require Import ZArith NArith String List Bool.
From Cinco Require Import Base Config ConfigInst ConfigLemmas ConfigInstLemmas.
Import ListNotations.

Theorem C15_rejection_shape :
  forall (F : Type) (lvalidate lto_python : F -> pyval -> res pyval) (ldefault : F -> N -> pyval) (lcallable lflag : F -> bool) (vrun : N -> list (str * pyval) -> bool), (forall (f : F) (x : pyval) (q : str), lvalidate f x <> Err (EValidation q)) -> (forall (f : F) (x : pyval) (q : str), lto_python f x <> Err (EValidation q)) -> forall (x : pyval) (w : world) (pre : str) (c : icfg) (fs : list (str * node F)) (dyn : bool) (k : str) (rl : bool) (w' : world) (c' : icfg) (e : errk), set_value F lvalidate lto_python ldefault lcallable lflag vrun x w pre c fs dyn k rl = (w', c', OErr e) -> e = EAttribute \/ verr_below (path_join pre k) e.
Proof. exact rejection_shape. Qed.
Print Assumptions C15_rejection_shape.

Theorem C15_load_rejection_shape :
  forall (F : Type) (lvalidate lto_python : F -> pyval -> res pyval) (ldefault : F -> N -> pyval) (lcallable lflag : F -> bool) (vrun : N -> list (str * pyval) -> bool), (forall (f : F) (x : pyval) (q : str), lvalidate f x <> Err (EValidation q)) -> (forall (f : F) (x : pyval) (q : str), lto_python f x <> Err (EValidation q)) -> forall (d : list (pyval * pyval)) (w : world) (pre : str) (c : icfg) (fs : list (str * node F)) (dyn : bool) (w' : world) (c' : icfg) (e : errk), load_keys F lvalidate lto_python ldefault lcallable lflag vrun d w pre c fs dyn = (w', c', OErr e) -> e = EAttribute \/ verr_below pre e.
Proof. exact load_rejection_shape. Qed.
Print Assumptions C15_load_rejection_shape.

Theorem C15_leaf_rejection_path :
  forall (F : Type) (lvalidate lto_python : F -> pyval -> res pyval) (ldefault : F -> N -> pyval) (lcallable lflag : F -> bool) (vrun : N -> list (str * pyval) -> bool), (forall (f : F) (x : pyval) (q : str), lvalidate f x <> Err (EValidation q)) -> forall (x : pyval) (w : world) (pre : str) (c : icfg) (fs : list (str * node F)) (dyn : bool) (k : str) (rl : bool) (w' : world) (c' : icfg) (e : errk) (f : F), fget F k fs = Some (NLeaf f) -> set_value F lvalidate lto_python ldefault lcallable lflag vrun x w pre c fs dyn k rl = (w', c', OErr e) -> e = EValidation (path_join pre k).
Proof. exact leaf_rejection_path. Qed.
Print Assumptions C15_leaf_rejection_path.

Theorem C15_inst_rejection_shape :
  forall (vt : ConfigInst.vtable) (x : pyval) (w : world) (pre : str) (c : icfg) (fs : list (str * inode)) (dyn : bool) (k : str) (rl : bool) (w' : world) (c' : icfg) (e : errk), set_value leaf lvalidate lto_python ldefault l_callable lflag (vrun vt) x w pre c fs dyn k rl = (w', c', OErr e) -> e = EAttribute \/ verr_below (path_join pre k) e.
Proof. exact inst_rejection_shape. Qed.
Print Assumptions C15_inst_rejection_shape.


(* ---- the full field model of Fields.v as the leaves of the configuration (instance ConfigFields.v) ---- *)
From Cinco Require Import Fields ConfigFields ConfigFieldsLemmas.

(* the field model never raises the library's ValidationError itself: the configuration wraps every leaf failure *)
Theorem C15_fields_plain_errors :
  forall (orc : oracle) (f : field) (x : pyval) (q : str),
    validate_with orc f x <> Err (EValidation q) /\ to_python_with orc f x <> Err (EValidation q).
Proof. intros; split; [apply validate_plain_err|apply to_python_plain_err]. Qed.
Print Assumptions C15_fields_plain_errors.

Theorem C15_fields_rejection_shape :
  forall (orc : oracle) (vt : vtable) (x : pyval) (w : world) (pre : str) (c : icfg) (fs : list (str * fnode)) (dyn : bool) (k : str)
         (rl : bool) (w' : world) (c' : icfg) (e : errk),
    set_value fleaf (cf_validate orc) (cf_to_python orc) (cf_default orc) fl_callable fl_flag (vrun vt) x w pre c fs dyn k rl
      = (w', c', OErr e) ->
    e = EAttribute \/ verr_below (path_join pre k) e.
Proof. exact cf_rejection_shape. Qed.
Print Assumptions C15_fields_rejection_shape.

Theorem C15_fields_leaf_rejection_path :
  forall (orc : oracle) (vt : vtable) (x : pyval) (w : world) (pre : str) (c : icfg) (fs : list (str * fnode)) (dyn : bool) (k : str)
         (rl : bool) (w' : world) (c' : icfg) (e : errk) (f : fleaf),
    fget fleaf k fs = Some (NLeaf f) ->
    set_value fleaf (cf_validate orc) (cf_to_python orc) (cf_default orc) fl_callable fl_flag (vrun vt) x w pre c fs dyn k rl
      = (w', c', OErr e) -> e = EValidation (path_join pre k).
Proof. exact cf_leaf_rejection_path. Qed.
Print Assumptions C15_fields_leaf_rejection_path.

(* configuration objects: the shape of every refusal *)

Theorem C15_obj_rejection_shape :
  forall (F : Type) (lvalidate lto_python : F -> pyval -> res pyval) (ldefault : F -> N -> pyval) (lcallable lflag : F -> bool) (vrun : N -> list (str * pyval) -> bool), (forall (f : F) (x : pyval) (q : str), lvalidate f x <> Err (EValidation q)) -> forall (o : cop) (w : world) (pre : str) (c : icfg) (dyn : bool) (vs : list N) (fs : list (str * node F)) (w' : world) (c' : icfg) (e : errk), apply_cop F lvalidate lto_python ldefault lcallable lflag vrun w pre c dyn vs fs o = (w', c', OErr e) -> match o with | CSetObj k _ => e = EAttribute \/ e = EValidation (path_join pre k) | CSetIdxObj k i _ => exists l : list icfg, dget k (c_data c) = Some (VList l) /\ (e = EIndex /\ (Datatypes.length l <= i)%nat \/ verr_below (path_index (path_join pre k) (N.of_nat (Datatypes.length l))) e) | CAppendObj k _ | CInsertObj k _ _ => exists l : list icfg, dget k (c_data c) = Some (VList l) /\ verr_below (path_index (path_join pre k) (N.of_nat (Datatypes.length l))) e | _ => True end.
Proof. exact obj_rejection_shape. Qed.
Print Assumptions C15_obj_rejection_shape.

Theorem C15_inst_obj_rejection_shape :
  forall (vt : ConfigInst.vtable) (o : cop) (w : world) (pre : str) (c : icfg) (dyn : bool) (vs : list N) (fs : list (str * inode)) (w' : world) (c' : icfg) (e : errk), apply_cop leaf lvalidate lto_python ldefault l_callable lflag (vrun vt) w pre c dyn vs fs o = (w', c', OErr e) -> match o with | CSetObj k _ => e = EAttribute \/ e = EValidation (path_join pre k) | CSetIdxObj k i _ => exists l : list icfg, dget k (c_data c) = Some (VList l) /\ (e = EIndex /\ (Datatypes.length l <= i)%nat \/ verr_below (path_index (path_join pre k) (N.of_nat (Datatypes.length l))) e) | CAppendObj k _ | CInsertObj k _ _ => exists l : list icfg, dget k (c_data c) = Some (VList l) /\ verr_below (path_index (path_join pre k) (N.of_nat (Datatypes.length l))) e | _ => True end.
Proof. exact inst_obj_rejection_shape. Qed.
Print Assumptions C15_inst_obj_rejection_shape.

(* ---- entries of typed dict fields (DictProxy, model DictModel.v): every refusal is the validation error whose
   reference path is "<configuration path>.<field>[<key>]" with <key> the key AS GIVEN of the FIRST offending pair in
   the order the operation validates its pairs; the error value carries key_text k, the stream composes
   entry_path "<configuration path>.<field>" (key_text k).  VK / VV: any key / value validators. ---- *)
From Cinco Require Import ListModel ListModelLemmas DictModel DictModelLemmas.

Theorem C15_dict_rejection_entry :
  forall (VK VV : pyval -> res pyval) (tg : N) (s : pairs) (op : dop) (s' : pairs) (e : errk), dop_validating op = true -> kw_clash op = false -> proxy_dstep VK VV tg s op = (s', Err e) -> exists k : pyval, first_bad VK VV (dchecked s op) = Some k /\ e = EValidation (key_text k).
Proof. exact dict_rejection_entry. Qed.
Print Assumptions C15_dict_rejection_entry.

(* what "first offending" means: the named entry is one the operation was asked to store, it is not acceptable, and
   every pair validated before it is acceptable -- the path never names an acceptable entry *)
Theorem C15_dict_first_bad_spec :
  forall (VK VV : pyval -> res pyval) (ps : pairs) (k : pyval),
    first_bad VK VV ps = Some k ->
    exists before v after, ps = before ++ (k, v) :: after /\
                           forallb (pair_ok VK VV) before = true /\ pair_ok VK VV (k, v) = false.
Proof. exact first_bad_spec. Qed.
Print Assumptions C15_dict_first_bad_spec.

(* whole-value assignment / constructor keyword / load of a plain dict (DictField._validate builds the proxy) *)
Theorem C15_dict_init_rejection :
  forall (VK VV : pyval -> res pyval) (items : pairs) (e : errk), dp_init VK VV false items = Err e -> exists k : pyval, first_bad VK VV items = Some k /\ e = EValidation (key_text k).
Proof. exact dict_init_rejection. Qed.
Print Assumptions C15_dict_init_rejection.

(* an operation whose pairs are all acceptable never reports a validation error *)
Theorem C15_dict_accepted_no_validation_error :
  forall (VK VV : pyval -> res pyval) (tg : N) (s : pairs) (op : dop) (s' : pairs) (p : str), kw_clash op = false -> daccepted VK VV s op = true -> proxy_dstep VK VV tg s op <> (s', Err (EValidation p)).
Proof. exact dict_accepted_no_validation_error. Qed.
Print Assumptions C15_dict_accepted_no_validation_error.
