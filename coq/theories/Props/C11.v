(* Property C11 — a load that returns means required fields are set and every validator passed
   Property theorems only: every statement is proved in the *Lemmas files. *)
From Coq Require Import ZArith NArith String List Bool.
From Cinco Require Import Base Config ConfigLemmas.
Import ListNotations.

Theorem C11_collect_iff_raise :
  forall (F : Type) (lvalidate : F -> pyval -> res pyval) (lflag : F -> bool) (vrun : N -> list (str * pyval) -> bool) (nd : node F) (pre : str) (v : val), validate_errs F lvalidate lflag vrun nd pre v <> [] <-> validate_raise F lvalidate lflag vrun nd pre v <> OOk.
Proof. exact collect_iff_raise. Qed.
Print Assumptions C11_collect_iff_raise.

Theorem C11_load_returns_validated :
  forall (F : Type) (lvalidate lto_python : F -> pyval -> res pyval) (ldefault : F -> N -> pyval) (lcallable lflag : F -> bool) (vrun : N -> list (str * pyval) -> bool) (t : pyval) (w : world) (pre : str) (c : cfg) (dyn : bool) (vs : list N) (fs : list (str * node F)) (w' : world) (c' : cfg), load_tree F lvalidate lto_python ldefault lcallable lflag vrun t true w pre c dyn vs fs = (w', c', OOk) -> validate_errs F lvalidate lflag vrun (NSub dyn vs fs) pre (VCfg c') = [].
Proof. exact load_returns_validated. Qed.
Print Assumptions C11_load_returns_validated.

Theorem C11_validated_means :
  forall (F : Type) (lvalidate : F -> pyval -> res pyval) (lflag : F -> bool) (vrun : N -> list (str * pyval) -> bool) (dyn : bool) (vs : list N) (fs : list (str * node F)) (pre : str) (i : N) (d : list (str * val)) (df dy : list str), validate_errs F lvalidate lflag vrun (NSub dyn vs fs) pre (VCfg (Cfg i d df dy)) = [] -> feature_enabled F lflag fs d = true -> (forall (k : str) (f : F) (x : pyval), In (k, NLeaf f) fs -> dget k d = Some (VLeaf x) -> forall e : errk, lvalidate f x <> Err e) /\ (forall (k : str) (req : bool) (vs' : list N) (fs' : list (str * node F)), In (k, NCfgList req vs' fs') fs -> req = true -> dget k d <> Some (VLeaf PNone) /\ dget k d <> Some (VList [])) /\ (forall (k : str) (req : bool) (vs' : list N) (fs' : list (str * node F)) (l : list cfg), In (k, NCfgList req vs' fs') fs -> dget k d = Some (VList l) -> items_errs F lvalidate lflag vrun vs' fs' (path_join pre k) l 0 = []) /\ (forall (k : str) (d' : bool) (vs' : list N) (fs' : list (str * node F)) (sub : cfg), In (k, NSub d' vs' fs') fs -> dget k d = Some (VCfg sub) -> validate_errs F lvalidate lflag vrun (NSub d' vs' fs') (path_join pre k) (VCfg sub) = []) /\ (forall n : N, In n vs -> vrun n (leaf_values d) = true).
Proof. exact validated_means. Qed.
Print Assumptions C11_validated_means.

Theorem C11_disabled_exempt :
  forall (F : Type) (lvalidate : F -> pyval -> res pyval) (lflag : F -> bool) (vrun : N -> list (str * pyval) -> bool) (dyn : bool) (vs : list N) (fs : list (str * node F)) (pre : str) (i : N) (d : list (str * val)) (df dy : list str), feature_enabled F lflag fs d = false -> validate_errs F lvalidate lflag vrun (NSub dyn vs fs) pre (VCfg (Cfg i d df dy)) = [].
Proof. exact disabled_exempt. Qed.
Print Assumptions C11_disabled_exempt.

Theorem C11_validate_errs_list :
  forall (F : Type) (lvalidate : F -> pyval -> res pyval) (lflag : F -> bool) (vrun : N -> list (str * pyval) -> bool) (req : bool) (vs : list N) (fs : list (str * node F)) (pre : str) (l : list cfg), validate_errs F lvalidate lflag vrun (NCfgList req vs fs) pre (VList l) = items_errs F lvalidate lflag vrun vs fs pre l 0.
Proof. exact validate_errs_list. Qed.
Print Assumptions C11_validate_errs_list.

