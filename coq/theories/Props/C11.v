(* Property C11 — a load that returns means required fields are set and every validator passed
   Property theorems only: every statement is proved in the *Lemmas files. *)
From Coq Require Import ZArith NArith String List Bool.
From Cinco Require Import Base Config ConfigLemmas.
Import ListNotations.

Theorem C11_collect_iff_raise :
  forall (F : Type) (lvalidate : F -> pyval -> res pyval) (lflag : F -> bool) (vrun : N -> list (str * pyval) -> bool) (nd : node F) (pre : str) (v : val), validate_errs F lvalidate lflag vrun nd pre v <> [] <-> validate_raise F lvalidate lflag vrun nd pre v <> OOk.
Proof. exact collect_iff_raise. Qed.
Print Assumptions C11_collect_iff_raise.

Theorem C11_load_returns_validated :
  forall (F : Type) (lvalidate lto_python : F -> pyval -> res pyval) (ldefault : F -> N -> pyval) (lcallable lflag : F -> bool) (vrun : N -> list (str * pyval) -> bool) (t : pyval) (w : world) (pre : str) (c : cfg) (dyn : bool) (vs : list N) (fs : list (str * node F)) (w' : world) (c' : cfg), load_tree F lvalidate lto_python ldefault lcallable lflag vrun t true w pre c dyn vs fs = (w', c', OOk) -> validate_errs F lvalidate lflag vrun (NSub dyn vs fs) pre (VCfg c') = [].
Proof. exact load_returns_validated. Qed.
Print Assumptions C11_load_returns_validated.

Theorem C11_validated_means :
  forall (F : Type) (lvalidate : F -> pyval -> res pyval) (lflag : F -> bool) (vrun : N -> list (str * pyval) -> bool) (dyn : bool) (vs : list N) (fs : list (str * node F)) (pre : str) (i : N) (d : list (str * val)) (df dy : list str), validate_errs F lvalidate lflag vrun (NSub dyn vs fs) pre (VCfg (Cfg i d df dy)) = [] -> feature_enabled F lflag fs d = true -> (forall (k : str) (f : F) (x : pyval), In (k, NLeaf f) fs -> dget k d = Some (VLeaf x) -> forall e : errk, lvalidate f x <> Err e) /\ (forall (k : str) (req : bool) (vs' : list N) (fs' : list (str * node F)) (fs'q : option (bool * list pyval)), In (k, NCfgList req vs' fs' fs'q) fs -> req = true -> dget k d <> Some (VLeaf PNone) /\ dget k d <> Some (VList [])) /\ (forall (k : str) (req : bool) (vs' : list N) (fs' : list (str * node F)) (fs'q : option (bool * list pyval)) (l : list cfg), In (k, NCfgList req vs' fs' fs'q) fs -> dget k d = Some (VList l) -> items_errs F lvalidate lflag vrun vs' fs' (path_join pre k) l 0 = []) /\ (forall (k : str) (d' : bool) (vs' : list N) (fs' : list (str * node F)) (sub : cfg), In (k, NSub d' vs' fs') fs -> dget k d = Some (VCfg sub) -> validate_errs F lvalidate lflag vrun (NSub d' vs' fs') (path_join pre k) (VCfg sub) = []) /\ (forall n : N, In n vs -> vrun n (leaf_values d) = true).
Proof. exact validated_means. Qed.
Print Assumptions C11_validated_means.

Theorem C11_disabled_exempt :
  forall (F : Type) (lvalidate : F -> pyval -> res pyval) (lflag : F -> bool) (vrun : N -> list (str * pyval) -> bool) (dyn : bool) (vs : list N) (fs : list (str * node F)) (pre : str) (i : N) (d : list (str * val)) (df dy : list str), feature_enabled F lflag fs d = false -> validate_errs F lvalidate lflag vrun (NSub dyn vs fs) pre (VCfg (Cfg i d df dy)) = [].
Proof. exact disabled_exempt. Qed.
Print Assumptions C11_disabled_exempt.

Theorem C11_validate_errs_list :
  forall (F : Type) (lvalidate : F -> pyval -> res pyval) (lflag : F -> bool) (vrun : N -> list (str * pyval) -> bool) (req : bool) (vs : list N) (fs : list (str * node F)) (fsq : option (bool * list pyval)) (pre : str) (l : list cfg), validate_errs F lvalidate lflag vrun (NCfgList req vs fs fsq) pre (VList l) = items_errs F lvalidate lflag vrun vs fs pre l 0.
Proof. exact validate_errs_list. Qed.
Print Assumptions C11_validate_errs_list.

(* configuration objects offered to a list of configurations (append / item assignment / insert) are validated as a whole, against the item schema, before they are taken; and whether validation finds anything does not depend on the reference path *)

Theorem C11_obj_item_validated :
  forall (F : Type) (lvalidate lto_python : F -> pyval -> res pyval) (ldefault : F -> N -> pyval) (lcallable lflag : F -> bool) (vrun : N -> list (str * pyval) -> bool) (o : cop) (k : str) (src : cfg) (w : world) (pre : str) (c : cfg) (dyn : bool) (vs : list N) (fs : list (str * node F)) (w' : world) (c' : cfg), obj_list_op o = Some (k, src) -> apply_cop F lvalidate lto_python ldefault lcallable lflag vrun w pre c dyn vs fs o = (w', c', OOk) -> exists (req : bool) (vs' : list N) (fs' : list (str * node F)) (fs'q : option (bool * list pyval)) (l l' : list cfg), fget F k fs = Some (NCfgList req vs' fs' fs'q) /\ dget k (c_data c) = Some (VList l) /\ validate_errs F lvalidate lflag vrun (NSub false vs' fs') (path_index (path_join pre k) (N.of_nat (Datatypes.length l))) (VCfg src) = [] /\ dget k (c_data c') = Some (VList l') /\ In src l'.
Proof. exact obj_item_validated. Qed.
Print Assumptions C11_obj_item_validated.

Theorem C11_validation_path_independent :
  forall (F : Type) (lvalidate : F -> pyval -> res pyval) (lflag : F -> bool) (vrun : N -> list (str * pyval) -> bool) (nd : node F) (pre pre' : str) (v : val), validate_errs F lvalidate lflag vrun nd pre v = [] -> validate_errs F lvalidate lflag vrun nd pre' v = [].
Proof. exact validation_path_independent. Qed.
Print Assumptions C11_validation_path_independent.

Theorem C11_obj_item_held_valid :
  forall (F : Type) (lvalidate lto_python : F -> pyval -> res pyval) (ldefault : F -> N -> pyval) (lcallable lflag : F -> bool) (vrun : N -> list (str * pyval) -> bool) (o : cop) (k : str) (src : cfg) (w : world) (pre : str) (c : cfg) (dyn : bool) (vs : list N) (fs : list (str * node F)) (w' : world) (c' : cfg), obj_list_op o = Some (k, src) -> apply_cop F lvalidate lto_python ldefault lcallable lflag vrun w pre c dyn vs fs o = (w', c', OOk) -> exists (req : bool) (vs' : list N) (fs' : list (str * node F)) (fs'q : option (bool * list pyval)) (l' : list cfg), fget F k fs = Some (NCfgList req vs' fs' fs'q) /\ dget k (c_data c') = Some (VList l') /\ In src l' /\ (forall p : str, validate_errs F lvalidate lflag vrun (NSub false vs' fs') p (VCfg src) = []).
Proof. exact obj_item_held_valid. Qed.
Print Assumptions C11_obj_item_held_valid.

From Cinco Require Import ConfigInst ConfigInstLemmas.

(* what the code does with an object ASSIGNED to a sub-configuration slot: it is taken unvalidated; the unset required field is reported by the next whole-configuration validation (witness by computation on the concrete leaf instance), whereas the same object offered to a list is refused on the spot *)

Theorem C11_set_obj_unvalidated_refuted :
  let '(w1, c1, o1) := ex_obj_do ex_obj_w ex_obj_root [] ex_unset in let '(_, c2, o2) := ex_obj_do w1 c1 [] (XOp (CValidate false)) in o1 = OOk /\ defined c1 (sa "sub") = true /\ dget (sa "sub") (c_data c1) = Some (VCfg (snd (detached leaf lvalidate lto_python ldefault l_callable lflag (vrun []) ex_obj_w false [] ex_need []))) /\ o2 = OErr (EValidation (sa "sub.need")) /\ c2 = c1.
Proof. exact set_obj_unvalidated_refuted. Qed.
Print Assumptions C11_set_obj_unvalidated_refuted.

Theorem C11_append_obj_rejected :
  let '(w1, c1, _) := ex_obj_do ex_obj_w ex_obj_root [] (XOp (CSet (sa "items") (PList 0 []))) in let '(w2, c2, o2) := ex_obj_do w1 c1 [] (XObj RAppend (sa "items") false [] ex_need []) in let '(w3, c3, o3) := ex_obj_do w2 c2 [] (ex_set RAppend (sa "items")) in let '(_, c4, o4) := ex_obj_do w3 c3 [] (XObj (RInsert 0) (sa "items") false [] ex_need []) in o2 = OErr (EValidation (sa "items[0].need")) /\ c2 = c1 /\ o3 = OOk /\ dget (sa "items") (c_data c3) = Some (VList [snd (detached leaf lvalidate lto_python ldefault l_callable lflag (vrun []) w2 false [] ex_need [([], CSet (sa "need") (PInt 4))])]) /\ o4 = OErr (EValidation (sa "items[1].need")) /\ c4 = c3.
Proof. exact append_obj_rejected. Qed.
Print Assumptions C11_append_obj_rejected.

Theorem C11_reoffered_obj_rejected_again :
  let '(w1, c1, _) := ex_obj_do ex_obj_w ex_obj_root [] (XOp (CSet (sa "items") (PList 0 []))) in let '(w2, k2, c2, o2) := ex_obj_dos w1 None c1 (XObj RAppend (sa "items") false [] ex_need []) in let '(w3, k3, c3, o3) := ex_obj_dos w2 k2 c2 (XAgain RAppend (sa "items") []) in let '(w4, k4, c4, o4) := ex_obj_dos w3 k3 c3 (XAgain (RInsert 0) (sa "items") [([], CSet (sa "need") (PInt 4))]) in let '(_, _, c5, o5) := ex_obj_dos w4 k4 c4 (XAgain RAppend (sa "items") []) in o2 = OErr (EValidation (sa "items[0].need")) /\ o3 = o2 /\ c3 = c1 /\ o4 = OOk /\ k4 = None /\ o5 = OUnm /\ c5 = c4 /\ (exists it : cfg, dget (sa "items") (c_data c4) = Some (VList [it]) /\ dget (sa "need") (c_data it) = Some (VLeaf (PInt 4))).
Proof. exact reoffered_obj_rejected_again. Qed.
Print Assumptions C11_reoffered_obj_rejected_again.

(* default items of a list of configurations: validated when they are built, and held to the rule afterwards like any other item -- the default mark plays no role in whole-configuration validation *)

Theorem C11_default_items_validated :
  forall (F : Type) (lvalidate lto_python : F -> pyval -> res pyval) (ldefault : F -> N -> pyval) (lcallable lflag : F -> bool) (vrun : N -> list (str * pyval) -> bool) (vs : list N) (fs' : list (str * node F)) (maps : list pyval) (w w' : world) (l : list icfg), build_items F lvalidate lto_python ldefault lcallable lflag vrun vs fs' maps w [] = (w', Some l) -> Datatypes.length l = Datatypes.length maps /\ (forall (it : icfg) (p : str), In it l -> validate_errs F lvalidate lflag vrun (NSub false vs fs') p (VCfg it) = []).
Proof. exact default_items_validated. Qed.
Print Assumptions C11_default_items_validated.

Theorem C11_default_marked_list_validated :
  forall (F : Type) (lvalidate : F -> pyval -> res pyval) (lflag : F -> bool) (vrun : N -> list (str * pyval) -> bool) (dyn : bool) (vs : list N) (fs : list (str * node F)) (pre : str) (i : N) (d : list (str * val)) (df dy : list str) (k : str) (req : bool) (vs' : list N) (fs' : list (str * node F)) (dfl : option (bool * list pyval)) (l : list icfg), validate_errs F lvalidate lflag vrun (NSub dyn vs fs) pre (VCfg (Cfg i d df dy)) = [] -> feature_enabled F lflag fs d = true -> In (k, NCfgList req vs' fs' dfl) fs -> smem k df = true -> dget k d = Some (VList l) -> items_errs F lvalidate lflag vrun vs' fs' (path_join pre k) l 0 = [] /\ (req = true -> l <> []).
Proof. exact default_marked_list_validated. Qed.
Print Assumptions C11_default_marked_list_validated.

Theorem C11_default_list_built :
  dget (sa "items") (c_data ex_dflt_root) = Some (VList [Cfg 1 [(sa "n", VLeaf (PInt 1)); (sa "s", VLeaf (PStr (sa "d")))] [sa "s"] []; Cfg 2 [(sa "n", VLeaf (PInt 2)); (sa "s", VLeaf (PStr (sa "abc")))] [] []]) /\ defined ex_dflt_root (sa "items") = false /\ validate_errs leaf lvalidate lflag (vrun []) (NSub false [] ex_fs_dflt) [] (VCfg ex_dflt_root) = [].
Proof. exact default_list_built. Qed.
Print Assumptions C11_default_list_built.

Theorem C11_default_list_item_held_to_the_rule :
  let step := fun (c : icfg) (ps : list pstep) (o : cop) => at_path leaf lvalidate lto_python ldefault l_callable lflag (vrun []) ps ex_dflt_w [] c false [] ex_fs_dflt o in let '(_, c1, o1) := step ex_dflt_root [PItem (sa "items") 0] (CReset (sa "n")) in let '(_, c2, o2) := step c1 [] (CValidate false) in let '(_, c3, o3) := step c2 [] (CReset (sa "items")) in let '(_, _, o4) := step c3 [] (CValidate false) in o1 = OOk /\ defined c1 (sa "items") = false /\ o2 = OErr (EValidation (sa "items[0].n")) /\ o3 = OOk /\ o4 = OOk /\ map fst (ids_cfg [] c3) = [[]; sa "items[0]"; sa "items[1]"] /\ map snd (ids_cfg [] c3) = [0; 3; 4].
Proof. exact default_list_item_held_to_the_rule. Qed.
Print Assumptions C11_default_list_item_held_to_the_rule.
