(* Property C13 — configurations of one schema share no state and never alter the schema.
   This file contains the property theorems only; each is closed by `exact` of a lemma of
   AliasLemmas.v and followed by Print Assumptions.

   Vocabulary (Alias.v / AliasLemmas.v): `arises d st sigma w` = the schema text `st` was written
   (its default literals became heap objects owned by the schema `sigma`) and then any history of
   builds and operations ran, giving the world `w` (heap + the configurations built so far);
   `wrun true d sigma w evs` = a further history under the repaired code (deep = true);
   `not_on j evs` = no event of `evs` operates on configuration number j;
   `reach h r l` = location l is reachable from r; `snap n h v` = deep snapshot to depth n;
   `spec_ok st` = the schema text is inside the model (bare fields have scalar defaults, no
   Config objects inside defaults: the open finding F46). *)
From Coq Require Import ZArith NArith List Bool.
From Cinco Require Import Base Alias AliasLemmas.
Import ListNotations.

Theorem C13_sep_inv : forall d st sigma w, spec_ok st = true -> arises d st sigma w ->
  (forall i j ri rj l, i <> j -> nth_error (wroots w) i = Some ri -> nth_error (wroots w) j = Some rj ->
                       reach (wh w) ri l -> ~ reach (wh w) rj l) /\
  (forall i ri dl l, nth_error (wroots w) i = Some ri -> In (VRef dl) (default_vals sigma) ->
                     reach (wh w) ri l -> ~ reach (wh w) dl l).
Proof. exact sep_inv. Qed.
Print Assumptions C13_sep_inv.

Theorem C13_frame_config : forall d st sigma w evs j rj, spec_ok st = true -> arises d st sigma w ->
  not_on j evs -> nth_error (wroots w) j = Some rj ->
  let w' := wrun true d sigma w evs in
  nth_error (wroots w') j = Some rj /\
  (forall l, reach (wh w) rj l -> lookup (wh w') l = lookup (wh w) l) /\
  (forall l, reach (wh w) rj l -> reach (wh w') rj l) /\
  (forall n, snap n (wh w') (VRef rj) = snap n (wh w) (VRef rj)).
Proof. exact frame_config. Qed.
Print Assumptions C13_frame_config.

Theorem C13_frame_defaults : forall d st sigma w evs v, spec_ok st = true -> arises d st sigma w ->
  In v (default_vals sigma) ->
  let w' := wrun true d sigma w evs in
  (forall dl l, v = VRef dl -> reach (wh w) dl l -> lookup (wh w') l = lookup (wh w) l) /\
  (forall n, snap n (wh w') v = snap n (wh w) v).
Proof. exact frame_defaults. Qed.
Print Assumptions C13_frame_defaults.

Theorem C13_observe_unchanged : forall d st sigma w evs j rj n, spec_ok st = true -> arises d st sigma w ->
  not_on j evs -> nth_error (wroots w) j = Some rj ->
  let w' := wrun true d sigma w evs in
  snap n (wh w') (VRef rj) = snap n (wh w) (VRef rj) /\
  map (snap n (wh w')) (default_vals sigma) = map (snap n (wh w)) (default_vals sigma).
Proof. exact observe_unchanged. Qed.
Print Assumptions C13_observe_unchanged.

Theorem C13_dynamic_stays : forall d st sigma w evs j rj o, spec_ok st = true -> arises d st sigma w ->
  not_on j evs -> nth_error (wroots w) j = Some rj -> lookup (wh w) rj = Some o ->
  lookup (wh (wrun true d sigma w evs)) rj = Some o.
Proof. exact dynamic_stays. Qed.
Print Assumptions C13_dynamic_stays.

Theorem C13_sep_refuted_shallow : exists st evs o,
  spec_ok st = true /\
  snap_of false st (evs ++ [EOp 0 o]) 1 <> snap_of false st evs 1 /\
  defaults_of false st (evs ++ [EOp 0 o]) <> defaults_of false st evs.
Proof. exact sep_refuted_shallow. Qed.
Print Assumptions C13_sep_refuted_shallow.

Theorem C13_sep_refuted_F46 : exists st evs o,
  known_F46 st = true /\
  snap_of true st (evs ++ [EOp 0 o]) 1 <> snap_of true st evs 1 /\
  defaults_of true st (evs ++ [EOp 0 o]) <> defaults_of true st evs.
Proof. exact sep_refuted_F46. Qed.
Print Assumptions C13_sep_refuted_F46.

Theorem C13_partial_region : forall st, spec_ok st = true -> known_F46 st = false.
Proof. exact spec_ok_not_F46. Qed.
Print Assumptions C13_partial_region.

Theorem C13_combine_pure : forall d h base child h' v, hcombine d h base child = Some (h', v) ->
  length h <= length h' /\ forall l, l < length h -> lookup h' l = lookup h l.
Proof. exact combine_pure. Qed.
Print Assumptions C13_combine_pure.
