(* Property C07 — key files: used verbatim, created once, rejected if malformed, never retained.
   This file contains the property theorems only; each is closed by `exact` of a lemma of
   KeyFileLemmas.v and followed by Print Assumptions. *)
From Coq Require Import ZArith NArith List Bool.
From Cinco Require Import Base Crypto KeyFile KeyFileLemmas.
Import ListNotations.
Open Scope Z_scope.

Theorem C07_valid_verbatim : forall k w ops,
  w_file w = Some k -> keys_in k w -> Forall not_ext ops ->
  w_file (fst (krun w ops)) = Some k /\
  keys_in k (fst (krun w ops)) /\
  Forall2 (uses_key k) ops (snd (krun w ops)).
Proof. exact valid_verbatim. Qed.
Print Assumptions C07_valid_verbatim.

Theorem C07_created_once : forall r rest w ops,
  w_writable w = true -> w_file w = None -> w_rng w = r :: rest -> no_keys w -> Forall not_ext ops ->
  let w' := fst (krun w ops) in
  ((w_file w' = None /\ w_rng w' = r :: rest /\ no_keys w') \/
   (w_file w' = Some r /\ w_rng w' = rest /\ keys_in r w')) /\
  Forall2 (uses_key r) ops (snd (krun w ops)).
Proof. exact created_once. Qed.
Print Assumptions C07_created_once.

Theorem C07_first_enter_creates : forall r rest w i o,
  w_writable w = true -> w_file w = None -> w_rng w = r :: rest ->
  nth_error (w_objs w) i = Some o -> k_key o = None ->
  w_file (fst (kstep w (KEnter i))) = Some r /\ snd (kstep w (KEnter i)) = KOk.
Proof. exact first_enter_creates. Qed.
Print Assumptions C07_first_enter_creates.

Theorem C07_malformed_rejected : forall c w ops,
  length c <> 32%nat -> w_file w = Some c -> no_keys w -> Forall not_ext ops ->
  w_file (fst (krun w ops)) = Some c /\
  no_keys (fst (krun w ops)) /\
  Forall2 rejected ops (snd (krun w ops)).
Proof. exact malformed_rejected. Qed.
Print Assumptions C07_malformed_rejected.

Theorem C07_closed_no_key : forall ops w,
  world_ok w -> nested w ops ->
  forall o, In o (w_objs (fst (krun w ops))) -> k_ref o = 0 -> k_key o = None.
Proof. exact closed_no_key. Qed.
Print Assumptions C07_closed_no_key.

Theorem C07_only_in_context : forall w i o m d b,
  world_ok w -> nth_error (w_objs w) i = Some o ->
  cipher o m d = KOkBytes m b \/ cipher o m d = KOkAes -> 0 < k_ref o.
Proof. exact only_in_context. Qed.
Print Assumptions C07_only_in_context.

Theorem C07_nested_share : forall w op i o o',
  world_ok w -> nested_op w op ->
  nth_error (w_objs w) i = Some o -> nth_error (w_objs (fst (kstep w op))) i = Some o' ->
  0 < k_ref o -> 0 < k_ref o' -> k_key o' = k_key o.
Proof. exact nested_share. Qed.
Print Assumptions C07_nested_share.
