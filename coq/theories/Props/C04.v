From Coq Require Import ZArith NArith List Bool.
From Cinco Require Import Base Formats.
Theorem C04_tmp : True. Proof. exact I. Qed.
Print Assumptions C04_tmp.
