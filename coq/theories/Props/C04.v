(* Property C04 — each file format decodes what it encodes, types intact, and all formats agree.
   Property theorems only.  `L : lib B` collects everything that is not code of the repository
   (str(float)/float(str), ElementTree+minidom, PyYAML, json, bson, pickle, each library's representable
   domain); `lib_laws L` are the round-trip laws assumed of them (Formats.v). *)
From Coq Require Import ZArith NArith List Bool SpecFloat.
From Cinco Require Import Base Str Formats FormatsLemmas.
Import ListNotations.

(* int(str(z)) == z: the integer text written by _to_element is read back exactly, for every integer *)
Theorem C04_int_text_inverse : forall z, parse_int (str_of_Z z) = Some z.
Proof. exact parse_str_of_Z. Qed.
Print Assumptions C04_int_text_inverse.

(* (1) XML codec: _from_element inverts _to_element on every well-formed tree, under any key *)
Theorem C04_xml_from_to_element : forall B (L : lib B), lib_laws L -> forall k v,
  wf v = true -> from_element (l_float_of_str L) None (to_element (l_str_of_float L) k v) = Ok v.
Proof. exact L_from_to_element. Qed.
Print Assumptions C04_xml_from_to_element.

(* ... also after printing, pretty-printing and parsing (indentation text in parents, None for empty text) *)
Theorem C04_xml_from_parsed : forall B (L : lib B), lib_laws L -> forall k v e',
  wf v = true -> elem_sim (to_element (l_str_of_float L) k v) e' -> from_element (l_float_of_str L) None e' = Ok v.
Proof. exact L_from_to_parsed. Qed.
Print Assumptions C04_xml_from_parsed.

(* (2) XML documents: loads (dumps t) = t for every tree of the XML domain and every root tag *)
Theorem C04_xml_roundtrip : forall B (L : lib B), lib_laws L -> forall rt m,
  representable L (FXml rt) m -> loads L (FXml rt) (dumps L (FXml rt) m) = Ok (VMap m).
Proof. exact L_xml_roundtrip. Qed.
Print Assumptions C04_xml_roundtrip.

(* (3) a document with another root tag is rejected with ValueError *)
Theorem C04_xml_wrong_root_rejected : forall B (L : lib B), lib_laws L -> forall rt rt' m,
  representable L (FXml rt) m -> rt <> rt' -> loads L (FXml rt') (dumps L (FXml rt) m) = Err EValue.
Proof. exact L_xml_wrong_root. Qed.
Print Assumptions C04_xml_wrong_root_rejected.

(* (4) YAML: every root_key (None, "", any key, a key occurring in the tree) decodes to the tree (keys sorted) *)
Theorem C04_yaml_roundtrip_any_root_key : forall B (L : lib B), lib_laws L -> forall rk m,
  representable L (FYaml rk) m -> loads L (FYaml rk) (dumps L (FYaml rk) m) = Ok (sort_keys (VMap m)).
Proof. exact L_yaml_roundtrip. Qed.
Print Assumptions C04_yaml_roundtrip_any_root_key.

(* (4) options never change the decoded result: two instances of one format class, any option values *)
Theorem C04_options_irrelevant : forall B (L : lib B), lib_laws L -> forall f g m,
  same_class f g = true -> representable L f m -> representable L g m ->
  loads L f (dumps L f m) = loads L g (dumps L g m).
Proof. exact L_options_irrelevant. Qed.
Print Assumptions C04_options_irrelevant.

Theorem C04_json_pretty_irrelevant : forall B (L : lib B), lib_laws L -> forall p p' q q' m,
  representable L (FJson p) m -> loads L (FJson q) (dumps L (FJson p) m) = loads L (FJson q') (dumps L (FJson p') m).
Proof. exact L_json_pretty_irrelevant. Qed.
Print Assumptions C04_json_pretty_irrelevant.

(* (5) every format maps a tree of its domain back to the same tree, hence all formats agree *)
Theorem C04_formats_agree : forall B (L : lib B), lib_laws L -> forall f g m,
  representable L f m -> representable L g m ->
  exists v w, loads L f (dumps L f m) = Ok v /\ loads L g (dumps L g m) = Ok w
              /\ same_tree v (VMap m) /\ same_tree w (VMap m).
Proof. exact L_formats_agree. Qed.
Print Assumptions C04_formats_agree.

(* same_tree's second alternative (YAML) only reorders keys: same key set, same lookups *)
Theorem C04_sorted_tree_same_lookups : forall m k, NoDup (map fst m) ->
  sort_keys (VMap m) = VMap (sorted_entries m) /\
  assoc str_eqb k (sorted_entries m) = option_map sort_keys (assoc str_eqb k m).
Proof. exact sort_keys_lookup. Qed.
Print Assumptions C04_sorted_tree_same_lookups.

(* (6) registry: get(name) on a fresh registry returns the class listed under name in formats.FORMATS *)
Theorem C04_registry_builtin : forall name c, In (name, c) builtin_formats -> snd (reg_get name reg_fresh) = Ok c.
Proof. exact reg_get_builtin. Qed.
Print Assumptions C04_registry_builtin.

(* the exact lookup rule in every registry state (initialize_registry merges the built-ins on first use) *)
Theorem C04_registry_get_spec : forall name s,
  snd (reg_get name s) =
    if r_init s then reg_lookup name (r_tab s)
    else match assoc str_eqb name builtin_formats with
         | Some c => Ok c
         | None => reg_lookup name (r_tab s)
         end.
Proof. exact reg_get_spec. Qed.
Print Assumptions C04_registry_get_spec.

Theorem C04_registry_registered : forall s name c,
  r_init s = true \/ assoc str_eqb name builtin_formats = None ->
  snd (reg_get name (reg_register name c s)) = Ok c.
Proof. exact reg_get_registered. Qed.
Print Assumptions C04_registry_registered.

Theorem C04_registry_other_names_untouched : forall s name name' c, name' <> name ->
  snd (reg_get name' (reg_register name c s)) = snd (reg_get name' s).
Proof. exact reg_register_other. Qed.
Print Assumptions C04_registry_other_names_untouched.
