(* Property C03 — secrets are stored only encrypted and decrypt with the configuration's key file.
   This file contains the property theorems only; each is closed by `exact` of a lemma of
   SecretsLemmas.v and followed by Print Assumptions.  Model: Secrets.v. *)
From Coq Require Import ZArith NArith String List Bool.
From Cinco Require Import Base Secrets SecretsLemmas.
Import ListNotations.

(* (2) every configuration uses the key file of its nearest ancestor naming one, else the default:
   the code's computation (key file handed from parent to child, as `_keyfile` bubbles up) equals the
   declarative spec at every position of every tree *)
Theorem C03_kf_resolution : forall t p, kf_impl_at kf_default t p = kf_spec t p.
Proof. exact kf_resolution. Qed.
Print Assumptions C03_kf_resolution.

(* the spec read relationally: the last key file named on the path from the root, else the default *)
Theorem C03_kf_nearest : forall dflt owns k,
  nearest_from dflt owns = k <->
  (exists a b, owns = a ++ Some k :: b /\ Forall (fun o => o = None) b) \/
  (Forall (fun o => o = None) owns /\ k = dflt).
Proof. exact nearest_from_spec. Qed.
Print Assumptions C03_kf_nearest.

(* (1) a non-empty secret is written as {method: concrete, ciphertext: base64(enc ...)} under the key of
   the key file its configuration resolves to; the plaintext enters only through `enc` *)
Theorem C03_secret_leaf : forall aes enc b64 newkey fs t pos name s c r k,
  wf t -> secret_at t pos name = Some s -> s_val s = Some (c :: r) -> kf_spec t pos = Some k ->
  rt_field (to_tree aes enc b64 newkey fs t) pos name =
  Some (RMap [(sa "method", RStr (mname (concrete aes (s_method s))));
              (sa "ciphertext", RStr (b64 (enc (concrete aes (s_method s)) (key_of newkey fs k) (s_iv s) (c :: r))))]).
Proof. exact secret_leaf. Qed.
Print Assumptions C03_secret_leaf.

Theorem C03_method_concrete : forall aes m, concrete aes m <> SBest.
Proof. exact concrete_not_best. Qed.
Print Assumptions C03_method_concrete.

(* an empty or unset secret is written as null, and null loads as unset without opening a key file *)
Theorem C03_empty_leaf : forall aes enc b64 newkey fs t pos name s k,
  wf t -> secret_at t pos name = Some s -> nonempty (s_val s) = false -> kf_spec t pos = Some k ->
  rt_field (to_tree aes enc b64 newkey fs t) pos name = Some RNull.
Proof. exact empty_leaf. Qed.
Print Assumptions C03_empty_leaf.

Theorem C03_null_unset : forall aes dec unb64 newkey fs cur,
  to_python aes dec unb64 newkey fs cur RNull = Ok (None, []).
Proof. exact null_unset. Qed.
Print Assumptions C03_null_unset.

(* (3) the key files a dump opens are exactly the resolved key files of the non-empty secrets *)
Theorem C03_kf_trace_dump : forall aes enc b64 newkey fs t p,
  wf t ->
  (In p (to_tree_opens aes enc b64 newkey fs t) <->
   exists pos nd name s, node_at t pos = Some nd /\ In (name, s) (secs_of nd) /\
                         sec_nonempty s = true /\ kf_spec t pos = Some p).
Proof. exact kf_trace_dump. Qed.
Print Assumptions C03_kf_trace_dump.

(* ... so every file read or created by a dump is one of them *)
Theorem C03_kf_trace_effects : forall aes enc b64 newkey fs t p e,
  wf t -> In (p, e) (effects newkey fs (to_tree_opens aes enc b64 newkey fs t)) ->
  exists pos nd name s, node_at t pos = Some nd /\ In (name, s) (secs_of nd) /\
                        sec_nonempty s = true /\ kf_spec t pos = Some p.
Proof. exact kf_trace_effects. Qed.
Print Assumptions C03_kf_trace_effects.

Theorem C03_nothing_opened : forall aes enc b64 newkey fs t,
  wf t ->
  (forall pos nd name s, node_at t pos = Some nd -> In (name, s) (secs_of nd) -> sec_nonempty s = false) ->
  to_tree_opens aes enc b64 newkey fs t = [].
Proof. exact nothing_opened. Qed.
Print Assumptions C03_nothing_opened.

(* a load (of any document into any configuration) that returns opened only key files that are the
   resolved key file, in the loaded configuration, of a secret that came out set *)
Theorem C03_kf_trace_load : forall aes dec unb64 newkey fs tg doc t' ops p,
  load_tree aes dec unb64 newkey fs tg doc = Ok (t', ops) -> wf t' -> In p ops ->
  exists pos nd name s, node_at t' pos = Some nd /\ In (name, s) (secs_of nd) /\
                        s_val s <> None /\ kf_spec t' pos = Some p.
Proof. exact kf_trace_load. Qed.
Print Assumptions C03_kf_trace_load.

(* an existing key file is never created again, and a path yields the same key before and after *)
Theorem C03_no_recreate : forall newkey ops fs p,
  assoc_mem N.eqb p fs = true -> ~ In (p, EffCreate) (effects newkey fs ops).
Proof. exact effects_no_recreate. Qed.
Print Assumptions C03_no_recreate.

Theorem C03_key_stable : forall newkey ops fs p,
  key_of newkey (fs_after newkey fs ops) p = key_of newkey fs p.
Proof. exact key_stable. Qed.
Print Assumptions C03_key_stable.

(* (4) round trip into a new configuration object of the same schema given the same root key file,
   outside the region of the open finding F34 *)
Theorem C03_secret_roundtrip_partial : forall aes enc dec b64 unb64 newkey fs0 fs1,
  (forall m k iv p, m <> SBest -> dec m k (enc m k iv p) = Some p) ->
  (forall x, unb64 (b64 x) = Some x) ->
  (forall p, key_of newkey fs1 p = key_of newkey fs0 p) ->
  forall t tg,
  wf t -> known_F34 t = false -> fresh tg = fresh t -> own_of tg = own_of t ->
  exists t', load_tree aes dec unb64 newkey fs1 tg (to_tree aes enc b64 newkey fs0 t) =
             Ok (t', to_tree_opens aes enc b64 newkey fs0 t) /\
             plain t' = plain t.
Proof. exact secret_roundtrip_partial. Qed.
Print Assumptions C03_secret_roundtrip_partial.

(* new session: same file system as the dump left it, new objects *)
Theorem C03_secret_roundtrip_new_session : forall aes enc dec b64 unb64 newkey fs0,
  (forall m k iv p, m <> SBest -> dec m k (enc m k iv p) = Some p) ->
  (forall x, unb64 (b64 x) = Some x) ->
  forall t tg,
  wf t -> known_F34 t = false -> fresh tg = fresh t -> own_of tg = own_of t ->
  let fs1 := fs_after newkey fs0 (to_tree_opens aes enc b64 newkey fs0 t) in
  exists t', load_tree aes dec unb64 newkey fs1 tg (to_tree aes enc b64 newkey fs0 t) =
             Ok (t', to_tree_opens aes enc b64 newkey fs0 t) /\
             plain t' = plain t.
Proof. exact secret_roundtrip_new_session. Qed.
Print Assumptions C03_secret_roundtrip_new_session.

(* F34: inside the region the full statement is false of the faithful model *)
Theorem C03_secret_roundtrip_refuted :
  exists aes enc dec b64 unb64 newkey fs t tg,
    (forall m k iv p, m <> SBest -> dec m k (enc m k iv p) = Some p) /\
    (forall x, unb64 (b64 x) = Some x) /\
    wf t /\ fresh tg = fresh t /\ own_of tg = own_of t /\ known_F34 t = true /\
    ~ exists t' ops, load_tree aes dec unb64 newkey fs tg (to_tree aes enc b64 newkey fs t) = Ok (t', ops) /\
                     plain t' = plain t.
Proof. exact secret_roundtrip_refuted. Qed.
Print Assumptions C03_secret_roundtrip_refuted.
