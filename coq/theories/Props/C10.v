(* Property C10 — a sensitive-value mask hides every sensitive value at every depth of the tree
   Property theorems only: every statement is proved in MaskLemmas.v (model: Config.v tree_slot / to_tree). *)
From Coq Require Import ZArith NArith String List Bool.
From Cinco Require Import Base Config ConfigLemmas MaskLemmas.
Import ListNotations.

(* a (sub)configuration is rendered field by field, a list of configurations item by item, with the mask in force *)
Theorem C10_tree_slot_unfold_sub :
  forall (F : Type) (lto_basic : F -> pyval -> res pyval) (lsensitive : F -> bool) (py_strlen : pyval -> option nat) (mask : option str) (dy : bool) (vs : list N) (fs : list (str * node F)) (p : str) (c : cfg), tree_slot F lto_basic lsensitive py_strlen mask (NSub dy vs fs) p (VCfg c) = render_cfg (fields_of F lto_basic lsensitive py_strlen mask fs) p c.
Proof. exact tree_slot_unfold_sub. Qed.
Print Assumptions C10_tree_slot_unfold_sub.

Theorem C10_tree_slot_unfold_list :
  forall (F : Type) (lto_basic : F -> pyval -> res pyval) (lsensitive : F -> bool) (py_strlen : pyval -> option nat) (mask : option str) (rq : bool) (vs : list N) (fs : list (str * node F)) (fsq : option (bool * list pyval)) (p : str) (l : list cfg), tree_slot F lto_basic lsensitive py_strlen mask (NCfgList rq vs fs fsq) p (VList l) = list_result (render_items (render_cfg (fields_of F lto_basic lsensitive py_strlen mask fs)) p l 0).
Proof. exact tree_slot_unfold_list. Qed.
Print Assumptions C10_tree_slot_unfold_list.

(* with a mask, to_tree is the map over the schema that sends every sensitive leaf to mask_leaf and every other leaf to to_basic *)
Theorem C10_mask_tree :
  forall (F : Type) (lto_basic : F -> pyval -> res pyval) (lsensitive : F -> bool) (py_strlen : pyval -> option nat) (m : str) (nd : node F) (p : str) (v : val), tree_slot F lto_basic lsensitive py_strlen (Some m) nd p v = spec_slot F (fun (f : F) (q : str) (x : pyval) => if lsensitive f then mask_leaf py_strlen m x else basic_leaf F lto_basic f q x) nd p v.
Proof. exact mask_tree. Qed.
Print Assumptions C10_mask_tree.

(* without a mask nothing is altered *)
Theorem C10_mask_none :
  forall (F : Type) (lto_basic : F -> pyval -> res pyval) (lsensitive : F -> bool) (py_strlen : pyval -> option nat) (nd : node F) (p : str) (v : val), tree_slot F lto_basic lsensitive py_strlen None nd p v = spec_slot F (basic_leaf F lto_basic) nd p v.
Proof. exact mask_none. Qed.
Print Assumptions C10_mask_none.

Theorem C10_nonsensitive_identical :
  forall (F : Type) (lto_basic : F -> pyval -> res pyval) (lsensitive : F -> bool) (py_strlen : pyval -> option nat) (m : str) (nd : node F) (p : str) (v : val), (forall f : F, leaf_in nd f -> lsensitive f = false) -> tree_slot F lto_basic lsensitive py_strlen (Some m) nd p v = tree_slot F lto_basic lsensitive py_strlen None nd p v.
Proof. exact nonsensitive_identical. Qed.
Print Assumptions C10_nonsensitive_identical.

(* the masked rendering: None for a falsy value, a one-character mask once per character of str(value), any other mask verbatim *)
Theorem C10_mask_leaf_cases :
  forall (py_strlen : pyval -> option nat) (m : str) (x : pyval), (py_falsy x = true -> mask_leaf py_strlen m x = Ok PNone) /\ (py_falsy x = false -> forall (ch : N) (n : nat), m = [ch] -> py_strlen x = Some n -> mask_leaf py_strlen m x = Ok (PStr (repeat ch n))) /\ (py_falsy x = false -> Datatypes.length m <> 1%nat -> mask_leaf py_strlen m x = Ok (PStr m)).
Proof. exact mask_leaf_cases. Qed.
Print Assumptions C10_mask_leaf_cases.

Theorem C10_mask_leaf_never_value :
  forall (py_strlen : pyval -> option nat) (m : str) (x r : pyval), mask_leaf py_strlen m x = Ok r -> r = PNone \/ r = PStr m \/ (exists (ch : N) (n : nat), m = [ch] /\ py_strlen x = Some n /\ r = PStr (repeat ch n)).
Proof. exact mask_leaf_never_value. Qed.
Print Assumptions C10_mask_leaf_never_value.

(* at the position of every sensitive leaf -- any depth, inside list items -- the tree holds mask_leaf of the stored value *)
Theorem C10_sensitive_position_masked :
  forall (F : Type) (lto_basic : F -> pyval -> res pyval) (lsensitive : F -> bool) (py_strlen : pyval -> option nat) (m : str) (ps : list pstep) (fs : list (str * node F)) (c : cfg) (t : pyval) (f : F) (x : pyval), to_tree F lto_basic lsensitive py_strlen (Some m) fs c = Ok t -> leaf_at fs c ps = Some (f, x) -> lsensitive f = true -> exists r : pyval, out_at t ps = Some r /\ mask_leaf py_strlen m x = Ok r.
Proof. exact sensitive_position_masked. Qed.
Print Assumptions C10_sensitive_position_masked.

(* ... and at the position of every other leaf, with or without a mask, its to_basic value *)
Theorem C10_nonsensitive_position_plain :
  forall (F : Type) (lto_basic : F -> pyval -> res pyval) (lsensitive : F -> bool) (py_strlen : pyval -> option nat) (mask : option str) (ps : list pstep) (fs : list (str * node F)) (c : cfg) (t : pyval) (f : F) (x : pyval), to_tree F lto_basic lsensitive py_strlen mask fs c = Ok t -> leaf_at fs c ps = Some (f, x) -> lsensitive f = false -> exists r : pyval, out_at t ps = Some r /\ lto_basic f x = Ok r.
Proof. exact nonsensitive_position_plain. Qed.
Print Assumptions C10_nonsensitive_position_plain.

(* the masked tree does not depend on how sensitive values would have been converted ... *)
Theorem C10_mask_independent_of_sensitive_rendering :
  forall (F : Type) (lb1 lb2 : F -> pyval -> res pyval) (lsensitive : F -> bool) (py_strlen : pyval -> option nat) (m : str) (nd : node F) (p : str) (v : val), (forall (f : F) (x : pyval), lsensitive f = false -> lb1 f x = lb2 f x) -> tree_slot F lb1 lsensitive py_strlen (Some m) nd p v = tree_slot F lb2 lsensitive py_strlen (Some m) nd p v.
Proof. exact mask_independent_of_sensitive_rendering. Qed.
Print Assumptions C10_mask_independent_of_sensitive_rendering.

(* ... and two states that differ only in sensitive values of equal truthiness and text length give the same masked tree *)
Theorem C10_masked_noninterference :
  forall (F : Type) (lto_basic : F -> pyval -> res pyval) (lsensitive : F -> bool) (py_strlen : pyval -> option nat) (m : str) (nd : node F) (p : str) (v1 v2 : val), low_eq F lsensitive py_strlen nd v1 v2 -> tree_slot F lto_basic lsensitive py_strlen (Some m) nd p v1 = tree_slot F lto_basic lsensitive py_strlen (Some m) nd p v2.
Proof. exact masked_noninterference. Qed.
Print Assumptions C10_masked_noninterference.

(* masked and unmasked trees have the same keys in the same order at every level and lists of the same length *)
Theorem C10_mask_structure :
  forall (F : Type) (lto_basic : F -> pyval -> res pyval) (lsensitive : F -> bool) (py_strlen : pyval -> option nat) (m : str) (nd : node F) (p : str) (v : val) (t1 t2 : pyval), tree_slot F lto_basic lsensitive py_strlen (Some m) nd p v = Ok t1 -> tree_slot F lto_basic lsensitive py_strlen None nd p v = Ok t2 -> shape nd t1 t2.
Proof. exact mask_structure. Qed.
Print Assumptions C10_mask_structure.

Theorem C10_mask_same_keys :
  forall (F : Type) (lto_basic : F -> pyval -> res pyval) (lsensitive : F -> bool) (py_strlen : pyval -> option nat) (m : str) (fs : list (str * node F)) (c : cfg) (t1 t2 : pyval), to_tree F lto_basic lsensitive py_strlen (Some m) fs c = Ok t1 -> to_tree F lto_basic lsensitive py_strlen None fs c = Ok t2 -> exists d1 d2 : list (pyval * pyval), t1 = PDict 0 d1 /\ t2 = PDict 0 d2 /\ map fst d1 = map fst d2.
Proof. exact mask_same_keys. Qed.
Print Assumptions C10_mask_same_keys.
