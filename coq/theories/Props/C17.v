From Coq Require Import ZArith NArith List Bool.
From Cinco Require Import Base ListModel.
Theorem C17_list_table_ok : table_ok list_table = true.
Proof. reflexivity. Qed.
Print Assumptions C17_list_table_ok.
