(* Property C17 — typed list/dict values behave like the built-in list/dict of validated items.
   Property theorems only; each is closed by a lemma of ListModelLemmas.v / DictModelLemmas.v and
   followed by Print Assumptions.

   V (VK, VV) is the item (key, value) validator of the field: any function pyval -> res pyval.
   proxy_step / proxy_dstep : ListProxy / DictProxy as dispatched by the override tables;
   b_step / b_dstep         : the CPython builtin list / dict;
   spec_step s op = b_step s (norm_op s op), result re-tagged as typed for copy and +. *)
From Coq Require Import ZArith NArith String List Bool.
From Cinco Require Import Base ListModel ListModelLemmas DictModel DictModelLemmas.
Import ListNotations.
Open Scope Z_scope.

(* ---- override tables: no entry point that inserts caller-supplied items (or must return a typed
   container) resolves to the builtin slot.  The third column of the tables is compared with the
   running classes by stream `proxyops` on every check. ---- *)
Theorem C17_list_overrides :
  forallb (fun e => match e with (_, must, ov) => implb must ov end) list_table = true.
Proof. exact list_table_ok. Qed.
Print Assumptions C17_list_overrides.

Theorem C17_dict_overrides :
  forallb (fun e => match e with (_, must, ov) => implb must ov end) dict_table = true.
Proof. exact dict_table_ok. Qed.
Print Assumptions C17_dict_overrides.

Theorem C17_list_dispatch : forall op,
  lop_must_override op = true -> list_overridden (lop_entry op) = true.
Proof. exact must_override_dispatched. Qed.
Print Assumptions C17_list_dispatch.

Theorem C17_dict_dispatch : forall op,
  dop_must_override op = true -> dict_overridden (dop_entry op) = true.
Proof. exact dmust_override_dispatched. Qed.
Print Assumptions C17_dict_dispatch.

(* ---- refinement: with acceptable arguments a typed list is the builtin list fed the normalised
   items — same contents, order, length and return value, for every operation and iterable kind ---- *)
Theorem C17_list_refines : forall V tg s op,
  accepted V s op = true -> proxy_step V tg s op = spec_step V tg s op.
Proof. exact list_refines. Qed.
Print Assumptions C17_list_refines.

Theorem C17_list_run_refines : forall V tg s ops,
  accepted_run V tg s ops = true ->
  run (proxy_step V tg) s ops = run (spec_step V tg) s ops.
Proof. exact run_refines. Qed.
Print Assumptions C17_list_run_refines.

(* For dicts the full statement
     forall VK VV tg s op, daccepted VK VV s op = true -> proxy_dstep VK VV tg s op = spec_dstep VK VV tg s op
   is FALSE of the faithful model (open finding F51: DictProxy.update is not positional-only, the
   keyword form cannot carry the keys "self" / "iterable"): *)
Theorem C17_dict_refines_refuted :
  exists VK VV tg s op,
    daccepted VK VV s op = true /\ proxy_dstep VK VV tg s op <> spec_dstep VK VV tg s op.
Proof. exact dict_refines_refuted. Qed.
Print Assumptions C17_dict_refines_refuted.

(* ... and holds everywhere outside the boolean region kw_clash (= known_F51) *)
Theorem C17_dict_refines_partial : forall VK VV tg s op,
  kw_clash op = false ->
  daccepted VK VV s op = true -> proxy_dstep VK VV tg s op = spec_dstep VK VV tg s op.
Proof. exact dict_refines_partial. Qed.
Print Assumptions C17_dict_refines_partial.

Theorem C17_dict_run_refines_partial : forall VK VV tg s ops,
  forallb (fun op => negb (kw_clash op)) ops = true ->
  daccepted_run VK VV tg s ops = true ->
  run (proxy_dstep VK VV tg) s ops = run (spec_dstep VK VV tg) s ops.
Proof. exact drun_refines_partial. Qed.
Print Assumptions C17_dict_run_refines_partial.

(* ---- validated: every held item is a fixed point of the validator, after any history, whether the
   operations were accepted or refused (also the container lemma of C01) ---- *)
Theorem C17_list_all_valid : forall V tg, idem V -> forall raw s ops,
  p_init V false raw = Ok s -> Forall (op_wf V) ops ->
  Forall (valid V) (fst (run (proxy_step V tg) s ops)).
Proof. intros V tg Hi raw s ops E Hw. apply run_valid; auto. eapply init_valid; eauto. Qed.
Print Assumptions C17_list_all_valid.

Theorem C17_dict_all_valid : forall VK VV tg, didem VK VV -> forall raw s ops,
  dp_init VK VV false raw = Ok s -> Forall (dop_wf VK VV) ops ->
  Forall (dvalid VK VV) (fst (run (proxy_dstep VK VV tg) s ops)).
Proof. intros VK VV tg Hi raw s ops E Hw. apply drun_valid; auto. eapply dinit_valid; eauto. Qed.
Print Assumptions C17_dict_all_valid.

(* ---- typed: copy, + and the constructor return a typed container of valid items, += / |= return the
   container itself ---- *)
Theorem C17_list_typed_results : forall V tg, idem V -> forall s op s' r,
  Forall (valid V) s -> op_wf V op -> proxy_step V tg s op = (s', Ok r) ->
  match op with
  | LCopy | LAdd _ | LNew _ => exists l, r = PList tg l /\ Forall (valid V) l
  | LIAdd _ => r = self_marker /\ Forall (valid V) s'
  | _ => True
  end.
Proof. exact typed_results. Qed.
Print Assumptions C17_list_typed_results.

Theorem C17_dict_typed_results : forall VK VV tg, didem VK VV -> forall s op s' r,
  Forall (dvalid VK VV) s -> dop_wf VK VV op -> proxy_dstep VK VV tg s op = (s', Ok r) ->
  match op with
  | DCopy | DNew _ => exists l, r = PDict tg l /\ Forall (dvalid VK VV) l
  | DIOr _ => r = self_marker /\ Forall (dvalid VK VV) s'
  | _ => True
  end.
Proof. exact dtyped_results. Qed.
Print Assumptions C17_dict_typed_results.

(* ---- the fast paths that skip re-validation agree with the validating paths on valid contents ---- *)
Theorem C17_list_fast_path : forall V s it,
  Forall (valid V) (it_items s it) ->
  p_extend_slow V s it = (s ++ it_items s it, Ok tt) /\
  (Forall (valid V) s -> p_init V false s = p_init V true s).
Proof. intros V s it H. split; [apply fast_path_extend; exact H|apply fast_path_init]. Qed.
Print Assumptions C17_list_fast_path.

Theorem C17_dict_fast_path : forall VK VV s l,
  Forall (dvalid VK VV) l ->
  (l <> [] -> p_update_src VK VV s (DSProxyOther l) = p_update_src VK VV s (DSCompat l)) /\
  (keys_distinct [] l -> dp_init VK VV false l = dp_init VK VV true l).
Proof. intros VK VV s l H. split; [apply fast_path_update; exact H|apply fast_path_copy; exact H]. Qed.
Print Assumptions C17_dict_fast_path.

(* ---- a refused single-item operation leaves the container as it was ---- *)
Theorem C17_list_rejected_unchanged : forall V tg s op,
  match op with LAppend _ | LInsert _ _ | LSetItem _ _ => True | _ => False end ->
  accepted V s op = false -> fst (proxy_step V tg s op) = s.
Proof. exact rejected_single_unchanged. Qed.
Print Assumptions C17_list_rejected_unchanged.

Theorem C17_dict_rejected_unchanged : forall VK VV tg s op,
  match op with DSetItem _ _ | DSetDefault _ _ => True | _ => False end ->
  daccepted VK VV s op = false -> fst (proxy_dstep VK VV tg s op) = s.
Proof. exact drejected_single_unchanged. Qed.
Print Assumptions C17_dict_rejected_unchanged.
