(* Property C02 — saving and re-loading a configuration reproduces it.  Property theorems only.
   Model: Config.v (to_tree / load_tree / _set_value / Schema._validate, leaves opaque); the leaf laws are C05's
   theorems and enter as premises `leaf_roundtrip` / `leaf_basic_plain`; schema validators read values by key
   (`vrun_lookup`).  `deep_valid` = every configuration object at every depth passes validation and every stored
   leaf is a validated fixed point (Roundtrip.v); `Normal`, `known_F36`, `same_values`, `plain_data`: Roundtrip.v. *)
From Coq Require Import ZArith NArith String List Bool.
From Cinco Require Import Base Config ConfigInst ConfigLemmas Roundtrip RoundtripLemmas.
Import ListNotations.
Open Scope N_scope.

(* (1) for ALL schemas (any nesting, lists of configurations, dynamic fields) and all deeply valid states: to_tree
   succeeds, load_tree of the result into a fresh configuration of the same schema succeeds (final validation
   included), the values are the same up to "list slot None -> []", and the loaded state is deeply valid again *)
Theorem C02_tree_roundtrip : forall F lvalidate lto_python lto_basic ldefault lcallable lsensitive lflag vrun py_strlen,
  (forall f x, lvalidate f x = Ok x ->
     exists b b', lto_basic f x = Ok b /\ lto_python f b = Ok b' /\ lvalidate f b' = Ok x) ->
  (forall n l1 l2, (forall k, vlookup k l1 = vlookup k l2) -> vrun n l1 = vrun n l2) ->
  forall dyn vs fs c, deep_valid F lvalidate lflag vrun dyn vs fs c ->
  forall w w0 fresh, build_cfg F lvalidate lto_python ldefault lcallable lflag vrun w fs = (w0, fresh) ->
  exists t w' c', to_tree F lto_basic lsensitive py_strlen None fs c = Ok t /\
    load_tree F lvalidate lto_python ldefault lcallable lflag vrun t true w0 [] fresh dyn vs fs = (w', c', OOk) /\
    same_values F fs c' c /\ deep_valid F lvalidate lflag vrun dyn vs fs c'.
Proof. exact tree_roundtrip. Qed.
Print Assumptions C02_tree_roundtrip.

(* (2) the rendered tree is plain data whenever the fields render plain data and dynamic fields hold plain data *)
Theorem C02_tree_plain : forall F (lto_basic : F -> pyval -> res pyval) lsensitive py_strlen,
  (forall f x b, lto_basic f x = Ok b -> plain_data b = true) ->
  forall fs c t, to_tree F lto_basic lsensitive py_strlen None fs c = Ok t -> dynamic_plain F fs c = true -> plain_data t = true.
Proof. exact tree_plain. Qed.
Print Assumptions C02_tree_plain.

(* (3) through any document codec that decodes what it encodes on its domain: loads (dumps c) fresh ≈ c *)
Theorem C02_codec_roundtrip : forall F lvalidate lto_python lto_basic ldefault lcallable lsensitive lflag vrun py_strlen,
  (forall f x, lvalidate f x = Ok x ->
     exists b b', lto_basic f x = Ok b /\ lto_python f b = Ok b' /\ lvalidate f b' = Ok x) ->
  (forall n l1 l2, (forall k, vlookup k l1 = vlookup k l2) -> vrun n l1 = vrun n l2) ->
  forall (B : Type) (enc : pyval -> B) (dec : B -> res pyval) (dom : pyval -> Prop),
  (forall t, dom t -> dec (enc t) = Ok t) ->
  forall dyn vs fs c, deep_valid F lvalidate lflag vrun dyn vs fs c ->
  (forall t, to_tree F lto_basic lsensitive py_strlen None fs c = Ok t -> dom t) ->
  forall w w0 fresh, build_cfg F lvalidate lto_python ldefault lcallable lflag vrun w fs = (w0, fresh) ->
  exists doc w' c',
    dumps F lto_basic lsensitive py_strlen B enc fs c = Ok doc /\
    loads F lvalidate lto_python ldefault lcallable lflag vrun B dec doc w0 fresh dyn vs fs = (w', c', OOk) /\
    same_values F fs c' c.
Proof. exact codec_roundtrip. Qed.
Print Assumptions C02_codec_roundtrip.

(* (4) in the library's own terms: every stored value normal, validate() reports nothing, no configuration at any depth
   has its feature flag off (region of the open finding F36).  Nothing is assumed about list items: validate() checks them *)
Theorem C02_roundtrip_partial : forall F lvalidate lto_python lto_basic ldefault lcallable lsensitive lflag vrun py_strlen,
  (forall f x, lvalidate f x = Ok x ->
     exists b b', lto_basic f x = Ok b /\ lto_python f b = Ok b' /\ lvalidate f b' = Ok x) ->
  (forall n l1 l2, (forall k, vlookup k l1 = vlookup k l2) -> vrun n l1 = vrun n l2) ->
  forall dyn vs fs c,
  Normal F lvalidate dyn fs c ->
  validate_errs F lvalidate lflag vrun (NSub dyn vs fs) [] (VCfg c) = [] ->
  known_F36 F lflag fs c = false ->
  forall w w0 fresh, build_cfg F lvalidate lto_python ldefault lcallable lflag vrun w fs = (w0, fresh) ->
  exists t w' c', to_tree F lto_basic lsensitive py_strlen None fs c = Ok t /\
    load_tree F lvalidate lto_python ldefault lcallable lflag vrun t true w0 [] fresh dyn vs fs = (w', c', OOk) /\
    same_values F fs c' c /\ deep_valid F lvalidate lflag vrun dyn vs fs c'.
Proof. exact roundtrip_partial. Qed.
Print Assumptions C02_roundtrip_partial.

(* no hypothesis left for the concrete IntField / StringField / BoolField / FeatureFlagField / AnyField model *)
Theorem C02_inst_tree_roundtrip : forall vt dyn vs fs c, deep_valid leaf lvalidate lflag (vrun vt) dyn vs fs c ->
  forall w w0 fresh, build_cfg leaf lvalidate lto_python ldefault l_callable lflag (vrun vt) w fs = (w0, fresh) ->
  exists t w' c', to_tree leaf lto_basic l_sensitive py_strlen None fs c = Ok t /\
    load_tree leaf lvalidate lto_python ldefault l_callable lflag (vrun vt) t true w0 [] fresh dyn vs fs = (w', c', OOk) /\
    same_values leaf fs c' c /\ deep_valid leaf lvalidate lflag (vrun vt) dyn vs fs c'.
Proof. exact inst_tree_roundtrip. Qed.
Print Assumptions C02_inst_tree_roundtrip.

(* open finding F36: a valid configuration (required field unset inside a disabled feature) renders "need": null and
   the rendered tree is rejected by load_tree *)
Theorem C02_roundtrip_refuted_F36 :
  validate_errs leaf lvalidate lflag (vrun []) (NSub false [] f36_fs) [] (VCfg f36_c) = [] /\ Normal leaf lvalidate false f36_fs f36_c /\ known_F36 leaf lflag f36_fs f36_c = true /\ to_tree leaf lto_basic l_sensitive py_strlen None f36_fs f36_c = Ok f36_tree /\ snd (load_tree leaf lvalidate lto_python ldefault l_callable lflag (vrun []) f36_tree true f36_w [] (snd (build_cfg leaf lvalidate lto_python ldefault l_callable lflag (vrun []) f36_w f36_fs)) false [] f36_fs) = OErr (EValidation (sa "sub.need")).
Proof. exact roundtrip_refuted_F36. Qed.
Print Assumptions C02_roundtrip_refuted_F36.

(* F50 (repaired): the state with a list item made invalid after insertion -- reached by public operations, Normal, no feature
   flag off -- is now REJECTED by whole-configuration validation (validate_errs descends into list items), so it is not
   a counterexample any more; C02_roundtrip_partial covers lists of configurations with no premise about their items *)
Theorem C02_stale_item_rejected :
  validate_errs leaf lvalidate lflag (vrun []) (NSub false [] f50_fs) [] (VCfg f50_c) = [EValidation (sa "items[0].need")]
  /\ Normal leaf lvalidate false f50_fs f50_c
  /\ known_F36 leaf lflag f50_fs f50_c = false.
Proof. exact (proj2 stale_item_rejected). Qed.
Print Assumptions C02_stale_item_rejected.

(* the Boolean verdict the correspondence stream `roundtrip` compares with the implementation is implied by `same_values` *)
Theorem C02_same_values_verdict : forall F fs ca cb, same_values F fs ca cb -> same_valuesb F fs ca cb = true.
Proof. exact same_values_verdict. Qed.
Print Assumptions C02_same_values_verdict.

(* ---- the full field model of Fields.v as the leaves of the configuration (instance ConfigFields.v) ---- *)
From Cinco Require Import Fields FieldsLemmas ConfigFields ConfigFieldsLemmas.

(* the leaf law `leaf_roundtrip` discharged from C05's basic_roundtrip on its domain: cfr_validate is the field model's
   validate restricted to fields outside the F13 region and values in rt_dom (typed list/dict leaves hold a container,
   untyped containers are builtin, typed-dict keys are distinct hashable scalars); outside it answers Unmodelled, so
   `deep_valid ... cfr_validate` (the premise below) states the domain *)
Theorem C02_fields_leaf_roundtrip : forall orc f x, cfr_validate orc f x = Ok x ->
  exists b b', cf_to_basic f x = Ok b /\ cf_to_python orc f b = Ok b' /\ cfr_validate orc f b' = Ok x.
Proof. exact cfr_leaf_roundtrip. Qed.
Print Assumptions C02_fields_leaf_roundtrip.

Theorem C02_fields_tree_roundtrip : forall orc vt dyn vs fs c,
  deep_valid fleaf (cfr_validate orc) fl_flag (vrun vt) dyn vs fs c ->
  forall w w0 fresh, build_cfg fleaf (cfr_validate orc) (cf_to_python orc) (cf_default orc) fl_callable fl_flag (vrun vt) w fs = (w0, fresh) ->
  exists t w' c', to_tree fleaf cf_to_basic fl_sensitive py_strlen None fs c = Ok t /\
    load_tree fleaf (cfr_validate orc) (cf_to_python orc) (cf_default orc) fl_callable fl_flag (vrun vt) t true w0 [] fresh dyn vs fs
      = (w', c', OOk) /\
    same_values fleaf fs c' c /\ deep_valid fleaf (cfr_validate orc) fl_flag (vrun vt) dyn vs fs c'.
Proof. exact cf_tree_roundtrip. Qed.
Print Assumptions C02_fields_tree_roundtrip.

(* ---- end to end through a real document codec: Config.dumps / Config.loads with format "xml" (XmlConfig.v) ----
   Config.v's to_tree / load_tree composed with XmlConfigFormat's own codec (Formats.v: _to_element / _from_element, root
   tag check).  `L : lib B` + `lib_laws L` (Formats.v) are the library laws of C04: float(repr x) = x and the
   ElementTree/minidom print-parse law (plus the json/bson/pickle round trips for the last theorem). *)
From Cinco Require Import Formats FormatsLemmas XmlConfig XmlConfigLemmas.

(* the translation between the two views of plain data loses nothing *)
Theorem C02_plain_data_translates : forall v, plain_data v = true -> exists p, pdata_of v = Some p /\ pyval_of p = v.
Proof. exact plain_pdata. Qed.
Print Assumptions C02_plain_data_translates.

(* the rendered tree of a configuration always translates, to a map (premises of C02_tree_plain) *)
Theorem C02_rendered_tree_translates : forall F (lto_basic : F -> pyval -> res pyval) lsensitive py_strlen,
  (forall f x b, lto_basic f x = Ok b -> plain_data b = true) ->
  forall fs c t, to_tree F lto_basic lsensitive py_strlen None fs c = Ok t -> dynamic_plain F fs c = true ->
  exists m, pdata_of t = Some (VMap m) /\ pyval_of (VMap m) = t.
Proof. exact rendered_tree_translates. Qed.
Print Assumptions C02_rendered_tree_translates.

(* for every schema, every deeply valid state whose rendered tree lies in the XML domain (xml_tree_ok: binary64 floats,
   distinct keys, strings of XML characters without CR, keys and root tag accepted as names), every such root tag:
   saving as XML and loading the document into a fresh configuration of the schema succeeds with the same values *)
Theorem C02_xml_save_load : forall F lvalidate lto_python lto_basic ldefault lcallable lsensitive lflag vrun py_strlen,
  (forall f x, lvalidate f x = Ok x ->
     exists b b', lto_basic f x = Ok b /\ lto_python f b = Ok b' /\ lvalidate f b' = Ok x) ->
  (forall n l1 l2, (forall k, vlookup k l1 = vlookup k l2) -> vrun n l1 = vrun n l2) ->
  forall (B : Type) (L : lib B), lib_laws L ->
  forall dyn vs fs c, deep_valid F lvalidate lflag vrun dyn vs fs c ->
  forall rt, (forall t, to_tree F lto_basic lsensitive py_strlen None fs c = Ok t -> xml_tree_ok (l_name_ok L) rt t = true) ->
  forall w w0 fresh, build_cfg F lvalidate lto_python ldefault lcallable lflag vrun w fs = (w0, fresh) ->
  exists doc w' c',
    xml_config_dumps F lto_basic lsensitive py_strlen B L rt fs c = Ok doc /\
    xml_config_loads F lvalidate lto_python ldefault lcallable lflag vrun B L rt doc w0 fresh dyn vs fs = (w', c', OOk) /\
    same_values F fs c' c /\ deep_valid F lvalidate lflag vrun dyn vs fs c'.
Proof. exact xml_save_load. Qed.
Print Assumptions C02_xml_save_load.

(* a document saved under another root tag is rejected with ValueError before load_tree: the configuration is untouched *)
Theorem C02_xml_wrong_root_untouched : forall F lvalidate lto_python lto_basic ldefault lcallable lsensitive lflag vrun py_strlen,
  forall (B : Type) (L : lib B), lib_laws L ->
  forall fs c rt rt' t, to_tree F lto_basic lsensitive py_strlen None fs c = Ok t ->
  xml_tree_ok (l_name_ok L) rt t = true -> rt <> rt' ->
  exists doc, xml_config_dumps F lto_basic lsensitive py_strlen B L rt fs c = Ok doc /\
    forall w c0 dyn vs,
      xml_config_loads F lvalidate lto_python ldefault lcallable lflag vrun B L rt' doc w c0 dyn vs fs = (w, c0, OErr EValue).
Proof. exact xml_save_load_wrong_root. Qed.
Print Assumptions C02_xml_wrong_root_untouched.

(* every exact format (json with either pretty, bson, pickle, xml with any accepted root tag; PyYAML reorders keys and is
   covered by C02_codec_roundtrip only up to that) loads the very same configuration: formats agree on configurations *)
Theorem C04_C02_formats_agree_on_configs : forall F lvalidate lto_python lto_basic ldefault lcallable lsensitive lflag vrun py_strlen,
  (forall f x, lvalidate f x = Ok x ->
     exists b b', lto_basic f x = Ok b /\ lto_python f b = Ok b' /\ lvalidate f b' = Ok x) ->
  (forall n l1 l2, (forall k, vlookup k l1 = vlookup k l2) -> vrun n l1 = vrun n l2) ->
  forall (B : Type) (L : lib B), lib_laws L ->
  forall f g, exact_format f = true -> exact_format g = true ->
  forall dyn vs fs c, deep_valid F lvalidate lflag vrun dyn vs fs c ->
  (forall t, to_tree F lto_basic lsensitive py_strlen None fs c = Ok t -> tree_in_domain L f t /\ tree_in_domain L g t) ->
  forall w w0 fresh, build_cfg F lvalidate lto_python ldefault lcallable lflag vrun w fs = (w0, fresh) ->
  exists docf docg w' c',
    fmt_config_dumps F lto_basic lsensitive py_strlen B L f fs c = Ok docf /\
    fmt_config_dumps F lto_basic lsensitive py_strlen B L g fs c = Ok docg /\
    fmt_config_loads F lvalidate lto_python ldefault lcallable lflag vrun B L f docf w0 fresh dyn vs fs = (w', c', OOk) /\
    fmt_config_loads F lvalidate lto_python ldefault lcallable lflag vrun B L g docg w0 fresh dyn vs fs = (w', c', OOk) /\
    same_values F fs c' c.
Proof. exact formats_agree_on_configs. Qed.
Print Assumptions C04_C02_formats_agree_on_configs.
