(* Property C19 — a failed save never damages the file on disk; a successful one loads back.
   Property theorems only; each is closed by `exact` of a lemma of SaveLemmas.v and followed by
   Print Assumptions.  `save`, `dumps`, `to_tree`, `load` are the statement-by-statement model of
   Config.save / dumps / to_tree / load in Save.v; all theorems hold for every home directory,
   every prior file system (files, unwritable paths, random draws, earlier write log), every
   configuration (with every assignment of outcomes to its fields' encoders and cipher calls, every
   state of its key files), every destination and every format (unknown / any formatter function). *)
From Coq Require Import ZArith NArith String List Bool.
From Cinco Require Import Base Str Save SaveLemmas.
Import ListNotations.
Open Scope Z_scope.

(* whatever step failed: every file that existed is byte for byte what it was, every path that is
   not the key file of a secret is untouched, and only such key files were opened for writing *)
Theorem C19_save_atomic : forall home w cfg dest fmt w' e,
  save home w cfg dest fmt = (w', Err e) ->
  (forall q b, lookup w q = Some b -> lookup w' q = Some b) /\
  (forall q, ~ keypath home cfg q -> lookup w' q = lookup w q) /\
  (exists l, sv_log w' = sv_log w ++ l /\ Forall (keypath home cfg) l).
Proof. exact save_atomic. Qed.
Print Assumptions C19_save_atomic.

(* the destination itself: previous content kept; stays absent if it was (and is no key file);
   it is not among the files opened for writing *)
Theorem C19_save_atomic_dest : forall home w cfg dest fmt w' e p,
  save home w cfg dest fmt = (w', Err e) -> expanduser home dest = Ok p ->
  (forall b, lookup w p = Some b -> lookup w' p = Some b) /\
  (~ keypath home cfg p -> lookup w' p = lookup w p) /\
  ~ (In p (skipn (length (sv_log w)) (sv_log w')) /\ ~ keypath home cfg p).
Proof. exact save_atomic_dest. Qed.
Print Assumptions C19_save_atomic_dest.

(* no damage either where the model declines to answer *)
Theorem C19_save_not_ok_preserves : forall home w cfg dest fmt w' r q b,
  save home w cfg dest fmt = (w', r) -> r <> Ok tt -> lookup w q = Some b -> lookup w' q = Some b.
Proof. exact save_not_ok_preserves. Qed.
Print Assumptions C19_save_not_ok_preserves.

(* a save that returns wrote exactly the bytes dumps produced, to the expanded destination, as its
   last write; all other existing files unchanged; other non-key paths untouched *)
Theorem C19_save_ok : forall home w cfg dest fmt w',
  save home w cfg dest fmt = (w', Ok tt) ->
  exists p w1 content,
    expanduser home dest = Ok p /\
    dumps home w cfg fmt = (w1, Ok content) /\
    lookup w' p = Some content /\
    (forall q b, q <> p -> lookup w q = Some b -> lookup w' q = Some b) /\
    (forall q, q <> p -> ~ keypath home cfg q -> lookup w' q = lookup w q) /\
    (exists l, sv_log w' = sv_log w ++ l ++ [p] /\ Forall (keypath home cfg) l).
Proof. exact save_ok. Qed.
Print Assumptions C19_save_ok.

Theorem C19_save_writes_exactly_serialisation : forall home w cfg dest fmt w1 content p,
  dumps home w cfg fmt = (w1, Ok content) -> expanduser home dest = Ok p ->
  mem_path p (sv_nowrite w1) = false ->
  exists w', save home w cfg dest fmt = (w', Ok tt) /\
             sv_files w' = assoc_set str_eqb p content (assoc_set str_eqb p [] (sv_files w1)) /\
             lookup w' p = Some content.
Proof. exact save_writes_exactly_serialisation. Qed.
Print Assumptions C19_save_writes_exactly_serialisation.

Theorem C19_save_fails_as_serialisation : forall home w cfg dest fmt w1 e,
  dumps home w cfg fmt = (w1, Err e) -> save home w cfg dest fmt = (w1, Err e).
Proof. exact save_fails_as_serialisation. Qed.
Print Assumptions C19_save_fails_as_serialisation.

(* the format is looked up before the first field is encoded: nothing at all is touched *)
Theorem C19_unknown_format_touches_nothing : forall home w cfg dest,
  save home w cfg dest None = (w, Err EKey).
Proof. exact unknown_format_touches_nothing. Qed.
Print Assumptions C19_unknown_format_touches_nothing.

(* load hands the decoder exactly the bytes that dumps made ... *)
Theorem C19_load_reads_what_save_wrote : forall home enc dec w cfg dest w',
  save home w cfg dest (Some enc) = (w', Ok tt) ->
  exists w1 content, dumps home w cfg (Some enc) = (w1, Ok content) /\
                     load home w' dest (Some dec) = dec content.
Proof. exact load_reads_what_save_wrote. Qed.
Print Assumptions C19_load_reads_what_save_wrote.

(* ... so with a decoder that inverts the formatter (C04; the configuration round trip is C02) the
   serialised tree comes back *)
Theorem C19_load_after_save : forall home enc dec,
  (forall t b, enc t = Ok b -> dec b = Ok t) ->
  forall w cfg dest w',
  save home w cfg dest (Some enc) = (w', Ok tt) ->
  exists w1 t, to_tree home cfg w = (w1, Ok t) /\ load home w' dest (Some dec) = Ok t.
Proof. exact load_after_save. Qed.
Print Assumptions C19_load_after_save.

(* the statements above depend on the position of the open: opening the destination first (a
   streaming write) loses the previous configuration on a failed save *)
Theorem C19_streaming_save_damages :
  exists w cfg dest fmt w' e b,
    save_streaming (sa "h"%string) w cfg dest fmt = (w', Err e) /\
    lookup w dest = Some b /\ lookup w' dest <> Some b.
Proof. exact streaming_save_damages. Qed.
Print Assumptions C19_streaming_save_damages.

(* histories: several saves of one configuration object with external changes in between.  A file keeps
   its bytes unless someone else changed it or a save that returned had it as destination. *)
Theorem C19_history_preserves : forall home steps w q b,
  lookup w q = Some b -> untouched home w steps q -> lookup (run_steps home w steps) q = Some b.
Proof. exact history_preserves. Qed.
Print Assumptions C19_history_preserves.
