(* Str.v — the Python str operations the field validators use, on code-point lists.
   Facts measured on the interpreter are listed in notes/semantics.md.  Definitions only. *)
From Coq Require Import ZArith NArith String List Bool.
From Cinco Require Import Base.
Import ListNotations.
Open Scope N_scope.

(* str.isspace / the default strip() set *)
Definition is_space (c : N) : bool :=
  ((9 <=? c) && (c <=? 13)) || ((28 <=? c) && (c <=? 32)) || (c =? 133) || (c =? 160) || (c =? 5760)
  || ((8192 <=? c) && (c <=? 8202)) || (c =? 8232) || (c =? 8233) || (c =? 8239) || (c =? 8287) || (c =? 12288).

(* the set int() / float() strip: the same without 0x1C-0x1F *)
Definition is_num_space (c : N) : bool := is_space c && negb ((28 <=? c) && (c <=? 31)).

Fixpoint lstrip_by (p : N -> bool) (s : str) : str :=
  match s with
  | c :: r => if p c then lstrip_by p r else s
  | [] => []
  end.
Definition strip_by (p : N -> bool) (s : str) : str := rev (lstrip_by p (rev (lstrip_by p s))).

Definition strip_ws (s : str) : str := strip_by is_space s.                        (* s.strip() *)
Definition mem_chars (chars : str) (c : N) : bool := existsb (N.eqb c) chars.
Definition strip_chars (chars s : str) : str := strip_by (mem_chars chars) s.      (* s.strip(chars) *)

(* ASCII case maps; str.lower/upper change other code points too (2875 of them): such strings are
   outside the model when a case transform applies *)
Definition is_ascii (c : N) : bool := c <? 128.
Definition all_ascii (s : str) : bool := forallb is_ascii s.
Definition lower_c (c : N) : N := if (65 <=? c) && (c <=? 90) then c + 32 else c.
Definition upper_c (c : N) : N := if (97 <=? c) && (c <=? 122) then c - 32 else c.
Definition lower (s : str) : str := map lower_c s.
Definition upper (s : str) : str := map upper_c s.

Definition is_digit (c : N) : bool := (48 <=? c) && (c <=? 57).
Definition is_alpha (c : N) : bool := ((65 <=? c) && (c <=? 90)) || ((97 <=? c) && (c <=? 122)).
Definition is_alnum (c : N) : bool := is_digit c || is_alpha c.

(* ---- decimal numerals ---- *)
Fixpoint digits_val (acc : Z) (s : str) : Z :=
  match s with
  | [] => acc
  | c :: r => digits_val (acc * 10 + Z.of_N (c - 48)) r
  end.

(* body of an int literal: digits with single underscores strictly between digits *)
Fixpoint int_body_ok (prev_digit : bool) (s : str) : bool :=
  match s with
  | [] => prev_digit
  | c :: r => if is_digit c then int_body_ok true r
              else if (c =? 95) then prev_digit && int_body_ok false r
              else false
  end.

(* int(str) as (negative?, magnitude): None = ValueError.  Only meaningful on input whose characters are
   ASCII or whitespace (non-ASCII digits are accepted by Python too: see Fields.v `num_str_modelled`). *)
Definition parse_int_sm (s : str) : option (bool * Z) :=
  let t := strip_by is_num_space s in
  let '(neg, body) := match t with
                      | 45 :: r => (true, r)
                      | 43 :: r => (false, r)
                      | _ => (false, t)
                      end in
  if int_body_ok false body
  then Some (neg, digits_val 0%Z (filter is_digit body))
  else None.
Definition parse_int (s : str) : option Z :=
  match parse_int_sm s with
  | Some (neg, v) => Some (if neg then (- v)%Z else v)
  | None => None
  end.

(* str(int) *)
Fixpoint pos_digits (fuel : nat) (z : Z) (acc : str) : str :=
  match fuel with
  | O => acc
  | S f => if (z <? 10)%Z then (Z.to_N z + 48) :: acc
           else pos_digits f (z / 10)%Z ((Z.to_N (z mod 10) + 48) :: acc)
  end.
Definition str_of_Z (z : Z) : str :=
  if (z <? 0)%Z then 45 :: pos_digits (S (Z.to_nat (Z.log2 (- z)))) (- z)%Z []
  else pos_digits (S (Z.to_nat (Z.log2 z))) z [].

(* ---- split on a separator character ---- *)
Fixpoint split_on (sep : N) (cur : str) (s : str) : list str :=
  match s with
  | [] => [rev cur]
  | c :: r => if c =? sep then rev cur :: split_on sep [] r else split_on sep (c :: cur) r
  end.
Definition split (sep : N) (s : str) : list str := split_on sep [] s.

Fixpoint join (sep : str) (l : list str) : str :=
  match l with
  | [] => []
  | [x] => x
  | x :: r => x ++ sep ++ join sep r
  end.
