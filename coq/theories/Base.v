(* Base.v — shared value types of the cincoconfig model.
   Definitions only (no proofs): this file must keep running when a proof breaks. *)
From Coq Require Import ZArith NArith String Ascii List Bool SpecFloat.
Import ListNotations.
Open Scope Z_scope.

(* Python str = list of Unicode code points; bytes = list of byte values (< 256). *)
Definition str := list N.
Definition bytes := list N.

(* ---- literal helpers used by the generated case files (everything is a Z literal there) ---- *)
Definition n_ (z : Z) : N := Z.to_N z.
Definition s_ (l : list Z) : str := map Z.to_N l.
Fixpoint sa (s : string) : str :=
  match s with
  | EmptyString => []
  | String c r => N_of_ascii c :: sa r
  end.

(* hex-encoded byte strings: string literals are lexed far faster than lists of numerals *)
Definition hexval (c : ascii) : N :=
  let n := N_of_ascii c in if (n <? 58)%N then (n - 48)%N else (n - 87)%N.
Fixpoint hx (s : string) : bytes :=
  match s with
  | String a (String b r) => (16 * hexval a + hexval b)%N :: hx r
  | _ => []
  end.

(* ---- outcomes ---- *)
Inductive errk :=
| EValidation (path : str)   (* cincoconfig.ValidationError, with its ref_path *)
| EValue                     (* a bare ValueError *)
| EType | EAttribute | EKey | EIndex | EEncryption | EOS | EOverflow | EUnicode | EOtherExn.

Inductive res (A : Type) :=
| Ok (a : A)
| Err (e : errk)
| Unmodelled.                (* the model does not cover this input; never compared *)
Arguments Ok {A} a.
Arguments Err {A} e.
Arguments Unmodelled {A}.

Definition bind {A B} (r : res A) (f : A -> res B) : res B :=
  match r with Ok a => f a | Err e => Err e | Unmodelled => Unmodelled end.
Notation "'do' x <- r ;; k" := (bind r (fun x => k)) (at level 200, x name, r at level 100, k at level 200).

(* ---- Python values (plain data, plus the few library value types the properties mention) ---- *)
Inductive pyval :=
| PNone
| PBool (b : bool)
| PInt (z : Z)
| PFloat (f : spec_float)
| PStr (s : str)
| PBytes (b : bytes)
| PList (tg : N) (l : list pyval)            (* tg = 0: builtin list; tg = fid+1: ListProxy of field fid *)
| PTuple (l : list pyval)
| PDict (tg : N) (d : list (pyval * pyval))  (* insertion-ordered; tg as for PList (DictProxy) *)
| PDigest (salt digest : bytes) (alg : N)    (* secure_field.DigestValue *)
| POther (tag : N).                          (* an object of some other class *)

(* ---- generic boolean equalities ---- *)
Section ListEqb.
  Context {A : Type} (eqb : A -> A -> bool).
  Fixpoint list_eqb (a b : list A) : bool :=
    match a, b with
    | [], [] => true
    | x :: xs, y :: ys => eqb x y && list_eqb xs ys
    | _, _ => false
    end.
End ListEqb.

Definition str_eqb : str -> str -> bool := list_eqb N.eqb.
Definition bytes_eqb : bytes -> bytes -> bool := list_eqb N.eqb.

Definition sf_eqb (a b : spec_float) : bool :=   (* structural, on canonical representations *)
  match a, b with
  | S754_zero s, S754_zero t => Bool.eqb s t
  | S754_infinity s, S754_infinity t => Bool.eqb s t
  | S754_nan, S754_nan => true
  | S754_finite s m e, S754_finite t n f => Bool.eqb s t && Pos.eqb m n && Z.eqb e f
  | _, _ => false
  end.

Fixpoint pyval_eqb (a b : pyval) {struct a} : bool :=
  match a, b with
  | PNone, PNone => true
  | PBool x, PBool y => Bool.eqb x y
  | PInt x, PInt y => Z.eqb x y
  | PFloat x, PFloat y => sf_eqb x y
  | PStr x, PStr y => str_eqb x y
  | PBytes x, PBytes y => bytes_eqb x y
  | PList t l, PList u m =>
      N.eqb t u &&
      (fix go (l m : list pyval) : bool :=
         match l, m with
         | [], [] => true
         | x :: xs, y :: ys => pyval_eqb x y && go xs ys
         | _, _ => false
         end) l m
  | PTuple l, PTuple m =>
      (fix go (l m : list pyval) : bool :=
         match l, m with
         | [], [] => true
         | x :: xs, y :: ys => pyval_eqb x y && go xs ys
         | _, _ => false
         end) l m
  | PDict t l, PDict u m =>
      N.eqb t u &&
      (fix go (l m : list (pyval * pyval)) : bool :=
         match l, m with
         | [], [] => true
         | (k, v) :: xs, (k', v') :: ys => pyval_eqb k k' && pyval_eqb v v' && go xs ys
         | _, _ => false
         end) l m
  | PDigest s d a, PDigest s' d' a' => bytes_eqb s s' && bytes_eqb d d' && N.eqb a a'
  | POther t, POther u => N.eqb t u
  | _, _ => false
  end.

(* ---- association lists (insertion ordered, first match wins) ---- *)
Section Assoc.
  Context {K V : Type} (keqb : K -> K -> bool).
  Fixpoint assoc (k : K) (l : list (K * V)) : option V :=
    match l with
    | [] => None
    | (k', v) :: r => if keqb k k' then Some v else assoc k r
    end.
  (* dict[k] = v : keeps the position of an existing key, else appends *)
  Fixpoint assoc_set (k : K) (v : V) (l : list (K * V)) : list (K * V) :=
    match l with
    | [] => [(k, v)]
    | (k', v') :: r => if keqb k k' then (k', v) :: r else (k', v') :: assoc_set k v r
    end.
  Fixpoint assoc_del (k : K) (l : list (K * V)) : list (K * V) :=
    match l with
    | [] => []
    | (k', v') :: r => if keqb k k' then r else (k', v') :: assoc_del k r
    end.
  Definition assoc_mem (k : K) (l : list (K * V)) : bool :=
    match assoc k l with Some _ => true | None => false end.
End Assoc.

(* ---- the correspondence driver: indices (and model outputs) where model and implementation differ ---- *)
Section Mismatch.
  Context {C : Type} (run : C -> pyval).
  Fixpoint mismatch_from (i : nat) (cs : list (C * pyval)) : list nat :=
    match cs with
    | [] => []
    | (c, expected) :: r =>
        if pyval_eqb (run c) expected then mismatch_from (S i) r
        else i :: mismatch_from (S i) r
    end.
  Definition mismatches (cs : list (C * pyval)) : list nat := mismatch_from 0%nat cs.
  Definition model_outputs (idx : list nat) (cs : list (C * pyval)) : list pyval :=
    map (fun i => match nth_error cs i with Some (c, _) => run c | None => PNone end) idx.
End Mismatch.

(* ---- observation encoders shared by all streams ---- *)
Definition o_str (s : string) : pyval := PStr (sa s).
Definition o_errk (e : errk) : pyval :=
  match e with
  | EValidation p => PTuple [o_str "validation"; PStr p]
  | EValue => o_str "value"
  | EType => o_str "type"
  | EAttribute => o_str "attribute"
  | EKey => o_str "key"
  | EIndex => o_str "index"
  | EEncryption => o_str "encryption"
  | EOS => o_str "os"
  | EOverflow => o_str "overflow"
  | EUnicode => o_str "unicode"
  | EOtherExn => o_str "other"
  end.
Definition o_res (r : res pyval) : pyval :=
  match r with
  | Ok v => PTuple [o_str "ok"; v]
  | Err e => PTuple [o_str "err"; o_errk e]
  | Unmodelled => o_str "unmodelled"
  end.
Definition o_opt (o : option pyval) : pyval := match o with Some v => v | None => PNone end.

(* ---- order-insensitive comparison of maps: sort every dict by its (string) keys ---- *)
Fixpoint str_ltb (a b : str) : bool :=
  match a, b with
  | [], [] => false
  | [], _ :: _ => true
  | _ :: _, [] => false
  | x :: xs, y :: ys => if (x <? y)%N then true else if (y <? x)%N then false else str_ltb xs ys
  end.
Definition key_ltb (a b : pyval) : bool :=
  match a, b with PStr x, PStr y => str_ltb x y | _, _ => false end.
Fixpoint insert_kv (kv : pyval * pyval) (l : list (pyval * pyval)) : list (pyval * pyval) :=
  match l with
  | [] => [kv]
  | h :: r => if key_ltb (fst kv) (fst h) then kv :: h :: r else h :: insert_kv kv r
  end.
Fixpoint sort_dicts (v : pyval) : pyval :=
  match v with
  | PList t l => PList t (map sort_dicts l)
  | PTuple l => PTuple (map sort_dicts l)
  | PDict t d =>
      PDict t ((fix go (d : list (pyval * pyval)) : list (pyval * pyval) :=
                  match d with
                  | [] => []
                  | (k, x) :: r => insert_kv (k, sort_dicts x) (go r)
                  end) d)
  | _ => v
  end.
