(* AesLemmas.v — AES-256 (Aes.v) is a permutation of 16-byte blocks: the inverse cipher undoes the
   cipher for every 32-byte key and every block of bytes.  With it the block-cipher hypotheses of the
   CBC / PKCS7 theorems of CryptoLemmas.v are discharged (property C08).

   Per-byte facts (S-box inverse, ranges, one-coordinate columns) are established by exhaustive
   kernel computation over 0..255 (and 256 x 256 for the xor range) and lifted with
   CodecLemmas.all1 / all2; everything else is structural.  MixColumns is inverted by bit-linearity:
   multiplication by a constant is XOR-linear on N, hence InvMixColumn o MixColumn is additive on
   columns, and an additive map that fixes the four one-coordinate columns (a,0,0,0) .. (0,0,0,d)
   for every byte fixes every column. *)
From Coq Require Import ZArith NArith String List Bool Lia Arith.
From Cinco Require Import Base Codec CodecLemmas Crypto CryptoLemmas Aes.
Import ListNotations.
Local Open Scope N_scope.
Local Arguments firstn : simpl never.
Local Arguments skipn : simpl never.

(* ---------- byte lists ---------- *)
Definition okl (l : bytes) : Prop := Forall (fun x => byte_ok x = true) l.

Lemma okl_iff l : bytes_ok l = true <-> okl l.
Proof.
  unfold bytes_ok, okl. rewrite forallb_forall, Forall_forall. reflexivity.
Qed.

Lemma list_ind4 {A} (P : list A -> Prop) :
  P [] -> (forall a, P [a]) -> (forall a b, P [a; b]) -> (forall a b c, P [a; b; c]) ->
  (forall a b c d r, P r -> P (a :: b :: c :: d :: r)) -> forall l, P l.
Proof.
  intros H0 H1 H2 H3 H4.
  refine (fix F (l : list A) : P l :=
            match l with
            | [] => H0
            | [a] => H1 a
            | [a; b] => H2 a b
            | [a; b; c] => H3 a b c
            | a :: b :: c :: d :: r => H4 a b c d r (F r)
            end).
Qed.

(* ---------- xor on N: rearrangement by bits ---------- *)
Ltac xor_bits :=
  let i := fresh "i" in
  apply N.bits_inj; intro i;
  repeat (rewrite N.lxor_spec || rewrite N.land_spec || rewrite N.bits_0);
  repeat match goal with |- context [N.testbit ?x i] => destruct (N.testbit x i) end;
  reflexivity.

Lemma xor2_swap p p' q q' : N.lxor (N.lxor p p') (N.lxor q q') = N.lxor (N.lxor p q) (N.lxor p' q').
Proof. xor_bits. Qed.
Lemma xor3_swap p p' q q' r r' :
  N.lxor (N.lxor (N.lxor p p') (N.lxor q q')) (N.lxor r r') =
  N.lxor (N.lxor (N.lxor p q) r) (N.lxor (N.lxor p' q') r').
Proof. xor_bits. Qed.
Lemma xor4_swap p p' q q' r r' s s' :
  N.lxor (N.lxor (N.lxor (N.lxor p p') (N.lxor q q')) (N.lxor r r')) (N.lxor s s') =
  N.lxor (N.lxor (N.lxor (N.lxor p q) r) s) (N.lxor (N.lxor (N.lxor p' q') r') s').
Proof. xor_bits. Qed.

(* ---------- GF(2^8): multiplication by the MixColumns constants is XOR-linear (on all of N) ---------- *)
Lemma xtime_lin a b : xtime (N.lxor a b) = N.lxor (xtime a) (xtime b).
Proof.
  unfold xtime. rewrite N.shiftl_lxor, N.lxor_spec.
  destruct (N.testbit a 7), (N.testbit b 7); cbn [xorb]; xor_bits.
Qed.

Lemma mul2_lin a b : mul2 (N.lxor a b) = N.lxor (mul2 a) (mul2 b).
Proof. apply xtime_lin. Qed.
Lemma mul4_lin a b : mul4 (N.lxor a b) = N.lxor (mul4 a) (mul4 b).
Proof. unfold mul4. rewrite !xtime_lin. reflexivity. Qed.
Lemma mul8_lin a b : mul8 (N.lxor a b) = N.lxor (mul8 a) (mul8 b).
Proof. unfold mul8. rewrite !xtime_lin. reflexivity. Qed.
Lemma mul3_lin a b : mul3 (N.lxor a b) = N.lxor (mul3 a) (mul3 b).
Proof. unfold mul3. rewrite mul2_lin. apply xor2_swap. Qed.
Lemma mul9_lin a b : mul9 (N.lxor a b) = N.lxor (mul9 a) (mul9 b).
Proof. unfold mul9. rewrite mul8_lin. apply xor2_swap. Qed.
Lemma mul11_lin a b : mul11 (N.lxor a b) = N.lxor (mul11 a) (mul11 b).
Proof. unfold mul11. rewrite mul8_lin, mul2_lin. apply xor3_swap. Qed.
Lemma mul13_lin a b : mul13 (N.lxor a b) = N.lxor (mul13 a) (mul13 b).
Proof. unfold mul13. rewrite mul8_lin, mul4_lin. apply xor3_swap. Qed.
Lemma mul14_lin a b : mul14 (N.lxor a b) = N.lxor (mul14 a) (mul14 b).
Proof. unfold mul14. rewrite mul8_lin, mul4_lin, mul2_lin. apply xor3_swap. Qed.

(* ---------- ranges, by enumeration ---------- *)
Lemma lxor_ok a b : byte_ok a = true -> byte_ok b = true -> byte_ok (N.lxor a b) = true.
Proof.
  apply (all2 (fun a b => byte_ok (N.lxor a b))). vm_compute. reflexivity.
Qed.

Lemma mul_ok x : byte_ok x = true ->
  byte_ok (mul2 x) = true /\ byte_ok (mul3 x) = true /\ byte_ok (mul9 x) = true /\
  byte_ok (mul11 x) = true /\ byte_ok (mul13 x) = true /\ byte_ok (mul14 x) = true.
Proof.
  intros Hx.
  assert (byte_ok (mul2 x) && byte_ok (mul3 x) && byte_ok (mul9 x) &&
          byte_ok (mul11 x) && byte_ok (mul13 x) && byte_ok (mul14 x) = true) as H.
  { revert x Hx. apply (all1 (fun x => byte_ok (mul2 x) && byte_ok (mul3 x) && byte_ok (mul9 x) &&
          byte_ok (mul11 x) && byte_ok (mul13 x) && byte_ok (mul14 x))). vm_compute. reflexivity. }
  split_andb. repeat split; assumption.
Qed.

Lemma tbl_ok (t : list N) : forallb byte_ok t = true -> forall x, byte_ok (nth (N.to_nat x) t 0) = true.
Proof.
  intros H x. rewrite forallb_forall in H.
  destruct (Nat.lt_ge_cases (N.to_nat x) (length t)) as [L|L].
  - apply H. apply nth_In. exact L.
  - rewrite nth_overflow by exact L. reflexivity.
Qed.

(* the S-boxes map every N (not only bytes) to a byte *)
Lemma sbox_ok x : byte_ok (sbox x) = true.
Proof. apply tbl_ok. vm_compute. reflexivity. Qed.
Lemma inv_sbox_ok x : byte_ok (inv_sbox x) = true.
Proof. apply tbl_ok. vm_compute. reflexivity. Qed.

(* ---------- SubBytes ---------- *)
Lemma inv_sbox_sbox x : byte_ok x = true -> inv_sbox (sbox x) = x.
Proof.
  intros Hx. apply N.eqb_eq. revert x Hx.
  apply (all1 (fun x => inv_sbox (sbox x) =? x)). vm_compute. reflexivity.
Qed.
Lemma sbox_inv_sbox x : byte_ok x = true -> sbox (inv_sbox x) = x.
Proof.
  intros Hx. apply N.eqb_eq. revert x Hx.
  apply (all1 (fun x => sbox (inv_sbox x) =? x)). vm_compute. reflexivity.
Qed.

Lemma sub_bytes_ok s : okl (sub_bytes s).
Proof. induction s; constructor; auto using sbox_ok. Qed.
Lemma inv_sub_bytes_ok s : okl (inv_sub_bytes s).
Proof. induction s; constructor; auto using inv_sbox_ok. Qed.
Lemma inv_sub_sub s : okl s -> inv_sub_bytes (sub_bytes s) = s.
Proof.
  induction 1 as [|x r Hx _ IH]; [reflexivity|].
  cbn [sub_bytes inv_sub_bytes map] in *. rewrite inv_sbox_sbox by exact Hx. f_equal. exact IH.
Qed.
Lemma sub_inv_sub s : okl s -> sub_bytes (inv_sub_bytes s) = s.
Proof.
  induction 1 as [|x r Hx _ IH]; [reflexivity|].
  cbn [sub_bytes inv_sub_bytes map] in *. rewrite sbox_inv_sbox by exact Hx. f_equal. exact IH.
Qed.
Lemma sub_bytes_length s : length (sub_bytes s) = length s.
Proof. apply map_length. Qed.
Lemma inv_sub_bytes_length s : length (inv_sub_bytes s) = length s.
Proof. apply map_length. Qed.

(* ---------- ShiftRows ---------- *)
Ltac destruct16 s :=
  do 16 (destruct s as [|? s]; [reflexivity|]); destruct s; reflexivity.

Lemma inv_shift_shift s : inv_shift_rows (shift_rows s) = s.
Proof. destruct16 s. Qed.
Lemma shift_inv_shift s : shift_rows (inv_shift_rows s) = s.
Proof. destruct16 s. Qed.
Lemma shift_rows_length s : length (shift_rows s) = length s.
Proof. destruct16 s. Qed.
Lemma inv_shift_rows_length s : length (inv_shift_rows s) = length s.
Proof. destruct16 s. Qed.

Ltac okl16 s H :=
  do 16 (destruct s as [|? s]; [exact H|]); destruct s; [|exact H];
  unfold okl in *;
  repeat match goal with K : Forall _ (_ :: _) |- _ => inversion K; clear K; subst end;
  repeat constructor; assumption.

Lemma shift_rows_ok s : okl s -> okl (shift_rows s).
Proof. intros H. okl16 s H. Qed.
Lemma inv_shift_rows_ok s : okl s -> okl (inv_shift_rows s).
Proof. intros H. okl16 s H. Qed.

(* ---------- AddRoundKey ---------- *)
Lemma ark_twice : forall s rk, add_round_key (add_round_key s rk) rk = s.
Proof.
  induction s as [|x xs IH]; intros [|y ys]; cbn [add_round_key]; try reflexivity.
  rewrite lxor_twice, IH. reflexivity.
Qed.
Lemma ark_length : forall s rk, length (add_round_key s rk) = length s.
Proof.
  induction s as [|x xs IH]; intros [|y ys]; cbn [add_round_key length]; try reflexivity.
  rewrite IH. reflexivity.
Qed.
Lemma ark_ok : forall s rk, okl s -> okl rk -> okl (add_round_key s rk).
Proof.
  induction s as [|x xs IH]; intros [|y ys] Hs Hr; cbn [add_round_key]; try exact Hs.
  inversion Hs; inversion Hr; subst. constructor; [apply lxor_ok; assumption | apply IH; assumption].
Qed.

(* ---------- MixColumns ---------- *)
(* the composite column map InvMixColumn o MixColumn, coordinate by coordinate *)
Definition cmp0 a b c d := imc0 (mc0 a b c d) (mc1 a b c d) (mc2 a b c d) (mc3 a b c d).
Definition cmp1 a b c d := imc1 (mc0 a b c d) (mc1 a b c d) (mc2 a b c d) (mc3 a b c d).
Definition cmp2 a b c d := imc2 (mc0 a b c d) (mc1 a b c d) (mc2 a b c d) (mc3 a b c d).
Definition cmp3 a b c d := imc3 (mc0 a b c d) (mc1 a b c d) (mc2 a b c d) (mc3 a b c d).
(* ... and MixColumn o InvMixColumn *)
Definition pmc0 a b c d := mc0 (imc0 a b c d) (imc1 a b c d) (imc2 a b c d) (imc3 a b c d).
Definition pmc1 a b c d := mc1 (imc0 a b c d) (imc1 a b c d) (imc2 a b c d) (imc3 a b c d).
Definition pmc2 a b c d := mc2 (imc0 a b c d) (imc1 a b c d) (imc2 a b c d) (imc3 a b c d).
Definition pmc3 a b c d := mc3 (imc0 a b c d) (imc1 a b c d) (imc2 a b c d) (imc3 a b c d).

Definition additive4 (f : N -> N -> N -> N -> N) : Prop :=
  forall a a' b b' c c' d d',
    f (N.lxor a a') (N.lxor b b') (N.lxor c c') (N.lxor d d') = N.lxor (f a b c d) (f a' b' c' d').

Ltac mc_add f :=
  unfold additive4, f; intros;
  rewrite ?mul2_lin, ?mul3_lin, ?mul9_lin, ?mul11_lin, ?mul13_lin, ?mul14_lin; apply xor4_swap.

Lemma mc0_add : additive4 mc0. Proof. mc_add mc0. Qed.
Lemma mc1_add : additive4 mc1. Proof. mc_add mc1. Qed.
Lemma mc2_add : additive4 mc2. Proof. mc_add mc2. Qed.
Lemma mc3_add : additive4 mc3. Proof. mc_add mc3. Qed.
Lemma imc0_add : additive4 imc0. Proof. mc_add imc0. Qed.
Lemma imc1_add : additive4 imc1. Proof. mc_add imc1. Qed.
Lemma imc2_add : additive4 imc2. Proof. mc_add imc2. Qed.
Lemma imc3_add : additive4 imc3. Proof. mc_add imc3. Qed.

Ltac cmp_add f g :=
  unfold additive4, f; intros; rewrite mc0_add, mc1_add, mc2_add, mc3_add; apply g.
Lemma cmp0_add : additive4 cmp0. Proof. cmp_add cmp0 imc0_add. Qed.
Lemma cmp1_add : additive4 cmp1. Proof. cmp_add cmp1 imc1_add. Qed.
Lemma cmp2_add : additive4 cmp2. Proof. cmp_add cmp2 imc2_add. Qed.
Lemma cmp3_add : additive4 cmp3. Proof. cmp_add cmp3 imc3_add. Qed.
Ltac pmc_add f g :=
  unfold additive4, f; intros; rewrite imc0_add, imc1_add, imc2_add, imc3_add; apply g.
Lemma pmc0_add : additive4 pmc0. Proof. pmc_add pmc0 mc0_add. Qed.
Lemma pmc1_add : additive4 pmc1. Proof. pmc_add pmc1 mc1_add. Qed.
Lemma pmc2_add : additive4 pmc2. Proof. pmc_add pmc2 mc2_add. Qed.
Lemma pmc3_add : additive4 pmc3. Proof. pmc_add pmc3 mc3_add. Qed.

(* an additive map is determined by its values on the one-coordinate columns *)
Lemma additive4_split f : additive4 f -> forall a b c d,
  f a b c d = N.lxor (N.lxor (N.lxor (f a 0 0 0) (f 0 b 0 0)) (f 0 0 c 0)) (f 0 0 0 d).
Proof.
  intros Hf a b c d. rewrite <- !Hf.
  rewrite ?N.lxor_0_r, ?N.lxor_0_l. reflexivity.
Qed.

(* the 4 x 4 x 256 one-coordinate values of a composite: coordinate k of the image of a byte x placed
   in coordinate j is x when j = k and 0 otherwise *)
Definition unit_check (f0 f1 f2 f3 : N -> N -> N -> N -> N) (x : N) : bool :=
  (f0 x 0 0 0 =? x) && (f0 0 x 0 0 =? 0) && (f0 0 0 x 0 =? 0) && (f0 0 0 0 x =? 0) &&
  (f1 x 0 0 0 =? 0) && (f1 0 x 0 0 =? x) && (f1 0 0 x 0 =? 0) && (f1 0 0 0 x =? 0) &&
  (f2 x 0 0 0 =? 0) && (f2 0 x 0 0 =? 0) && (f2 0 0 x 0 =? x) && (f2 0 0 0 x =? 0) &&
  (f3 x 0 0 0 =? 0) && (f3 0 x 0 0 =? 0) && (f3 0 0 x 0 =? 0) && (f3 0 0 0 x =? x).

Lemma unit_identity f0 f1 f2 f3 :
  additive4 f0 -> additive4 f1 -> additive4 f2 -> additive4 f3 ->
  forallb (unit_check f0 f1 f2 f3) range256 = true ->
  forall a b c d, byte_ok a = true -> byte_ok b = true -> byte_ok c = true -> byte_ok d = true ->
  f0 a b c d = a /\ f1 a b c d = b /\ f2 a b c d = c /\ f3 a b c d = d.
Proof.
  intros A0 A1 A2 A3 H a b c d Ha Hb Hc Hd.
  pose proof (all1 _ H a Ha) as Ka. pose proof (all1 _ H b Hb) as Kb.
  pose proof (all1 _ H c Hc) as Kc. pose proof (all1 _ H d Hd) as Kd.
  unfold unit_check in Ka, Kb, Kc, Kd. split_andb. eqb_to_eq.
  rewrite (additive4_split f0 A0 a b c d), (additive4_split f1 A1 a b c d),
          (additive4_split f2 A2 a b c d), (additive4_split f3 A3 a b c d).
  repeat match goal with K : _ = _ |- _ => rewrite K; clear K end.
  rewrite ?N.lxor_0_r, ?N.lxor_0_l. repeat split; reflexivity.
Qed.

Lemma inv_mix_mix_col a b c d :
  byte_ok a = true -> byte_ok b = true -> byte_ok c = true -> byte_ok d = true ->
  cmp0 a b c d = a /\ cmp1 a b c d = b /\ cmp2 a b c d = c /\ cmp3 a b c d = d.
Proof.
  apply (unit_identity cmp0 cmp1 cmp2 cmp3 cmp0_add cmp1_add cmp2_add cmp3_add).
  vm_compute. reflexivity.
Qed.
Lemma mix_inv_mix_col a b c d :
  byte_ok a = true -> byte_ok b = true -> byte_ok c = true -> byte_ok d = true ->
  pmc0 a b c d = a /\ pmc1 a b c d = b /\ pmc2 a b c d = c /\ pmc3 a b c d = d.
Proof.
  apply (unit_identity pmc0 pmc1 pmc2 pmc3 pmc0_add pmc1_add pmc2_add pmc3_add).
  vm_compute. reflexivity.
Qed.

Lemma mc_ok a b c d :
  byte_ok a = true -> byte_ok b = true -> byte_ok c = true -> byte_ok d = true ->
  byte_ok (mc0 a b c d) = true /\ byte_ok (mc1 a b c d) = true /\
  byte_ok (mc2 a b c d) = true /\ byte_ok (mc3 a b c d) = true.
Proof.
  intros Ha Hb Hc Hd.
  destruct (mul_ok a Ha) as (? & ? & _). destruct (mul_ok b Hb) as (? & ? & _).
  destruct (mul_ok c Hc) as (? & ? & _). destruct (mul_ok d Hd) as (? & ? & _).
  unfold mc0, mc1, mc2, mc3. repeat split; repeat first [assumption | apply lxor_ok].
Qed.
Lemma imc_ok a b c d :
  byte_ok a = true -> byte_ok b = true -> byte_ok c = true -> byte_ok d = true ->
  byte_ok (imc0 a b c d) = true /\ byte_ok (imc1 a b c d) = true /\
  byte_ok (imc2 a b c d) = true /\ byte_ok (imc3 a b c d) = true.
Proof.
  intros Ha Hb Hc Hd.
  destruct (mul_ok a Ha) as (_ & _ & ? & ? & ? & ?). destruct (mul_ok b Hb) as (_ & _ & ? & ? & ? & ?).
  destruct (mul_ok c Hc) as (_ & _ & ? & ? & ? & ?). destruct (mul_ok d Hd) as (_ & _ & ? & ? & ? & ?).
  unfold imc0, imc1, imc2, imc3. repeat split; repeat first [assumption | apply lxor_ok].
Qed.

Ltac okl4 H :=
  unfold okl in H;
  repeat match goal with K : Forall _ (_ :: _) |- _ => inversion K; clear K; subst end.

Lemma mix_columns_ok : forall s, okl s -> okl (mix_columns s).
Proof.
  induction s as [| | | |a b c d r IH] using list_ind4; intros H; try exact H.
  cbn [mix_columns]. okl4 H.
  destruct (mc_ok a b c d) as (? & ? & ? & ?); try assumption.
  repeat (constructor; [assumption|]). apply IH. assumption.
Qed.
Lemma inv_mix_columns_ok : forall s, okl s -> okl (inv_mix_columns s).
Proof.
  induction s as [| | | |a b c d r IH] using list_ind4; intros H; try exact H.
  cbn [inv_mix_columns]. okl4 H.
  destruct (imc_ok a b c d) as (? & ? & ? & ?); try assumption.
  repeat (constructor; [assumption|]). apply IH. assumption.
Qed.
Lemma mix_columns_length : forall s, length (mix_columns s) = length s.
Proof.
  induction s as [| | | |a b c d r IH] using list_ind4; try reflexivity.
  cbn [mix_columns length]. rewrite IH. reflexivity.
Qed.
Lemma inv_mix_columns_length : forall s, length (inv_mix_columns s) = length s.
Proof.
  induction s as [| | | |a b c d r IH] using list_ind4; try reflexivity.
  cbn [inv_mix_columns length]. rewrite IH. reflexivity.
Qed.

Lemma inv_mix_mix : forall s, okl s -> inv_mix_columns (mix_columns s) = s.
Proof.
  induction s as [| | | |a b c d r IH] using list_ind4; intros H; try reflexivity.
  cbn [mix_columns inv_mix_columns]. okl4 H.
  destruct (inv_mix_mix_col a b c d) as (E0 & E1 & E2 & E3); try assumption.
  unfold cmp0, cmp1, cmp2, cmp3 in *. rewrite E0, E1, E2, E3, IH by assumption. reflexivity.
Qed.
Lemma mix_inv_mix : forall s, okl s -> mix_columns (inv_mix_columns s) = s.
Proof.
  induction s as [| | | |a b c d r IH] using list_ind4; intros H; try reflexivity.
  cbn [mix_columns inv_mix_columns]. okl4 H.
  destruct (mix_inv_mix_col a b c d) as (E0 & E1 & E2 & E3); try assumption.
  unfold pmc0, pmc1, pmc2, pmc3 in *. rewrite E0, E1, E2, E3, IH by assumption. reflexivity.
Qed.

(* ---------- rounds ---------- *)
Lemma aes_round_ok rk s : okl rk -> okl (aes_round rk s).
Proof.
  intros Hr. unfold aes_round. apply ark_ok; [|exact Hr].
  apply mix_columns_ok, shift_rows_ok, sub_bytes_ok.
Qed.
Lemma aes_final_round_ok rk s : okl rk -> okl (aes_final_round rk s).
Proof.
  intros Hr. unfold aes_final_round. apply ark_ok; [|exact Hr]. apply shift_rows_ok, sub_bytes_ok.
Qed.
Lemma aes_inv_round_ok rk s : okl (aes_inv_round rk s).
Proof. apply inv_sub_bytes_ok. Qed.
Lemma aes_inv_final_round_ok rk s : okl (aes_inv_final_round rk s).
Proof. apply inv_sub_bytes_ok. Qed.

Lemma aes_inv_round_round rk s : okl s -> aes_inv_round rk (aes_round rk s) = s.
Proof.
  intros Hs. unfold aes_inv_round, aes_round.
  rewrite ark_twice, inv_mix_mix by apply shift_rows_ok, sub_bytes_ok.
  rewrite inv_shift_shift. apply inv_sub_sub. exact Hs.
Qed.
Lemma aes_inv_final_final rk s : okl s -> aes_inv_final_round rk (aes_final_round rk s) = s.
Proof.
  intros Hs. unfold aes_inv_final_round, aes_final_round.
  rewrite ark_twice, inv_shift_shift. apply inv_sub_sub. exact Hs.
Qed.
(* the other direction: the cipher undoes the inverse cipher *)
Lemma aes_round_inv_round rk s : okl s -> okl rk -> aes_round rk (aes_inv_round rk s) = s.
Proof.
  intros Hs Hr. unfold aes_inv_round, aes_round.
  rewrite sub_inv_sub, shift_inv_shift, mix_inv_mix, ark_twice; auto using ark_ok.
  - apply inv_shift_rows_ok, inv_mix_columns_ok, ark_ok; assumption.
Qed.
Lemma aes_final_inv_final rk s : okl s -> okl rk -> aes_final_round rk (aes_inv_final_round rk s) = s.
Proof.
  intros Hs Hr. unfold aes_inv_final_round, aes_final_round.
  rewrite sub_inv_sub, shift_inv_shift, ark_twice; auto.
  apply inv_shift_rows_ok, ark_ok; assumption.
Qed.

Lemma aes_round_length rk s : length (aes_round rk s) = length s.
Proof. unfold aes_round. rewrite ark_length, mix_columns_length, shift_rows_length, sub_bytes_length. reflexivity. Qed.
Lemma aes_final_round_length rk s : length (aes_final_round rk s) = length s.
Proof. unfold aes_final_round. rewrite ark_length, shift_rows_length, sub_bytes_length. reflexivity. Qed.
Lemma aes_inv_round_length rk s : length (aes_inv_round rk s) = length s.
Proof. unfold aes_inv_round. rewrite inv_sub_bytes_length, inv_shift_rows_length, inv_mix_columns_length, ark_length. reflexivity. Qed.
Lemma aes_inv_final_round_length rk s : length (aes_inv_final_round rk s) = length s.
Proof. unfold aes_inv_final_round. rewrite inv_sub_bytes_length, inv_shift_rows_length, ark_length. reflexivity. Qed.

(* ---------- the round structure, for ANY list of round keys made of bytes ---------- *)
Lemma fold_rounds_ok : forall mids s, Forall okl mids -> okl s ->
  okl (fold_left (fun s rk => aes_round rk s) mids s).
Proof.
  induction mids as [|m r IH]; intros s Hm Hs; cbn [fold_left]; [exact Hs|].
  inversion Hm; subst. apply IH; [assumption|]. apply aes_round_ok. assumption.
Qed.
Lemma fold_rounds_length : forall mids s, length (fold_left (fun s rk => aes_round rk s) mids s) = length s.
Proof.
  induction mids as [|m r IH]; intros s; cbn [fold_left]; [reflexivity|].
  rewrite IH. apply aes_round_length.
Qed.
Lemma fold_inv_rounds_length : forall mids s, length (fold_right aes_inv_round s mids) = length s.
Proof.
  induction mids as [|m r IH]; intros s; cbn [fold_right]; [reflexivity|].
  rewrite aes_inv_round_length. apply IH.
Qed.
Lemma fold_inv_rounds_ok : forall mids s, okl s -> okl (fold_right aes_inv_round s mids).
Proof. intros [|m r] s Hs; cbn [fold_right]; [exact Hs | apply aes_inv_round_ok]. Qed.

Lemma fold_inv_fold : forall mids s, Forall okl mids -> okl s ->
  fold_right aes_inv_round (fold_left (fun s rk => aes_round rk s) mids s) mids = s.
Proof.
  induction mids as [|m r IH]; intros s Hm Hs; cbn [fold_left fold_right]; [reflexivity|].
  inversion Hm; subst. rewrite IH by (try assumption; apply aes_round_ok; assumption).
  apply aes_inv_round_round. exact Hs.
Qed.
Lemma fold_fold_inv : forall mids s, Forall okl mids -> okl s ->
  fold_left (fun s rk => aes_round rk s) mids (fold_right aes_inv_round s mids) = s.
Proof.
  induction mids as [|m r IH]; intros s Hm Hs; cbn [fold_left fold_right]; [reflexivity|].
  inversion Hm; subst.
  rewrite aes_round_inv_round by (try assumption; apply fold_inv_rounds_ok; assumption).
  apply IH; assumption.
Qed.

Lemma Forall_last {A} (P : A -> Prop) d : forall l, Forall P l -> P d -> P (last l d).
Proof.
  induction l as [|x r IH]; intros H Hd; [exact Hd|]. inversion H; subst.
  destruct r as [|y r']; [assumption|]. change (P (last (y :: r') d)). apply IH; assumption.
Qed.
Lemma Forall_removelast {A} (P : A -> Prop) : forall l, Forall P l -> Forall P (removelast l).
Proof.
  induction l as [|x r IH]; intros H; [constructor|]. inversion H; subst.
  destruct r as [|y r']; [constructor|]. change (Forall P (x :: removelast (y :: r'))).
  constructor; [assumption | apply IH; assumption].
Qed.

Lemma okl_nil : okl []. Proof. constructor. Qed.

Theorem decrypt_encrypt_rks rks b : Forall okl rks -> okl b -> decrypt_rks rks (encrypt_rks rks b) = b.
Proof.
  intros Hk Hb. destruct rks as [|rk0 rest]; [reflexivity|].
  inversion Hk as [|? ? H0 Hr]; subst. unfold decrypt_rks, encrypt_rks.
  pose proof (Forall_removelast _ _ Hr) as Hm.
  pose proof (ark_ok b rk0 Hb H0) as Hs.
  rewrite aes_inv_final_final by (apply fold_rounds_ok; assumption).
  rewrite fold_inv_fold by assumption. apply ark_twice.
Qed.
Theorem encrypt_decrypt_rks rks c : Forall okl rks -> okl c -> encrypt_rks rks (decrypt_rks rks c) = c.
Proof.
  intros Hk Hc. destruct rks as [|rk0 rest]; [reflexivity|].
  inversion Hk as [|? ? H0 Hr]; subst. unfold decrypt_rks, encrypt_rks.
  pose proof (Forall_removelast _ _ Hr) as Hm.
  pose proof (Forall_last _ [] _ Hr okl_nil) as Hl.
  rewrite ark_twice, fold_fold_inv by (try assumption; apply aes_inv_final_round_ok).
  apply aes_final_inv_final; assumption.
Qed.

Lemma encrypt_rks_length rks b : length (encrypt_rks rks b) = length b.
Proof.
  destruct rks as [|rk0 rest]; [reflexivity|]. unfold encrypt_rks.
  rewrite aes_final_round_length, fold_rounds_length, ark_length. reflexivity.
Qed.
Lemma decrypt_rks_length rks c : length (decrypt_rks rks c) = length c.
Proof.
  destruct rks as [|rk0 rest]; [reflexivity|]. unfold decrypt_rks.
  rewrite ark_length, fold_inv_rounds_length, aes_inv_final_round_length. reflexivity.
Qed.
Lemma encrypt_rks_ok rks b : Forall okl rks -> okl b -> okl (encrypt_rks rks b).
Proof.
  intros Hk Hb. destruct rks as [|rk0 rest]; [exact Hb|]. inversion Hk as [|? ? H0 Hr]; subst.
  unfold encrypt_rks. apply aes_final_round_ok. apply Forall_last; [assumption | apply okl_nil].
Qed.
Lemma decrypt_rks_ok rks c : Forall okl rks -> okl c -> okl (decrypt_rks rks c).
Proof.
  intros Hk Hc. destruct rks as [|rk0 rest]; [exact Hc|]. inversion Hk as [|? ? H0 Hr]; subst.
  unfold decrypt_rks. apply ark_ok; [|assumption].
  apply fold_inv_rounds_ok, aes_inv_final_round_ok.
Qed.

(* ---------- key expansion produces bytes ---------- *)
Lemma xor_bytes_ok : forall a b, okl a -> okl b -> okl (xor_bytes a b).
Proof.
  induction a as [|x xs IH]; intros [|y ys] Ha Hb; cbn [xor_bytes]; try apply okl_nil.
  inversion Ha; inversion Hb; subst. constructor; [apply lxor_ok; assumption | apply IH; assumption].
Qed.
Lemma sub_word_ok w : okl (sub_word w).
Proof. apply sub_bytes_ok. Qed.

Lemma group4_ok : forall l, okl l -> Forall okl (group4 l).
Proof.
  induction l as [| | | |a b c d r IH] using list_ind4; intros H; try constructor.
  - okl4 H. repeat constructor; assumption.
  - apply IH. okl4 H. assumption.
Qed.

Lemma next_chunk_ok rc ws : byte_ok rc = true -> Forall okl ws -> Forall okl (next_chunk rc ws).
Proof.
  intros Hrc H. unfold next_chunk.
  do 8 (destruct ws as [|? ws]; [exact H|]). destruct ws; [|exact H].
  repeat match goal with K : Forall okl (_ :: _) |- _ => inversion K; clear K; subst end.
  assert (okl [rc; 0; 0; 0]) as Hc by (repeat constructor; assumption).
  repeat (constructor; [repeat first [assumption | apply sub_word_ok | apply xor_bytes_ok]|]).
  constructor.
Qed.

Lemma expand_chunks_ok : forall rcs ws, Forall (fun x => byte_ok x = true) rcs -> Forall okl ws ->
  Forall okl (expand_chunks rcs ws).
Proof.
  induction rcs as [|rc r IH]; intros ws Hr Hw; cbn [expand_chunks]; [exact Hw|].
  inversion Hr; subst. apply Forall_app. split; [exact Hw|].
  apply IH; [assumption|]. apply next_chunk_ok; assumption.
Qed.

Lemma okl_firstn n : forall l, okl l -> okl (firstn n l).
Proof.
  intros l H. unfold okl in *. rewrite Forall_forall in *. intros x Hx. apply H.
  rewrite <- (firstn_skipn n l). apply in_or_app. left. exact Hx.
Qed.
Lemma okl_skipn n : forall l, okl l -> okl (skipn n l).
Proof.
  intros l H. unfold okl in *. rewrite Forall_forall in *. intros x Hx. apply H.
  rewrite <- (firstn_skipn n l). apply in_or_app. right. exact Hx.
Qed.
Lemma chunks_ok : forall n l, okl l -> Forall okl (chunks n l).
Proof.
  induction n as [|n IH]; intros l H; cbn [chunks]; constructor.
  - apply okl_firstn. exact H.
  - apply IH. apply okl_skipn. exact H.
Qed.

Lemma round_keys_ok key : okl key -> Forall okl (round_keys key).
Proof.
  intros H. unfold round_keys. apply chunks_ok. apply Forall_concat.
  apply expand_chunks_ok; [|apply group4_ok; exact H].
  unfold rcons. repeat constructor.
Qed.

(* ---------- AES-256: the theorems ---------- *)
(* D_k (E_k b) = b for every key and every block made of bytes.  (The equation needs no length
   hypothesis: on lists of another length the transformations above are still mutually inverse; the
   length hypotheses appear in the property statement Props/C08.v.) *)
Theorem aes256_decrypt_encrypt k b :
  bytes_ok k = true -> bytes_ok b = true -> aes256_decrypt_block k (aes256_encrypt_block k b) = b.
Proof.
  intros Hk Hb. apply okl_iff in Hk. apply okl_iff in Hb.
  unfold aes256_decrypt_block, aes256_encrypt_block.
  apply decrypt_encrypt_rks; [apply round_keys_ok|]; assumption.
Qed.
(* ... and E_k (D_k c) = c: E_k is a permutation of the 16-byte blocks *)
Theorem aes256_encrypt_decrypt k c :
  bytes_ok k = true -> bytes_ok c = true -> aes256_encrypt_block k (aes256_decrypt_block k c) = c.
Proof.
  intros Hk Hc. apply okl_iff in Hk. apply okl_iff in Hc.
  unfold aes256_decrypt_block, aes256_encrypt_block.
  apply encrypt_decrypt_rks; [apply round_keys_ok|]; assumption.
Qed.
Theorem aes256_encrypt_length k b : length (aes256_encrypt_block k b) = length b.
Proof. apply encrypt_rks_length. Qed.
Theorem aes256_decrypt_length k c : length (aes256_decrypt_block k c) = length c.
Proof. apply decrypt_rks_length. Qed.
Theorem aes256_encrypt_ok k b :
  bytes_ok k = true -> bytes_ok b = true -> bytes_ok (aes256_encrypt_block k b) = true.
Proof.
  intros Hk Hb. apply okl_iff in Hk. apply okl_iff in Hb. apply okl_iff.
  apply encrypt_rks_ok; [apply round_keys_ok|]; assumption.
Qed.
Theorem aes256_decrypt_ok k c :
  bytes_ok k = true -> bytes_ok c = true -> bytes_ok (aes256_decrypt_block k c) = true.
Proof.
  intros Hk Hc. apply okl_iff in Hk. apply okl_iff in Hc. apply okl_iff.
  apply decrypt_rks_ok; [apply round_keys_ok|]; assumption.
Qed.

(* the statement of the property file: 32-byte keys, 16-byte blocks *)
Theorem aes256_block_inverse k b :
  length k = 32%nat -> bytes_ok k = true -> length b = 16%nat -> bytes_ok b = true ->
  aes256_decrypt_block k (aes256_encrypt_block k b) = b /\
  length (aes256_encrypt_block k b) = 16%nat /\
  bytes_ok (aes256_encrypt_block k b) = true.
Proof.
  intros _ Hk Lb Hb. split; [apply aes256_decrypt_encrypt; assumption|]. split.
  - rewrite aes256_encrypt_length. exact Lb.
  - apply aes256_encrypt_ok; assumption.
Qed.

(* ---------- CBC / PKCS7 over a block cipher that is only known to invert on BYTE blocks ---------- *)
(* CryptoLemmas.aes_roundtrip asks for D (E b) = b on every list of 16 numbers; a cipher defined through
   a 256-entry S-box cannot offer that for numbers >= 256.  The same theorems hold when the law is only
   available for blocks of bytes, provided IV and text are bytes (which every Python bytes object is). *)
Definition blk_ok (b : bytes) : Prop := length b = blk /\ okl b.

Lemma pkcs7_pad_ok p : okl p -> okl (pkcs7_pad p).
Proof.
  intros H. unfold pkcs7_pad. apply Forall_app. split; [exact H|].
  pose proof (pad_len_range (length p)) as R. unfold blk in R.
  apply Forall_forall. intros x Hx. apply repeat_spec in Hx. subst x.
  unfold byte_ok. apply N.ltb_lt. lia.
Qed.

Lemma chunks_blk_ok : forall n l, length l = (blk * n)%nat -> okl l -> Forall blk_ok (chunks n l).
Proof.
  intros n l L H. destruct (chunks_spec n l L) as (_ & B & _). pose proof (chunks_ok n l H) as C.
  revert B C. generalize (chunks n l). induction l0 as [|x r IH]; intros B C; constructor.
  - inversion B; inversion C; subst. split; assumption.
  - inversion B; inversion C; subst. apply IH; assumption.
Qed.

Section CBCBytes.
  Variable E D : bytes -> bytes.
  Hypothesis ED : forall b, blk_ok b -> D (E b) = b.
  Hypothesis Eok : forall b, blk_ok b -> blk_ok (E b).

  Lemma xor_blk_ok b p : blk_ok b -> blk_ok p -> blk_ok (xor_bytes b p).
  Proof.
    intros [Lb Hb] [Lp Hp]. split; [rewrite xor_bytes_length; lia | apply xor_bytes_ok; assumption].
  Qed.

  Lemma cbc_enc_blk_ok : forall bs prev, blk_ok prev -> Forall blk_ok bs -> Forall blk_ok (cbc_enc E prev bs).
  Proof.
    induction bs as [|b r IH]; intros prev Hp H; cbn [cbc_enc]; [constructor|].
    inversion H; subst.
    assert (blk_ok (E (xor_bytes b prev))) as L by (apply Eok, xor_blk_ok; assumption).
    constructor; [exact L | apply IH; assumption].
  Qed.

  Theorem cbc_dec_enc_bytes : forall bs prev, blk_ok prev -> Forall blk_ok bs ->
    cbc_dec D prev (cbc_enc E prev bs) = bs.
  Proof.
    induction bs as [|b r IH]; intros prev Hp H; cbn [cbc_enc cbc_dec]; [reflexivity|].
    inversion H as [|? ? Hb Hr]; subst.
    pose proof (xor_blk_ok b prev Hb Hp) as Hx.
    rewrite ED by exact Hx. rewrite xor_bytes_twice by (destruct Hb, Hp; lia).
    rewrite IH; [reflexivity | apply Eok; exact Hx | exact Hr].
  Qed.

  Lemma Forall_blk_len bs : Forall blk_ok bs -> Forall (fun b => length b = blk) bs.
  Proof. intros H. eapply Forall_impl; [|exact H]. intros b [L _]. exact L. Qed.

  (* "the original bytes" come back, for every plaintext and every 16-byte IV *)
  Theorem aes_roundtrip_bytes iv text : length iv = blk -> okl iv -> okl text ->
    aes_decrypt D (aes_encrypt E iv text) = Ok text.
  Proof.
    intros Hiv Oiv Ot. unfold aes_encrypt, aes_decrypt.
    assert (length (pkcs7_pad text) mod blk = 0)%nat as Hmod.
    { rewrite pkcs7_pad_length. unfold blk. rewrite Nat.mul_comm. apply Nat.mod_mul. lia. }
    destruct (blocks_of_spec (pkcs7_pad text) Hmod) as [Hc Hb].
    assert (Forall blk_ok (blocks_of (pkcs7_pad text))) as Hbo.
    { unfold blocks_of. apply chunks_blk_ok; [|apply pkcs7_pad_ok; exact Ot].
      pose proof (Nat.div_mod (length (pkcs7_pad text)) blk ltac:(unfold blk; lia)). lia. }
    pose proof (cbc_enc_blk_ok _ iv (conj Hiv Oiv) Hbo) as Hcbo.
    pose proof (Forall_blk_len _ Hcbo) as Hcb.
    set (cs := cbc_enc E iv (blocks_of (pkcs7_pad text))) in *.
    assert (length (concat cs) = blk * length cs)%nat as Lc by (apply concat_length_blk; auto).
    assert (1 <= length cs)%nat as Hne.
    { unfold cs. assert (length (blocks_of (pkcs7_pad text)) >= 1)%nat.
      { destruct (blocks_of (pkcs7_pad text)) eqn:E0; simpl; try lia.
        simpl in Hc. pose proof (pkcs7_pad_length text) as Lp. rewrite <- Hc in Lp. simpl in Lp. unfold blk in Lp. lia. }
      clear -H. revert H. generalize (blocks_of (pkcs7_pad text)) iv. induction l; simpl; intros; lia. }
    rewrite app_length, Lc, Hiv.
    replace (blk + blk * length cs <? 32)%nat with false by (symmetry; apply Nat.ltb_ge; unfold blk; lia).
    rewrite firstn_app, Hiv, Nat.sub_diag, firstn_O, firstn_all2, app_nil_r by lia.
    rewrite skipn_app, Hiv, Nat.sub_diag, skipn_O, skipn_all2 by lia. simpl app.
    rewrite Lc. replace (blk * length cs mod blk)%nat with 0%nat by (symmetry; rewrite Nat.mul_comm; apply Nat.mod_mul; unfold blk; lia).
    simpl negb. cbv iota.
    rewrite blocks_of_concat by auto. unfold cs. rewrite cbc_dec_enc_bytes by (try split; auto).
    rewrite Hc, pkcs7_unpad_pad. reflexivity.
  Qed.
End CBCBytes.

(* the same, stated with the boolean predicates of the model files only *)
Theorem aes_roundtrip_over_bytes (E D : bytes -> bytes) :
  (forall b, length b = blk -> bytes_ok b = true -> D (E b) = b) ->
  (forall b, length b = blk -> bytes_ok b = true -> length (E b) = blk /\ bytes_ok (E b) = true) ->
  forall iv text, length iv = blk -> bytes_ok iv = true -> bytes_ok text = true ->
  aes_decrypt D (aes_encrypt E iv text) = Ok text.
Proof.
  intros HD HE iv text Liv Hiv Ht.
  apply aes_roundtrip_bytes; try (apply okl_iff; assumption); try exact Liv.
  - intros b [Lb Hb]. apply HD; [exact Lb | apply okl_iff; exact Hb].
  - intros b [Lb Hb]. destruct (HE b Lb) as [L O]; [apply okl_iff; exact Hb|].
    split; [exact L | apply okl_iff; exact O].
Qed.

(* ---------- the closed round trip: AesProvider.decrypt (AesProvider.encrypt p) = p ---------- *)
Theorem aes256_cbc_roundtrip k iv text :
  length k = 32%nat -> bytes_ok k = true -> length iv = 16%nat -> bytes_ok iv = true -> bytes_ok text = true ->
  aes_decrypt (aes256_decrypt_block k) (aes_encrypt (aes256_encrypt_block k) iv text) = Ok text.
Proof.
  intros Lk Hk Liv Hiv Ht.
  apply aes_roundtrip_over_bytes; try assumption.
  - intros b Lb Hb. apply aes256_decrypt_encrypt; assumption.
  - intros b Lb Hb. split.
    + rewrite aes256_encrypt_length. exact Lb.
    + apply aes256_encrypt_ok; assumption.
Qed.

(* the length hypotheses of the existing layout / freshness theorems hold for the concrete cipher *)
Theorem aes256_cbc_layout k iv text : length iv = 16%nat ->
  firstn blk (aes_encrypt (aes256_encrypt_block k) iv text) = iv /\
  length (aes_encrypt (aes256_encrypt_block k) iv text) = (blk + blk * (length text / blk + 1))%nat.
Proof.
  intros Liv. apply aes_layout; [|exact Liv]. intros b Lb. rewrite aes256_encrypt_length. exact Lb.
Qed.

(* ---------- where the tables come from, known answers, non-vacuity ---------- *)
(* the S-box table is FIPS-197 5.1.1: x -> affine (x^-1) with x^-1 = x^254 in GF(2^8) *)
Example sbox_table_is_fips197 : map sbox_spec range256 = sbox_tbl.
Proof. vm_compute. reflexivity. Qed.
(* the six constant multiplications are the field multiplication by 02, 03, 09, 0b, 0d, 0e *)
Example mul_constants_are_gf_mul :
  forallb (fun x => (mul2 x =? gf_mul 2 x) && (mul3 x =? gf_mul 3 x) && (mul9 x =? gf_mul 9 x) &&
                    (mul11 x =? gf_mul 11 x) && (mul13 x =? gf_mul 13 x) && (mul14 x =? gf_mul 14 x)) range256 = true.
Proof. vm_compute. reflexivity. Qed.
(* round constants: Rcon[j] = x^(j-1) *)
Example rcons_are_powers_of_x : rcons = [1; xtime 1; xtime 2; xtime 4; xtime 8; xtime 16; xtime 32].
Proof. vm_compute. reflexivity. Qed.

Local Open Scope string_scope.
(* FIPS-197 Appendix C.3 (AES-256) *)
Example fips197_c3_encrypt :
  aes256_encrypt_block (hx "000102030405060708090a0b0c0d0e0f101112131415161718191a1b1c1d1e1f")
                       (hx "00112233445566778899aabbccddeeff") = hx "8ea2b7ca516745bfeafc49904b496089".
Proof. vm_compute. reflexivity. Qed.
Example fips197_c3_decrypt :
  aes256_decrypt_block (hx "000102030405060708090a0b0c0d0e0f101112131415161718191a1b1c1d1e1f")
                       (hx "8ea2b7ca516745bfeafc49904b496089") = hx "00112233445566778899aabbccddeeff".
Proof. vm_compute. reflexivity. Qed.
(* FIPS-197 Appendix A.3: last word of the expanded key w[59] = 706c631e, first round key = first half of the key *)
Example fips197_a3_key_expansion :
  let rks := round_keys (hx "603deb1015ca71be2b73aef0857d77811f352c073b6108d72d9810a30914dff4") in
  length rks = 15%nat /\ forallb (fun rk => (length rk =? 16)%nat) rks = true /\
  nth 0 rks [] = hx "603deb1015ca71be2b73aef0857d7781" /\
  skipn 12 (nth 14 rks []) = hx "706c631e".
Proof. vm_compute. repeat split; reflexivity. Qed.
(* NIST SP 800-38A F.1.5 ECB-AES256.Encrypt, block 1 *)
Example sp800_38a_ecb_aes256 :
  aes256_encrypt_block (hx "603deb1015ca71be2b73aef0857d77811f352c073b6108d72d9810a30914dff4")
                       (hx "6bc1bee22e409f96e93d7e117393172a") = hx "f3eed1bdb5d2a03c064b5a7e3db181f8".
Proof. vm_compute. reflexivity. Qed.
(* NIST SP 800-38A F.2.5 CBC-AES256.Encrypt, two blocks (no padding there: the model's chaining alone) *)
Example sp800_38a_cbc_aes256 :
  concat (cbc_enc (aes256_encrypt_block (hx "603deb1015ca71be2b73aef0857d77811f352c073b6108d72d9810a30914dff4"))
                  (hx "000102030405060708090a0b0c0d0e0f")
                  [hx "6bc1bee22e409f96e93d7e117393172a"; hx "ae2d8a571e03ac9c9eb76fac45af8e51"]) =
  hx "f58c4c04d6e5f1ba779eabfb5f7bfbd69cfc4e967edb808d679f777bc6702c7d".
Proof. vm_compute. reflexivity. Qed.
(* the hypotheses of aes256_block_inverse / aes256_cbc_roundtrip are satisfiable *)
Example aes256_hypotheses_satisfiable :
  let k := hx "000102030405060708090a0b0c0d0e0f101112131415161718191a1b1c1d1e1f" in
  let b := hx "00112233445566778899aabbccddeeff" in
  length k = 32%nat /\ bytes_ok k = true /\ length b = 16%nat /\ bytes_ok b = true /\
  aes_decrypt (aes256_decrypt_block k) (aes_encrypt (aes256_encrypt_block k) b [7; 8; 9]%N) = Ok [7; 8; 9]%N.
Proof. vm_compute. repeat split; reflexivity. Qed.
(* outside the bytes the law fails (why bytes_ok is a hypothesis): 256 is mapped like 0 by the S-box *)
Example aes256_needs_bytes :
  let k := hx "000102030405060708090a0b0c0d0e0f101112131415161718191a1b1c1d1e1f" in
  let b := 256%N :: repeat 0%N 15 in
  bytes_eqb (aes256_decrypt_block k (aes256_encrypt_block k b)) b = false.
Proof. vm_compute. reflexivity. Qed.
