(* DictModel.v — stub, filled in next *)
From Coq Require Import ZArith NArith String Ascii List Bool SpecFloat.
From Cinco Require Import Base ListModel.
Import ListNotations.
Open Scope Z_scope.

Inductive pcase :=
| CList (tg : N) (tbl : vtable) (init : list pyval) (ops : list lop)
| CSlots (is_list : bool).

Definition run_proxyops (c : pcase) : pyval :=
  match c with
  | CList tg tbl init ops => run_list tg tbl init ops
  | CSlots true => o_table list_table
  | CSlots false => PNone
  end.
