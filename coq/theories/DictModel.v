(* DictModel.v — typed dict values (cincoconfig/fields/dict_field.py, class DictProxy) against the
   CPython builtin dict.  Definitions only (no proofs).

   * `b_dstep`     : the builtin `dict` on insertion-ordered association lists: assignment keeps the
                     position (and the key object) of an existing key, update in all call forms is a
                     left-to-right sequence of assignments, LIFO popitem, setdefault, pop with and
                     without default, key lookup by Python `==` (1 == True == 1.0).
   * `proxy_dstep` : DictProxy with its dispatch table `dict_table`: overridden entry points run the
                     Python override (`override_dstep`: statement order of the source), every other
                     entry point the builtin slot.
   Key and value validators are Section variables `VK VV : pyval -> res pyval`. *)
From Coq Require Import ZArith NArith String Ascii List Bool SpecFloat.
From Cinco Require Import Base Str ListModel.
Import ListNotations.
Open Scope Z_scope.

Definition pairs := list (pyval * pyval).

Inductive dsource :=
| DSNone                      (* no positional argument *)
| DSDict (l : pairs)          (* a builtin dict *)
| DSPairs (l : pairs)         (* a list of (key, value) tuples *)
| DSIter (l : pairs)          (* an iterator of (key, value) tuples *)
| DSMapping (l : pairs)       (* a mapping that is not a dict (UserDict, MappingProxyType) *)
| DSCompat (l : pairs)        (* a DictProxy of the same configuration and the same field; l = contents *)
| DSSameField (l : pairs)     (* a DictProxy of the same field in another configuration; l = contents *)
| DSProxyOther (l : pairs)    (* a DictProxy of another field; l = contents *)
| DSSelf.                     (* the dict itself *)

Inductive dop :=
| DSetItem (k v : pyval)
| DUpdate (src : dsource) (kw : pairs)      (* update([src], **kw); kw keys are strings *)
| DIOr (src : dsource)                      (* p |= src *)
| DSetDefault (k : pyval) (v : option pyval)
| DCopy
| DPop (k : pyval) (d : option pyval)
| DPopItem
| DDelItem (k : pyval)
| DGetItem (k : pyval)
| DGet (k : pyval) (d : option pyval)
| DContains (k : pyval)
| DClear
| DLen
| DItems
| DKeys
| DValues
| DReversed
| DEq (o : pyval)
| DNe (o : pyval)
| DOr (src : dsource)                       (* p | src : a plain dict *)
| DNew (src : dsource)                      (* DictProxy(cfg, field, src): a new typed dict *)
| DAssign (src : dsource)                   (* cfg.field = src : whole-value assignment through DictField._validate *)
| DROr (l : pairs)                          (* l | p with l a plain dict: the reflected position *)
| DStar (before after : pairs)              (* {**before, **p, **after} *)
| DEqR (o : pyval).                         (* o == p *)

Definition ds_items (self : pairs) (src : dsource) : pairs :=
  match src with
  | DSNone => []
  | DSDict l | DSPairs l | DSIter l | DSMapping l | DSCompat l | DSSameField l | DSProxyOther l => l
  | DSSelf => self
  end.

(* `isinstance(iterable, DictProxy) and self._is_compatible_proxy(iterable)` *)
Definition ds_compat (src : dsource) : bool :=
  match src with DSCompat _ | DSSelf => true | _ => false end.

(* Python truthiness of the positional argument (`if iterable:`) *)
Definition ds_truthy (self : pairs) (src : dsource) : bool :=
  match src with
  | DSNone => false
  | DSIter _ => true
  | _ => match ds_items self src with [] => false | _ :: _ => true end
  end.

(* is the argument a dict instance (needed by `|`) *)
Definition ds_isdict (src : dsource) : bool :=
  match src with DSDict _ | DSCompat _ | DSSameField _ | DSProxyOther _ | DSSelf => true | _ => false end.

(* `isinstance(iterable, DictProxy) and iterable.dict_field is dict_field` (DictProxy.__init__) *)
Definition ds_samefield (src : dsource) : bool :=
  match src with DSCompat _ | DSSameField _ | DSSelf => true | _ => false end.

(* ------------------------------------------------------------------------------------------ *)
(* builtin dict                                                                                 *)
(* ------------------------------------------------------------------------------------------ *)
Definition d_get (k : pyval) (s : pairs) : option pyval := assoc py_eq k s.
Definition d_set (k v : pyval) (s : pairs) : pairs := assoc_set py_eq k v s.
Definition d_del (k : pyval) (s : pairs) : pairs := assoc_del py_eq k s.

Fixpoint upd (s : pairs) (ps : pairs) : pairs :=
  match ps with
  | [] => s
  | (k, v) :: r => upd (d_set k v s) r
  end.

Fixpoint dict_sub (a b : pairs) : bool :=      (* every pair of a has an equal value under its key in b *)
  match a with
  | [] => true
  | (k, v) :: r => match d_get k b with Some w => py_eq v w && dict_sub r b | None => false end
  end.
Definition b_deq (s : pairs) (o : pyval) : bool :=
  match o with
  | PDict _ l => (length s =? length l)%nat && dict_sub s l
  | _ => false
  end.

Definition opt_or_none (o : option pyval) : pyval := match o with Some v => v | None => PNone end.
Definition o_pair (kv : pyval * pyval) : pyval := PTuple [fst kv; snd kv].

Definition b_dstep (s : pairs) (op : dop) : pairs * res pyval :=
  match op with
  | DSetItem k v => (d_set k v s, Ok PNone)
  | DUpdate src kw => (upd (upd s (ds_items s src)) kw, Ok PNone)
  | DIOr src => (upd s (ds_items s src), Ok self_marker)
  | DSetDefault k v =>
      match d_get k s with
      | Some x => (s, Ok x)
      | None => (s ++ [(k, opt_or_none v)], Ok (opt_or_none v))
      end
  | DCopy => (s, Ok (PDict 0 s))
  | DPop k d =>
      match d_get k s with
      | Some x => (d_del k s, Ok x)
      | None => match d with Some v => (s, Ok v) | None => (s, Err EKey) end
      end
  | DPopItem =>
      match rev s with
      | [] => (s, Err EKey)
      | kv :: r => (rev r, Ok (o_pair kv))
      end
  | DDelItem k =>
      match d_get k s with
      | Some _ => (d_del k s, Ok PNone)
      | None => (s, Err EKey)
      end
  | DGetItem k =>
      match d_get k s with
      | Some x => (s, Ok x)
      | None => (s, Err EKey)
      end
  | DGet k d =>
      match d_get k s with
      | Some x => (s, Ok x)
      | None => (s, Ok (opt_or_none d))
      end
  | DContains k => (s, Ok (PBool (match d_get k s with Some _ => true | None => false end)))
  | DClear => ([], Ok PNone)
  | DLen => (s, Ok (PInt (zlen s)))
  | DItems => (s, Ok (PList 0 (map o_pair s)))
  | DKeys => (s, Ok (PList 0 (map fst s)))
  | DValues => (s, Ok (PList 0 (map snd s)))
  | DReversed => (s, Ok (PList 0 (rev (map fst s))))
  | DEq o => (s, Ok (PBool (b_deq s o)))
  | DNe o => (s, Ok (PBool (negb (b_deq s o))))
  | DOr src =>
      if ds_isdict src then (s, Ok (PDict 0 (upd s (ds_items s src))))
      else match src with
           | DSPairs _ | DSIter _ => (s, Err EType)     (* not a mapping: TypeError *)
           | _ => (s, Unmodelled)      (* other mappings answer through their own __ror__ *)
           end
  | DNew src =>                         (* dict(src): a dict argument is cloned, anything else is a run of assignments *)
      (s, Ok (PDict 0 (if ds_isdict src then ds_items s src else upd [] (ds_items s src))))
  | DAssign src =>                      (* x = dict(src) *)
      ((if ds_isdict src then ds_items s src else upd [] (ds_items s src)), Ok PNone)
  | DROr l => (s, Ok (PDict 0 (upd l s)))              (* dict.__or__(l, s): a plain dict, left operand first *)
  | DStar before after => (s, Ok (PDict 0 (upd (upd before s) after)))
  | DEqR o => (s, Ok (PBool (b_deq s o)))
  end.

(* ------------------------------------------------------------------------------------------ *)
(* override table of DictProxy (see ListModel.list_table)                                       *)
(* ------------------------------------------------------------------------------------------ *)
Open Scope string_scope.
Definition dict_table : list (string * bool * bool) := [
  ("__class__", false, false);
  ("__class_getitem__", false, false);
  ("__contains__", false, false);
  ("__delattr__", false, false);
  ("__delitem__", false, false);
  ("__dir__", false, false);
  ("__doc__", false, true);
  ("__eq__", false, true);
  ("__format__", false, false);
  ("__ge__", false, false);
  ("__getattribute__", false, false);
  ("__getitem__", false, false);
  ("__getstate__", false, false);
  ("__gt__", false, false);
  ("__hash__", false, true);
  ("__init__", true, true);
  ("__init_subclass__", false, false);
  ("__ior__", true, true);
  ("__iter__", false, false);
  ("__le__", false, false);
  ("__len__", false, false);
  ("__lt__", false, false);
  ("__ne__", false, false);
  ("__new__", false, false);
  ("__or__", false, false);
  ("__reduce__", false, false);
  ("__reduce_ex__", false, false);
  ("__repr__", false, false);
  ("__reversed__", false, false);
  ("__ror__", false, false);
  ("__setattr__", false, false);
  ("__setitem__", true, true);
  ("__sizeof__", false, false);
  ("__str__", false, false);
  ("__subclasshook__", false, false);
  ("clear", false, false);
  ("copy", true, true);
  ("fromkeys", false, false);
  ("get", false, false);
  ("items", false, false);
  ("keys", false, false);
  ("pop", false, false);
  ("popitem", false, false);
  ("setdefault", true, true);
  ("update", true, true);
  ("values", false, false)
].
Definition dict_overridden : string -> bool := table_overridden dict_table.

Definition dop_entry (op : dop) : string :=
  match op with
  | DSetItem _ _ => "__setitem__"
  | DUpdate _ _ => "update"
  | DIOr _ => "__ior__"
  | DSetDefault _ _ => "setdefault"
  | DCopy => "copy"
  | DPop _ _ => "pop"
  | DPopItem => "popitem"
  | DDelItem _ => "__delitem__"
  | DGetItem _ => "__getitem__"
  | DGet _ _ => "get"
  | DContains _ => "__contains__"
  | DClear => "clear"
  | DLen => "__len__"
  | DItems => "items"
  | DKeys => "keys"
  | DValues => "values"
  | DReversed => "__reversed__"
  | DEq _ => "__eq__"
  | DNe _ => "__ne__"
  | DOr _ => "__or__"
  | DNew _ => "__init__"
  | DAssign _ => "__init__"
  | DROr _ => "__ror__"
  | DStar _ _ => "__iter__"
  | DEqR _ => "__eq__"
  end.
Close Scope string_scope.

(* ------------------------------------------------------------------------------------------ *)
(* DictProxy                                                                                    *)
(* ------------------------------------------------------------------------------------------ *)
(* Signature binding of `def update(self, iterable=None, **kwargs)`: the method is not
   positional-only, so the keyword names "self" and "iterable" never reach **kwargs (open finding
   F51; dict.update is positional-only and stores them). *)
Definition kw_self : str := sa "self".
Definition kw_iterable : str := sa "iterable".
Fixpoint kw_get (name : str) (kw : pairs) : option pyval :=
  match kw with
  | [] => None
  | (k, v) :: r => if pyval_eqb k (PStr name) then Some v else kw_get name r
  end.
Definition kw_has (name : str) (kw : pairs) : bool :=
  match kw_get name kw with Some _ => true | None => false end.
Definition kw_remove (name : str) (kw : pairs) : pairs :=
  filter (fun kv => negb (pyval_eqb (fst kv) (PStr name))) kw.

(* region of the open finding F51 *)
Definition kw_clash (op : dop) : bool :=
  match op with
  | DUpdate _ kw => kw_has kw_self kw || kw_has kw_iterable kw
  | _ => false
  end.

Definition py_truthy (v : pyval) : bool :=
  match v with
  | PNone => false
  | PBool b => b
  | PInt z => negb (z =? 0)
  | PFloat f => match f with S754_zero _ => false | _ => true end
  | PStr s => match s with [] => false | _ => true end
  | _ => true
  end.

(* `"%s" % key` as DictProxy._ref_path renders the key of the offending entry (the key AS GIVEN, before
   validation).  Float text is not modelled: the harness canonicalises it to the same marker. *)
Definition key_text (k : pyval) : str :=
  match k with
  | PNone => sa "None"
  | PBool true => sa "True"
  | PBool false => sa "False"
  | PInt z => str_of_Z z
  | PStr s => s
  | PFloat _ => sa "<float>"
  | _ => sa "<other>"
  end.

(* ValidationError.ref_path of a refused entry: "<configuration path>.<field>[<key>]"; the text before
   the bracket (holder path and field key) is a string the model is given *)
Definition entry_path (pre : str) (kt : str) : str := pre ++ [91%N] ++ kt ++ [93%N].

Definition lift_p {A} (o : res A) (v : pyval) : res pyval :=
  match o with Ok _ => Ok v | Err e => Err e | Unmodelled => Unmodelled end.

Section DProxy.
  Variables VK VV : pyval -> res pyval.   (* key_field.validate, value_field.validate *)
  Variable tg : N.

  (* DictProxy._validate: key first, then value; every exception becomes a ValidationError whose
     ref_path ends in [<the key as given>] (the error value carries that key text) *)
  Definition d_validate (k v : pyval) : res (pyval * pyval) :=
    match VK k with
    | Ok k' => match VV v with
               | Ok v' => Ok (k', v')
               | Err _ => Err (EValidation (key_text k))
               | Unmodelled => Unmodelled
               end
    | Err _ => Err (EValidation (key_text k))
    | Unmodelled => Unmodelled
    end.

  (* `[self._validate(key, value) for key, value in pairs]`: all pairs or the first error *)
  Fixpoint dvmap (ps : pairs) : res pairs :=
    match ps with
    | [] => Ok []
    | (k, v) :: r =>
        match d_validate k v with
        | Ok kv => match dvmap r with Ok l => Ok (kv :: l) | Err e => Err e | Unmodelled => Unmodelled end
        | Err e => Err e
        | Unmodelled => Unmodelled
        end
    end.

  (* `for key, value in kwargs.items(): self.__setitem__(key, value)` — progressive *)
  Fixpoint kwloop (s : pairs) (kw : pairs) : pairs * res unit :=
    match kw with
    | [] => (s, Ok tt)
    | (k, v) :: r =>
        match d_validate k v with
        | Ok (k', v') => kwloop (d_set k' v' s) r
        | Err e => (s, Err e)
        | Unmodelled => (s, Unmodelled)
        end
    end.

  (* the positional part of DictProxy.update *)
  Definition p_update_src (s : pairs) (src : dsource) : pairs * res unit :=
    if ds_truthy s src then
      if ds_compat src then (upd s (ds_items s src), Ok tt)       (* dict.__setitem__ per pair, no validation *)
      else match dvmap (ds_items s src) with
           | Ok ps => (upd s ps, Ok tt)                            (* super().update([...]) *)
           | Err e => (s, Err e)
           | Unmodelled => (s, Unmodelled)
           end
    else (s, Ok tt).

  Definition p_update (s : pairs) (src : dsource) (kw : pairs) : pairs * res unit :=
    match p_update_src s src with
    | (s1, Ok _) => kwloop s1 kw
    | (s1, o) => (s1, o)
    end.

  (* the call `p.update([src], **kw)` as Python binds it to (self, iterable=None, **kwargs) *)
  Definition p_update_call (s : pairs) (src : dsource) (kw : pairs) : pairs * res unit :=
    if kw_has kw_self kw then (s, Err EType)              (* multiple values for argument 'self' *)
    else match kw_get kw_iterable kw with
         | None => p_update s src kw
         | Some v =>
             match src with
             | DSNone =>                                   (* the keyword value *is* the iterable *)
                 if py_truthy v then
                   match v with
                   | PInt _ | PBool _ | PFloat _ => (s, Err EType)    (* list(number) *)
                   | PStr _ => (s, Err EValue)                        (* `for key, value in` a character *)
                   | _ => (s, Unmodelled)
                   end
                 else kwloop s (kw_remove kw_iterable kw)             (* `if iterable:` is false: ignored *)
             | _ => (s, Err EType)                         (* multiple values for argument 'iterable' *)
             end
         end.

  (* DictProxy.__init__(cfg, field, iterable) for a dict / proxy argument *)
  Definition dp_init (same_field : bool) (items : pairs) : res pairs :=
    if same_field then Ok items
    else match items with
         | [] => Ok []
         | _ => match dvmap items with Ok ps => Ok (upd [] ps) | Err e => Err e | Unmodelled => Unmodelled end
         end.

  Definition override_dstep (s : pairs) (op : dop) : pairs * res pyval :=
    match op with
    | DSetItem k v =>                  (* key, value = self._validate(key, value); super().__setitem__ *)
        match d_validate k v with
        | Ok (k', v') => b_dstep s (DSetItem k' v')
        | Err e => (s, Err e)
        | Unmodelled => (s, Unmodelled)
        end
    | DUpdate src kw =>
        match p_update_call s src kw with (s', o) => (s', lift_p o PNone) end
    | DIOr src =>                      (* self.update(other); return self *)
        match p_update s src [] with (s', o) => (s', lift_p o self_marker) end
    | DSetDefault k v =>               (* validate (value defaults to None), then super().setdefault *)
        match d_validate k (opt_or_none v) with
        | Ok (k', v') => b_dstep s (DSetDefault k' (Some v'))
        | Err e => (s, Err e)
        | Unmodelled => (s, Unmodelled)
        end
    | DCopy =>                         (* DictProxy(self.cfg, self.dict_field, self): fast path *)
        match dp_init true s with
        | Ok c => (s, Ok (PDict tg c))
        | Err e => (s, Err e)
        | Unmodelled => (s, Unmodelled)
        end
    | DNew src =>                      (* DictProxy.__init__: fast path for a proxy of the same field *)
        match dp_init (ds_samefield src) (ds_items s src) with
        | Ok c => (s, Ok (PDict tg c))
        | Err e => (s, Err e)
        | Unmodelled => (s, Unmodelled)
        end
    | DAssign src =>
        (* DictField._validate: dict instances only (anything else: not modelled here), then DictProxy(cfg, self,
           value): the RECEIVING field validates every entry unless the value is a proxy of this very field *)
        if ds_isdict src then
          match dp_init (ds_samefield src) (ds_items s src) with
          | Ok c => (c, Ok PNone)
          | Err e => (s, Err e)
          | Unmodelled => (s, Unmodelled)
          end
        else (s, Unmodelled)
    | DEq o =>                         (* not a dict -> False, else dict.__eq__ *)
        match o with
        | PDict _ _ => b_dstep s (DEq o)
        | _ => (s, Ok (PBool false))
        end
    | _ => b_dstep s op
    end.

  Definition proxy_dstep (s : pairs) (op : dop) : pairs * res pyval :=
    if dict_overridden (dop_entry op) then override_dstep s op else b_dstep s op.

  (* ---- specification side ---- *)
  Definition dnorm1 (V : pyval -> res pyval) (x : pyval) : pyval := match V x with Ok y => y | _ => x end.
  Definition dokb (V : pyval -> res pyval) (x : pyval) : bool := match V x with Ok _ => true | _ => false end.
  Definition norm_pair (kv : pyval * pyval) : pyval * pyval :=
    match kv with (k, v) => (dnorm1 VK k, dnorm1 VV v) end.
  Definition pair_ok (kv : pyval * pyval) : bool :=
    match kv with (k, v) => dokb VK k && dokb VV v end.

  Definition norm_src (s : pairs) (src : dsource) : dsource :=
    if ds_compat src then DSPairs (ds_items s src) else DSPairs (map norm_pair (ds_items s src)).

  Definition norm_dop (s : pairs) (op : dop) : dop :=
    match op with
    | DSetItem k v => DSetItem (dnorm1 VK k) (dnorm1 VV v)
    | DUpdate src kw => DUpdate (norm_src s src) (map norm_pair kw)
    | DIOr src => DIOr (norm_src s src)
    | DSetDefault k v => DSetDefault (dnorm1 VK k) (Some (dnorm1 VV (opt_or_none v)))
    | DNew src => if ds_samefield src then DNew (DSDict (ds_items s src))
                  else DNew (DSPairs (map norm_pair (ds_items s src)))
    | DAssign src => if ds_samefield src then DAssign (DSDict (ds_items s src))
                     else DAssign (DSPairs (map norm_pair (ds_items s src)))
    | _ => op
    end.

  Definition src_ok (s : pairs) (src : dsource) : bool :=
    ds_compat src || forallb pair_ok (ds_items s src).

  Definition daccepted (s : pairs) (op : dop) : bool :=
    match op with
    | DSetItem k v => pair_ok (k, v)
    | DUpdate src kw => src_ok s src && forallb pair_ok kw
    | DIOr src => src_ok s src
    | DSetDefault k v => pair_ok (k, opt_or_none v)
    | DNew src => ds_samefield src || forallb pair_ok (ds_items s src)
    | DAssign src => ds_isdict src && (ds_samefield src || forallb pair_ok (ds_items s src))
    | _ => true
    end.

  Definition dretag (op : dop) (r : res pyval) : res pyval :=
    match op with
    | DCopy | DNew _ => match r with Ok (PDict _ l) => Ok (PDict tg l) | _ => r end
    | _ => r
    end.

  Definition spec_dstep (s : pairs) (op : dop) : pairs * res pyval :=
    match b_dstep s (norm_dop s op) with (s', r) => (s', dretag op r) end.
End DProxy.

(* the pairs an operation validates, in the order it validates them (compatible / same-field proxies
   are taken over without validation) *)
Definition dchecked (s : pairs) (op : dop) : pairs :=
  match op with
  | DSetItem k v => [(k, v)]
  | DSetDefault k v => [(k, opt_or_none v)]
  | DUpdate src kw => (if ds_compat src then [] else ds_items s src) ++ kw
  | DIOr src => if ds_compat src then [] else ds_items s src
  | DNew src | DAssign src => if ds_samefield src then [] else ds_items s src
  | _ => []
  end.
Definition dop_validating (op : dop) : bool :=
  match op with DSetItem _ _ | DSetDefault _ _ | DUpdate _ _ | DIOr _ | DNew _ | DAssign _ => true | _ => false end.

(* the key of the first pair that is not acceptable *)
Fixpoint first_bad (VK VV : pyval -> res pyval) (ps : pairs) : option pyval :=
  match ps with
  | [] => None
  | (k, v) :: r => if pair_ok VK VV (k, v) then first_bad VK VV r else Some k
  end.

Fixpoint daccepted_run (VK VV : pyval -> res pyval) (tg : N) (s : pairs) (ops : list dop) : bool :=
  match ops with
  | [] => true
  | op :: r => daccepted VK VV s op && daccepted_run VK VV tg (fst (proxy_dstep VK VV tg s op)) r
  end.

(* ------------------------------------------------------------------------------------------ *)
(* observation for the correspondence stream                                                    *)
(* ------------------------------------------------------------------------------------------ *)
(* what the harness feeds the twin when the proxy refuses: the keyword pairs accepted before the
   refused one, provided the positional part went through *)
Definition dtwin_rejected (VK VV : pyval -> res pyval) (p t : pairs) (op : dop) : pairs :=
  match op with
  | DUpdate src kw =>
      if src_ok VK VV p src then
        (fix go (t : pairs) (kw : pairs) : pairs :=
           match kw with
           | [] => t
           | kv :: r => if pair_ok VK VV kv then go (upd t [norm_pair VK VV kv]) r else t
           end) (upd t (ds_items t (norm_src VK VV t src))) kw
      else t
  | _ => t
  end.

(* a refused entry is observed with its full reference path *)
Definition o_dkind (pre : str) (e : errk) : pyval :=
  match e with EValidation kt => o_errk (EValidation (entry_path pre kt)) | _ => o_errk e end.
Definition o_dout (pre : str) (r : res pyval) : pyval :=
  match r with
  | Ok v => PTuple [o_str "ok"; v]
  | Err e => PTuple [o_str "err"; o_dkind pre e]
  | Unmodelled => o_str "unmodelled"
  end.

Fixpoint dtrace (pre : str) (VK VV : pyval -> res pyval) (tg : N) (p t : pairs) (ops : list dop) : list pyval :=
  match ops with
  | [] => []
  | op :: r =>
      match proxy_dstep VK VV tg p op with
      | (p', out) =>
          let tw := if daccepted VK VV p op
                    then match b_dstep t (norm_dop VK VV t op) with (t', o) => (t', o_out o) end
                    else (dtwin_rejected VK VV p t op, o_str "skipped") in
          PTuple [o_dout pre out; PDict tg p'; snd tw; PDict 0 (fst tw)] :: dtrace pre VK VV tg p' (fst tw) r
      end
  end.

(* pre = "<configuration path>.<field>"; the initial value is assigned as a whole (`cfg.d = {...}`:
   DictField._validate builds the proxy, Config._set_value passes its ValidationError on unchanged) *)
Definition run_dict (tg : N) (pre : str) (kt vt : vtable) (init : pairs) (ops : list dop) : pyval :=
  match dp_init (table_V kt) (table_V vt) false init with
  | Ok s => PList 0 (PDict tg s :: dtrace pre (table_V kt) (table_V vt) tg s s ops)
  | Err e => PTuple [o_str "init"; o_dkind pre e]
  | Unmodelled => o_str "unmodelled"
  end.

(* ---- the cases of stream `proxyops` ---- *)
Inductive pcase :=
| CList (tg : N) (path : str) (tbl : vtable) (init : list pyval) (ops : list lop)
| CDict (tg : N) (pre : str) (ktbl vtbl : vtable) (init : pairs) (ops : list dop)
| CSlots (is_list : bool).

Definition run_proxyops (c : pcase) : pyval :=
  match c with
  | CList tg path tbl init ops => run_list tg path tbl init ops
  | CDict tg pre kt vt init ops => run_dict tg pre kt vt init ops
  | CSlots true => o_table list_table
  | CSlots false => o_table dict_table
  end.
