(* FileFieldsLemmas.v — FilenameField / UrlField: exactness, soundness, idempotence (and where it fails), round trip.
   All statements hold for EVERY file-system / urlparse oracle; hypotheses about os.path are named. *)
From Coq Require Import ZArith NArith String List Bool Lia.
From Cinco Require Import Base Str Net StrLemmas Fields FieldsLemmas FileFields.
Import ListNotations.
Open Scope N_scope.

Lemma lift_ok : forall (A : Type) (o : option A) a, lift o = Ok a <-> o = Some a.
Proof. intros A [x|] a; cbn; split; intro H; try discriminate; [injection H as ->|injection H as ->]; reflexivity. Qed.

Section FF.
  Variable orc : oracle.
  Variable F : fsys.
  Variable U : uparse.

  (* ---- declarative reading of the two steps ---- *)
  (* the path the field stores for the (non-empty) text s *)
  Definition resolved (sd : option str) (s p : str) : Prop :=
    exists ab, fs_isabs F s = Some ab /\
      (((ab = true \/ sd = None \/ sd = Some []) /\ p = s) \/
       (ab = false /\ exists d j e, sd = Some d /\ d <> [] /\ fs_join F d s = Some j /\ fs_expanduser F j = Some e /\
                                    fs_abspath F e = Some p)).
  (* the existence mode holds of a path *)
  Definition mode_holds (m : emode) (p : str) : Prop :=
    match m with
    | ENone => True
    | ETrue => fs_exists F p = Some true
    | EFalse => fs_exists F p = Some false
    | EDir => fs_isdir F p = Some true
    | EFile => fs_isfile F p = Some true
    end.

  Lemma resolve_ok : forall sd s p, resolve F sd s = Ok p <-> resolved sd s p.
  Proof.
    intros sd s p. unfold resolve, resolved. split.
    - intro H. apply bind_ok in H as [ab [A H]]. apply lift_ok in A. exists ab. split; [exact A|].
      destruct sd as [d|].
      + destruct ab; cbn [negb andb] in H.
        * injection H as <-. left. auto.
        * destruct d as [|c d]; cbn [is_nil negb] in H.
          -- injection H as <-. left. auto.
          -- right. split; [reflexivity|]. apply bind_ok in H as [j [J H]]. apply bind_ok in H as [e [E H]].
             apply lift_ok in J, E, H. exists (c :: d), j, e. repeat split; auto. discriminate.
      + injection H as <-. left. auto.
    - intros [ab [A H]]. rewrite A. cbn [lift bind].
      destruct H as [[H E0]|[E0 (d & j & e & E1 & Hd & J & E & P)]]; subst.
      + destruct H as [E1|[E1|E1]]; subst; [destruct sd as [d|]; reflexivity|reflexivity|].
        destruct ab; reflexivity.
      + destruct d as [|c d]; [congruence|]. cbn [negb andb is_nil]. rewrite J. cbn [lift bind]. rewrite E. cbn [lift bind].
        now rewrite P.
  Qed.

  Lemma mode_check_ok : forall m p, mode_check F m p = Ok tt <-> (exists ex, fs_exists F p = Some ex) /\ mode_holds m p.
  Proof.
    intros m p. unfold mode_check, mode_holds. split.
    - intro H. apply bind_ok in H as [ex [A H]]. apply lift_ok in A. split; [eauto|].
      destruct m; [exact I|destruct ex; [exact A|discriminate]|destruct ex; [discriminate|exact A]| |];
        apply bind_ok in H as [d [D H]]; apply lift_ok in D; destruct d; [exact D|discriminate|exact D|discriminate].
    - intros [[ex A] H]. rewrite A. cbn [lift bind].
      destruct m; cbn in H; [reflexivity| | | |]; try (rewrite H in A; injection A as <-; reflexivity);
        rewrite H; reflexivity.
  Qed.

  (* ---- FilenameField: exactness ---- *)
  Theorem file_validate_exact : forall req o m sd x v,
    file_validate orc F req o m sd x = Ok v <->
    exists s, str_validate orc req o x = Ok s /\
      ((s = [] /\ v = PStr []) \/
       (s <> [] /\ exists p, resolved sd s p /\ (exists ex, fs_exists F p = Some ex) /\ mode_holds m p /\ v = PStr p)).
  Proof.
    intros req o m sd x v. unfold file_validate. split.
    - intro H. apply bind_ok in H as [s [S H]]. exists s. split; [exact S|].
      destruct s as [|c s]; cbn [is_nil] in H.
      + injection H as <-. left. auto.
      + right. split; [discriminate|]. apply bind_ok in H as [p [P H]]. apply bind_ok in H as [[] [M H]].
        injection H as <-. apply resolve_ok in P. apply mode_check_ok in M as [M1 M2]. exists p. auto.
    - intros [s [S H]]. rewrite S. cbn [bind]. destruct H as [[E1 E2]|[Hs (p & P & M1 & M2 & E2)]]; subst; [reflexivity|].
      destruct s as [|c s]; [congruence|]. cbn [is_nil]. apply resolve_ok in P. rewrite P. cbn [bind].
      rewrite (proj2 (mode_check_ok m p) (conj M1 M2)). reflexivity.
  Qed.

  (* soundness against `meets`: the stored value is a str, empty or a path of which the existence mode holds *)
  Definition file_meets (m : emode) (v : pyval) : Prop := exists p, v = PStr p /\ (p = [] \/ mode_holds m p).
  Theorem file_validate_sound : forall req o m sd x v, file_validate orc F req o m sd x = Ok v -> file_meets m v.
  Proof.
    intros req o m sd x v H. apply file_validate_exact in H as [s [_ [[_ E]|[_ (p & _ & _ & M & E)]]]]; subst.
    - exists []. auto.
    - exists p. auto.
  Qed.

  (* ---- FilenameField: idempotence ---- *)
  (* os.path fact used: what abspath returns is absolute *)
  Definition abspath_absolute : Prop := forall e a, fs_abspath F e = Some a -> fs_isabs F a = Some true.

  (* premise `stable`: the stored path passes the field's own string pipeline unchanged (always true of a field without
     string options, see the corollary; NOT true in general -- file_validate_idem_refuted) *)
  Theorem file_validate_idem : forall req o m sd x p,
    abspath_absolute ->
    file_validate orc F req o m sd x = Ok (PStr p) ->
    str_validate orc req o (PStr p) = Ok p ->
    file_validate orc F req o m sd (PStr p) = Ok (PStr p).
  Proof.
    intros req o m sd x p Habs H Hst. apply file_validate_exact. exists p. split; [exact Hst|].
    apply file_validate_exact in H as [s [_ [[_ E]|[Hs (p' & P & M1 & M2 & E)]]]]; injection E as ->; [left; auto|].
    destruct p' as [|c q] eqn:Ep; [left; auto|]. right. split; [discriminate|]. exists (c :: q). repeat split; auto.
    destruct P as [ab [A [[H1 H2]|[E0 (d & j & e & E1 & Hd & J & E & P)]]]].
    - subst s. exists ab. split; [exact A|]. left. auto.
    - exists true. split; [exact (Habs _ _ P)|]. left. auto.
  Qed.

  Lemma str_validate_sopts0 : forall req p, str_validate orc req sopts0 (PStr p) = if req && is_nil p then Err EValue else Ok p.
  Proof. intros req p. unfold str_validate. cbn. destruct (req && is_nil p); reflexivity. Qed.

  (* a field without string options: unconditional (os.path.isabs("") is False, so no absolute path is empty) *)
  Corollary file_validate_idem_plain : forall req m sd x p,
    abspath_absolute -> fs_isabs F [] = Some false ->
    file_validate orc F req sopts0 m sd x = Ok (PStr p) -> file_validate orc F req sopts0 m sd (PStr p) = Ok (PStr p).
  Proof.
    intros req m sd x p Habs Hemp H. apply (file_validate_idem req sopts0 m sd x p Habs H).
    rewrite str_validate_sopts0.
    replace (req && is_nil p) with false; [reflexivity|]. symmetry.
    apply file_validate_exact in H as [s [S [[Es E]|[Hs (p' & P & _ & _ & E)]]]]; injection E as ->.
    - subst s. destruct (str_validate_str _ _ _ _ _ S) as [s0 ->]. rewrite str_validate_sopts0 in S.
      destruct (req && is_nil s0) eqn:R; [discriminate|]. injection S as ->. exact R.
    - apply andb_false_iff. right. apply is_nil_false.
      destruct P as [ab [A [[_ E]|[_ (d & j & e & _ & _ & _ & _ & P)]]]]; [now subst|].
      intros ->. pose proof (Habs _ _ P) as Q. rewrite Hemp in Q. discriminate.
  Qed.

  (* ---- UrlField ---- *)
  Theorem url_validate_exact : forall req o x v,
    url_validate orc U req o x = Ok v <->
    exists s sch, str_validate orc req o x = Ok s /\ U s = Some (Some sch) /\ sch <> [] /\ v = PStr s.
  Proof.
    intros req o x v. unfold url_validate. split.
    - intro H. apply bind_ok in H as [s [S H]]. destruct (U s) as [[sch|]|] eqn:E; try discriminate.
      destruct sch as [|c sch]; cbn [is_nil] in H; [discriminate|]. injection H as <-.
      exists s, (c :: sch). repeat split; auto. discriminate.
    - intros (s & sch & S & E & Hn & ->). rewrite S. cbn [bind]. rewrite E. destruct sch; [congruence|reflexivity].
  Qed.

  Theorem url_validate_idem : forall req o x v, sopts_F13 o = false ->
    url_validate orc U req o x = Ok v -> url_validate orc U req o v = Ok v.
  Proof.
    intros req o x v HF H. apply url_validate_exact in H as (s & sch & S & E & Hn & ->).
    apply url_validate_exact. exists s, sch. repeat split; auto. eapply str_validate_idem; eassumption.
  Qed.

  (* ---- both classes through Field.validate ---- *)
  Definition ff_stable (f : ffield) (v : pyval) : Prop :=
    match f, v with
    | FFile req o _ _, PStr p => str_validate orc req o (PStr p) = Ok p
    | FUrl _ o, _ => sopts_F13 o = false
    | _, _ => True
    end.

  Theorem ff_validate_idem : forall f x v,
    abspath_absolute -> ff_validate orc F U f x = Ok v -> ff_stable f v -> ff_validate orc F U f v = Ok v.
  Proof.
    intros f x v Habs H Hst. destruct x; cbn [ff_validate] in H;
      try (destruct (ff_req f) eqn:R; [discriminate|]; injection H as <-; cbn; now rewrite R).
    all: destruct f as [req o m sd|req o].
    all: try (pose proof (file_validate_sound _ _ _ _ _ _ H) as [p1 [-> _]]; cbn [ff_validate ff_stable] in *;
              eapply file_validate_idem; eassumption).
    all: pose proof H as H'; apply url_validate_exact in H' as (s1 & sch & _ & _ & _ & ->); cbn [ff_validate ff_stable] in *;
         eapply url_validate_idem; eassumption.
  Qed.

  (* ---- idempotence outside the two open findings: F56 (start directory + string option) and F13 ---- *)
  Lemma sopts_plain_eq : forall o, sopts_plain o = true -> o = sopts0.
  Proof.
    intros [mn mx rx ch ca st] H. unfold sopts_plain in H.
    destruct mn, mx, rx, ch, ca, st; try discriminate. reflexivity.
  Qed.

  Theorem ff_validate_idem_partial : forall f x v,
    known_F56 f = false -> ff_F13 f = false -> abspath_absolute -> fs_isabs F [] = Some false ->
    ff_validate orc F U f x = Ok v -> ff_validate orc F U f v = Ok v.
  Proof.
    intros f x v H56 H13 Habs Hemp H. apply (ff_validate_idem f x v Habs H).
    destruct f as [req o m sd|req o]; cbn [ff_stable ff_F13] in *; [|exact H13].
    destruct v as [| | | |p| | | | | |]; try exact I.
    assert (Hf : file_validate orc F req o m sd x = Ok (PStr p)).
    { destruct x; cbn [ff_validate] in H; try exact H. destruct req; discriminate. }
    clear H.
    apply file_validate_exact in Hf as [s [S [[Es E]|[Hs (p' & P & _ & _ & E)]]]]; injection E as ->.
    - subst s. eapply str_validate_idem; eassumption.
    - destruct (sopts_plain o) eqn:Pl.
      + apply sopts_plain_eq in Pl. subst o. rewrite str_validate_sopts0.
        replace (req && is_nil p') with false; [reflexivity|]. symmetry. apply andb_false_iff. right. apply is_nil_false.
        destruct P as [ab [A [[_ E]|[_ (d & j & e & _ & _ & _ & _ & P)]]]]; [now subst|].
        intros ->. pose proof (Habs _ _ P) as Q. rewrite Hemp in Q. discriminate.
      + assert (Hp : p' = s).
        { destruct P as [ab [_ [[_ E]|[_ (d & j & e & Esd & Hd & _)]]]]; [exact E|].
          exfalso. subst sd. cbn [known_F56] in H56. rewrite Pl in H56. destruct d; [congruence|discriminate]. }
        subst p'. eapply str_validate_idem; eassumption.
  Qed.

  (* the on-disk form is the value itself: to_python (to_basic v) = v, so the round trip is idempotence *)
  Theorem ff_roundtrip : forall f x v,
    abspath_absolute -> ff_validate orc F U f x = Ok v -> ff_stable f v ->
    exists b p, ff_to_basic f v = Ok b /\ ff_to_python f b = Ok p /\ ff_validate orc F U f p = Ok v.
  Proof. intros f x v Habs H Hst. exists v, v. repeat split. eapply ff_validate_idem; eassumption. Qed.
End FF.

(* ---- idempotence is FALSE when the resolved path is changed (or refused) by the field's own string options ---- *)
(* FilenameField(startdir="/Tmp", transform_case="lower").validate("a") = "/Tmp/a"; validate("/Tmp/a") = "/tmp/a" *)
Local Open Scope string_scope.
Definition refute_fs : fsys :=
  fsys_of [(sa "a", (false, sa "a", sa "/Tmp/a", false, false, false));
           (sa "/Tmp/a", (true, sa "/Tmp/a", sa "/Tmp/a", false, false, false));
           (sa "/tmp/a", (true, sa "/tmp/a", sa "/tmp/a", false, false, false))]
          [(sa "/Tmp", sa "a", sa "/Tmp/a")].
Definition refute_field : ffield := FFile false (mk_sopts None None None [] CLower SNone) ENone (Some (sa "/Tmp")).
Lemma tlook_In : forall (A : Type) (t : list (str * A)) k a, tlook t k = Some a -> exists k', In (k', a) t.
Proof.
  intros A t k a. induction t as [|[k' a'] t IH]; cbn; [discriminate|].
  destruct (str_eqb k k'); [intro H; injection H as ->; exists k'; now left|].
  intro H. destruct (IH H) as [k2 Hk]. exists k2. now right.
Qed.

(* a per-case table satisfies `abspath_absolute` as soon as every abspath answer it holds has a row saying "absolute" *)
Definition abs_of (r : bool * str * str * bool * bool * bool) : str := match r with (_, _, a, _, _, _) => a end.
Definition isabs_of (r : bool * str * str * bool * bool * bool) : bool := match r with (a, _, _, _, _, _) => a end.
Lemma table_abspath_absolute : forall rows joins,
  forallb (fun kr => match tlook rows (abs_of (snd kr)) with Some r' => isabs_of r' | None => false end) rows = true ->
  abspath_absolute (fsys_of rows joins).
Proof.
  intros rows joins H e a Ha. unfold fsys_of in *. cbn [fs_abspath fs_isabs] in *.
  destruct (tlook rows e) as [r|] eqn:E; [|discriminate]. injection Ha as <-.
  destruct (tlook_In _ _ _ _ E) as [k Hk]. rewrite forallb_forall in H. specialize (H _ Hk). cbn [snd] in H.
  destruct r as [[[[[ab ex] a] x] d] f]. cbn [abs_of] in *.
  destruct (tlook rows a) as [r'|]; [|discriminate]. destruct r' as [[[[[ab' ex'] a'] x'] d'] f']. cbn [isabs_of] in H. now subst.
Qed.

Theorem file_validate_idem_refuted :
  abspath_absolute refute_fs /\
  ff_validate no_oracle refute_fs (fun _ => None) refute_field (PStr (sa "a")) = Ok (PStr (sa "/Tmp/a")) /\
  ff_validate no_oracle refute_fs (fun _ => None) refute_field (PStr (sa "/Tmp/a")) = Ok (PStr (sa "/tmp/a")).
Proof.
  split; [|split; vm_compute; reflexivity].
  apply table_abspath_absolute. vm_compute. reflexivity.
Qed.

Example ff_hyps_sat : abspath_absolute refute_fs /\ fs_isabs refute_fs [] = None.
Proof. split; [apply file_validate_idem_refuted|reflexivity]. Qed.
