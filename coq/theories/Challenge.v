(* Challenge.v — ChallengeField / DigestValue (cincoconfig/fields/secure_field.py:28-289).
   Definitions only.

   What is NOT code of this repository enters as Section variables:
     H a x          hashlib's algorithm number a (index into ChallengeField.ALGORITHMS) applied to x
     digest_size a  hasher.digest_size
     utf8 s         str.encode()   (None = UnicodeEncodeError, lone surrogates)
     b64enc/b64dec  base64.b64encode(..).decode() / base64.b64decode of a str (None = binascii.Error
                    or the ValueError for non-ASCII text)
   os.urandom is the explicit stream `rng` of bytes still to be drawn: urandom(n) returns the next n
   bytes and advances the stream by exactly n.

   The second half of the file instantiates the variables for the `challenge` correspondence stream:
   concrete UTF-8, concrete base64 (CPython's non-strict a2b_base64), the digest-size table, and H as a
   per-case table that the harness fills from hashlib directly. *)
From Coq Require Import ZArith NArith String List Bool.
From Cinco Require Import Base.
Import ListNotations.
Open Scope Z_scope.

Definition rng := bytes.
Definition draw (n : nat) (r : rng) : option (bytes * rng) :=
  if (length r <? n)%nat then None else Some (firstn n r, skipn n r).

Definition k_salt : pyval := PStr (sa "salt").
Definition k_digest : pyval := PStr (sa "digest").
Definition path_pw : str := sa "pw".
Definition colon : N := 58%N.

(* value.split(":", 1) *)
Fixpoint split_colon (s : str) : option (str * str) :=
  match s with
  | [] => None
  | c :: r => if N.eqb c colon then Some ([], r)
              else match split_colon r with Some (a, b) => Some (c :: a, b) | None => None end
  end.

Record cst := mk_cst { c_rng : rng; c_val : pyval }.   (* the stream and cfg._data["pw"] *)

Section Challenge.
  Variable H : N -> bytes -> bytes.
  Variable digest_size : N -> nat.
  Variable utf8 : str -> option bytes.
  Variable b64enc : bytes -> str.
  Variable b64dec : str -> option bytes.

  (* `if isinstance(plaintext, str): plaintext = plaintext.encode()` *)
  Definition plain_bytes (x : pyval) : res bytes :=
    match x with
    | PStr s => match utf8 s with Some b => Ok b | None => Err EUnicode end
    | PBytes b => Ok b
    | POther _ => Unmodelled
    | _ => Err EType          (* salt + x : TypeError for None, numbers, lists, tuples (a DigestValue is one), maps *)
    end.

  (* DigestValue.create(plaintext, algorithm, salt) — statement order: salt checks, draw, encode, hash *)
  Definition create (a : N) (r : rng) (pt : pyval) (salt : option bytes) : rng * res pyval :=
    let ds := digest_size a in
    match salt with
    | Some (x :: xs) =>
        let s := x :: xs in
        if (length s <? ds)%nat then (r, Err EType)
        else let s' := firstn ds s in
             (r, do b <- plain_bytes pt ;; Ok (PDigest s' (H a (s' ++ b)) a))
    | _ =>
        match draw ds r with
        | None => (r, Unmodelled)              (* recorded stream exhausted: harness error *)
        | Some (s', r') => (r', do b <- plain_bytes pt ;; Ok (PDigest s' (H a (s' ++ b)) a))
        end
    end.

  (* DigestValue.challenge *)
  Definition challenge (dv x : pyval) : res pyval :=
    match dv with
    | PDigest s d a =>
        do b <- plain_bytes x ;;
        if bytes_eqb d (H a (s ++ b)) then Ok PNone else Err EValue
    | PNone => Err EAttribute
    | _ => Unmodelled
    end.

  (* str(dv) and DigestValue.parse *)
  Definition dv_str (dv : pyval) : res pyval :=
    match dv with
    | PDigest s d _ => Ok (PStr (b64enc s ++ colon :: b64enc d))
    | PNone => Ok (PStr (sa "None"))
    | _ => Unmodelled
    end.
  Definition dv_parse (a : N) (s : str) : res pyval :=
    match split_colon s with
    | None => Err EValue
    | Some (x, y) =>
        match b64dec x with
        | None => Err EValue
        | Some sb => match b64dec y with
                     | None => Err EValue
                     | Some db => Ok (PDigest sb db a)
                     end
        end
    end.

  (* Field.validate + ChallengeField._validate *)
  Definition fvalidate (a : N) (required : bool) (r : rng) (x : pyval) : rng * res pyval :=
    match x with
    | PNone => (r, if required then Err EValue else Ok PNone)
    | PStr _ | PBytes _ => create a r x None
    | PDigest _ _ _ => (r, Ok x)
    | _ => (r, Err EValue)
    end.

  (* ChallengeField.__setdefault__ (no environment variable) *)
  Definition setdefault (a : N) (r : rng) (d : pyval) : rng * res pyval :=
    match d with
    | PNone => (r, Ok PNone)
    | PStr _ => create a r d None
    | PDigest _ _ _ => (r, Ok d)
    | _ => (r, Err EType)
    end.

  (* ChallengeField.to_basic *)
  Definition disk_of (salt digest : bytes) : pyval :=
    PDict 0%N [(k_salt, PStr (b64enc salt)); (k_digest, PStr (b64enc digest))].
  Definition to_basic (v : pyval) : res pyval :=
    match v with
    | PNone => Ok PNone
    | PDigest s d _ => Ok (disk_of s d)
    | _ => Unmodelled
    end.

  (* base64.b64decode(x): str -> decoded or binascii.Error/ValueError; other non-bytes types -> TypeError *)
  Definition b64arg (v : pyval) : res bytes :=
    match v with
    | PStr s => match b64dec s with Some b => Ok b | None => Err EValue end
    | PBytes _ | POther _ => Unmodelled
    | _ => Err EType
    end.
  Definition dict_b64 (k : pyval) (d : list (pyval * pyval)) : res bytes :=
    match assoc pyval_eqb k d with
    | None => Err EValue            (* KeyError -> ValueError *)
    | Some v => b64arg v
    end.

  (* ChallengeField.to_python *)
  Definition to_python (a : N) (r : rng) (v : pyval) : rng * res pyval :=
    match v with
    | PNone => (r, Ok PNone)
    | PDict _ d =>
        (r, do s <- dict_b64 k_salt d ;; do dg <- dict_b64 k_digest d ;; Ok (PDigest s dg a))
    | PStr _ => create a r v None
    | _ => (r, Err EValue)
    end.

  (* ---- through a Config whose schema has the one field "pw" ---- *)
  Definition wrap (r : res pyval) : res pyval :=   (* any exception -> ValidationError at "pw" *)
    match r with Err _ => Err (EValidation path_pw) | _ => r end.

  (* cfg.pw = x   (Config._set_value) *)
  Definition cfg_assign (a : N) (req : bool) (st : cst) (x : pyval) : cst * res pyval :=
    let (r', q) := fvalidate a req (c_rng st) x in
    match q with
    | Ok v => (mk_cst r' v, Ok v)
    | _ => (mk_cst r' (c_val st), wrap q)
    end.

  (* cfg.load_tree({"pw": v}): to_python, then _set_value; the final whole-config validate() sees a
     value that already passed Field.validate and cannot fail *)
  Definition cfg_load (a : N) (req : bool) (st : cst) (v : pyval) : cst * res pyval :=
    let (r1, p) := to_python a (c_rng st) v in
    match p with
    | Ok pv => cfg_assign a req (mk_cst r1 (c_val st)) pv
    | _ => (mk_cst r1 (c_val st), wrap p)
    end.

  (* schema() : the constructor runs __setdefault__; a TypeError escapes unwrapped *)
  Definition cfg_new (a : N) (dflt : pyval) (st : cst) : cst * res pyval :=
    let (r1, d) := setdefault a (c_rng st) dflt in
    match d with
    | Ok dv => (mk_cst r1 dv, Ok dv)
    | _ => (mk_cst r1 (c_val st), d)
    end.

  (* out = cfg.dumps(fmt); cfg2 = schema(); cfg2.loads(out, fmt); cfg := cfg2.
     The codec is trusted to give back the tree {"pw": to_basic value} it was given. *)
  Definition cfg_saveload (a : N) (req : bool) (dflt : pyval) (st : cst) : cst * res pyval :=
    match to_basic (c_val st) with
    | Ok tv =>
        let (st1, d) := cfg_new a dflt st in
        match d with
        | Ok _ => cfg_load a req st1 tv
        | _ => (st1, d)
        end
    | Err e => (st, Err e)
    | Unmodelled => (st, Unmodelled)
    end.

  (* ---- the operations of the `challenge` stream ---- *)
  Inductive chop :=
  | CNew                                    (* cfg = schema() *)
  | CAssign (x : pyval)                     (* cfg.pw = x ; observe cfg.pw *)
  | CChallenge (x : pyval)                  (* cfg.pw.challenge(x) *)
  | CBasic                                  (* field.to_basic(cfg, cfg.pw) *)
  | CPython (v : pyval)                     (* field.to_python(cfg, v) *)
  | CLoad (v : pyval)                       (* cfg.load_tree({"pw": v}) or cfg.loads(document) *)
  | CSaveLoad                               (* dumps / fresh config / loads, any format *)
  | CStr                                    (* str(cfg.pw) *)
  | CParse (s : str)                        (* DigestValue.parse(s, field.algorithm) *)
  | CCreate (pt : pyval) (salt : option bytes).   (* field._hash(pt, salt) *)

  Definition cstep (a : N) (req : bool) (dflt : pyval) (st : cst) (op : chop) : cst * res pyval :=
    match op with
    | CNew => cfg_new a dflt st
    | CAssign x => cfg_assign a req st x
    | CChallenge x => (st, challenge (c_val st) x)
    | CBasic => (st, to_basic (c_val st))
    | CPython v => let (r, q) := to_python a (c_rng st) v in (mk_cst r (c_val st), q)
    | CLoad v => cfg_load a req st v
    | CSaveLoad => cfg_saveload a req dflt st
    | CStr => (st, dv_str (c_val st))
    | CParse s => (st, dv_parse a s)
    | CCreate pt salt => let (r, q) := create a (c_rng st) pt salt in (mk_cst r (c_val st), q)
    end.

  Fixpoint crun (a : N) (req : bool) (dflt : pyval) (st : cst) (ops : list chop) : list pyval :=
    match ops with
    | [] => []
    | op :: r => let (st', o) := cstep a req dflt st op in o_res o :: crun a req dflt st' r
    end.
End Challenge.

(* =====================  concrete primitives for the correspondence stream  ===================== *)
Open Scope N_scope.

(* hasher.digest_size for ALGORITHMS = md5, sha1, sha224, sha256, sha384, sha512 (checked against
   hashlib and the ALGORITHMS table by the harness on every run) *)
Definition std_digest_size (a : N) : nat :=
  match a with
  | 0 => 16%nat | 1 => 20%nat | 2 => 28%nat | 3 => 32%nat | 4 => 48%nat | 5 => 64%nat | _ => 0%nat
  end.

(* ---- str.encode() ---- *)
Definition utf8_cp (c : N) : option bytes :=
  if c <? 128 then Some [c]
  else if c <? 2048 then Some [192 + c / 64; 128 + c mod 64]
  else if c <? 65536 then
    if (55296 <=? c) && (c <? 57344) then None
    else Some [224 + c / 4096; 128 + (c / 64) mod 64; 128 + c mod 64]
  else if c <? 1114112 then
    Some [240 + c / 262144; 128 + (c / 4096) mod 64; 128 + (c / 64) mod 64; 128 + c mod 64]
  else None.
Fixpoint utf8_enc (s : str) : option bytes :=
  match s with
  | [] => Some []
  | c :: r => match utf8_cp c, utf8_enc r with
              | Some x, Some y => Some (x ++ y)
              | _, _ => None
              end
  end.

(* ---- base64 ---- *)
Definition b64_char (v : N) : N :=          (* sextet -> ASCII code *)
  if v <? 26 then 65 + v
  else if v <? 52 then 97 + (v - 26)
  else if v <? 62 then 48 + (v - 52)
  else if v =? 62 then 43 else 47.
Definition b64_val (c : N) : option N :=    (* ASCII code -> sextet *)
  if (65 <=? c) && (c <=? 90) then Some (c - 65)
  else if (97 <=? c) && (c <=? 122) then Some (c - 97 + 26)
  else if (48 <=? c) && (c <=? 57) then Some (c - 48 + 52)
  else if c =? 43 then Some 62
  else if c =? 47 then Some 63
  else None.
Definition pad_char : N := 61.
Fixpoint b64_encode (b : bytes) : str :=
  match b with
  | [] => []
  | [x] => [b64_char (x / 4); b64_char ((x mod 4) * 16); pad_char; pad_char]
  | [x; y] => [b64_char (x / 4); b64_char ((x mod 4) * 16 + y / 16); b64_char ((y mod 16) * 4); pad_char]
  | x :: y :: z :: r =>
      b64_char (x / 4) :: b64_char ((x mod 4) * 16 + y / 16) ::
      b64_char ((y mod 16) * 4 + z / 64) :: b64_char (z mod 64) :: b64_encode r
  end.

(* binascii.a2b_base64, non-strict (CPython 3.12): characters outside the alphabet are skipped, a
   complete pad sequence ends the parse, leftover sextets are an error.
   state: quad position, left-over bits, pads seen, output so far (reversed) *)
Fixpoint b64_go (s : str) (qp : N) (left : N) (pads : N) (out : bytes) : option bytes :=
  match s with
  | [] => if qp =? 0 then Some (rev out) else None
  | c :: r =>
      if c =? pad_char then
        if (2 <=? qp) && (4 <=? qp + (pads + 1)) then Some (rev out)
        else b64_go r qp left (if 2 <=? qp then pads + 1 else pads) out
      else
        match b64_val c with
        | None => b64_go r qp left pads out
        | Some v =>
            match qp with
            | 0 => b64_go r 1 v 0 out
            | 1 => b64_go r 2 (v mod 16) 0 ((left * 4 + v / 16) :: out)
            | 2 => b64_go r 3 (v mod 4) 0 ((left * 16 + v / 4) :: out)
            | _ => b64_go r 0 0 0 ((left * 64 + v) :: out)
            end
        end
  end.
(* base64.b64decode(str): non-ASCII text is a ValueError before any decoding *)
Definition b64_decode (s : str) : option bytes :=
  if forallb (fun c => c <? 128) s then b64_go s 0 0 0 [] else None.

(* ---- H as a table: (algorithm, input, digest) rows obtained from hashlib directly ---- *)
Definition htbl := list (N * bytes * bytes).
Fixpoint tbl_H (miss : bytes) (t : htbl) (a : N) (x : bytes) : bytes :=
  match t with
  | [] => miss
  | (a', x', d) :: r => if (a =? a') && bytes_eqb x x' then d else tbl_H miss r a x
  end.

Definition ccase := (N * bool * pyval * htbl * bytes * list chop)%type.
Definition run_with (miss : bytes) (c : ccase) : pyval :=
  let '(a, req, dflt, t, r, ops) := c in
  PList 0 (crun (tbl_H miss t) std_digest_size utf8_enc b64_encode b64_decode a req dflt (mk_cst r PNone) ops).
(* A row missing from the table would make the model guess: run twice with two different answers for
   a miss; if the observation depends on it the case is Unmodelled. *)
Definition run_challenge (c : ccase) : pyval :=
  let o1 := run_with [] c in
  let o2 := run_with [0] c in
  if pyval_eqb o1 o2 then o1 else PStr (sa "unmodelled").
