(* FieldsLemmas.v — lemmas about the field model (Fields.v). *)
From Coq Require Import ZArith NArith String List Bool Lia SpecFloat.
From Cinco Require Import Base Str StrLemmas Num Net Codec Fields.
Import ListNotations.
Open Scope Z_scope.

(* ============================ the StringField pipeline ============================ *)
Definition case_step (c : case_opt) (s1 : str) : res str :=
  match c with
  | CNone => Ok s1
  | c => if case_modelled s1 then Ok (apply_case c s1) else Unmodelled
  end.
Definition str_post (orc : oracle) (o : sopts) (s2 : str) : res str :=
  if match so_min o with Some m => len_z s2 <? m | None => false end then Err EValue
  else if match so_max o with Some m => m <? len_z s2 | None => false end then Err EValue
  else
    do _ <- match so_regex o with
            | None => Ok tt
            | Some p => match orc p s2 with
                        | Some true => Ok tt
                        | Some false => Err EValue
                        | None => Unmodelled
                        end
            end ;;
    if negb (is_nil (so_choices o)) && negb (str_mem s2 (so_choices o)) then Err EValue
    else Ok s2.

Lemma str_validate_eq : forall orc req o s,
  str_validate orc req o (PStr s) =
  let s1 := apply_strip (so_strip o) s in
  if req && is_nil s1 then Err EValue else do s2 <- case_step (so_case o) s1 ;; str_post orc o s2.
Proof. intros. unfold str_validate, case_step, str_post. destruct (so_case o); reflexivity. Qed.

Lemma str_validate_str : forall orc req o x v, str_validate orc req o x = Ok v -> exists s, x = PStr s.
Proof. intros orc req o x v H. destruct x; try discriminate. eauto. Qed.

(* the declared constraints of a string field on a value *)
Definition str_meets (orc : oracle) (req : bool) (o : sopts) (v : str) : Prop :=
  (forall m, so_min o = Some m -> m <= len_z v) /\
  (forall m, so_max o = Some m -> len_z v <= m) /\
  (forall p, so_regex o = Some p -> orc p v = Some true) /\
  (so_choices o <> [] -> In v (so_choices o)) /\
  (req = true -> v <> []).

Lemma str_mem_In : forall s l, str_mem s l = true <-> In s l.
Proof.
  intros s l. unfold str_mem. rewrite existsb_exists. split.
  - intros [y [Hy E]]. apply str_eqb_eq in E. now subst.
  - intro H. exists s. split; [exact H|apply str_eqb_refl].
Qed.

Lemma str_post_iff : forall orc o s v,
  str_post orc o s = Ok v <-> v = s /\ str_meets orc false o s.
Proof.
  intros orc o s v. unfold str_post, str_meets. split.
  - intro H.
    destruct (so_min o) as [mn|] eqn:Emn.
    + destruct (len_z s <? mn) eqn:E1; [discriminate|].
      destruct (so_max o) as [mx|] eqn:Emx.
      * destruct (mx <? len_z s) eqn:E2; [discriminate|].
        destruct (so_regex o) as [p|] eqn:Erx.
        -- destruct (orc p s) as [[|]|] eqn:Eo; try discriminate. cbn in H.
           destruct (negb (is_nil (so_choices o)) && negb (str_mem s (so_choices o))) eqn:Ec; [discriminate|].
           injection H as <-. split; [reflexivity|]. repeat split; intros; try congruence.
           ++ injection H as <-. lia.
           ++ injection H as <-. lia.
           ++ apply andb_false_iff in Ec as [Ec|Ec]; apply negb_false_iff in Ec.
              ** destruct (so_choices o); [congruence|discriminate].
              ** now apply str_mem_In.
        -- cbn in H.
           destruct (negb (is_nil (so_choices o)) && negb (str_mem s (so_choices o))) eqn:Ec; [discriminate|].
           injection H as <-. split; [reflexivity|]. repeat split; intros; try congruence.
           ++ injection H as <-. lia.
           ++ injection H as <-. lia.
           ++ apply andb_false_iff in Ec as [Ec|Ec]; apply negb_false_iff in Ec.
              ** destruct (so_choices o); [congruence|discriminate].
              ** now apply str_mem_In.
      * destruct (so_regex o) as [p|] eqn:Erx.
        -- destruct (orc p s) as [[|]|] eqn:Eo; try discriminate. cbn in H.
           destruct (negb (is_nil (so_choices o)) && negb (str_mem s (so_choices o))) eqn:Ec; [discriminate|].
           injection H as <-. split; [reflexivity|]. repeat split; intros; try congruence.
           ++ injection H as <-. lia.
           ++ apply andb_false_iff in Ec as [Ec|Ec]; apply negb_false_iff in Ec.
              ** destruct (so_choices o); [congruence|discriminate].
              ** now apply str_mem_In.
        -- cbn in H.
           destruct (negb (is_nil (so_choices o)) && negb (str_mem s (so_choices o))) eqn:Ec; [discriminate|].
           injection H as <-. split; [reflexivity|]. repeat split; intros; try congruence.
           ++ injection H as <-. lia.
           ++ apply andb_false_iff in Ec as [Ec|Ec]; apply negb_false_iff in Ec.
              ** destruct (so_choices o); [congruence|discriminate].
              ** now apply str_mem_In.
    + destruct (so_max o) as [mx|] eqn:Emx.
      * destruct (mx <? len_z s) eqn:E2; [discriminate|].
        destruct (so_regex o) as [p|] eqn:Erx.
        -- destruct (orc p s) as [[|]|] eqn:Eo; try discriminate. cbn in H.
           destruct (negb (is_nil (so_choices o)) && negb (str_mem s (so_choices o))) eqn:Ec; [discriminate|].
           injection H as <-. split; [reflexivity|]. repeat split; intros; try congruence.
           ++ injection H as <-. lia.
           ++ apply andb_false_iff in Ec as [Ec|Ec]; apply negb_false_iff in Ec.
              ** destruct (so_choices o); [congruence|discriminate].
              ** now apply str_mem_In.
        -- cbn in H.
           destruct (negb (is_nil (so_choices o)) && negb (str_mem s (so_choices o))) eqn:Ec; [discriminate|].
           injection H as <-. split; [reflexivity|]. repeat split; intros; try congruence.
           ++ injection H as <-. lia.
           ++ apply andb_false_iff in Ec as [Ec|Ec]; apply negb_false_iff in Ec.
              ** destruct (so_choices o); [congruence|discriminate].
              ** now apply str_mem_In.
      * destruct (so_regex o) as [p|] eqn:Erx.
        -- destruct (orc p s) as [[|]|] eqn:Eo; try discriminate. cbn in H.
           destruct (negb (is_nil (so_choices o)) && negb (str_mem s (so_choices o))) eqn:Ec; [discriminate|].
           injection H as <-. split; [reflexivity|]. repeat split; intros; try congruence.
           apply andb_false_iff in Ec as [Ec|Ec]; apply negb_false_iff in Ec.
           ** destruct (so_choices o); [congruence|discriminate].
           ** now apply str_mem_In.
        -- cbn in H.
           destruct (negb (is_nil (so_choices o)) && negb (str_mem s (so_choices o))) eqn:Ec; [discriminate|].
           injection H as <-. split; [reflexivity|]. repeat split; intros; try congruence.
           apply andb_false_iff in Ec as [Ec|Ec]; apply negb_false_iff in Ec.
           ** destruct (so_choices o); [congruence|discriminate].
           ** now apply str_mem_In.
  - intros [-> (Hmn & Hmx & Hrx & Hch & _)].
    destruct (so_min o) as [mn|]; [specialize (Hmn mn eq_refl); replace (len_z s <? mn) with false by (symmetry; apply Z.ltb_ge; lia)|];
    (destruct (so_max o) as [mx|]; [specialize (Hmx mx eq_refl); replace (mx <? len_z s) with false by (symmetry; apply Z.ltb_ge; lia)|]);
    (destruct (so_regex o) as [p|]; [rewrite (Hrx p eq_refl)|]); cbn;
    (destruct (so_choices o) as [|c0 cs] eqn:Ec; [reflexivity|]);
    (assert (Hin : str_mem s (c0 :: cs) = true) by (apply str_mem_In, Hch; congruence)); rewrite Hin; reflexivity.
Qed.

Lemma apply_case_length : forall c s, length (apply_case c s) = length s.
Proof. intros [] s; cbn; [reflexivity|apply lower_length|apply upper_length]. Qed.
Lemma apply_case_idem : forall c s, apply_case c (apply_case c s) = apply_case c s.
Proof. intros [] s; cbn; [reflexivity|apply lower_idem|apply upper_idem]. Qed.
Lemma is_nil_length : forall (A : Type) (a b : list A), length a = length b -> is_nil a = is_nil b.
Proof. intros A [|x a] [|y b] H; cbn in *; congruence. Qed.
Lemma is_nil_false : forall (A : Type) (l : list A), is_nil l = false <-> l <> [].
Proof. intros A [|x l]; cbn; split; congruence. Qed.

Lemma case_known_lower_c : forall c, case_known (lower_c c) = case_known c.
Proof. intro c. unfold case_known. now rewrite is_ascii_lower_c, is_space_lower_c. Qed.
Lemma case_known_upper_c : forall c, case_known (upper_c c) = case_known c.
Proof. intro c. unfold case_known. now rewrite is_ascii_upper_c, is_space_upper_c. Qed.
Lemma forallb_map_inv : forall (p : N -> bool) f l, (forall c, p (f c) = p c) -> forallb p (map f l) = forallb p l.
Proof. intros p f l H. induction l as [|a l IH]; cbn; [reflexivity|now rewrite H, IH]. Qed.
Lemma case_modelled_apply : forall c s, case_modelled (apply_case c s) = case_modelled s.
Proof.
  intros [] s; cbn; [reflexivity| |]; unfold case_modelled, lower, upper.
  - apply forallb_map_inv, case_known_lower_c.
  - apply forallb_map_inv, case_known_upper_c.
Qed.
Lemma ends_ok_apply_case : forall c s, ends_ok is_space (apply_case c s) = ends_ok is_space s.
Proof.
  intros [] s; cbn; [reflexivity| |]; unfold lower, upper.
  - apply ends_ok_map, is_space_lower_c.
  - apply ends_ok_map, is_space_upper_c.
Qed.

Lemma case_step_ok : forall c s1 s2,
  case_step c s1 = Ok s2 <-> s2 = apply_case c s1 /\ (c = CNone \/ case_modelled s1 = true).
Proof.
  intros c s1 s2. unfold case_step. destruct c; cbn.
  - split; [intro H; injection H as <-; auto|intros [-> _]; reflexivity].
  - destruct (case_modelled s1); split; try discriminate.
    + intro H; injection H as <-; auto.
    + intros [-> _]; reflexivity.
    + intros [_ [H|H]]; discriminate.
  - destruct (case_modelled s1); split; try discriminate.
    + intro H; injection H as <-; auto.
    + intros [-> _]; reflexivity.
    + intros [_ [H|H]]; discriminate.
Qed.

(* declarative normal form and acceptance of a string field *)
Definition str_norm (o : sopts) (s : str) : str := apply_case (so_case o) (apply_strip (so_strip o) s).
Definition str_accepts (orc : oracle) (req : bool) (o : sopts) (s : str) : Prop :=
  (so_case o = CNone \/ case_modelled (apply_strip (so_strip o) s) = true) /\ str_meets orc req o (str_norm o s).

Lemma str_validate_exact : forall orc req o s v,
  str_validate orc req o (PStr s) = Ok v <-> str_accepts orc req o s /\ v = str_norm o s.
Proof.
  intros orc req o s v. rewrite str_validate_eq. cbv zeta. unfold str_accepts, str_norm.
  set (s1 := apply_strip (so_strip o) s). split.
  - intro H. destruct (req && is_nil s1) eqn:Er; [discriminate|].
    destruct (case_step (so_case o) s1) as [s2| |] eqn:Ec; try discriminate. cbn in H.
    apply case_step_ok in Ec as [-> Hc]. apply str_post_iff in H as [-> Hm].
    split; [|reflexivity]. split; [exact Hc|].
    destruct Hm as (A & B & C & D & _). repeat split; auto.
    intros -> E. cbn in Er. apply is_nil_false in Er. apply Er.
    apply length_zero_iff_nil. rewrite <- (apply_case_length (so_case o)), E. reflexivity.
  - intros [[Hc Hm] ->]. destruct Hm as (A & B & C & D & E).
    assert (Er : req && is_nil s1 = false).
    { destruct req; [cbn|reflexivity]. apply is_nil_false. intro Hn. apply (E eq_refl). rewrite Hn. now destruct (so_case o). }
    rewrite Er. assert (Ec : case_step (so_case o) s1 = Ok (apply_case (so_case o) s1)) by (apply case_step_ok; auto).
    rewrite Ec. cbn. apply str_post_iff. split; [reflexivity|]. repeat split; auto. discriminate.
Qed.

Lemma str_validate_sound : forall orc req o x v, str_validate orc req o x = Ok v -> str_meets orc req o v.
Proof.
  intros orc req o x v H. destruct (str_validate_str _ _ _ _ _ H) as [s ->].
  apply str_validate_exact in H as [[_ Hm] ->]. exact Hm.
Qed.

(* a value that meets the constraints and is left alone by the transforms is a fixed point *)
Lemma str_validate_fixpoint : forall orc req o v,
  str_meets orc req o v -> apply_strip (so_strip o) v = v -> apply_case (so_case o) v = v ->
  (so_case o = CNone \/ case_modelled v = true) -> str_validate orc req o (PStr v) = Ok v.
Proof.
  intros orc req o v Hm Hs Hc Hk. apply str_validate_exact. unfold str_accepts, str_norm. rewrite Hs, Hc. auto.
Qed.

Lemma apply_strip_norm : forall o s, sopts_F13 o = false ->
  apply_strip (so_strip o) (str_norm o s) = str_norm o s.
Proof.
  intros o s HF. unfold str_norm, sopts_F13 in *. destruct (so_strip o) as [| |cs] eqn:Es; cbn.
  - reflexivity.
  - apply strip_by_fix. rewrite ends_ok_apply_case. apply strip_by_ends.
  - destruct (so_case o); try discriminate. cbn. apply strip_chars_idem.
Qed.

Lemma str_validate_idem : forall orc req o x v, sopts_F13 o = false ->
  str_validate orc req o x = Ok v -> str_validate orc req o (PStr v) = Ok v.
Proof.
  intros orc req o x v HF H. destruct (str_validate_str _ _ _ _ _ H) as [s ->].
  apply str_validate_exact in H as [[Hc Hm] ->].
  apply str_validate_fixpoint; auto.
  - now apply apply_strip_norm.
  - apply apply_case_idem.
  - destruct Hc as [Hc|Hc]; [now left|right]. unfold str_norm. now rewrite case_modelled_apply.
Qed.
