(* FieldsLemmas.v — lemmas about the field model (Fields.v). *)
From Coq Require Import ZArith NArith String List Bool Lia SpecFloat.
From Cinco Require Import Base Str Num Net Codec Fields.
Import ListNotations.
Open Scope Z_scope.

(* F13: strip(chars) runs before the case transform, so a validated value can be stripped further *)
Definition f13_field : field := FStr false (mk_sopts None None None [] CLower (SChars (sa "a"))).
Lemma validate_idem_refuted :
  exists f x v, known_F13 f = true /\ validate f x = Ok v /\ validate f v <> Ok v.
Proof.
  exists f13_field, (PStr (sa "Ab")), (PStr (sa "ab")).
  split; [reflexivity|]. split; [vm_compute; reflexivity|]. vm_compute. discriminate.
Qed.
