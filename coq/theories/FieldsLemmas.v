(* FieldsLemmas.v — lemmas about the field model (Fields.v). *)
From Coq Require Import ZArith NArith String List Bool Lia SpecFloat.
From Cinco Require Import Base Str Num Net Codec NetLemmas CodecLemmas StrLemmas Fields.
Import ListNotations.
Open Scope Z_scope.

(* ============================ the StringField pipeline ============================ *)
Definition case_step (c : case_opt) (s1 : str) : res str :=
  match c with
  | CNone => Ok s1
  | c => if case_modelled s1 then Ok (apply_case c s1) else Unmodelled
  end.
Definition str_post (orc : oracle) (o : sopts) (s2 : str) : res str :=
  if match so_min o with Some m => len_z s2 <? m | None => false end then Err EValue
  else if match so_max o with Some m => m <? len_z s2 | None => false end then Err EValue
  else
    do _ <- match so_regex o with
            | None => Ok tt
            | Some p => match orc p s2 with
                        | Some true => Ok tt
                        | Some false => Err EValue
                        | None => Unmodelled
                        end
            end ;;
    if negb (is_nil (so_choices o)) && negb (str_mem s2 (so_choices o)) then Err EValue
    else Ok s2.

Lemma str_validate_eq : forall orc req o s,
  str_validate orc req o (PStr s) =
  let s1 := apply_strip (so_strip o) s in
  if req && is_nil s1 then Err EValue else do s2 <- case_step (so_case o) s1 ;; str_post orc o s2.
Proof. intros. unfold str_validate, case_step, str_post. destruct (so_case o); reflexivity. Qed.

Lemma str_validate_str : forall orc req o x v, str_validate orc req o x = Ok v -> exists s, x = PStr s.
Proof. intros orc req o x v H. destruct x; try discriminate. eauto. Qed.

(* the declared constraints of a string field on a value *)
Definition str_meets (orc : oracle) (req : bool) (o : sopts) (v : str) : Prop :=
  (forall m, so_min o = Some m -> m <= len_z v) /\
  (forall m, so_max o = Some m -> len_z v <= m) /\
  (forall p, so_regex o = Some p -> orc p v = Some true) /\
  (so_choices o <> [] -> In v (so_choices o)) /\
  (req = true -> v <> []).

Lemma str_mem_In : forall s l, str_mem s l = true <-> In s l.
Proof.
  intros s l. unfold str_mem. rewrite existsb_exists. split.
  - intros [y [Hy E]]. apply str_eqb_eq in E. now subst.
  - intro H. exists s. split; [exact H|apply str_eqb_refl].
Qed.

Lemma str_post_iff : forall orc o s v,
  str_post orc o s = Ok v <-> v = s /\ str_meets orc false o s.
Proof.
  intros orc o s v. unfold str_post, str_meets. split.
  - intro H.
    destruct (so_min o) as [mn|] eqn:Emn.
    + destruct (len_z s <? mn) eqn:E1; [discriminate|].
      destruct (so_max o) as [mx|] eqn:Emx.
      * destruct (mx <? len_z s) eqn:E2; [discriminate|].
        destruct (so_regex o) as [p|] eqn:Erx.
        -- destruct (orc p s) as [[|]|] eqn:Eo; try discriminate. cbn in H.
           destruct (negb (is_nil (so_choices o)) && negb (str_mem s (so_choices o))) eqn:Ec; [discriminate|].
           injection H as <-. split; [reflexivity|]. repeat split; intros; try congruence.
           ++ injection H as <-. lia.
           ++ injection H as <-. lia.
           ++ apply andb_false_iff in Ec as [Ec|Ec]; apply negb_false_iff in Ec.
              ** destruct (so_choices o); [congruence|discriminate].
              ** now apply str_mem_In.
        -- cbn in H.
           destruct (negb (is_nil (so_choices o)) && negb (str_mem s (so_choices o))) eqn:Ec; [discriminate|].
           injection H as <-. split; [reflexivity|]. repeat split; intros; try congruence.
           ++ injection H as <-. lia.
           ++ injection H as <-. lia.
           ++ apply andb_false_iff in Ec as [Ec|Ec]; apply negb_false_iff in Ec.
              ** destruct (so_choices o); [congruence|discriminate].
              ** now apply str_mem_In.
      * destruct (so_regex o) as [p|] eqn:Erx.
        -- destruct (orc p s) as [[|]|] eqn:Eo; try discriminate. cbn in H.
           destruct (negb (is_nil (so_choices o)) && negb (str_mem s (so_choices o))) eqn:Ec; [discriminate|].
           injection H as <-. split; [reflexivity|]. repeat split; intros; try congruence.
           ++ injection H as <-. lia.
           ++ apply andb_false_iff in Ec as [Ec|Ec]; apply negb_false_iff in Ec.
              ** destruct (so_choices o); [congruence|discriminate].
              ** now apply str_mem_In.
        -- cbn in H.
           destruct (negb (is_nil (so_choices o)) && negb (str_mem s (so_choices o))) eqn:Ec; [discriminate|].
           injection H as <-. split; [reflexivity|]. repeat split; intros; try congruence.
           ++ injection H as <-. lia.
           ++ apply andb_false_iff in Ec as [Ec|Ec]; apply negb_false_iff in Ec.
              ** destruct (so_choices o); [congruence|discriminate].
              ** now apply str_mem_In.
    + destruct (so_max o) as [mx|] eqn:Emx.
      * destruct (mx <? len_z s) eqn:E2; [discriminate|].
        destruct (so_regex o) as [p|] eqn:Erx.
        -- destruct (orc p s) as [[|]|] eqn:Eo; try discriminate. cbn in H.
           destruct (negb (is_nil (so_choices o)) && negb (str_mem s (so_choices o))) eqn:Ec; [discriminate|].
           injection H as <-. split; [reflexivity|]. repeat split; intros; try congruence.
           ++ injection H as <-. lia.
           ++ apply andb_false_iff in Ec as [Ec|Ec]; apply negb_false_iff in Ec.
              ** destruct (so_choices o); [congruence|discriminate].
              ** now apply str_mem_In.
        -- cbn in H.
           destruct (negb (is_nil (so_choices o)) && negb (str_mem s (so_choices o))) eqn:Ec; [discriminate|].
           injection H as <-. split; [reflexivity|]. repeat split; intros; try congruence.
           ++ injection H as <-. lia.
           ++ apply andb_false_iff in Ec as [Ec|Ec]; apply negb_false_iff in Ec.
              ** destruct (so_choices o); [congruence|discriminate].
              ** now apply str_mem_In.
      * destruct (so_regex o) as [p|] eqn:Erx.
        -- destruct (orc p s) as [[|]|] eqn:Eo; try discriminate. cbn in H.
           destruct (negb (is_nil (so_choices o)) && negb (str_mem s (so_choices o))) eqn:Ec; [discriminate|].
           injection H as <-. split; [reflexivity|]. repeat split; intros; try congruence.
           apply andb_false_iff in Ec as [Ec|Ec]; apply negb_false_iff in Ec.
           ** destruct (so_choices o); [congruence|discriminate].
           ** now apply str_mem_In.
        -- cbn in H.
           destruct (negb (is_nil (so_choices o)) && negb (str_mem s (so_choices o))) eqn:Ec; [discriminate|].
           injection H as <-. split; [reflexivity|]. repeat split; intros; try congruence.
           apply andb_false_iff in Ec as [Ec|Ec]; apply negb_false_iff in Ec.
           ** destruct (so_choices o); [congruence|discriminate].
           ** now apply str_mem_In.
  - intros [-> (Hmn & Hmx & Hrx & Hch & _)].
    destruct (so_min o) as [mn|]; [specialize (Hmn mn eq_refl); replace (len_z s <? mn) with false by (symmetry; apply Z.ltb_ge; lia)|];
    (destruct (so_max o) as [mx|]; [specialize (Hmx mx eq_refl); replace (mx <? len_z s) with false by (symmetry; apply Z.ltb_ge; lia)|]);
    (destruct (so_regex o) as [p|]; [rewrite (Hrx p eq_refl)|]); cbn;
    (destruct (so_choices o) as [|c0 cs] eqn:Ec; [reflexivity|]);
    (assert (Hin : str_mem s (c0 :: cs) = true) by (apply str_mem_In, Hch; congruence)); rewrite Hin; reflexivity.
Qed.

Lemma apply_case_length : forall c s, length (apply_case c s) = length s.
Proof. intros [] s; cbn; [reflexivity|apply lower_length|apply upper_length]. Qed.
Lemma apply_case_idem : forall c s, apply_case c (apply_case c s) = apply_case c s.
Proof. intros [] s; cbn; [reflexivity|apply lower_idem|apply upper_idem]. Qed.
Lemma is_nil_length : forall (A : Type) (a b : list A), length a = length b -> is_nil a = is_nil b.
Proof. intros A [|x a] [|y b] H; cbn in *; congruence. Qed.
Lemma is_nil_false : forall (A : Type) (l : list A), is_nil l = false <-> l <> [].
Proof. intros A [|x l]; cbn; split; congruence. Qed.

Lemma case_known_lower_c : forall c, case_known (lower_c c) = case_known c.
Proof. intro c. unfold case_known. now rewrite is_ascii_lower_c, is_space_lower_c. Qed.
Lemma case_known_upper_c : forall c, case_known (upper_c c) = case_known c.
Proof. intro c. unfold case_known. now rewrite is_ascii_upper_c, is_space_upper_c. Qed.
Lemma forallb_map_inv : forall (p : N -> bool) f l, (forall c, p (f c) = p c) -> forallb p (map f l) = forallb p l.
Proof. intros p f l H. induction l as [|a l IH]; cbn; [reflexivity|now rewrite H, IH]. Qed.
Lemma case_modelled_apply : forall c s, case_modelled (apply_case c s) = case_modelled s.
Proof.
  intros [] s; cbn; [reflexivity| |]; unfold case_modelled, lower, upper.
  - apply forallb_map_inv, case_known_lower_c.
  - apply forallb_map_inv, case_known_upper_c.
Qed.
Lemma ends_ok_apply_case : forall c s, ends_ok is_space (apply_case c s) = ends_ok is_space s.
Proof.
  intros [] s; cbn; [reflexivity| |]; unfold lower, upper.
  - apply ends_ok_map, is_space_lower_c.
  - apply ends_ok_map, is_space_upper_c.
Qed.

Lemma case_step_ok : forall c s1 s2,
  case_step c s1 = Ok s2 <-> s2 = apply_case c s1 /\ (c = CNone \/ case_modelled s1 = true).
Proof.
  intros c s1 s2. unfold case_step. destruct c; cbn.
  - split; [intro H; injection H as <-; auto|intros [-> _]; reflexivity].
  - destruct (case_modelled s1); split; try discriminate.
    + intro H; injection H as <-; auto.
    + intros [-> _]; reflexivity.
    + intros [_ [H|H]]; discriminate.
  - destruct (case_modelled s1); split; try discriminate.
    + intro H; injection H as <-; auto.
    + intros [-> _]; reflexivity.
    + intros [_ [H|H]]; discriminate.
Qed.

(* declarative normal form and acceptance of a string field *)
Definition str_norm (o : sopts) (s : str) : str := apply_case (so_case o) (apply_strip (so_strip o) s).
Definition str_accepts (orc : oracle) (req : bool) (o : sopts) (s : str) : Prop :=
  (so_case o = CNone \/ case_modelled (apply_strip (so_strip o) s) = true) /\ str_meets orc req o (str_norm o s).

Lemma str_validate_exact : forall orc req o s v,
  str_validate orc req o (PStr s) = Ok v <-> str_accepts orc req o s /\ v = str_norm o s.
Proof.
  intros orc req o s v. rewrite str_validate_eq. cbv zeta. unfold str_accepts, str_norm.
  set (s1 := apply_strip (so_strip o) s). split.
  - intro H. destruct (req && is_nil s1) eqn:Er; [discriminate|].
    destruct (case_step (so_case o) s1) as [s2| |] eqn:Ec; try discriminate. cbn in H.
    apply case_step_ok in Ec as [-> Hc]. apply str_post_iff in H as [-> Hm].
    split; [|reflexivity]. split; [exact Hc|].
    destruct Hm as (A & B & C & D & _). repeat split; auto.
    intros -> E. cbn in Er. apply is_nil_false in Er. apply Er.
    apply length_zero_iff_nil. rewrite <- (apply_case_length (so_case o)), E. reflexivity.
  - intros [[Hc Hm] ->]. destruct Hm as (A & B & C & D & E).
    assert (Er : req && is_nil s1 = false).
    { destruct req; [cbn|reflexivity]. apply is_nil_false. intro Hn. apply (E eq_refl). rewrite Hn. now destruct (so_case o). }
    rewrite Er. assert (Ec : case_step (so_case o) s1 = Ok (apply_case (so_case o) s1)) by (apply case_step_ok; auto).
    rewrite Ec. cbn. apply str_post_iff. split; [reflexivity|]. repeat split; auto. discriminate.
Qed.

Lemma str_validate_sound : forall orc req o x v, str_validate orc req o x = Ok v -> str_meets orc req o v.
Proof.
  intros orc req o x v H. destruct (str_validate_str _ _ _ _ _ H) as [s ->].
  apply str_validate_exact in H as [[_ Hm] ->]. exact Hm.
Qed.

(* a value that meets the constraints and is left alone by the transforms is a fixed point *)
Lemma str_validate_fixpoint : forall orc req o v,
  str_meets orc req o v -> apply_strip (so_strip o) v = v -> apply_case (so_case o) v = v ->
  (so_case o = CNone \/ case_modelled v = true) -> str_validate orc req o (PStr v) = Ok v.
Proof.
  intros orc req o v Hm Hs Hc Hk. apply str_validate_exact. unfold str_accepts, str_norm. rewrite Hs, Hc. auto.
Qed.

Lemma apply_strip_norm : forall o s, sopts_F13 o = false ->
  apply_strip (so_strip o) (str_norm o s) = str_norm o s.
Proof.
  intros o s HF. unfold str_norm, sopts_F13 in *. destruct (so_strip o) as [| |cs] eqn:Es; cbn.
  - reflexivity.
  - apply strip_by_fix. rewrite ends_ok_apply_case. apply strip_by_ends.
  - destruct (so_case o); try discriminate. cbn. apply strip_chars_idem.
Qed.

Lemma str_validate_idem : forall orc req o x v, sopts_F13 o = false ->
  str_validate orc req o x = Ok v -> str_validate orc req o (PStr v) = Ok v.
Proof.
  intros orc req o x v HF H. destruct (str_validate_str _ _ _ _ _ H) as [s ->].
  apply str_validate_exact in H as [[Hc Hm] ->].
  apply str_validate_fixpoint; auto.
  - now apply apply_strip_norm.
  - apply apply_case_idem.
  - destruct Hc as [Hc|Hc]; [now left|right]. unfold str_norm. now rewrite case_modelled_apply.
Qed.

(* ============================ numbers and booleans ============================ *)
Definition in_bounds (mn mx : option Z) (z : Z) : Prop :=
  (forall m, mn = Some m -> m <= z) /\ (forall m, mx = Some m -> z <= m).

(* which Python values IntField converts, and to what (int(x)) *)
Inductive int_of : pyval -> Z -> Prop :=
| io_int : forall z, int_of (PInt z) z
| io_float : forall f z, trunc_float f = Some z -> int_of (PFloat f) z
| io_str : forall s z, num_str_modelled s = true -> parse_int s = Some z -> int_of (PStr s) z.

Lemma int_convert_iff : forall x z, int_convert x = Ok z <-> int_of x z.
Proof.
  intros x z. split.
  - destruct x; cbn; try discriminate.
    + intro H; injection H as <-; constructor.
    + destruct (trunc_float f) eqn:E; [intro H; injection H as <-; now constructor|destruct (sf_is_nan f); discriminate].
    + destruct (num_str_modelled s) eqn:E; [|discriminate]. destruct (parse_int s) eqn:P; [|discriminate].
      intro H; injection H as <-. now constructor.
  - intro H. destruct H; cbn; [reflexivity| now rewrite H | now rewrite H, H0].
Qed.

Lemma bounds_check : forall mn mx n,
  (if match mn with Some m => negb (m <=? n) | None => false end then Err EValue
   else if match mx with Some m => negb (n <=? m) | None => false end then Err EValue
   else Ok (PInt n)) = Ok (PInt n) <-> in_bounds mn mx n.
Proof.
  intros mn mx n. unfold in_bounds. split.
  - intro H. destruct mn as [a|], mx as [b|]; split; intros m E; try discriminate; injection E as <-.
    all: try (destruct (a <=? n) eqn:A; cbn in H; [|discriminate]).
    all: try (destruct (n <=? b) eqn:B; cbn in H; [|discriminate]).
    all: try apply Z.leb_le; assumption.
  - intros [A B]. destruct mn as [a|]; [specialize (A a eq_refl); apply Z.leb_le in A; rewrite A|];
    (destruct mx as [b|]; [specialize (B b eq_refl); apply Z.leb_le in B; rewrite B|]); reflexivity.
Qed.

Lemma int_validate_exact : forall mn mx x v,
  int_validate mn mx x = Ok v <-> exists z, int_of x z /\ in_bounds mn mx z /\ v = PInt z.
Proof.
  intros mn mx x v. unfold int_validate. split.
  - destruct (int_convert x) as [n| |] eqn:E; try discriminate. cbn. intro H.
    exists n. apply int_convert_iff in E. split; [exact E|].
    assert (Hv : v = PInt n).
    { destruct (match mn with Some m => negb (m <=? n) | None => false end); [discriminate|].
      destruct (match mx with Some m => negb (n <=? m) | None => false end); [discriminate|]. now injection H. }
    subst v. split; [|reflexivity]. now apply bounds_check.
  - intros [z [Hz [Hb ->]]]. apply int_convert_iff in Hz. rewrite Hz. cbn. now apply bounds_check.
Qed.

Lemma int_validate_fixpoint : forall mn mx z, in_bounds mn mx z -> int_validate mn mx (PInt z) = Ok (PInt z).
Proof. intros. apply int_validate_exact. exists z. repeat split; try apply H. constructor. Qed.

(* bool is an int in Python, but IntField / FloatField refuse it *)
Lemma int_rejects_bool : forall mn mx b, int_validate mn mx (PBool b) = Err EValue.
Proof. reflexivity. Qed.
Lemma float_rejects_bool : forall mn mx b, float_validate mn mx (PBool b) = Err EValue.
Proof. reflexivity. Qed.

(* FloatField *)
Definition f_in_bounds (mn mx : option spec_float) (f : spec_float) : Prop :=
  (forall m, mn = Some m -> sf_ge f m = true) /\ (forall m, mx = Some m -> sf_le f m = true).

Lemma float_validate_ok : forall mn mx x v,
  float_validate mn mx x = Ok v <-> exists f, float_convert x = Ok f /\ f_in_bounds mn mx f /\ v = PFloat f.
Proof.
  intros mn mx x v. unfold float_validate, f_in_bounds. split.
  - destruct (float_convert x) as [f| |]; try discriminate. cbn. intro H. exists f. split; [reflexivity|].
    destruct mn as [a|], mx as [b|].
    all: try (destruct (sf_ge f a) eqn:A; cbn in H; [|discriminate]).
    all: try (destruct (sf_le f b) eqn:B; cbn in H; [|discriminate]).
    all: injection H as <-; split; [|reflexivity]; split; intros m E; try discriminate; injection E as <-; assumption.
  - intros [f [-> [[A B] ->]]]. cbn.
    destruct mn as [a|]; [rewrite (A a eq_refl)|]; (destruct mx as [b|]; [rewrite (B b eq_refl)|]); reflexivity.
Qed.

Lemma float_validate_fixpoint : forall mn mx f, f_in_bounds mn mx f -> float_validate mn mx (PFloat f) = Ok (PFloat f).
Proof. intros. apply float_validate_ok. exists f. auto. Qed.

(* F11: NaN never satisfies a bound *)
Lemma sf_ge_nan : forall m, sf_ge S754_nan m = false.
Proof. intro m. unfold sf_ge, SFleb. now destruct m. Qed.
Lemma sf_le_nan : forall m, sf_le S754_nan m = false.
Proof. intro m. unfold sf_le, SFleb. reflexivity. Qed.
Lemma nan_rejected_by_bounds : forall mn mx x f,
  float_validate mn mx x = Ok (PFloat f) -> mn <> None \/ mx <> None -> sf_is_nan f = false.
Proof.
  intros mn mx x f H Hb. apply float_validate_ok in H as [g [_ [[A B] E]]]. injection E as <-.
  destruct f; try reflexivity. exfalso. destruct Hb as [Hb|Hb].
  - destruct mn as [m|]; [|congruence]. specialize (A m eq_refl). now rewrite sf_ge_nan in A.
  - destruct mx as [m|]; [|congruence]. specialize (B m eq_refl). now rewrite sf_le_nan in B.
Qed.
Lemma nan_accepted_unbounded : float_validate None None (PFloat S754_nan) = Ok (PFloat S754_nan).
Proof. reflexivity. Qed.

(* BoolField *)
Inductive bool_of : pyval -> bool -> Prop :=
| bo_bool : forall b, bool_of (PBool b) b
| bo_int : forall z, bool_of (PInt z) (negb (z =? 0))
| bo_float : forall f, bool_of (PFloat f) (negb (sf_is_zero f))
| bo_true : forall s, all_ascii s = true -> In (lower s) true_tokens -> bool_of (PStr s) true
| bo_false : forall s, all_ascii s = true -> In (lower s) false_tokens -> bool_of (PStr s) false.

Lemma tokens_disjoint : forall t, In t true_tokens -> In t false_tokens -> False.
Proof.
  assert (H : forallb (fun t => negb (str_mem t false_tokens)) true_tokens = true) by (vm_compute; reflexivity).
  intros t Ht Hf. rewrite forallb_forall in H. specialize (H t Ht). apply str_mem_In in Hf. now rewrite Hf in H.
Qed.

Lemma bool_validate_exact : forall x v, bool_validate x = Ok v <-> exists b, bool_of x b /\ v = PBool b.
Proof.
  intros x v. split.
  - destruct x; unfold bool_validate; try discriminate.
    + intro H; injection H as <-; eexists; split; [constructor|reflexivity].
    + intro H; injection H as <-; eexists; split; [constructor|reflexivity].
    + intro H; injection H as <-; eexists; split; [constructor|reflexivity].
    + destruct (all_ascii s) eqn:A; [|discriminate].
      destruct (str_mem (lower s) true_tokens) eqn:T.
      * intro H; injection H as <-. exists true. split; [|reflexivity]. constructor; [exact A|now apply str_mem_In].
      * destruct (str_mem (lower s) false_tokens) eqn:F; [|discriminate].
        intro H; injection H as <-. exists false. split; [|reflexivity]. constructor; [exact A|now apply str_mem_In].
  - intros [b [H ->]]. destruct H; unfold bool_validate; try reflexivity.
    + rewrite H. apply str_mem_In in H0. now rewrite H0.
    + rewrite H. destruct (str_mem (lower s) true_tokens) eqn:T.
      * exfalso. apply str_mem_In in T. exact (tokens_disjoint _ T H0).
      * apply str_mem_In in H0. now rewrite H0.
Qed.

(* ============================ containers ============================ *)
Lemma map_res_length : forall (A B : Type) (f : A -> res B) l l', map_res f l = Ok l' -> length l' = length l.
Proof.
  intros A B f l. induction l as [|a r IH]; cbn; intros l' H.
  - injection H as <-. reflexivity.
  - destruct (f a) as [b| |]; try discriminate. cbn in H.
    destruct (map_res f r) as [r'| |]; try discriminate. cbn in H. injection H as <-. cbn. f_equal. now apply IH.
Qed.

Lemma map_res_Forall2 : forall (A B : Type) (f : A -> res B) l l',
  map_res f l = Ok l' <-> Forall2 (fun a b => f a = Ok b) l l'.
Proof.
  intros A B f l. induction l as [|a r IH]; cbn; intros l'; split; intro H.
  - injection H as <-. constructor.
  - inversion H. reflexivity.
  - destruct (f a) as [b| |] eqn:E; try discriminate. cbn in H.
    destruct (map_res f r) as [r'| |] eqn:E2; try discriminate. cbn in H. injection H as <-.
    constructor; [exact E|now apply IH].
  - inversion H as [|a' b r0 r' Hab Hr]; subst. rewrite Hab. cbn. apply IH in Hr. rewrite Hr. reflexivity.
Qed.

Lemma dict_build_acc_nonnil : forall l acc r, dict_build_acc acc l = Ok r -> acc <> [] \/ l <> [] -> r <> [].
Proof.
  induction l as [|[k v] l IH]; cbn; intros acc r H Hn.
  - injection H as <-. destruct Hn; congruence.
  - destruct (key_ok k); [|discriminate]. apply IH in H; [exact H|]. left.
    destruct acc as [|[k' v'] acc']; cbn; [discriminate|]. destruct (key_eqb k k'); discriminate.
Qed.
Lemma dict_build_nonnil : forall l r, dict_build l = Ok r -> l <> [] -> r <> [].
Proof. intros l r H Hn. apply (dict_build_acc_nonnil l [] r H). now right. Qed.

Lemma validate_none : forall orc f, validate_with orc f PNone = if field_req f then Err EValue else Ok PNone.
Proof. intros orc f. destruct f; reflexivity. Qed.

(* required-empty rule for strings, lists and dicts *)
Lemma required_empty_rejected : forall orc,
  (forall o, validate_with orc (FStr true o) (PStr []) = Err EValue) /\
  (forall t, validate_with orc (FListU true) (PList t []) = Err EValue) /\
  (validate_with orc (FListU true) (PTuple []) = Err EValue) /\
  (forall fid it t, validate_with orc (FListT fid true it) (PList t []) = Err EValue) /\
  (forall t, validate_with orc (FDictU true) (PDict t []) = Err EValue) /\
  (forall fid kf vf t, validate_with orc (FDictT fid true kf vf) (PDict t []) = Err EValue) /\
  (forall f, field_req f = true -> validate_with orc f PNone = Err EValue).
Proof.
  intro orc. repeat split; intros; try reflexivity.
  - cbn [validate_with]. rewrite str_validate_eq. cbv zeta.
    assert (E : apply_strip (so_strip o) [] = []) by (destruct (so_strip o); reflexivity). rewrite E. reflexivity.
  - rewrite validate_none, H. reflexivity.
Qed.

(* F39: an untyped list field stores a tuple as a list *)
Lemma tuple_stored_as_list : forall orc req l v,
  validate_with orc (FListU req) (PTuple l) = Ok v -> v = PList 0%N l.
Proof. intros orc req l v. cbn. destruct (req && is_nil l); [discriminate|]. now intro H; injection H. Qed.

(* ============================ Field.validate: per-class unfolding ============================ *)
Lemma pyval_none_dec : forall x : pyval, x = PNone \/ x <> PNone.
Proof. intro x; destruct x; [left; reflexivity|right; discriminate..]. Qed.

Lemma v_any : forall orc r x, x <> PNone -> validate_with orc (FAny r) x = Ok x.
Proof. intros orc r x H; destruct x; [congruence|reflexivity..]. Qed.
Lemma v_str : forall orc r o x, x <> PNone ->
  validate_with orc (FStr r o) x = (do s <- str_validate orc r o x ;; Ok (PStr s)).
Proof. intros orc r o x H; destruct x; [congruence|reflexivity..]. Qed.
Lemma v_int : forall orc r mn mx x, x <> PNone -> validate_with orc (FInt r mn mx) x = int_validate mn mx x.
Proof. intros orc r mn mx x H; destruct x; [congruence|reflexivity..]. Qed.
Lemma v_float : forall orc r mn mx x, x <> PNone -> validate_with orc (FFloat r mn mx) x = float_validate mn mx x.
Proof. intros orc r mn mx x H; destruct x; [congruence|reflexivity..]. Qed.
Lemma v_bool : forall orc r x, x <> PNone -> validate_with orc (FBool r) x = bool_validate x.
Proof. intros orc r x H; destruct x; [congruence|reflexivity..]. Qed.
Lemma v_ipv4 : forall orc r o x, x <> PNone -> validate_with orc (FIPv4 r o) x = ipv4_validate orc r o x.
Proof. intros orc r o x H; destruct x; [congruence|reflexivity..]. Qed.
Lemma v_net : forall orc r o a b x, x <> PNone -> validate_with orc (FNet r o a b) x = net_validate orc r o a b x.
Proof. intros orc r o a b x H; destruct x; [congruence|reflexivity..]. Qed.
Lemma v_host : forall orc r o a b x, x <> PNone -> validate_with orc (FHost r o a b) x = host_validate orc r o a b x.
Proof. intros orc r o a b x H; destruct x; [congruence|reflexivity..]. Qed.
Lemma v_bytes : forall orc r e x, x <> PNone -> validate_with orc (FBytes r e) x = bytes_validate x.
Proof. intros orc r e x H; destruct x; [congruence|reflexivity..]. Qed.

Lemma bind_ok : forall (A B : Type) (r : res A) (k : A -> res B) b,
  bind r k = Ok b -> exists a, r = Ok a /\ k a = Ok b.
Proof. intros A B r k b H. destruct r; try discriminate. eauto. Qed.

(* ============================ idempotence ============================ *)
Theorem validate_idem : forall orc f x v,
  known_F13 f = false -> validate_with orc f x = Ok v -> validate_with orc f v = Ok v.
Proof.
  intros orc f x v HF H.
  destruct (pyval_none_dec x) as [->|Hx].
  { rewrite validate_none in H. destruct (field_req f) eqn:R; [discriminate|]. injection H as <-.
    rewrite validate_none, R. reflexivity. }
  destruct f; cbn [known_F13] in HF.
  - (* FAny *) rewrite v_any in H by exact Hx. injection H as <-. now rewrite v_any.
  - (* FStr *) rewrite v_str in H by exact Hx. apply bind_ok in H as [s [E H]]. injection H as <-.
    rewrite v_str by discriminate. rewrite (str_validate_idem _ _ _ _ _ HF E). reflexivity.
  - (* FInt *) rewrite v_int in H by exact Hx. apply int_validate_exact in H as [z [_ [Hb ->]]].
    rewrite v_int by discriminate. now apply int_validate_fixpoint.
  - (* FFloat *) rewrite v_float in H by exact Hx. apply float_validate_ok in H as [g [_ [Hb ->]]].
    rewrite v_float by discriminate. now apply float_validate_fixpoint.
  - (* FBool *) rewrite v_bool in H by exact Hx. apply bool_validate_exact in H as [b [_ ->]]. reflexivity.
  - (* FIPv4 *) rewrite v_ipv4 in H by exact Hx. unfold ipv4_validate in H. apply bind_ok in H as [s [E H]].
    destruct (parse_ipv4 s) as [a|] eqn:P; [|discriminate]. injection H as <-.
    rewrite (parse_ipv4_canonical _ _ P). rewrite v_ipv4 by discriminate. unfold ipv4_validate.
    rewrite (str_validate_idem _ _ _ _ _ HF E). cbn [bind]. rewrite P, (parse_ipv4_canonical _ _ P). reflexivity.
  - (* FNet: idempotent for every option combination since F49 *)
    rewrite v_net in H by exact Hx. unfold net_validate in H. apply bind_ok in H as [s [E H]].
    apply bind_ok in H as [[a p] [P H]].
    destruct (match minp with Some m => Z.of_N p <? m | None => false end) eqn:C1; [discriminate|].
    destruct (match maxp with Some m => m <? Z.of_N p | None => false end) eqn:C2; [discriminate|].
    cbv zeta in H. apply bind_ok in H as [s' [E2 H]].
    destruct (str_eqb s' (print_net a p)) eqn:Q; [|discriminate]. injection H as <-.
    apply str_eqb_eq in Q. subst s'.
    destruct (parse_net_sound _ _ _ P) as (Ba & Bp & Bh).
    rewrite v_net by discriminate. unfold net_validate. rewrite E2. cbn [bind].
    rewrite (net_roundtrip a p Ba Bp Bh). cbn [bind]. rewrite C1, C2. cbv zeta. rewrite E2. cbn [bind].
    rewrite str_eqb_refl. reflexivity.
  - (* FHost *) rewrite v_host in H by exact Hx. unfold host_validate in H. apply bind_ok in H as [s [E H]].
    pose proof (str_validate_idem _ _ _ _ _ HF E) as E'.
    destruct (parse_ipv4 s) as [a|] eqn:P.
    + destruct allow_ipv4; [|discriminate]. injection H as <-. rewrite (parse_ipv4_canonical _ _ P).
      rewrite v_host by discriminate. unfold host_validate. rewrite E'. cbn [bind].
      rewrite P, (parse_ipv4_canonical _ _ P). reflexivity.
    + destruct resolve; [discriminate|]. destruct (all_ascii s) eqn:A; [|discriminate].
      destruct (dns_match s || netbios_match s) eqn:M; [|discriminate]. injection H as <-.
      rewrite v_host by discriminate. unfold host_validate. rewrite E'. cbn [bind]. rewrite P, A, M. reflexivity.
  - (* FBytes *) rewrite v_bytes in H by exact Hx. destruct x; try discriminate; cbn in H.
    + destruct (utf8_enc s); [|discriminate]. injection H as <-. reflexivity.
    + injection H as <-. reflexivity.
  - (* FListU *) destruct x as [| | | | | |tg l|l|tg d| |]; cbn in H; try discriminate; try congruence.
    + destruct (req && is_nil l) eqn:R; [discriminate|]. injection H as <-. cbn. now rewrite R.
    + destruct (req && is_nil l) eqn:R; [discriminate|]. injection H as <-. cbn. now rewrite R.
  - (* FListT: the result is a proxy of this field, which is kept as it is *)
    assert (G : forall tg l, (if req && is_nil l then Err EValue
               else if (tg =? fid + 1)%N then Ok (PList (fid + 1)%N l)
               else if negb (tg =? 0)%N then Unmodelled
               else do l' <- map_res (validate_with orc f) l ;; Ok (PList (fid + 1)%N l')) = Ok v ->
               validate_with orc (FListT fid req f) v = Ok v).
    { intros tg l G. destruct (req && is_nil l) eqn:R; [discriminate|].
      destruct (tg =? fid + 1)%N.
      - injection G as <-. cbn. rewrite R, N.eqb_refl. reflexivity.
      - destruct (negb (tg =? 0)%N); [discriminate|]. apply bind_ok in G as [l' [M G]]. injection G as <-.
        cbn. rewrite (is_nil_length _ l' l (map_res_length _ _ _ _ _ M)), R, N.eqb_refl. reflexivity. }
    destruct x as [| | | | | |tg l|l|tg d| |]; cbn [validate_with] in H; try discriminate; try congruence;
      [exact (G tg l H)|exact (G 0%N l H)].
  - (* FDictU *) destruct x as [| | | | | |tg l|l|tg d| |]; cbn in H; try discriminate; try congruence.
    destruct (req && is_nil d) eqn:R; [discriminate|]. injection H as <-. cbn. now rewrite R.
  - (* FDictT *) destruct x as [| | | | | |tg l|l|tg d| |]; cbn in H; try discriminate; try congruence.
    destruct (req && is_nil d) eqn:R; [discriminate|].
    destruct (tg =? fid + 1)%N.
    + injection H as <-. cbn. rewrite R, N.eqb_refl. reflexivity.
    + destruct (negb (tg =? 0)%N); [discriminate|]. apply bind_ok in H as [d' [M H]].
      apply bind_ok in H as [d'' [B H]]. injection H as <-. cbn.
      assert (Rn : req && is_nil d'' = false).
      { destruct req; [cbn in *|reflexivity]. apply is_nil_false. apply is_nil_false in R.
        apply (dict_build_nonnil _ _ B). intro Hn. apply R. apply length_zero_iff_nil.
        rewrite <- (map_res_length _ _ _ _ _ M), Hn. reflexivity. }
      rewrite Rn, N.eqb_refl. reflexivity.
  - (* FOpaque *) destruct x; [congruence|discriminate..].
Qed.

Example validate_idem_hyp_sat : known_F13 (FStr true (mk_sopts (Some 1) None None [] CLower SWs)) = false /\
  validate (FStr true (mk_sopts (Some 1) None None [] CLower SWs)) (PStr (sa " Ab ")) = Ok (PStr (sa "ab")).
Proof. split; vm_compute; reflexivity. Qed.

(* F13: strip(chars) runs before the case transform, so a validated value can be stripped further *)
Definition f13_field : field := FStr false (mk_sopts None None None [] CLower (SChars (sa "a"))).
Lemma validate_idem_refuted :
  exists f x v, known_F13 f = true /\ validate f x = Ok v /\ validate f v <> Ok v.
Proof.
  exists f13_field, (PStr (sa "Ab")), (PStr (sa "ab")).
  split; [reflexivity|]. split; [vm_compute; reflexivity|]. vm_compute. discriminate.
Qed.

(* ============================ soundness / normal form ============================ *)
(* transforms of the string pipeline are the identity on s *)
Definition str_stable (o : sopts) (s : str) : Prop :=
  apply_strip (so_strip o) s = s /\ apply_case (so_case o) s = s /\ (so_case o = CNone \/ case_modelled s = true).
Definition str_sat (strict : bool) (orc : oracle) (req : bool) (o : sopts) (s : str) : Prop :=
  str_meets orc req o s /\ (strict = true -> str_stable o s).

Definition p_in_bounds (mn mx : option Z) (p : N) : Prop :=
  (forall m, mn = Some m -> m <= Z.of_N p) /\ (forall m, mx = Some m -> Z.of_N p <= m).

(* sat false = `meets`: the constraints the field declares (type, bounds, length, pattern, choices, syntax, item/key/value
   constraints);  sat true = `normal`: meets + every transform of the field is the identity on the value *)
Fixpoint sat (strict : bool) (orc : oracle) (f : field) (v : pyval) {struct f} : Prop :=
  (v = PNone /\ field_req f = false) \/
  match f with
  | FAny _ => v <> PNone
  | FStr req o => exists s, v = PStr s /\ str_sat strict orc req o s
  | FInt _ mn mx => exists z, v = PInt z /\ in_bounds mn mx z
  | FFloat _ mn mx => exists x, v = PFloat x /\ f_in_bounds mn mx x
  | FBool _ => exists b, v = PBool b
  | FIPv4 req o => exists a, v = PStr (print_ipv4 a) /\ (a < 4294967296)%N /\ str_sat strict orc req o (print_ipv4 a)
  | FNet req o mn mx => exists a p, v = PStr (print_net a p) /\ (a < 4294967296)%N /\ (p <= 32)%N /\
        (a mod 2 ^ (32 - p) = 0)%N /\ p_in_bounds mn mx p /\
        str_validate orc req o (PStr (print_net a p)) = Ok (print_net a p)
  | FHost req o al rs => exists s, v = PStr s /\ str_sat strict orc req o s /\
        ((exists a, parse_ipv4 s = Some a /\ al = true) \/
         (rs = false /\ parse_ipv4 s = None /\ all_ascii s = true /\ dns_match s || netbios_match s = true))
  | FBytes _ _ => exists b, v = PBytes b /\ bytes_ok b = true
  | FListU req => exists t l, v = PList t l /\ (req = true -> l <> [])
  | FListT fid req it => exists l, v = PList (fid + 1)%N l /\ Forall (sat strict orc it) l /\ (req = true -> l <> [])
  | FDictU req => exists t d, v = PDict t d /\ (req = true -> d <> [])
  | FDictT fid req kf vf => exists d, v = PDict (fid + 1)%N d /\
        Forall (fun kv => sat strict orc kf (fst kv) /\ sat strict orc vf (snd kv)) d /\ (req = true -> d <> [])
  | FOpaque _ _ => False
  end.
Definition meets := sat false.
Definition normal := sat true.

Lemma str_validate_sat : forall strict orc req o x v,
  (strict = true -> sopts_F13 o = false) -> str_validate orc req o x = Ok v -> str_sat strict orc req o v.
Proof.
  intros strict orc req o x v HF H. split; [eapply str_validate_sound; exact H|].
  intro Hs. specialize (HF Hs). destruct (str_validate_str _ _ _ _ _ H) as [s ->].
  apply str_validate_exact in H as [[Hc Hm] ->]. repeat split.
  - now apply apply_strip_norm.
  - apply apply_case_idem.
  - destruct Hc as [Hc|Hc]; [now left|right]. unfold str_norm. now rewrite case_modelled_apply.
Qed.

Lemma req_nonnil : forall (A : Type) req (l : list A), req && is_nil l = false -> req = true -> l <> [].
Proof. intros A req l H ->. cbn in H. now apply is_nil_false. Qed.

(* dict(...) keeps keys and values of the pair list: any property of keys and values separately survives *)
Lemma dict_build_acc_Forall : forall (PK PV : pyval -> Prop) l acc r,
  dict_build_acc acc l = Ok r ->
  Forall (fun kv => PK (fst kv) /\ PV (snd kv)) acc -> Forall (fun kv => PK (fst kv) /\ PV (snd kv)) l ->
  Forall (fun kv => PK (fst kv) /\ PV (snd kv)) r.
Proof.
  intros PK PV. induction l as [|[k v] l IH]; cbn; intros acc r H Ha Hl.
  - now injection H as <-.
  - destruct (key_ok k); [|discriminate]. inversion Hl as [|? ? [Hk Hv] Hl']; subst. cbn in Hk, Hv.
    apply (IH _ _ H); [|exact Hl'].
    clear -Ha Hk Hv. induction acc as [|[k' v'] acc IHa]; cbn.
    + constructor; [split; assumption|constructor].
    + inversion Ha as [|? ? [Hk' Hv'] Ha']; subst. cbn in Hk', Hv'. destruct (key_eqb k k').
      * constructor; [split; assumption|exact Ha'].
      * constructor; [split; assumption|now apply IHa].
Qed.

Lemma plain_dict_Forall : forall d,
  (fix go (d : list (pyval * pyval)) : bool :=
     match d with [] => true | (k, v) :: r => plain k && plain v && go r end) d = true ->
  Forall (fun kv => plain (fst kv) = true /\ plain (snd kv) = true) d.
Proof.
  induction d as [|[k v] d IH]; intro H; constructor.
  - apply andb_true_iff in H as [H _]. apply andb_true_iff in H. exact H.
  - apply IH. apply andb_true_iff in H as [_ H]. exact H.
Qed.

Theorem validate_sat : forall strict orc f,
  (strict = true -> has_F13 f = false) ->
  forall x v, plain x = true -> validate_with orc f x = Ok v -> sat strict orc f v.
Proof.
  intros strict orc f. induction f; intros HF x v Hp H.
  all: destruct (pyval_none_dec x) as [->|Hx];
    [rewrite validate_none in H; match type of H with context [field_req ?g] => destruct (field_req g) eqn:R end;
     [discriminate|injection H as <-; left; split; [reflexivity|exact R]]|].
  all: right.
  - rewrite v_any in H by exact Hx. now injection H as <-.
  - rewrite v_str in H by exact Hx. apply bind_ok in H as [s [E H]]. injection H as <-.
    exists s. split; [reflexivity|]. eapply str_validate_sat; [exact HF|exact E].
  - rewrite v_int in H by exact Hx. apply int_validate_exact in H as [z [_ [Hb ->]]]. eauto.
  - rewrite v_float in H by exact Hx. apply float_validate_ok in H as [g [_ [Hb ->]]]. eauto.
  - rewrite v_bool in H by exact Hx. apply bool_validate_exact in H as [b [_ ->]]. eauto.
  - rewrite v_ipv4 in H by exact Hx. unfold ipv4_validate in H. apply bind_ok in H as [s [E H]].
    destruct (parse_ipv4 s) as [a|] eqn:P; [|discriminate]. injection H as <-. exists a.
    split; [reflexivity|]. split; [eapply parse_ipv4_bound; exact P|].
    rewrite (parse_ipv4_canonical _ _ P). eapply str_validate_sat; [exact HF|exact E].
  - rewrite v_net in H by exact Hx. unfold net_validate in H. apply bind_ok in H as [s [E H]].
    apply bind_ok in H as [[a p] [P H]].
    destruct (match minp with Some m => Z.of_N p <? m | None => false end) eqn:C1; [discriminate|].
    destruct (match maxp with Some m => m <? Z.of_N p | None => false end) eqn:C2; [discriminate|].
    cbv zeta in H. apply bind_ok in H as [s' [E2 H]].
    destruct (str_eqb s' (print_net a p)) eqn:Q; [|discriminate]. injection H as <-.
    apply str_eqb_eq in Q. subst s'. destruct (parse_net_sound _ _ _ P) as (Ba & Bp & Bh).
    exists a, p. repeat split; auto.
    + intros m ->. apply Z.ltb_ge in C1. exact C1.
    + intros m ->. apply Z.ltb_ge in C2. exact C2.
  - rewrite v_host in H by exact Hx. unfold host_validate in H. apply bind_ok in H as [s [E H]].
    assert (Hs : str_sat strict orc req o s) by (eapply str_validate_sat; [exact HF|exact E]).
    destruct (parse_ipv4 s) as [a|] eqn:P.
    + destruct allow_ipv4; [|discriminate]. injection H as <-. rewrite (parse_ipv4_canonical _ _ P).
      exists s. split; [reflexivity|]. split; [exact Hs|]. left. eauto.
    + destruct resolve; [discriminate|]. destruct (all_ascii s) eqn:A; [|discriminate].
      destruct (dns_match s || netbios_match s) eqn:M; [|discriminate]. injection H as <-.
      exists s. split; [reflexivity|]. split; [exact Hs|]. right. auto.
  - rewrite v_bytes in H by exact Hx. destruct x; try discriminate; cbn in H.
    + destruct (utf8_enc s) eqn:U; [|discriminate]. injection H as <-. exists b. split; [reflexivity|].
      eapply utf8_enc_bytes_ok; exact U.
    + injection H as <-. exists b. split; [reflexivity|exact Hp].
  - destruct x as [| | | | | |tg l|l|tg d| |]; cbn in H; try discriminate; try congruence.
    + destruct (req && is_nil l) eqn:R; [discriminate|]. injection H as <-. exists tg, l. split; [reflexivity|].
      now apply req_nonnil.
    + destruct (req && is_nil l) eqn:R; [discriminate|]. injection H as <-. exists 0%N, l. split; [reflexivity|].
      now apply req_nonnil.
  - (* FListT *)
    assert (G : forall l, forallb plain l = true ->
              (if req && is_nil l then Err EValue
               else if (0 =? fid + 1)%N then Ok (PList (fid + 1)%N l)
               else if negb (0 =? 0)%N then Unmodelled
               else do l' <- map_res (validate_with orc f) l ;; Ok (PList (fid + 1)%N l')) = Ok v ->
              exists l', v = PList (fid + 1)%N l' /\ Forall (sat strict orc f) l' /\ (req = true -> l' <> [])).
    { intros l Hl G. destruct (req && is_nil l) eqn:R; [discriminate|].
      assert (Hne : (0 =? fid + 1)%N = false) by (apply N.eqb_neq; lia). rewrite Hne in G. cbn [negb N.eqb] in G.
      apply bind_ok in G as [l' [M G]]. injection G as <-. exists l'. split; [reflexivity|]. split.
      - apply map_res_Forall2 in M. rewrite forallb_forall in Hl. clear R H.
        induction M as [|a b l l' Hab M IHM]; constructor.
        + apply (IHf HF a b); [apply Hl; now left|exact Hab].
        + apply IHM. intros y Hy. apply Hl. now right.
      - intro Hr. pose proof (req_nonnil _ _ _ R Hr) as Hn. intro Hl'. apply Hn. apply length_zero_iff_nil.
        rewrite <- (map_res_length _ _ _ _ _ M), Hl'. reflexivity. }
    destruct x as [| | | | | |tg l|l|tg d| |]; cbn [validate_with] in H; try discriminate; try congruence.
    + cbn in Hp. apply andb_true_iff in Hp as [Ht Hl]. apply N.eqb_eq in Ht. subst tg. exact (G l Hl H).
    + exact (G l Hp H).
  - destruct x as [| | | | | |tg l|l|tg d| |]; cbn in H; try discriminate; try congruence.
    destruct (req && is_nil d) eqn:R; [discriminate|]. injection H as <-. exists tg, d. split; [reflexivity|].
    now apply req_nonnil.
  - (* FDictT *)
    destruct x as [| | | | | |tg l|l|tg d| |]; cbn [validate_with] in H; try discriminate; try congruence.
    cbn [plain] in Hp. apply andb_true_iff in Hp as [Ht Hd]. apply N.eqb_eq in Ht. subst tg.
    destruct (req && is_nil d) eqn:R; [discriminate|].
    assert (Hne : (0 =? fid + 1)%N = false) by (apply N.eqb_neq; lia). rewrite Hne in H. cbn [negb N.eqb] in H.
    apply bind_ok in H as [d' [M H]]. apply bind_ok in H as [d'' [B H]]. injection H as <-.
    cbn [has_F13] in HF.
    assert (HF1 : strict = true -> has_F13 f1 = false) by (intro S; specialize (HF S); now apply orb_false_iff in HF).
    assert (HF2 : strict = true -> has_F13 f2 = false) by (intro S; specialize (HF S); now apply orb_false_iff in HF).
    exists d''. split; [reflexivity|]. split.
    + apply (dict_build_acc_Forall (sat strict orc f1) (sat strict orc f2) d' [] d'' B); [constructor|].
      apply map_res_Forall2 in M. apply plain_dict_Forall in Hd. clear R B.
      induction M as [|[k x] [k' x'] d d' Hab M IHM]; constructor.
      * inversion Hd as [|? ? [Pk Px] Hd']; subst. cbn in Pk, Px, Hab.
        apply bind_ok in Hab as [k2 [Ek Hab]]. apply bind_ok in Hab as [x2 [Ex Hab]]. injection Hab as <- <-.
        cbn. split; [exact (IHf1 HF1 k k2 Pk Ek)|exact (IHf2 HF2 x x2 Px Ex)].
      * inversion Hd; subst. now apply IHM.
    + intro Hr. pose proof (req_nonnil _ _ _ R Hr) as Hn. apply (dict_build_nonnil _ _ B). intro Hd'. apply Hn.
      apply length_zero_iff_nil. rewrite <- (map_res_length _ _ _ _ _ M), Hd'. reflexivity.
  - destruct x; [congruence|discriminate..].
Qed.

Corollary validate_sound : forall orc f x v, plain x = true -> validate_with orc f x = Ok v -> meets orc f v.
Proof. intros orc f x v. apply validate_sat. discriminate. Qed.
Corollary validate_normal : forall orc f x v,
  has_F13 f = false -> plain x = true -> validate_with orc f x = Ok v -> normal orc f v.
Proof. intros orc f x v HF. apply validate_sat. intros _. exact HF. Qed.

(* ============================ fixed points ============================ *)
Lemma req_check : forall (A : Type) req (l : list A), (req = true -> l <> []) -> req && is_nil l = false.
Proof. intros A [] l H; [cbn; apply is_nil_false; auto|reflexivity]. Qed.

Lemma str_sat_fixpoint : forall orc req o s, str_sat true orc req o s -> str_validate orc req o (PStr s) = Ok s.
Proof. intros orc req o s [Hm Hs]. destruct (Hs eq_refl) as (A & B & C). now apply str_validate_fixpoint. Qed.

Theorem validate_fixpoint : forall orc f v, normal orc f v -> validate_with orc f v = Ok v.
Proof.
  intros orc f v H. unfold normal in H.
  assert (HN : v = PNone /\ field_req f = false -> validate_with orc f v = Ok v).
  { intros [-> R]. now rewrite validate_none, R. }
  destruct f; cbn [sat] in H; (destruct H as [H|H]; [exact (HN H)|]); clear HN.
  - now apply v_any.
  - destruct H as [s [-> Hs]]. rewrite v_str by discriminate. now rewrite (str_sat_fixpoint _ _ _ _ Hs).
  - destruct H as [z [-> Hb]]. rewrite v_int by discriminate. now apply int_validate_fixpoint.
  - destruct H as [x [-> Hb]]. rewrite v_float by discriminate. now apply float_validate_fixpoint.
  - destruct H as [b ->]. reflexivity.
  - destruct H as [a [-> [Ba Hs]]]. rewrite v_ipv4 by discriminate. unfold ipv4_validate.
    rewrite (str_sat_fixpoint _ _ _ _ Hs). cbn [bind]. now rewrite (ipv4_roundtrip a Ba).
  - destruct H as [a [p [-> (Ba & Bp & Bh & [B1 B2] & E)]]]. rewrite v_net by discriminate. unfold net_validate.
    rewrite E. cbn [bind]. rewrite (net_roundtrip a p Ba Bp Bh). cbn [bind].
    assert (C1 : match minp with Some m => Z.of_N p <? m | None => false end = false).
    { destruct minp as [m|]; [|reflexivity]. apply Z.ltb_ge. now apply B1. }
    assert (C2 : match maxp with Some m => m <? Z.of_N p | None => false end = false).
    { destruct maxp as [m|]; [|reflexivity]. apply Z.ltb_ge. now apply B2. }
    rewrite C1, C2. cbv zeta. rewrite E. cbn [bind]. now rewrite str_eqb_refl.
  - destruct H as [s [-> [Hs Hc]]]. rewrite v_host by discriminate. unfold host_validate.
    rewrite (str_sat_fixpoint _ _ _ _ Hs). cbn [bind]. destruct Hc as [[a [P ->]]|(-> & P & A & M)].
    + now rewrite P, (parse_ipv4_canonical _ _ P).
    + now rewrite P, A, M.
  - destruct H as [b [-> _]]. reflexivity.
  - destruct H as [t [l [-> Hr]]]. cbn. now rewrite (req_check _ _ _ Hr).
  - destruct H as [l [-> [_ Hr]]]. cbn. now rewrite (req_check _ _ _ Hr), N.eqb_refl.
  - destruct H as [t [d [-> Hr]]]. cbn. now rewrite (req_check _ _ _ Hr).
  - destruct H as [d [-> [_ Hr]]]. cbn. now rewrite (req_check _ _ _ Hr), N.eqb_refl.
  - contradiction.
Qed.

Example normal_sat : normal no_oracle (FListT 0 true (FInt false (Some 0) (Some 10))) (PList 1%N [PInt 3; PNone]).
Proof.
  unfold normal. cbn [sat]. right. exists [PInt 3; PNone]. split; [reflexivity|]. split; [|discriminate].
  constructor; [|constructor; [|constructor]].
  - right. exists 3. split; [reflexivity|]. split; intros m E; injection E as <-; lia.
  - left. split; reflexivity.
Qed.

(* ============================ the on-disk round trip ============================ *)
(* ============================ typed dicts: the on-disk round trip ============================ *)
(* keys pairwise different for Python's == on the modelled key types, all of them hashable scalars *)
Fixpoint distinct_keys (l : list (pyval * pyval)) : Prop :=
  match l with
  | [] => True
  | kv :: r => key_ok (fst kv) = true /\
               Forall (fun kv' => key_eqb (fst kv') (fst kv) = false) r /\ distinct_keys r
  end.

Lemma assoc_set_fresh : forall k v acc,
  Forall (fun kv' => key_eqb k (fst kv') = false) acc -> @assoc_set pyval pyval key_eqb k v acc = acc ++ [(k, v)].
Proof.
  intros k v acc H. induction H as [|[k' v'] acc Hk H IH]; cbn; [reflexivity|].
  cbn in Hk. rewrite Hk. now f_equal.
Qed.

Lemma dict_build_acc_distinct : forall l acc,
  distinct_keys l -> Forall (fun kv => Forall (fun kv' => key_eqb (fst kv) (fst kv') = false) acc) l ->
  dict_build_acc acc l = Ok (acc ++ l).
Proof.
  induction l as [|[k v] l IH]; intros acc Hd Ha; cbn.
  - now rewrite app_nil_r.
  - destruct Hd as (Hk & Hr & Hd). cbn in Hk. rewrite Hk. inversion Ha as [|? ? Hka Ha']; subst. cbn in Hka.
    rewrite (assoc_set_fresh k v acc Hka). rewrite IH; [now rewrite <- app_assoc| exact Hd |].
    clear IH Hd Ha Hka Hk. induction Ha' as [|kv' l Hx Ha' IHa]; constructor.
    + apply Forall_app; split; [exact Hx|]. constructor; [|constructor]. cbn. inversion Hr; subst. assumption.
    + apply IHa. inversion Hr; subst. assumption.
Qed.

Lemma dict_build_distinct : forall l, distinct_keys l -> dict_build l = Ok l.
Proof.
  intros l H. unfold dict_build. rewrite dict_build_acc_distinct; [reflexivity|exact H|].
  clear H. induction l; constructor; [constructor|assumption].
Qed.

Lemma distinct_keys_fst : forall l l', map fst l = map fst l' -> distinct_keys l -> distinct_keys l'.
Proof.
  induction l as [|kv l IH]; intros [|kv' l'] E H; cbn in *; try discriminate; try exact I.
  injection E as E1 E2. destruct H as (A & B & C). rewrite <- E1. split; [exact A|]. split; [|now apply IH].
  clear -B E2. revert l' E2. induction B as [|x l Hx B IHB]; intros [|y l'] E2; try discriminate; constructor.
  - cbn in E2. injection E2 as E3 E4. now rewrite <- E3.
  - cbn in E2. injection E2 as E3 E4. now apply IHB.
Qed.

(* key fields whose values are hashable scalars the model compares *)
Definition scalar_kf (kf : field) : bool :=
  match kf with
  | FAny _ | FStr _ _ | FInt _ _ _ | FBool _ | FIPv4 _ _ | FNet _ _ _ _ | FHost _ _ _ _ | FBytes _ _ => true
  | _ => false
  end.
Definition kb_of (kf : field) (k : pyval) : pyval :=
  match kf, k with
  | FBytes _ enc, PBytes b => PStr (match enc with B64 => b64_enc b | BHex => hex_enc b end)
  | _, _ => k
  end.

Lemma bytes_eqb_eq : forall a b : bytes, bytes_eqb a b = true <-> a = b.
Proof. exact str_eqb_eq. Qed.

Lemma key_rt : forall orc kf k, scalar_kf kf = true -> normal orc kf k -> key_ok k = true ->
  to_basic kf k = Ok (kb_of kf k) /\ to_python_with orc kf (kb_of kf k) = Ok k /\ key_ok (kb_of kf k) = true.
Proof.
  intros orc kf k Hs Hn Hk. destruct kf; try discriminate; try (cbn; auto; fail).
  unfold normal in Hn. cbn [sat] in Hn. destruct Hn as [[-> _]|[b [-> Hb]]]; [cbn; auto|].
  cbn. destruct enc.
  - now rewrite (b64_decode_py_enc b Hb).
  - now rewrite (hex_dec_enc b Hb).
Qed.

Lemma key_eqb_kb : forall orc kf k1 k2, scalar_kf kf = true -> normal orc kf k1 -> normal orc kf k2 ->
  key_ok k1 = true -> key_ok k2 = true -> key_eqb (kb_of kf k1) (kb_of kf k2) = key_eqb k1 k2.
Proof.
  intros orc kf k1 k2 Hs H1 H2 K1 K2. destruct kf; try discriminate; try reflexivity.
  unfold normal in H1, H2. cbn [sat] in H1, H2.
  destruct H1 as [[-> _]|[b1 [-> B1]]], H2 as [[-> _]|[b2 [-> B2]]]; try reflexivity.
  cbn. destruct (bytes_eqb b1 b2) eqn:E.
  - apply bytes_eqb_eq in E. subst. apply str_eqb_refl.
  - destruct (str_eqb _ _) eqn:E2; [|reflexivity]. apply str_eqb_eq in E2. exfalso.
    assert (b1 = b2) by (destruct enc; [eapply b64_enc_inj|eapply hex_enc_inj]; eassumption).
    subst. assert (bytes_eqb b2 b2 = true) by (now apply bytes_eqb_eq). congruence.
Qed.

Lemma distinct_keys_kb : forall orc kf l l', scalar_kf kf = true ->
  map fst l' = map (kb_of kf) (map fst l) -> Forall (fun kv => normal orc kf (fst kv)) l ->
  distinct_keys l -> distinct_keys l'.
Proof.
  intros orc kf l l' Hs. revert l'. induction l as [|[k x] l IH]; intros [|[k' x'] l'] E Hn Hd; cbn in *; try discriminate; try exact I.
  injection E as E1 E2. inversion Hn as [|? ? Hk Hn']; subst. cbn in Hk. destruct Hd as (A & B & C).
  assert (Hall : forall kv, In kv l -> key_ok (fst kv) = true).
  { clear -C. induction l as [|kv l IHl]; intros kv' []; subst; destruct C as (A & B & C); auto. }
  split; [now destruct (key_rt orc kf k Hs Hk A) as (_ & _ & ?)|]. split; [|now apply IH].
  clear IH C. revert l' E2. induction l as [|[k2 x2] l IHl]; intros [|[k2' x2'] l'] E2; cbn in *; try discriminate; constructor.
  - injection E2 as E3 E4. subst k2'. cbn. inversion B; inversion Hn'; subst. cbn in *.
    rewrite (key_eqb_kb orc kf k2 k Hs); auto; apply (Hall (k2, x2)); now left.
  - injection E2 as E3 E4. inversion B; inversion Hn'; subst. apply IHl; auto; intros kv Hin; apply Hall; now right.
Qed.

Lemma roundtrip_pairs : forall orc kf (tbv tpv vav : pyval -> res pyval) d, scalar_kf kf = true ->
  Forall (fun kv => normal orc kf (fst kv) /\ key_ok (fst kv) = true /\
                    exists b p, tbv (snd kv) = Ok b /\ tpv b = Ok p /\ vav p = Ok (snd kv)) d ->
  exists db dp, map_res (on_pair (to_basic kf) tbv) d = Ok db /\
                map_res (on_pair (to_python_with orc kf) tpv) db = Ok dp /\
                map_res (on_pair (validate_with orc kf) vav) dp = Ok d /\
                map fst db = map (kb_of kf) (map fst d) /\ map fst dp = map fst d.
Proof.
  intros orc kf tbv tpv vav d Hs H. induction H as [|[k x] d (Hn & Hk & b & p & A & B & C) H (db & dp & IA & IB & IC & ID & IE)].
  - exists [], []. repeat split.
  - cbn in Hn, Hk, A, C. destruct (key_rt orc kf k Hs Hn Hk) as (K1 & K2 & K3).
    exists ((kb_of kf k, b) :: db), ((k, p) :: dp). cbn.
    rewrite K1. cbn. rewrite A. cbn. rewrite IA. cbn. rewrite K2. cbn. rewrite B. cbn. rewrite IB. cbn.
    rewrite (validate_fixpoint orc kf k Hn). cbn. rewrite C. cbn. rewrite IC. cbn. rewrite ID, IE. repeat split.
Qed.

(* domain of the round-trip theorem: values as the fields store them.  An unset (None) TYPED container comes back
   empty (property C02 allows exactly that), so typed-container positions hold a container; untyped containers are
   builtin lists/dicts; the keys of a typed dict are pairwise different hashable scalars (true of every Python dict
   over the modelled key types) and its key field is a scalar field *)
Fixpoint rt_dom (f : field) (v : pyval) {struct f} : Prop :=
  match f with
  | FListU _ => v = PNone \/ exists l, v = PList 0%N l
  | FDictU _ => v = PNone \/ exists d, v = PDict 0%N d
  | FListT _ _ it => exists t l, v = PList t l /\ Forall (rt_dom it) l
  | FDictT _ _ kf vf => exists t d, v = PDict t d /\ scalar_kf kf = true /\ distinct_keys d /\
                                   Forall (fun kv => rt_dom vf (snd kv)) d
  | FOpaque _ _ => False
  | _ => True
  end.

Lemma roundtrip_items : forall (tb tp va : pyval -> res pyval) l,
  Forall (fun i => exists b p, tb i = Ok b /\ tp b = Ok p /\ va p = Ok i) l ->
  exists lb lp, map_res tb l = Ok lb /\ map_res tp lb = Ok lp /\ map_res va lp = Ok l.
Proof.
  intros tb tp va l H. induction H as [|i l [b [p (A & B & C)]] H [lb [lp (IA & IB & IC)]]].
  - exists [], []. repeat split.
  - exists (b :: lb), (p :: lp). cbn. rewrite A, IA, B, IB, C, IC. repeat split.
Qed.

Theorem basic_roundtrip : forall orc f v,
  normal orc f v -> rt_dom f v ->
  exists b p, to_basic f v = Ok b /\ to_python_with orc f b = Ok p /\ validate_with orc f p = Ok v.
Proof.
  intros orc f. induction f; intros v Hn Hd; pose proof (validate_fixpoint _ _ _ Hn) as Hfix.
  1-8: exists v, v; repeat split; exact Hfix.
  - (* FBytes *) unfold normal in Hn. cbn [sat] in Hn. destruct Hn as [[-> R]|[b [-> Hb]]].
    + exists PNone, PNone. repeat split. exact Hfix.
    + exists (PStr (match enc with B64 => b64_enc b | BHex => hex_enc b end)), (PBytes b).
      split; [reflexivity|]. split; [|exact Hfix]. cbn. destruct enc.
      * now rewrite (b64_decode_py_enc b Hb).
      * now rewrite (hex_dec_enc b Hb).
  - (* FListU *) cbn in Hd. destruct Hd as [->|[l ->]].
    + exists PNone, PNone. repeat split. exact Hfix.
    + exists (PList 0%N l), (PList 0%N l). repeat split. exact Hfix.
  - (* FListT *) cbn [rt_dom] in Hd. destruct Hd as [t [l [-> Hd]]].
    unfold normal in Hn. cbn [sat] in Hn. destruct Hn as [[Hv _]|[l0 [Hv [Hi Hr]]]]; [discriminate Hv|].
    injection Hv as -> <-.
    assert (Hall : Forall (fun i => exists b p, to_basic f i = Ok b /\ to_python_with orc f b = Ok p /\
                                     validate_with orc f p = Ok i) l).
    { clear Hr Hfix. induction l as [|i l IHl]; constructor.
      - inversion Hi; inversion Hd; subst. now apply IHf.
      - inversion Hi; inversion Hd; subst. now apply IHl. }
    destruct (roundtrip_items _ _ _ l Hall) as [lb [lp (A & B & C)]].
    exists (PList 0%N lb), (PList (fid + 1)%N l). cbn [to_basic to_python_with]. rewrite A. cbn [bind].
    split; [reflexivity|]. rewrite B. cbn [bind]. rewrite C. cbn [bind]. split; [reflexivity|exact Hfix].
  - (* FDictU *) cbn in Hd. destruct Hd as [->|[d ->]].
    + exists PNone, PNone. repeat split. exact Hfix.
    + exists (PDict 0%N d), (PDict 0%N d). repeat split. exact Hfix.
  - (* FDictT *) cbn [rt_dom] in Hd. destruct Hd as [t [d [-> (Hs & Hdk & Hdv)]]].
    unfold normal in Hn. cbn [sat] in Hn. destruct Hn as [[Hv _]|[d0 [Hv [Hi Hr]]]]; [discriminate Hv|].
    injection Hv as -> <-.
    assert (Hall : Forall (fun kv => normal orc f1 (fst kv) /\ key_ok (fst kv) = true /\
                     exists b p, to_basic f2 (snd kv) = Ok b /\ to_python_with orc f2 b = Ok p /\
                                 validate_with orc f2 p = Ok (snd kv)) d).
    { clear Hr Hfix. induction d as [|kv d IHd]; constructor.
      - inversion Hi as [|? ? [Hk Hx] Hi']; inversion Hdv; subst. destruct Hdk as (A & _ & _).
        split; [exact Hk|]. split; [exact A|]. now apply IHf2.
      - inversion Hi; inversion Hdv; subst. destruct Hdk as (_ & _ & C). now apply IHd. }
    destruct (roundtrip_pairs orc f1 _ _ _ d Hs Hall) as (db & dp & A & B & C & D & E).
    assert (Hnk : Forall (fun kv => normal orc f1 (fst kv)) d).
    { clear -Hi. induction Hi as [|kv d [Hk _] Hi IH]; constructor; assumption. }
    assert (Ddb : distinct_keys db) by (eapply distinct_keys_kb; eauto).
    assert (Ddp : distinct_keys dp) by (eapply distinct_keys_fst; [symmetry; exact E|exact Hdk]).
    exists (PDict 0%N db), (PDict (fid + 1)%N d). cbn [to_basic to_python_with]. rewrite A. cbn [bind].
    rewrite (dict_build_distinct db Ddb). cbn [bind]. split; [reflexivity|].
    rewrite B. cbn [bind]. rewrite (dict_build_distinct dp Ddp). cbn [bind]. rewrite C. cbn [bind].
    rewrite (dict_build_distinct d Hdk). cbn [bind]. split; [reflexivity|exact Hfix].
  - contradiction.
Qed.

(* the normalisation property C02 allows: an unset typed list / dict comes back empty *)
Lemma unset_typed_container_roundtrip : forall orc fid req it kf vf,
  to_basic (FListT fid req it) PNone = Ok PNone /\
  to_python_with orc (FListT fid req it) PNone = Ok (PList (fid + 1)%N []) /\
  to_basic (FDictT fid req kf vf) PNone = Ok PNone /\
  to_python_with orc (FDictT fid req kf vf) PNone = Ok (PDict (fid + 1)%N []).
Proof. intros. repeat split. Qed.

(* the hypotheses of basic_roundtrip are satisfiable: a typed dict of base64 bytes, a typed list of hex bytes *)
Example basic_roundtrip_hyp_sat :
  let f := FDictT 0 false (FStr false sopts0) (FListT 1 false (FBytes false BHex)) in
  let v := PDict 1%N [(PStr (sa "k"), PList 2%N [PBytes (hx "00ff")])] in
  normal no_oracle f v /\ rt_dom f v.
Proof.
  cbv zeta. split.
  - unfold normal. cbn [sat]. right. eexists. split; [reflexivity|]. split; [|discriminate].
    constructor; [|constructor]. cbn [fst snd]. split.
    + right. exists (sa "k"). split; [reflexivity|]. split.
      * repeat split; cbn; intros; try discriminate; try congruence.
      * intros _. repeat split; auto.
    + right. eexists. split; [reflexivity|]. split; [|discriminate]. constructor; [|constructor].
      right. eexists. split; reflexivity.
  - cbn [rt_dom]. eexists _, _. split; [reflexivity|]. split; [reflexivity|]. split.
    + cbn. repeat split. constructor.
    + constructor; [|constructor]. cbn [snd]. eexists _, _. split; [reflexivity|]. constructor; [exact I|constructor].
Qed.
