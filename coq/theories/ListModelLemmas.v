(* ListModelLemmas.v — proofs about ListProxy against the builtin list (property C17, and the
   container half of C01: every held item is an output of the item validator). *)
From Coq Require Import ZArith NArith String List Bool Lia.
From Cinco Require Import Base ListModel.
Import ListNotations.
Open Scope Z_scope.

(* ---------- the override table ---------- *)
Lemma list_table_ok : table_ok list_table = true.
Proof. vm_compute. reflexivity. Qed.

(* every operation of the alphabet that inserts caller-supplied items (or must return a typed list)
   is dispatched to the Python override *)
Definition lop_must_override (op : lop) : bool :=
  match op with
  | LAppend _ | LInsert _ _ | LExtend _ | LIAdd _ | LAdd _ | LSetItem _ _ | LSetSlice _ _ | LCopy | LNew _ | LAssign _ => true
  | _ => false
  end.

Lemma must_override_dispatched op :
  lop_must_override op = true -> list_overridden (lop_entry op) = true.
Proof. destruct op; simpl; intros H; try discriminate; vm_compute; reflexivity. Qed.

Ltac dispatch :=
  unfold proxy_step; cbn [lop_entry];
  repeat match goal with
         | |- context [list_overridden (if ?b then _ else _)] => is_var b; destruct b
         end;
  repeat match goal with
         | |- context [list_overridden ?e] =>
             let b := eval vm_compute in (list_overridden e) in
             change (list_overridden e) with b
         end;
  cbv iota.

(* ---------- validation of a run of items ---------- *)
Section Lemmas.
  Variable V : pyval -> res pyval.
  Variable tg : N.

  Lemma vmap_all_ok l :
    forallb (okb V) l = true -> vmap V l = (map (norm1 V) l, Ok tt).
  Proof.
    induction l as [|x r IH]; simpl; intros H; [reflexivity|].
    apply andb_prop in H. destruct H as [Hx Hr].
    unfold okb, norm1 in *. destruct (V x); try discriminate.
    rewrite (IH Hr). reflexivity.
  Qed.

  Lemma okb_norm1 x : okb V x = true -> V x = Ok (norm1 V x).
  Proof. unfold okb, norm1. destruct (V x); intros; try discriminate; reflexivity. Qed.

  (* ---------- refinement: one step ---------- *)
  Lemma list_refines s op :
    accepted V s op = true -> proxy_step V tg s op = spec_step V tg s op.
  Proof.
    intros Hacc. unfold spec_step.
    destruct op; dispatch; cbn [override_step norm_op accepted typed_result retag] in *;
      try (destruct (b_step s _); reflexivity).
    - (* append *) rewrite (okb_norm1 _ Hacc). destruct (b_step s _); reflexivity.
    - (* insert *) rewrite (okb_norm1 _ Hacc). destruct (b_step s _); reflexivity.
    - (* extend *)
      unfold p_extend, p_extend_slow, norm_it, norm_it_slow.
      destruct (it_same it) eqn:Hs; cbn [b_step it_items lift retag typed_result]; [reflexivity|].
      simpl in Hacc. rewrite (vmap_all_ok _ Hacc). reflexivity.
    - (* iadd *)
      unfold p_extend, p_extend_slow, norm_it, norm_it_slow.
      destruct (it_same it) eqn:Hs; cbn [b_step it_items lift]; [reflexivity|].
      simpl in Hacc. rewrite (vmap_all_ok _ Hacc). reflexivity.
    - (* add *)
      unfold p_init, p_extend, p_extend_slow, norm_it, norm_it_slow.
      destruct (it_same it) eqn:Hs; cbn [b_step it_items lift]; [reflexivity|].
      simpl in Hacc. rewrite (vmap_all_ok _ Hacc). reflexivity.
    - (* setitem *) rewrite (okb_norm1 _ Hacc). destruct (b_step s _); reflexivity.
    - (* setslice *)
      unfold norm_it_slow. rewrite (vmap_all_ok _ Hacc).
      cbn [b_step it_items]. destruct (b_setslice s sl _); reflexivity.
    - (* copy *) reflexivity.
    - (* new *)
      unfold p_init, norm_it, norm_it_slow.
      destruct (it_same it) eqn:Hs; cbn [b_step it_items]; [reflexivity|].
      simpl in Hacc. rewrite (vmap_all_ok _ Hacc). reflexivity.
    - (* whole-value assignment *)
      apply andb_prop in Hacc. destruct Hacc as [Hl Hacc]. rewrite Hl.
      unfold p_init, norm_it, norm_it_slow.
      destruct (it_same it) eqn:Hs; cbn [b_step it_items]; [reflexivity|].
      simpl in Hacc. rewrite (vmap_all_ok _ Hacc). reflexivity.
  Qed.

  (* ---------- refinement: histories ---------- *)
  Lemma run_acc_ext (acc : list (res pyval)) s ops :
    accepted_run V tg s ops = true ->
    fold_left (run_acc (proxy_step V tg)) ops (s, acc) = fold_left (run_acc (spec_step V tg)) ops (s, acc).
  Proof.
    revert s acc. induction ops as [|op r IH]; intros s acc H; [reflexivity|].
    simpl in H. apply andb_prop in H. destruct H as [Ha Hr].
    simpl. unfold run_acc at 2 4. cbn [fst snd].
    rewrite <- (list_refines s op Ha).
    destruct (proxy_step V tg s op) as [s' o] eqn:E. cbn [fst] in Hr.
    apply IH. exact Hr.
  Qed.

  Lemma run_refines s ops :
    accepted_run V tg s ops = true ->
    run (proxy_step V tg) s ops = run (spec_step V tg) s ops.
  Proof. unfold run. apply run_acc_ext. Qed.

  (* ---------- rejected operations ---------- *)
  Lemma rejected_single_unchanged s op :
    match op with LAppend _ | LInsert _ _ | LSetItem _ _ => True | _ => False end ->
    accepted V s op = false -> fst (proxy_step V tg s op) = s.
  Proof.
    destruct op; try contradiction; intros _ H; dispatch; cbn [override_step accepted] in *;
      unfold okb in H; destruct (V x); try discriminate; reflexivity.
  Qed.

  Lemma rejected_slice_unchanged s sl it :
    accepted V s (LSetSlice sl it) = false -> fst (proxy_step V tg s (LSetSlice sl it)) = s.
  Proof.
    intros H. dispatch. cbn [override_step accepted] in *.
    assert (G : forall l, forallb (okb V) l = false -> snd (vmap V l) <> Ok tt).
    { induction l as [|x r IH]; simpl; [discriminate|].
      unfold okb at 1. destruct (V x) eqn:E; simpl; intros Hf; try discriminate.
      destruct (vmap V r) as [p o]. simpl in *. apply IH. exact Hf. }
    specialize (G _ H). destruct (vmap V (it_items s it)) as [p [[]|e|]]; simpl in *; try reflexivity.
    contradiction G; reflexivity.
  Qed.

  Lemma add_never_mutates s it : fst (proxy_step V tg s (LAdd it)) = s.
  Proof.
    dispatch. cbn [override_step]. unfold p_init.
    destruct (p_extend V s it); reflexivity.
  Qed.

  (* ---------- the invariant: every held item is a fixed point of the validator ---------- *)
  Definition valid (x : pyval) : Prop := V x = Ok x.
  Definition idem : Prop := forall x y, V x = Ok y -> V y = Ok y.

  Lemma vmap_valid l : idem -> Forall valid (fst (vmap V l)).
  Proof.
    intros Hi. induction l as [|x r IH]; simpl; [constructor|].
    destruct (V x) eqn:E; simpl; try constructor.
    destruct (vmap V r) as [p o]. simpl in *. constructor; [exact (Hi _ _ E)|exact IH].
  Qed.

  (* fast path = slow path on items that are already valid *)
  Lemma vmap_fixed l : Forall valid l -> vmap V l = (l, Ok tt).
  Proof.
    induction 1 as [|x r Hx _ IH]; simpl; [reflexivity|].
    rewrite Hx, IH. reflexivity.
  Qed.

  Lemma fast_path_extend s it :
    Forall valid (it_items s it) -> p_extend_slow V s it = (s ++ it_items s it, Ok tt).
  Proof. intros H. unfold p_extend_slow. rewrite (vmap_fixed _ H). reflexivity. Qed.

  Lemma fast_path_init s : Forall valid s -> p_init V false s = p_init V true s.
  Proof. intros H. unfold p_init. rewrite (vmap_fixed _ H). reflexivity. Qed.
End Lemmas.

(* ---------- plumbing: predicates preserved by the builtin's list surgery ---------- *)
Section Pres.
  Context {A : Type} (P : A -> Prop).

  Lemma Forall_firstn n (l : list A) : Forall P l -> Forall P (firstn n l).
  Proof. revert n; induction l; intros [|n] H; simpl; auto. inversion H; subst. constructor; auto. Qed.
  Lemma Forall_skipn n (l : list A) : Forall P l -> Forall P (skipn n l).
  Proof. revert n; induction l; intros [|n] H; simpl; auto. inversion H; subst. auto. Qed.
  Lemma Forall_set_nth i x (l : list A) : Forall P l -> P x -> Forall P (set_nth i x l).
  Proof.
    revert i; induction l as [|y r IH]; intros i Hl Hx; destruct i; simpl; auto;
      inversion Hl; subst; constructor; auto.
  Qed.
  Lemma Forall_remove_nth i (l : list A) : Forall P l -> Forall P (remove_nth i l).
  Proof.
    revert i; induction l as [|y r IH]; intros i Hl; destruct i; simpl; auto;
      inversion Hl; subst; auto.
  Qed.
  Lemma Forall_assign_all ps items (l : list A) :
    Forall P l -> Forall P items -> Forall P (assign_all ps items l).
  Proof.
    revert items l. induction ps as [|p ps IH]; intros items l Hl Hi; simpl; auto.
    destruct items as [|x xs]; auto. inversion Hi; subst.
    apply IH; auto. apply Forall_set_nth; auto.
  Qed.
  Lemma Forall_remove_positions ps i (l : list A) : Forall P l -> Forall P (remove_positions ps i l).
  Proof.
    revert i. induction l as [|x r IH]; intros i H; simpl; auto.
    inversion H; subst. destruct (existsb (Nat.eqb i) ps); auto.
  Qed.
  Lemma Forall_nth_error (l : list A) i x : Forall P l -> nth_error l i = Some x -> P x.
  Proof. intros H E. rewrite Forall_forall in H. apply H. eapply nth_error_In; eauto. Qed.
  Lemma Forall_repeat_list n (l : list A) : Forall P l -> Forall P (repeat_list n l).
  Proof.
    intros H. unfold repeat_list. destruct (n <=? 0); [constructor|].
    induction (Z.to_nat n); simpl; [constructor|]. apply Forall_app; split; auto.
  Qed.
End Pres.

Lemma Forall_remove_first (P : pyval -> Prop) x l l' :
  Forall P l -> remove_first x l = Some l' -> Forall P l'.
Proof.
  revert l'. induction l as [|y r IH]; intros l' H E; simpl in E; [discriminate|].
  inversion H; subst. destruct (py_eq y x).
  - inversion E; subst; auto.
  - destruct (remove_first x r) eqn:E2; [|discriminate]. inversion E; subst. constructor; auto.
Qed.

Lemma Forall_ins_sorted (P : pyval -> Prop) x l : P x -> Forall P l -> Forall P (ins_sorted x l).
Proof.
  intros Hx. induction l as [|y r IH]; intros H; simpl; [constructor; auto|].
  inversion H; subst. destruct (py_lt x y); constructor; auto.
Qed.

Lemma Forall_stable_sort (P : pyval -> Prop) l : Forall P l -> Forall P (stable_sort l).
Proof.
  unfold stable_sort. intros H.
  assert (G : forall acc, Forall P acc -> Forall P (fold_left (fun acc x => ins_sorted x acc) l acc)).
  { induction H as [|x r Hx _ IH]; intros acc Ha; simpl; auto.
    apply IH. apply Forall_ins_sorted; auto. }
  apply G. constructor.
Qed.

Definition inserted (s : list pyval) (op : lop) : list pyval :=
  match op with
  | LAppend x | LInsert _ x | LSetItem _ x => [x]
  | LExtend it | LIAdd it | LSetSlice _ it | LAssign it => it_items s it
  | _ => []
  end.

(* the builtin list holds nothing but what it held and what it was given *)
Lemma b_step_Forall (P : pyval -> Prop) s op :
  Forall P s -> Forall P (inserted s op) -> Forall P (fst (b_step s op)).
Proof.
  intros Hs Hi. destruct op; cbn [b_step inserted fst] in *; auto.
  - apply Forall_app; split; auto.
  - unfold insert_at. apply Forall_app; split; [apply Forall_firstn; auto|].
    inversion Hi; subst. constructor; auto. apply Forall_skipn; auto.
  - apply Forall_app; split; auto.
  - apply Forall_app; split; auto.
  - destruct (norm_index _ _); cbn [fst]; auto. inversion Hi; subst. apply Forall_set_nth; auto.
  - unfold b_setslice. destruct (slice_indices _ _) as [[[[a b] c] d]|]; cbn [fst]; auto.
    destruct (c =? 1); cbn [fst].
    + apply Forall_app; split; [apply Forall_firstn; auto|].
      apply Forall_app; split; auto. apply Forall_skipn; auto.
    + destruct (_ =? d); cbn [fst]; auto. apply Forall_assign_all; auto.
  - destruct (norm_index _ _); cbn [fst]; auto. apply Forall_remove_nth; auto.
  - unfold b_delslice. destruct (slice_indices _ _) as [[[[a b] c] d]|]; cbn [fst]; auto.
    apply Forall_remove_positions; auto.
  - destruct (norm_index _ _); cbn [fst]; auto. destruct (nth_error s n); auto.
  - destruct (norm_index _ _); cbn [fst]; auto. destruct (nth_error s n); cbn [fst]; auto.
    apply Forall_remove_nth; auto.
  - destruct (remove_first x s) eqn:E; cbn [fst]; auto. exact (Forall_remove_first P x s l Hs E).
  - destruct (find_from _ _ _ _ _); auto.
  - apply Forall_rev; auto.
  - unfold b_sort. destruct (length s <=? 1)%nat; cbn [fst]; auto.
    destruct (all_int s || all_str s); cbn [fst]; auto.
    destruct reverse; [apply Forall_rev|]; apply Forall_stable_sort; auto. apply Forall_rev; auto.
  - apply Forall_repeat_list; auto.
  - destruct it; auto.
Qed.

Section Invariant.
  Variable V : pyval -> res pyval.
  Variable tg : N.
  Hypothesis V_idem : idem V.

  (* the operation's own arguments are what they claim to be: a "proxy of the same field" holds
     valid items *)
  Definition it_wf (it : iterable) : Prop :=
    match it with ItProxySame l => Forall (valid V) l | _ => True end.
  Definition op_wf (op : lop) : Prop :=
    match op with
    | LExtend it | LIAdd it | LAdd it | LSetSlice _ it | LNew it | LAssign it => it_wf it
    | _ => True
    end.

  Lemma p_extend_valid s it :
    Forall (valid V) s -> it_wf it -> Forall (valid V) (fst (p_extend V s it)).
  Proof.
    intros Hs Hw. unfold p_extend, p_extend_slow.
    destruct (it_same it) eqn:E; cbn [fst].
    - apply Forall_app; split; auto. destruct it; try discriminate; simpl in *; auto.
    - pose proof (vmap_valid V (it_items s it) V_idem) as G.
      destruct (vmap V (it_items s it)) as [p o]. cbn [fst] in *. apply Forall_app; split; auto.
  Qed.

  Lemma proxy_step_valid s op :
    Forall (valid V) s -> op_wf op -> Forall (valid V) (fst (proxy_step V tg s op)).
  Proof.
    intros Hs Hw.
    destruct op; dispatch; cbn [override_step];
      try (apply b_step_Forall; [exact Hs|constructor]).
    - destruct (V x) eqn:E; cbn [fst]; auto.
      apply b_step_Forall; auto. constructor; [exact (V_idem _ _ E)|constructor].
    - destruct (V x) eqn:E; cbn [fst]; auto.
      apply b_step_Forall; auto. constructor; [exact (V_idem _ _ E)|constructor].
    - pose proof (p_extend_valid s it Hs Hw) as G. destruct (p_extend V s it); exact G.
    - pose proof (p_extend_valid s it Hs Hw) as G. destruct (p_extend V s it); exact G.
    - unfold p_init. destruct (p_extend V s it); exact Hs.
    - destruct (V x) eqn:E; cbn [fst]; auto.
      apply b_step_Forall; auto. constructor; [exact (V_idem _ _ E)|constructor].
    - pose proof (vmap_valid V (it_items s it) V_idem) as G.
      destruct (vmap V (it_items s it)) as [p [[]|e|]]; cbn [fst] in *; auto.
      apply b_step_Forall; auto.
    - unfold p_init. exact Hs.
    - destruct (p_init V (it_same it) (it_items s it)); exact Hs.
    - destruct (it_listlike it); [|exact Hs]. unfold p_init. destruct (it_same it) eqn:Sm; cbn [fst].
      + destruct it; try discriminate; simpl in *; auto.
      + pose proof (vmap_valid V (it_items s it) V_idem) as G.
        destruct (vmap V (it_items s it)) as [p [[]|e|]]; cbn [fst] in *; auto.
  Qed.

  Lemma run_valid_acc ops : forall s acc,
    Forall (valid V) s -> Forall op_wf ops ->
    Forall (valid V) (fst (fold_left (run_acc (proxy_step V tg)) ops (s, acc))).
  Proof.
    induction ops as [|op r IH]; intros s acc Hs Hw; simpl; auto.
    inversion Hw; subst. unfold run_acc at 2. cbn [fst snd].
    pose proof (proxy_step_valid s op Hs H1) as G.
    destruct (proxy_step V tg s op) as [s' o]. apply IH; auto.
  Qed.

  Lemma run_valid s ops :
    Forall (valid V) s -> Forall op_wf ops -> Forall (valid V) (fst (run (proxy_step V tg) s ops)).
  Proof. unfold run. apply run_valid_acc. Qed.

  (* a freshly built proxy (assignment to the field, load) satisfies the invariant *)
  Lemma init_valid items s : p_init V false items = Ok s -> Forall (valid V) s.
  Proof.
    unfold p_init. pose proof (vmap_valid V items V_idem) as G.
    destruct (vmap V items) as [p [[]|e|]]; intros E; inversion E; subst. exact G.
  Qed.

  (* copies and concatenations are typed and hold valid items only; += hands back the list itself *)
  Lemma typed_results s op s' r :
    Forall (valid V) s -> op_wf op ->
    proxy_step V tg s op = (s', Ok r) ->
    match op with
    | LCopy | LAdd _ | LNew _ => exists l, r = PList tg l /\ Forall (valid V) l
    | LIAdd _ => r = self_marker /\ Forall (valid V) s'
    | _ => True
    end.
  Proof.
    intros Hs Hw E. destruct op; auto; revert E; dispatch; cbn [override_step]; intros E.
    - pose proof (p_extend_valid s it Hs Hw) as G.
      destruct (p_extend V s it) as [s1 [[]|e|]]; inversion E; subst. split; auto.
    - unfold p_init in E. pose proof (p_extend_valid s it Hs Hw) as G.
      destruct (p_extend V s it) as [s1 [[]|e|]]; inversion E; subst. eauto.
    - unfold p_init in E. inversion E; subst. eauto.
    - unfold p_init in E. destruct (it_same it) eqn:Sm.
      + inversion E; subst. eexists; split; [reflexivity|].
        destruct it; try discriminate; simpl in *; auto.
      + pose proof (vmap_valid V (it_items s it) V_idem) as G.
        destruct (vmap V (it_items s it)) as [p [[]|e|]]; inversion E; subst. eauto.
  Qed.
End Invariant.

(* ---------- the hypotheses are satisfiable ---------- *)
Definition ex_V (x : pyval) : res pyval :=           (* a toy validator: ints >= 0, None normalised to 0 *)
  match x with
  | PInt z => if 0 <=? z then Ok (PInt z) else Err EValue
  | PNone => Ok (PInt 0)
  | _ => Err EValue
  end.

Example ex_V_idem : idem ex_V.
Proof.
  intros x y. destruct x; simpl; try discriminate.
  - intros H; inversion H; subst. reflexivity.
  - destruct (0 <=? z) eqn:E; intros H; inversion H; subst. simpl. rewrite E. reflexivity.
Qed.

Example ex_accepted_run :
  accepted_run ex_V 1 [PInt 1] [LAppend (PNone); LSetSlice (Some 0, None, Some 2) (ItIter [PInt 3; PInt 4]); LCopy] = true.
Proof. vm_compute. reflexivity. Qed.

Example ex_run :
  run (proxy_step ex_V 1) [PInt 1] [LAppend (PNone); LInsert (-9) (PInt (-1)); LAdd (ItTuple [PInt 2])] =
  ([PInt 1; PInt 0], [Ok PNone; Err EValue; Ok (PList 1 [PInt 1; PInt 0; PInt 2])]).
Proof. vm_compute. reflexivity. Qed.

Example ex_op_wf : Forall (op_wf ex_V) [LExtend (ItProxySame [PInt 3]); LAppend (PInt (-4))].
Proof. repeat constructor. Qed.

Example ex_init : p_init ex_V false [PNone; PInt 3] = Ok [PInt 0; PInt 3].
Proof. reflexivity. Qed.

Example ex_typed : proxy_step ex_V 1 [PInt 0] (LNew (ItIter [PNone; PInt 3])) = ([PInt 0], Ok (PList 1 [PInt 0; PInt 3])).
Proof. vm_compute. reflexivity. Qed.
