(* ConfigFieldsLemmas.v — the leaf hypotheses of the configuration theorems (ConfigWF.v: C01, ConfigLemmas.v: C15,
   RoundtripLemmas.v: C02) discharged for the full field model of Fields.v (instance ConfigFields.v). *)
From Coq Require Import ZArith NArith String List Bool Lia SpecFloat.
From Cinco Require Import Base Str Num Net Codec NetLemmas CodecLemmas StrLemmas Fields FieldsLemmas
                          Config ConfigInst ConfigLemmas ConfigWF ConfigFields.
Import ListNotations.
Open Scope N_scope.

(* ---------------------------------------------------------------------------------------------- *)
(* boolean equality of values decides equality                                                     *)
(* ---------------------------------------------------------------------------------------------- *)
Lemma sf_eqb_eq : forall a b, sf_eqb a b = true -> a = b.
Proof.
  intros [s| s| |s m e] [t| t| |t n f]; cbn; try discriminate; intro H; try reflexivity.
  - apply Bool.eqb_prop in H. now subst.
  - apply Bool.eqb_prop in H. now subst.
  - apply andb_true_iff in H as [H H3]. apply andb_true_iff in H as [H1 H2].
    apply Bool.eqb_prop in H1. apply Pos.eqb_eq in H2. apply Z.eqb_eq in H3. now subst.
Qed.

Lemma bytes_eqb_true : forall a b : list N, list_eqb N.eqb a b = true -> a = b.
Proof. intros a b H. now apply str_eqb_eq. Qed.

Fixpoint pyval_eqb_eq (a : pyval) : forall b, pyval_eqb a b = true -> a = b.
Proof.
  destruct a; intros [] H; cbn in H; try discriminate; try reflexivity.
  - apply Bool.eqb_prop in H. now subst.
  - apply Z.eqb_eq in H. now subst.
  - apply sf_eqb_eq in H. now subst.
  - apply bytes_eqb_true in H. now subst.
  - apply bytes_eqb_true in H. now subst.
  - apply andb_true_iff in H as [H1 H2]. apply N.eqb_eq in H1. subst. f_equal.
    revert l0 H2. induction l as [|x l IH]; intros [|y l0] H2; try discriminate; [reflexivity|].
    apply andb_true_iff in H2 as [A B]. f_equal; [now apply pyval_eqb_eq|now apply IH].
  - f_equal. revert l0 H. induction l as [|x l IH]; intros [|y l0] H2; try discriminate; [reflexivity|].
    apply andb_true_iff in H2 as [A B]. f_equal; [now apply pyval_eqb_eq|now apply IH].
  - apply andb_true_iff in H as [H1 H2]. apply N.eqb_eq in H1. subst. f_equal.
    revert d0 H2. induction d as [|[k v] d IH]; intros [|[k' v'] d0] H2; try discriminate; [reflexivity|].
    apply andb_true_iff in H2 as [A B]. apply andb_true_iff in A as [A1 A2].
    f_equal; [f_equal; now apply pyval_eqb_eq|now apply IH].
  - apply andb_true_iff in H as [H H3]. apply andb_true_iff in H as [H1 H2].
    apply bytes_eqb_true in H1, H2. apply N.eqb_eq in H3. now subst.
  - apply N.eqb_eq in H. now subst.
Qed.

(* ---------------------------------------------------------------------------------------------- *)
(* C01: an accepted value meets the field's declared constraints, for EVERY input                   *)
(* ---------------------------------------------------------------------------------------------- *)
Section S.
  Variable orc : oracle.

  Lemma goodb_meets : forall f x, goodb orc f x = true -> meets orc f x.
  Proof.
    induction f; intros x H;
      try (cbn [goodb] in H; apply andb_true_iff in H as [Hp Hf]; unfold fix_point in Hf;
           match type of Hf with context [validate_with orc ?g x] => destruct (validate_with orc g x) as [v| |] eqn:E end;
           try discriminate; apply pyval_eqb_eq in Hf; subst v; eapply validate_sound; eassumption).
    - (* FListT *)
      destruct x; try (cbn [goodb] in H; apply andb_true_iff in H as [Hp Hf]; unfold fix_point in Hf;
           match type of Hf with context [validate_with orc ?g ?y] => destruct (validate_with orc g y) as [v| |] eqn:E end;
           try discriminate; apply pyval_eqb_eq in Hf; subst v; eapply validate_sound; eassumption).
      cbn [goodb] in H. apply andb_true_iff in H as [H H3]. apply andb_true_iff in H as [H1 H2].
      apply N.eqb_eq in H1. subst tg. unfold meets. cbn [sat]. right. exists l. split; [reflexivity|]. split.
      + rewrite forallb_forall in H3. apply Forall_forall. intros i Hi. apply IHf. now apply H3.
      + apply negb_true_iff in H2. now apply req_nonnil.
    - (* FDictT *)
      destruct x; try (cbn [goodb] in H; apply andb_true_iff in H as [Hp Hf]; unfold fix_point in Hf;
           match type of Hf with context [validate_with orc ?g ?y] => destruct (validate_with orc g y) as [v| |] eqn:E end;
           try discriminate; apply pyval_eqb_eq in Hf; subst v; eapply validate_sound; eassumption).
      cbn [goodb] in H. apply andb_true_iff in H as [H H3]. apply andb_true_iff in H as [H1 H2].
      apply N.eqb_eq in H1. subst tg. unfold meets. cbn [sat]. right. exists d. split; [reflexivity|]. split.
      + rewrite forallb_forall in H3. apply Forall_forall. intros kv Hi. specialize (H3 kv Hi).
        apply andb_true_iff in H3 as [A B]. split; [now apply IHf1|now apply IHf2].
      + apply negb_true_iff in H2. now apply req_nonnil.
  Qed.

  (* on a good value validate is the identity (the proxy copy path / a fixed point) *)
  Lemma goodb_fixed : forall f x v, goodb orc f x = true -> validate_with orc f x = Ok v -> v = x.
  Proof.
    intros f x v H E.
    assert (D : plain x && fix_point orc f x = true -> v = x).
    { intro Hd. apply andb_true_iff in Hd as [_ Hf]. unfold fix_point in Hf. rewrite E in Hf. now apply pyval_eqb_eq in Hf. }
    destruct f; try (exact (D H)); destruct x; try (exact (D H)); cbn [goodb] in H.
    - apply andb_true_iff in H as [H H3]. apply andb_true_iff in H as [H1 H2]. apply N.eqb_eq in H1. subst tg.
      apply negb_true_iff in H2. cbn in E. rewrite H2, N.eqb_refl in E. now injection E.
    - apply andb_true_iff in H as [H H3]. apply andb_true_iff in H as [H1 H2]. apply N.eqb_eq in H1. subst tg.
      apply negb_true_iff in H2. cbn in E. rewrite H2, N.eqb_refl in E. now injection E.
  Qed.

  (* a value accepted at the top passed validate's required/empty test: it is good as a whole *)
  Lemma goodb_top_good : forall f x v, goodb_top orc f x = true -> validate_with orc f x = Ok v -> goodb orc f x = true.
  Proof.
    intros f x v H E. destruct f; try exact H; destruct x; try exact H; cbn [goodb_top] in H; cbn [goodb].
    - apply andb_true_iff in H as [H1 H3]. rewrite H1, H3. cbn in E.
      destruct (req && Net.is_nil l); [discriminate|reflexivity].
    - apply andb_true_iff in H as [H1 H3]. rewrite H1, H3. cbn in E.
      destruct (req && Net.is_nil d); [discriminate|reflexivity].
  Qed.

  Theorem cf_validate_sound : forall f x v, cf_validate orc f x = Ok v -> meets orc (fl_fld f) v.
  Proof.
    intros f x v H. unfold cf_validate, input_ok in H.
    destruct (plain x) eqn:P; cbn [orb] in H.
    - eapply validate_sound; eassumption.
    - destruct (goodb_top orc (fl_fld f) x) eqn:G0; [|discriminate].
      pose proof (goodb_top_good _ _ _ G0 H) as G.
      rewrite (goodb_fixed _ _ _ G H). now apply goodb_meets.
  Qed.

  (* the guard is transparent on plain data: arguments of assignments, constructor keywords, documents *)
  Lemma cf_validate_plain_input : forall f x, plain x = true -> cf_validate orc f x = validate_with orc (fl_fld f) x.
  Proof. intros f x P. unfold cf_validate, input_ok. now rewrite P. Qed.

  Definition cf_meets (f : fleaf) (v : pyval) : Prop := meets orc (fl_fld f) v.

  Theorem cf_reachable_wf : forall vt ops w dyn vs fs,
    (forall f n, cf_meets f (cf_default orc f n)) -> ok_fields fleaf fs ->
    wf_cfg fleaf cf_meets fs
      (run fleaf (cf_validate orc) (cf_to_python orc) (cf_default orc) fl_callable fl_flag (vrun vt) ops
           (fst (build_cfg fleaf (cf_default orc) fl_callable w fs))
           (snd (build_cfg fleaf (cf_default orc) fl_callable w fs)) dyn vs fs).
  Proof. intros. apply reachable_wf; [exact cf_validate_sound|assumption|assumption]. Qed.

  Theorem cf_step_wf : forall vt ps o w pre c dyn vs fs w' c' oc1,
    (forall f n, cf_meets f (cf_default orc f n)) -> ok_fields fleaf fs -> wf_cfg fleaf cf_meets fs c ->
    at_path fleaf (cf_validate orc) (cf_to_python orc) (cf_default orc) fl_callable fl_flag (vrun vt) ps w pre c dyn vs fs o
      = (w', c', oc1) -> wf_cfg fleaf cf_meets fs c'.
  Proof. intros vt ps o w pre c dyn vs fs w' c' oc1 Hd. apply step_wf; [exact cf_validate_sound|exact Hd]. Qed.
End S.

(* ---------------------------------------------------------------------------------------------- *)
(* C15: the field model raises plain exceptions (never the library's ValidationError itself)        *)
(* ---------------------------------------------------------------------------------------------- *)
Definition plain_err {A : Type} (r : res A) : Prop := forall q, r <> Err (EValidation q).

Lemma plain_err_bind : forall (A B : Type) (r : res A) (k : A -> res B),
  plain_err r -> (forall a, plain_err (k a)) -> plain_err (bind r k).
Proof. intros A B r k Hr Hk q. destruct r; cbn; [apply Hk| |discriminate]. intro H. injection H as ->. exact (Hr q eq_refl). Qed.

Lemma plain_err_map_res : forall (A B : Type) (f : A -> res B) l, (forall a, plain_err (f a)) -> plain_err (map_res f l).
Proof.
  intros A B f l H. induction l as [|a l IH]; cbn; [discriminate|].
  apply plain_err_bind; [apply H|]. intro b. apply plain_err_bind; [exact IH|]. discriminate.
Qed.

Lemma plain_err_dict_build : forall l acc, plain_err (dict_build_acc acc l).
Proof. induction l as [|[k v] l IH]; intros acc q; cbn; [discriminate|]. destruct (key_ok k); [apply IH|discriminate]. Qed.

Ltac pe_crush :=
  repeat first [ discriminate
               | progress cbn [bind]
               | match goal with
                 | |- context [if ?b then _ else _] => destruct b
                 | |- context [match ?e with _ => _ end] => destruct e
                 end ].

Lemma plain_err_str_validate : forall orc req o x, plain_err (str_validate orc req o x).
Proof. intros orc req o x q. unfold str_validate. destruct x; try discriminate. cbn [bind]. pe_crush. Qed.

Lemma plain_err_int : forall mn mx x, plain_err (int_validate mn mx x).
Proof. intros mn mx x q. unfold int_validate, int_convert. destruct x; cbn [bind]; pe_crush. Qed.
Lemma plain_err_float : forall mn mx x, plain_err (float_validate mn mx x).
Proof. intros mn mx x q. unfold float_validate, float_convert. destruct x; cbn [bind]; pe_crush. Qed.
Lemma plain_err_bool : forall x, plain_err (bool_validate x).
Proof. intros x q. unfold bool_validate. destruct x; pe_crush. Qed.
Lemma plain_err_bytes : forall x, plain_err (bytes_validate x).
Proof. intros x q. unfold bytes_validate. destruct x; pe_crush. Qed.

Lemma plain_err_ipv4 : forall orc r o x, plain_err (ipv4_validate orc r o x).
Proof.
  intros. unfold ipv4_validate. apply plain_err_bind; [apply plain_err_str_validate|]. intros s q. pe_crush.
Qed.
Lemma plain_err_net : forall orc r o a b x, plain_err (net_validate orc r o a b x).
Proof.
  intros. unfold net_validate. apply plain_err_bind; [apply plain_err_str_validate|]. intro s.
  apply plain_err_bind.
  - intro q. unfold parse_net. pe_crush.
  - intros [p1 p2] q.
    destruct (match a with Some m => _ | None => false end); [discriminate|].
    destruct (match b with Some m => _ | None => false end); [discriminate|]. cbv zeta.
    revert q. apply plain_err_bind; [apply plain_err_str_validate|]. intros s' q. pe_crush.
Qed.
Lemma plain_err_host : forall orc r o a b x, plain_err (host_validate orc r o a b x).
Proof.
  intros. unfold host_validate. apply plain_err_bind; [apply plain_err_str_validate|]. intros s q. pe_crush.
Qed.

Theorem validate_plain_err : forall orc f x, plain_err (validate_with orc f x).
Proof.
  intros orc f. induction f; intros x q; destruct (pyval_none_dec x) as [->|Hx];
    try (rewrite validate_none; destruct (field_req _); discriminate).
  - rewrite v_any by exact Hx. discriminate.
  - rewrite v_str by exact Hx. revert q. apply plain_err_bind; [apply plain_err_str_validate|]. discriminate.
  - rewrite v_int by exact Hx. apply plain_err_int.
  - rewrite v_float by exact Hx. apply plain_err_float.
  - rewrite v_bool by exact Hx. apply plain_err_bool.
  - rewrite v_ipv4 by exact Hx. apply plain_err_ipv4.
  - rewrite v_net by exact Hx. apply plain_err_net.
  - rewrite v_host by exact Hx. apply plain_err_host.
  - rewrite v_bytes by exact Hx. apply plain_err_bytes.
  - destruct x; cbn; pe_crush.
  - destruct x; cbn [validate_with]; try discriminate; try congruence.
    + destruct (req && Net.is_nil l); [discriminate|]. destruct (tg =? fid + 1); [discriminate|].
      destruct (negb (tg =? 0)); [discriminate|]. revert q. apply plain_err_bind; [now apply plain_err_map_res|]. discriminate.
    + destruct (req && Net.is_nil l); [discriminate|]. destruct (0 =? fid + 1); [discriminate|].
      destruct (negb (0 =? 0)); [discriminate|]. revert q. apply plain_err_bind; [now apply plain_err_map_res|]. discriminate.
  - destruct x; cbn; pe_crush.
  - destruct x; cbn [validate_with]; try discriminate; try congruence.
    destruct (req && Net.is_nil d); [discriminate|]. destruct (tg =? fid + 1); [discriminate|].
    destruct (negb (tg =? 0)); [discriminate|]. revert q. apply plain_err_bind.
    + apply plain_err_map_res. intros [k v]. unfold on_pair. apply plain_err_bind; [apply IHf1|]. intro k'.
      apply plain_err_bind; [apply IHf2|]. discriminate.
    + intro d'. apply plain_err_bind; [apply plain_err_dict_build|]. discriminate.
  - destruct x; [congruence|discriminate..].
Qed.

Theorem to_python_plain_err : forall orc f x, plain_err (to_python_with orc f x).
Proof.
  intros orc f. induction f; intros x q; try (cbn; discriminate).
  - cbn. unfold bytes_to_python, b64_decode_py. destruct x; cbn [bind]; pe_crush.
  - destruct x; cbn [to_python_with]; try discriminate.
    + revert q. apply plain_err_bind; [now apply plain_err_map_res|]. intro l1.
      apply plain_err_bind; [apply plain_err_map_res; intro; apply validate_plain_err|]. discriminate.
    + revert q. apply plain_err_bind; [now apply plain_err_map_res|]. intro l1.
      apply plain_err_bind; [apply plain_err_map_res; intro; apply validate_plain_err|]. discriminate.
  - destruct x; cbn [to_python_with]; try discriminate. revert q.
    apply plain_err_bind.
    { apply plain_err_map_res. intros [k v]. unfold on_pair. apply plain_err_bind; [apply IHf1|]. intro k'.
      apply plain_err_bind; [apply IHf2|]. discriminate. }
    intro d1. apply plain_err_bind; [apply plain_err_dict_build|]. intro d2. apply plain_err_bind.
    { apply plain_err_map_res. intros [k v]. unfold on_pair. apply plain_err_bind; [apply validate_plain_err|]. intro k'.
      apply plain_err_bind; [apply validate_plain_err|]. discriminate. }
    intro d3. apply plain_err_bind; [apply plain_err_dict_build|]. discriminate.
Qed.

Lemma cf_validate_plain : forall orc f x q, cf_validate orc f x <> Err (EValidation q).
Proof. intros orc f x q. unfold cf_validate. destruct (input_ok orc (fl_fld f) x); [apply validate_plain_err|discriminate]. Qed.
Lemma cf_to_python_plain : forall orc f x q, cf_to_python orc f x <> Err (EValidation q).
Proof. intros. apply to_python_plain_err. Qed.

(* C15 over the full field model: every rejected assignment (attribute, dotted path, constructor keyword; scalar, map,
   list of maps) is the library's validation error naming a path at or below the assigned field, or AttributeError for an
   undeclared key inside a map (F33).  NOTE the model reports a rejected item of a typed dict / list LEAF at the leaf's
   own path; the implementation's DictProxy appends "[key]" (still below the field: C15's clause, C17's business) *)
Theorem cf_rejection_shape : forall orc vt x w pre c fs dyn k rl w' c' e,
  set_value fleaf (cf_validate orc) (cf_to_python orc) (cf_default orc) fl_callable fl_flag (vrun vt) x w pre c fs dyn k rl
    = (w', c', OErr e) ->
  e = EAttribute \/ verr_below (path_join pre k) e.
Proof. intros orc vt. apply rejection_shape; [apply cf_validate_plain|apply cf_to_python_plain]. Qed.

Theorem cf_leaf_rejection_path : forall orc vt x w pre c fs dyn k rl w' c' e f,
  fget fleaf k fs = Some (NLeaf f) ->
  set_value fleaf (cf_validate orc) (cf_to_python orc) (cf_default orc) fl_callable fl_flag (vrun vt) x w pre c fs dyn k rl
    = (w', c', OErr e) -> e = EValidation (path_join pre k).
Proof. intros orc vt. apply leaf_rejection_path. apply cf_validate_plain. Qed.
