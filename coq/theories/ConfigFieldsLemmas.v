(* ConfigFieldsLemmas.v — the leaf hypotheses of the configuration theorems (ConfigWF.v: C01, ConfigLemmas.v: C15,
   RoundtripLemmas.v: C02) discharged for the full field model of Fields.v (instance ConfigFields.v). *)
From Coq Require Import ZArith NArith String List Bool Lia SpecFloat.
From Cinco Require Import Base Str Num Net Codec NetLemmas CodecLemmas StrLemmas Fields FieldsLemmas
                          Config ConfigInst ConfigLemmas ConfigWF ConfigFields.
Import ListNotations.
Open Scope N_scope.

(* ---------------------------------------------------------------------------------------------- *)
(* boolean equality of values decides equality                                                     *)
(* ---------------------------------------------------------------------------------------------- *)
Lemma sf_eqb_eq : forall a b, sf_eqb a b = true -> a = b.
Proof.
  intros [s| s| |s m e] [t| t| |t n f]; cbn; try discriminate; intro H; try reflexivity.
  - apply Bool.eqb_prop in H. now subst.
  - apply Bool.eqb_prop in H. now subst.
  - apply andb_true_iff in H as [H H3]. apply andb_true_iff in H as [H1 H2].
    apply Bool.eqb_prop in H1. apply Pos.eqb_eq in H2. apply Z.eqb_eq in H3. now subst.
Qed.

Lemma bytes_eqb_true : forall a b : list N, list_eqb N.eqb a b = true -> a = b.
Proof. intros a b H. now apply str_eqb_eq. Qed.

Fixpoint pyval_eqb_eq (a : pyval) : forall b, pyval_eqb a b = true -> a = b.
Proof.
  destruct a; intros [] H; cbn in H; try discriminate; try reflexivity.
  - apply Bool.eqb_prop in H. now subst.
  - apply Z.eqb_eq in H. now subst.
  - apply sf_eqb_eq in H. now subst.
  - apply bytes_eqb_true in H. now subst.
  - apply bytes_eqb_true in H. now subst.
  - apply andb_true_iff in H as [H1 H2]. apply N.eqb_eq in H1. subst. f_equal.
    revert l0 H2. induction l as [|x l IH]; intros [|y l0] H2; try discriminate; [reflexivity|].
    apply andb_true_iff in H2 as [A B]. f_equal; [now apply pyval_eqb_eq|now apply IH].
  - f_equal. revert l0 H. induction l as [|x l IH]; intros [|y l0] H2; try discriminate; [reflexivity|].
    apply andb_true_iff in H2 as [A B]. f_equal; [now apply pyval_eqb_eq|now apply IH].
  - apply andb_true_iff in H as [H1 H2]. apply N.eqb_eq in H1. subst. f_equal.
    revert d0 H2. induction d as [|[k v] d IH]; intros [|[k' v'] d0] H2; try discriminate; [reflexivity|].
    apply andb_true_iff in H2 as [A B]. apply andb_true_iff in A as [A1 A2].
    f_equal; [f_equal; now apply pyval_eqb_eq|now apply IH].
  - apply andb_true_iff in H as [H H3]. apply andb_true_iff in H as [H1 H2].
    apply bytes_eqb_true in H1, H2. apply N.eqb_eq in H3. now subst.
  - apply N.eqb_eq in H. now subst.
Qed.

(* ---------------------------------------------------------------------------------------------- *)
(* C01: an accepted value meets the field's declared constraints, for EVERY input                   *)
(* ---------------------------------------------------------------------------------------------- *)
Section S.
  Variable orc : oracle.

  Lemma goodb_meets : forall f x, goodb orc f x = true -> meets orc f x.
  Proof.
    induction f; intros x H;
      try (cbn [goodb] in H; apply andb_true_iff in H as [Hp Hf]; unfold fix_point in Hf;
           match type of Hf with context [validate_with orc ?g x] => destruct (validate_with orc g x) as [v| |] eqn:E end;
           try discriminate; apply pyval_eqb_eq in Hf; subst v; eapply validate_sound; eassumption).
    - (* FListT *)
      destruct x; try (cbn [goodb] in H; apply andb_true_iff in H as [Hp Hf]; unfold fix_point in Hf;
           match type of Hf with context [validate_with orc ?g ?y] => destruct (validate_with orc g y) as [v| |] eqn:E end;
           try discriminate; apply pyval_eqb_eq in Hf; subst v; eapply validate_sound; eassumption).
      cbn [goodb] in H. apply andb_true_iff in H as [H H3]. apply andb_true_iff in H as [H1 H2].
      apply N.eqb_eq in H1. subst tg. unfold meets. cbn [sat]. right. exists l. split; [reflexivity|]. split.
      + rewrite forallb_forall in H3. apply Forall_forall. intros i Hi. apply IHf. now apply H3.
      + apply negb_true_iff in H2. now apply req_nonnil.
    - (* FDictT *)
      destruct x; try (cbn [goodb] in H; apply andb_true_iff in H as [Hp Hf]; unfold fix_point in Hf;
           match type of Hf with context [validate_with orc ?g ?y] => destruct (validate_with orc g y) as [v| |] eqn:E end;
           try discriminate; apply pyval_eqb_eq in Hf; subst v; eapply validate_sound; eassumption).
      cbn [goodb] in H. apply andb_true_iff in H as [H H3]. apply andb_true_iff in H as [H1 H2].
      apply N.eqb_eq in H1. subst tg. unfold meets. cbn [sat]. right. exists d. split; [reflexivity|]. split.
      + rewrite forallb_forall in H3. apply Forall_forall. intros kv Hi. specialize (H3 kv Hi).
        apply andb_true_iff in H3 as [A B]. split; [now apply IHf1|now apply IHf2].
      + apply negb_true_iff in H2. now apply req_nonnil.
  Qed.

  (* on a good value validate is the identity (the proxy copy path / a fixed point) *)
  Lemma goodb_fixed : forall f x v, goodb orc f x = true -> validate_with orc f x = Ok v -> v = x.
  Proof.
    intros f x v H E.
    assert (D : plain x && fix_point orc f x = true -> v = x).
    { intro Hd. apply andb_true_iff in Hd as [_ Hf]. unfold fix_point in Hf. rewrite E in Hf. now apply pyval_eqb_eq in Hf. }
    destruct f; try (exact (D H)); destruct x; try (exact (D H)); cbn [goodb] in H.
    - apply andb_true_iff in H as [H H3]. apply andb_true_iff in H as [H1 H2]. apply N.eqb_eq in H1. subst tg.
      apply negb_true_iff in H2. cbn in E. rewrite H2, N.eqb_refl in E. now injection E.
    - apply andb_true_iff in H as [H H3]. apply andb_true_iff in H as [H1 H2]. apply N.eqb_eq in H1. subst tg.
      apply negb_true_iff in H2. cbn in E. rewrite H2, N.eqb_refl in E. now injection E.
  Qed.

  (* a value accepted at the top passed validate's required/empty test: it is good as a whole *)
  Lemma goodb_top_good : forall f x v, goodb_top orc f x = true -> validate_with orc f x = Ok v -> goodb orc f x = true.
  Proof.
    intros f x v H E. destruct f; try exact H; destruct x; try exact H; cbn [goodb_top] in H; cbn [goodb].
    - apply andb_true_iff in H as [H1 H3]. rewrite H1, H3. cbn in E.
      destruct (req && Net.is_nil l); [discriminate|reflexivity].
    - apply andb_true_iff in H as [H1 H3]. rewrite H1, H3. cbn in E.
      destruct (req && Net.is_nil d); [discriminate|reflexivity].
  Qed.

  Theorem cf_validate_sound : forall f x v, cf_validate orc f x = Ok v -> meets orc (fl_fld f) v.
  Proof.
    intros f x v H. unfold cf_validate, input_ok in H.
    destruct (plain x) eqn:P; cbn [orb] in H.
    - eapply validate_sound; eassumption.
    - destruct (goodb_top orc (fl_fld f) x) eqn:G0; [|discriminate].
      pose proof (goodb_top_good _ _ _ G0 H) as G.
      rewrite (goodb_fixed _ _ _ G H). now apply goodb_meets.
  Qed.

  (* the guard is transparent on plain data: arguments of assignments, constructor keywords, documents *)
  Lemma cf_validate_plain_input : forall f x, plain x = true -> cf_validate orc f x = validate_with orc (fl_fld f) x.
  Proof. intros f x P. unfold cf_validate, input_ok. now rewrite P. Qed.

  Definition cf_meets (f : fleaf) (v : pyval) : Prop := meets orc (fl_fld f) v.

  (* a configuration object handed over as it is must itself be well-formed for the slot it goes to (ConfigWF.obj_ok);
     histories without such objects (plain_op) need nothing, and objects the model builds from the slot's own schema
     meet the condition (cf_reachable_x_wf) *)
  Theorem cf_reachable_wf : forall vt ops w dyn vs fs,
    (forall f n, cf_meets f (cf_default orc f n)) -> ok_fields fleaf (cf_validate orc) (cf_to_python orc) (cf_default orc) fl_callable fl_flag (vrun vt) fs -> objs_ok fleaf cf_meets fs ops ->
    wf_cfg fleaf cf_meets fs
      (run fleaf (cf_validate orc) (cf_to_python orc) (cf_default orc) fl_callable fl_flag (vrun vt) ops
           (fst (build_cfg fleaf (cf_validate orc) (cf_to_python orc) (cf_default orc) fl_callable fl_flag (vrun vt) w fs))
           (snd (build_cfg fleaf (cf_validate orc) (cf_to_python orc) (cf_default orc) fl_callable fl_flag (vrun vt) w fs)) dyn vs fs).
  Proof. intros. apply reachable_wf; [exact cf_validate_sound|assumption|assumption|assumption]. Qed.

  Theorem cf_reachable_x_wf : forall vt ops w dyn vs fs,
    (forall f n, cf_meets f (cf_default orc f n)) -> ok_fields fleaf (cf_validate orc) (cf_to_python orc) (cf_default orc) fl_callable fl_flag (vrun vt) fs ->
    xobjs_ok fleaf cf_meets fs ops ->
    wf_cfg fleaf cf_meets fs
      (run_x fleaf (cf_validate orc) (cf_to_python orc) (cf_default orc) fl_callable fl_flag (vrun vt) ops
           (fst (build_cfg fleaf (cf_validate orc) (cf_to_python orc) (cf_default orc) fl_callable fl_flag (vrun vt) w fs))
           (snd (build_cfg fleaf (cf_validate orc) (cf_to_python orc) (cf_default orc) fl_callable fl_flag (vrun vt) w fs)) dyn vs fs).
  Proof. intros. apply reachable_x_wf; [exact cf_validate_sound|assumption|assumption|assumption]. Qed.

  Theorem cf_step_wf : forall vt ps o w pre c dyn vs fs w' c' oc1,
    (forall f n, cf_meets f (cf_default orc f n)) -> ok_fields fleaf (cf_validate orc) (cf_to_python orc) (cf_default orc) fl_callable fl_flag (vrun vt) fs -> wf_cfg fleaf cf_meets fs c ->
    obj_ok fleaf cf_meets fs ps o ->
    at_path fleaf (cf_validate orc) (cf_to_python orc) (cf_default orc) fl_callable fl_flag (vrun vt) ps w pre c dyn vs fs o
      = (w', c', oc1) -> wf_cfg fleaf cf_meets fs c'.
  Proof. intros vt ps o w pre c dyn vs fs w' c' oc1 Hd. apply step_wf; [exact cf_validate_sound|exact Hd]. Qed.
End S.

(* ---------------------------------------------------------------------------------------------- *)
(* C15: the field model raises plain exceptions (never the library's ValidationError itself)        *)
(* ---------------------------------------------------------------------------------------------- *)
Definition plain_err {A : Type} (r : res A) : Prop := forall q, r <> Err (EValidation q).

Lemma plain_err_bind : forall (A B : Type) (r : res A) (k : A -> res B),
  plain_err r -> (forall a, plain_err (k a)) -> plain_err (bind r k).
Proof. intros A B r k Hr Hk q. destruct r; cbn; [apply Hk| |discriminate]. intro H. injection H as ->. exact (Hr q eq_refl). Qed.

Lemma plain_err_map_res : forall (A B : Type) (f : A -> res B) l, (forall a, plain_err (f a)) -> plain_err (map_res f l).
Proof.
  intros A B f l H. induction l as [|a l IH]; cbn; [discriminate|].
  apply plain_err_bind; [apply H|]. intro b. apply plain_err_bind; [exact IH|]. discriminate.
Qed.

Lemma plain_err_dict_build : forall l acc, plain_err (dict_build_acc acc l).
Proof. induction l as [|[k v] l IH]; intros acc q; cbn; [discriminate|]. destruct (key_ok k); [apply IH|discriminate]. Qed.

Ltac pe_crush :=
  repeat first [ discriminate
               | progress cbn [bind]
               | match goal with
                 | |- context [if ?b then _ else _] => destruct b
                 | |- context [match ?e with _ => _ end] => destruct e
                 end ].

Lemma plain_err_str_validate : forall orc req o x, plain_err (str_validate orc req o x).
Proof. intros orc req o x q. unfold str_validate. destruct x; try discriminate. cbn [bind]. pe_crush. Qed.

Lemma plain_err_int : forall mn mx x, plain_err (int_validate mn mx x).
Proof. intros mn mx x q. unfold int_validate, int_convert. destruct x; cbn [bind]; pe_crush. Qed.
Lemma plain_err_float : forall mn mx x, plain_err (float_validate mn mx x).
Proof. intros mn mx x q. unfold float_validate, float_convert. destruct x; cbn [bind]; pe_crush. Qed.
Lemma plain_err_bool : forall x, plain_err (bool_validate x).
Proof. intros x q. unfold bool_validate. destruct x; pe_crush. Qed.
Lemma plain_err_bytes : forall x, plain_err (bytes_validate x).
Proof. intros x q. unfold bytes_validate. destruct x; pe_crush. Qed.

Lemma plain_err_ipv4 : forall orc r o x, plain_err (ipv4_validate orc r o x).
Proof.
  intros. unfold ipv4_validate. apply plain_err_bind; [apply plain_err_str_validate|]. intros s q. pe_crush.
Qed.
Lemma plain_err_net : forall orc r o a b x, plain_err (net_validate orc r o a b x).
Proof.
  intros. unfold net_validate. apply plain_err_bind; [apply plain_err_str_validate|]. intro s.
  apply plain_err_bind.
  - intro q. unfold parse_net. pe_crush.
  - intros [p1 p2] q.
    destruct (match a with Some m => _ | None => false end); [discriminate|].
    destruct (match b with Some m => _ | None => false end); [discriminate|]. cbv zeta.
    revert q. apply plain_err_bind; [apply plain_err_str_validate|]. intros s' q. pe_crush.
Qed.
Lemma plain_err_host : forall orc r o a b x, plain_err (host_validate orc r o a b x).
Proof.
  intros. unfold host_validate. apply plain_err_bind; [apply plain_err_str_validate|]. intros s q. pe_crush.
Qed.

Theorem validate_plain_err : forall orc f x, plain_err (validate_with orc f x).
Proof.
  intros orc f. induction f; intros x q; destruct (pyval_none_dec x) as [->|Hx];
    try (rewrite validate_none; destruct (field_req _); discriminate).
  - rewrite v_any by exact Hx. discriminate.
  - rewrite v_str by exact Hx. revert q. apply plain_err_bind; [apply plain_err_str_validate|]. discriminate.
  - rewrite v_int by exact Hx. apply plain_err_int.
  - rewrite v_float by exact Hx. apply plain_err_float.
  - rewrite v_bool by exact Hx. apply plain_err_bool.
  - rewrite v_ipv4 by exact Hx. apply plain_err_ipv4.
  - rewrite v_net by exact Hx. apply plain_err_net.
  - rewrite v_host by exact Hx. apply plain_err_host.
  - rewrite v_bytes by exact Hx. apply plain_err_bytes.
  - destruct x; cbn; pe_crush.
  - destruct x; cbn [validate_with]; try discriminate; try congruence.
    + destruct (req && Net.is_nil l); [discriminate|]. destruct (tg =? fid + 1); [discriminate|].
      destruct (negb (tg =? 0)); [discriminate|]. revert q. apply plain_err_bind; [now apply plain_err_map_res|]. discriminate.
    + destruct (req && Net.is_nil l); [discriminate|]. destruct (0 =? fid + 1); [discriminate|].
      destruct (negb (0 =? 0)); [discriminate|]. revert q. apply plain_err_bind; [now apply plain_err_map_res|]. discriminate.
  - destruct x; cbn; pe_crush.
  - destruct x; cbn [validate_with]; try discriminate; try congruence.
    destruct (req && Net.is_nil d); [discriminate|]. destruct (tg =? fid + 1); [discriminate|].
    destruct (negb (tg =? 0)); [discriminate|]. revert q. apply plain_err_bind.
    + apply plain_err_map_res. intros [k v]. unfold on_pair. apply plain_err_bind; [apply IHf1|]. intro k'.
      apply plain_err_bind; [apply IHf2|]. discriminate.
    + intro d'. apply plain_err_bind; [apply plain_err_dict_build|]. discriminate.
  - destruct x; [congruence|discriminate..].
Qed.

Theorem to_python_plain_err : forall orc f x, plain_err (to_python_with orc f x).
Proof.
  intros orc f. induction f; intros x q; try (cbn; discriminate).
  - cbn. unfold bytes_to_python, b64_decode_py. destruct x; cbn [bind]; pe_crush.
  - destruct x; cbn [to_python_with]; try discriminate.
    + revert q. apply plain_err_bind; [now apply plain_err_map_res|]. intro l1.
      apply plain_err_bind; [apply plain_err_map_res; intro; apply validate_plain_err|]. discriminate.
    + revert q. apply plain_err_bind; [now apply plain_err_map_res|]. intro l1.
      apply plain_err_bind; [apply plain_err_map_res; intro; apply validate_plain_err|]. discriminate.
  - destruct x; cbn [to_python_with]; try discriminate. revert q.
    apply plain_err_bind.
    { apply plain_err_map_res. intros [k v]. unfold on_pair. apply plain_err_bind; [apply IHf1|]. intro k'.
      apply plain_err_bind; [apply IHf2|]. discriminate. }
    intro d1. apply plain_err_bind; [apply plain_err_dict_build|]. intro d2. apply plain_err_bind.
    { apply plain_err_map_res. intros [k v]. unfold on_pair. apply plain_err_bind; [apply validate_plain_err|]. intro k'.
      apply plain_err_bind; [apply validate_plain_err|]. discriminate. }
    intro d3. apply plain_err_bind; [apply plain_err_dict_build|]. discriminate.
Qed.

Lemma cf_validate_plain : forall orc f x q, cf_validate orc f x <> Err (EValidation q).
Proof. intros orc f x q. unfold cf_validate. destruct (input_ok orc (fl_fld f) x); [apply validate_plain_err|discriminate]. Qed.
Lemma cf_to_python_plain : forall orc f x q, cf_to_python orc f x <> Err (EValidation q).
Proof. intros. apply to_python_plain_err. Qed.

(* C15 over the full field model: every rejected assignment (attribute, dotted path, constructor keyword; scalar, map,
   list of maps) is the library's validation error naming a path at or below the assigned field, or AttributeError for an
   undeclared key inside a map (F33).  NOTE the model reports a rejected item of a typed dict / list LEAF at the leaf's
   own path; the implementation's DictProxy appends "[key]" (still below the field: C15's clause, C17's business) *)
Theorem cf_rejection_shape : forall orc vt x w pre c fs dyn k rl w' c' e,
  set_value fleaf (cf_validate orc) (cf_to_python orc) (cf_default orc) fl_callable fl_flag (vrun vt) x w pre c fs dyn k rl
    = (w', c', OErr e) ->
  e = EAttribute \/ verr_below (path_join pre k) e.
Proof. intros orc vt. apply rejection_shape; [apply cf_validate_plain|apply cf_to_python_plain]. Qed.

Theorem cf_leaf_rejection_path : forall orc vt x w pre c fs dyn k rl w' c' e f,
  fget fleaf k fs = Some (NLeaf f) ->
  set_value fleaf (cf_validate orc) (cf_to_python orc) (cf_default orc) fl_callable fl_flag (vrun vt) x w pre c fs dyn k rl
    = (w', c', OErr e) -> e = EValidation (path_join pre k).
Proof. intros orc vt. apply leaf_rejection_path. apply cf_validate_plain. Qed.

From Cinco Require Import Roundtrip RoundtripLemmas.

(* ---------------------------------------------------------------------------------------------- *)
(* C02: the leaf round-trip law from C05's basic_roundtrip, on its domain                           *)
(* ---------------------------------------------------------------------------------------------- *)
(* what to_python(to_basic v) builds is v itself (not only something that validates to v) *)
Lemma roundtrip_items_eq : forall (tb tp : pyval -> res pyval) l,
  Forall (fun i => exists b, tb i = Ok b /\ tp b = Ok i) l ->
  exists lb, Fields.map_res tb l = Ok lb /\ Fields.map_res tp lb = Ok l.
Proof.
  intros tb tp l H. induction H as [|i l [b [A B]] H [lb [IA IB]]].
  - exists []. split; reflexivity.
  - exists (b :: lb). cbn. rewrite A, IA, B, IB. split; reflexivity.
Qed.

Lemma map_res_fixed : forall (A : Type) (f : A -> res A) l, Forall (fun i => f i = Ok i) l -> Fields.map_res f l = Ok l.
Proof. intros A0 f l H. induction H as [|i l E H IH]; cbn; [reflexivity|]. now rewrite E, IH. Qed.

Lemma roundtrip_pairs_eq : forall orc kf (tbv tpv : pyval -> res pyval) d, scalar_kf kf = true ->
  Forall (fun kv => normal orc kf (fst kv) /\ key_ok (fst kv) = true /\
                    exists b, tbv (snd kv) = Ok b /\ tpv b = Ok (snd kv)) d ->
  exists db, Fields.map_res (on_pair (to_basic kf) tbv) d = Ok db /\
             Fields.map_res (on_pair (to_python_with orc kf) tpv) db = Ok d /\
             map fst db = map (kb_of kf) (map fst d).
Proof.
  intros orc kf tbv tpv d Hs H. induction H as [|[k x] d (Hn & Hk & b & A & B) H (db & IA & IB & ID)].
  - exists []. repeat split.
  - cbn in Hn, Hk, A, B. destruct (key_rt orc kf k Hs Hn Hk) as (K1 & K2 & K3).
    exists ((kb_of kf k, b) :: db). cbn. rewrite K1. cbn. rewrite A. cbn. rewrite IA. cbn. rewrite K2. cbn. rewrite B. cbn.
    rewrite IB. cbn. rewrite ID. repeat split.
Qed.

Theorem basic_roundtrip_eq : forall orc f v,
  normal orc f v -> rt_dom f v -> exists b, to_basic f v = Ok b /\ to_python_with orc f b = Ok v.
Proof.
  intros orc f. induction f; intros v Hn Hd.
  1-8: exists v; split; reflexivity.
  - unfold normal in Hn. cbn [sat] in Hn. destruct Hn as [[-> R]|[b [-> Hb]]].
    + exists PNone. split; reflexivity.
    + exists (PStr (match enc with B64 => b64_enc b | BHex => hex_enc b end)). split; [reflexivity|]. cbn. destruct enc.
      * now rewrite (b64_decode_py_enc b Hb).
      * now rewrite (hex_dec_enc b Hb).
  - cbn in Hd. destruct Hd as [->|[l ->]]; [exists PNone|exists (PList 0 l)]; split; reflexivity.
  - cbn [rt_dom] in Hd. destruct Hd as [t [l [-> Hd]]].
    unfold normal in Hn. cbn [sat] in Hn. destruct Hn as [[Hv _]|[l0 [Hv [Hi Hr]]]]; [discriminate Hv|].
    injection Hv as -> <-.
    assert (Hall : Forall (fun i => exists b, to_basic f i = Ok b /\ to_python_with orc f b = Ok i) l).
    { clear Hr. induction l as [|i l IHl]; constructor; inversion Hi; inversion Hd; subst; [now apply IHf|now apply IHl]. }
    destruct (roundtrip_items_eq _ _ l Hall) as [lb [A B]].
    exists (PList 0 lb). cbn [to_basic to_python_with]. rewrite A. cbn [bind]. split; [reflexivity|].
    rewrite B. cbn [bind]. rewrite (map_res_fixed _ (validate_with orc f) l); [reflexivity|].
    clear -Hi. induction Hi; constructor; [now apply validate_fixpoint|assumption].
  - cbn in Hd. destruct Hd as [->|[d ->]]; [exists PNone|exists (PDict 0 d)]; split; reflexivity.
  - cbn [rt_dom] in Hd. destruct Hd as [t [d [-> (Hs & Hdk & Hdv)]]].
    unfold normal in Hn. cbn [sat] in Hn. destruct Hn as [[Hv _]|[d0 [Hv [Hi Hr]]]]; [discriminate Hv|].
    injection Hv as -> <-.
    assert (Hall : Forall (fun kv => normal orc f1 (fst kv) /\ key_ok (fst kv) = true /\
                     exists b, to_basic f2 (snd kv) = Ok b /\ to_python_with orc f2 b = Ok (snd kv)) d).
    { clear Hr. induction d as [|kv d IHd]; constructor.
      - inversion Hi as [|? ? [Hk Hx] Hi']; inversion Hdv; subst. destruct Hdk as (A & _ & _).
        split; [exact Hk|]. split; [exact A|]. now apply IHf2.
      - inversion Hi; inversion Hdv; subst. destruct Hdk as (_ & _ & C). now apply IHd. }
    destruct (roundtrip_pairs_eq orc f1 _ _ d Hs Hall) as (db & A & B & D).
    assert (Hnk : Forall (fun kv => normal orc f1 (fst kv)) d).
    { clear -Hi. induction Hi as [|kv d [Hk _] Hi IH]; constructor; assumption. }
    assert (Ddb : distinct_keys db) by (eapply distinct_keys_kb; eauto).
    exists (PDict 0 db). cbn [to_basic to_python_with]. rewrite A. cbn [bind].
    rewrite (dict_build_distinct db Ddb). cbn [bind]. split; [reflexivity|].
    rewrite B. cbn [bind]. rewrite (dict_build_distinct d Hdk). cbn [bind].
    rewrite (map_res_fixed _ (on_pair (validate_with orc f1) (validate_with orc f2)) d).
    + cbn [bind]. now rewrite (dict_build_distinct d Hdk).
    + clear -Hi. induction Hi as [|[k x] d [Hk Hx] Hi IH]; constructor; [|assumption].
      cbn in *. now rewrite (validate_fixpoint _ _ _ Hk), (validate_fixpoint _ _ _ Hx).
  - contradiction.
Qed.

(* Boolean form of the round-trip domain rt_dom *)
Fixpoint distinct_keysb (l : list (pyval * pyval)) : bool :=
  match l with
  | [] => true
  | kv :: r => key_ok (fst kv) && forallb (fun kv' => negb (key_eqb (fst kv') (fst kv))) r && distinct_keysb r
  end.
Lemma distinct_keysb_ok : forall l, distinct_keysb l = true -> distinct_keys l.
Proof.
  induction l as [|kv l IH]; cbn; [trivial|]. intro H. apply andb_true_iff in H as [H C]. apply andb_true_iff in H as [A B].
  split; [exact A|]. split; [|now apply IH]. rewrite forallb_forall in B. apply Forall_forall. intros x Hx.
  apply negb_true_iff. now apply B.
Qed.

Fixpoint rt_domb (f : field) (v : pyval) {struct f} : bool :=
  match f with
  | FListU _ => match v with PNone => true | PList tg _ => tg =? 0 | _ => false end
  | FDictU _ => match v with PNone => true | PDict tg _ => tg =? 0 | _ => false end
  | FListT _ _ it => match v with PList _ l => forallb (rt_domb it) l | _ => false end
  | FDictT _ _ kf vf =>
      match v with
      | PDict _ d => scalar_kf kf && distinct_keysb d && forallb (fun kv => rt_domb vf (snd kv)) d
      | _ => false
      end
  | FOpaque _ _ => false
  | _ => true
  end.
Lemma rt_domb_ok : forall f v, rt_domb f v = true -> rt_dom f v.
Proof.
  induction f; intros v H; try exact I; cbn [rt_domb rt_dom] in *.
  - destruct v; try discriminate; [now left|]. apply N.eqb_eq in H. subst. right. eauto.
  - destruct v; try discriminate. exists tg, l. split; [reflexivity|]. rewrite forallb_forall in H.
    apply Forall_forall. intros i Hi. apply IHf. now apply H.
  - destruct v; try discriminate; [now left|]. apply N.eqb_eq in H. subst. right. eauto.
  - destruct v; try discriminate. apply andb_true_iff in H as [H C]. apply andb_true_iff in H as [A B].
    exists tg, d. split; [reflexivity|]. split; [exact A|]. split; [now apply distinct_keysb_ok|].
    rewrite forallb_forall in C. apply Forall_forall. intros kv Hkv. apply IHf2. now apply C.
  - discriminate.
Qed.

Section R.
  Variable orc : oracle.

  Lemma goodb_normal : forall f x, has_F13 f = false -> goodb orc f x = true -> normal orc f x.
  Proof.
    induction f; intros x HF H;
      try (cbn [goodb] in H; apply andb_true_iff in H as [Hp Hf]; unfold fix_point in Hf;
           match type of Hf with context [validate_with orc ?g x] => destruct (validate_with orc g x) as [v| |] eqn:E end;
           try discriminate; apply pyval_eqb_eq in Hf; subst v; eapply validate_normal; eassumption).
    - destruct x; try (cbn [goodb] in H; apply andb_true_iff in H as [Hp Hf]; unfold fix_point in Hf;
           match type of Hf with context [validate_with orc ?g ?y] => destruct (validate_with orc g y) as [v| |] eqn:E end;
           try discriminate; apply pyval_eqb_eq in Hf; subst v; eapply validate_normal; eassumption).
      cbn [goodb] in H. apply andb_true_iff in H as [H H3]. apply andb_true_iff in H as [H1 H2].
      apply N.eqb_eq in H1. subst tg. unfold normal. cbn [sat]. right. exists l. split; [reflexivity|]. split.
      + rewrite forallb_forall in H3. apply Forall_forall. intros i Hi. apply IHf; [exact HF|]. now apply H3.
      + apply negb_true_iff in H2. now apply req_nonnil.
    - destruct x; try (cbn [goodb] in H; apply andb_true_iff in H as [Hp Hf]; unfold fix_point in Hf;
           match type of Hf with context [validate_with orc ?g ?y] => destruct (validate_with orc g y) as [v| |] eqn:E end;
           try discriminate; apply pyval_eqb_eq in Hf; subst v; eapply validate_normal; eassumption).
      cbn [goodb] in H. apply andb_true_iff in H as [H H3]. apply andb_true_iff in H as [H1 H2].
      apply N.eqb_eq in H1. subst tg. cbn [has_F13] in HF. apply orb_false_iff in HF as [HF1 HF2].
      unfold normal. cbn [sat]. right. exists d. split; [reflexivity|]. split.
      + rewrite forallb_forall in H3. apply Forall_forall. intros kv Hi. specialize (H3 kv Hi).
        apply andb_true_iff in H3 as [A B]. split; [now apply IHf1|now apply IHf2].
      + apply negb_true_iff in H2. now apply req_nonnil.
  Qed.

  (* the leaf validator restricted to the domain of the round-trip law: fields outside the F13 region, values in rt_dom
     (a typed list / dict leaf holds a container -- an unset one comes back empty, which `same_values` does not allow;
     untyped containers are builtin; typed-dict keys are distinct hashable scalars under a scalar key field) *)
  Definition cfr_validate (f : fleaf) (x : pyval) : res pyval :=
    if negb (has_F13 (fl_fld f)) && rt_domb (fl_fld f) x then cf_validate orc f x else Unmodelled.

  Lemma cfr_leaf_roundtrip : forall f x, cfr_validate f x = Ok x ->
    exists b b', cf_to_basic f x = Ok b /\ cf_to_python orc f b = Ok b' /\ cfr_validate f b' = Ok x.
  Proof.
    intros f x H. unfold cfr_validate in H.
    destruct (negb (has_F13 (fl_fld f)) && rt_domb (fl_fld f) x) eqn:G; [|discriminate].
    apply andb_true_iff in G as [GF GD]. apply negb_true_iff in GF.
    assert (Hn : normal orc (fl_fld f) x).
    { unfold cf_validate, input_ok in H. destruct (plain x) eqn:P; cbn [orb] in H.
      - eapply validate_normal; eassumption.
      - destruct (goodb_top orc (fl_fld f) x) eqn:G0; [|discriminate].
        apply goodb_normal; [exact GF|]. eapply goodb_top_good; eassumption. }
    destruct (basic_roundtrip_eq orc (fl_fld f) x Hn (rt_domb_ok _ _ GD)) as [b [A B]].
    exists b, x. split; [exact A|]. split; [exact B|]. unfold cfr_validate. rewrite GF, GD. exact H.
  Qed.

  (* C02 over the full field model: rendering a deeply valid configuration and loading the rendered tree into a fresh
     configuration of the same schema succeeds and reproduces the same values, deeply valid again *)
  Theorem cf_tree_roundtrip : forall vt dyn vs fs c,
    deep_valid fleaf cfr_validate fl_flag (vrun vt) dyn vs fs c ->
    forall w w0 fresh, build_cfg fleaf cfr_validate (cf_to_python orc) (cf_default orc) fl_callable fl_flag (vrun vt) w fs = (w0, fresh) ->
    exists t w' c', to_tree fleaf cf_to_basic fl_sensitive py_strlen None fs c = Ok t /\
      load_tree fleaf cfr_validate (cf_to_python orc) (cf_default orc) fl_callable fl_flag (vrun vt) t true w0 [] fresh dyn vs fs
        = (w', c', OOk) /\
      same_values fleaf fs c' c /\ deep_valid fleaf cfr_validate fl_flag (vrun vt) dyn vs fs c'.
  Proof. intros vt. apply tree_roundtrip; [apply cfr_leaf_roundtrip|apply inst_vrun_lookup]. Qed.
End R.

(* non-vacuity: tags = ListField(BytesField('hex')) holding [b"\x00\xff"], env = DictField(StringField(), IntField(0..10)) holding
   {"a": 3}, n = IntField(0..10, default 3): rendered and loaded back into a fresh configuration, same values *)
Definition ex_leaf (f : field) (d : pyval) : fleaf :=
  {| fl_fld := f; fl_default := d; fl_callable := false; fl_sensitive := false; fl_flag := false |}.
Definition ex_fs : list (str * fnode) :=
  [(sa "tags", NLeaf (ex_leaf (FListT 1 false (FBytes false BHex)) (PList 0 [PBytes (hx "00ff")])));
   (sa "env", NLeaf (ex_leaf (FDictT 2 false (FStr false sopts0) (FInt false (Some 0%Z) (Some 10%Z))) (PDict 0 [(PStr (sa "a"), PInt 3)])));
   (sa "n", NLeaf (ex_leaf (FInt false (Some 0%Z) (Some 10%Z)) (PInt 3)))].
Definition ex_c : cfg := snd (build_cfg fleaf (cfr_validate no_oracle) (cf_to_python no_oracle) (cf_default no_oracle) fl_callable fl_flag (vrun []) w0 ex_fs).
Example cf_tree_roundtrip_computed :
  let t := to_tree fleaf cf_to_basic fl_sensitive py_strlen None ex_fs ex_c in
  t = Ok (PDict 0 [(PStr (sa "tags"), PList 0 [PStr (sa "00ff")]); (PStr (sa "env"), PDict 0 [(PStr (sa "a"), PInt 3)]); (PStr (sa "n"), PInt 3)])
  /\ match t with
     | Ok tr =>
         let '(w1, fresh) := build_cfg fleaf (cfr_validate no_oracle) (cf_to_python no_oracle) (cf_default no_oracle) fl_callable fl_flag (vrun []) w0 ex_fs in
         let '(_, c', o) := load_tree fleaf (cfr_validate no_oracle) (cf_to_python no_oracle) (cf_default no_oracle) fl_callable fl_flag
                                      (vrun []) tr true w1 [] fresh false [] ex_fs in
         o = OOk /\ same_valuesb fleaf ex_fs c' ex_c = true
     | _ => False
     end.
Proof. vm_compute. repeat split. Qed.

(* ---------------------------------------------------------------------------------------------- *)
(* the guard of cf_validate is transparent on the load route (non-vacuity of the C01 / C15 / C02 statements) *)
(* ---------------------------------------------------------------------------------------------- *)
Section G.
  Variable orc : oracle.

  Lemma fix_point_of_idem : forall f v, validate_with orc f v = Ok v -> fix_point orc f v = true.
  Proof. intros f v H. unfold fix_point. rewrite H. apply pyval_eqb_refl. Qed.

  (* what a scalar field stores is plain data *)
  Lemma plain_forallb_dict : forall d, Forall (fun kv => plain (fst kv) = true /\ plain (snd kv) = true) d ->
    (fix go (d : list (pyval * pyval)) : bool :=
       match d with [] => true | (k, v) :: r => plain k && plain v && go r end) d = true.
  Proof. induction 1 as [|[k v] d [A B] H IH]; [reflexivity|]. cbn in A, B. now rewrite A, B, IH. Qed.

  Lemma validate_good : forall f, has_F13 f = false -> forall x v, plain x = true -> validate_with orc f x = Ok v ->
    goodb orc f v = true.
  Proof.
    induction f; intros HF x v Hp H.
    all: destruct (pyval_none_dec x) as [->|Hx];
      [rewrite validate_none in H; match type of H with context [field_req ?g] => destruct (field_req g) eqn:R end;
       [discriminate|injection H as <-; cbn [goodb]; unfold fix_point; rewrite validate_none, R; reflexivity]|].
    all: try (assert (Hi : validate_with orc _ v = Ok v) by (eapply validate_idem; [exact HF|exact H])).
    - cbn [goodb]. rewrite (fix_point_of_idem _ _ Hi), andb_true_r. rewrite v_any in H by exact Hx. now injection H as <-.
    - cbn [goodb]. rewrite (fix_point_of_idem _ _ Hi), andb_true_r. rewrite v_str in H by exact Hx.
      apply bind_ok in H as [s [_ H]]. now injection H as <-.
    - cbn [goodb]. rewrite (fix_point_of_idem _ _ Hi), andb_true_r. rewrite v_int in H by exact Hx.
      apply int_validate_exact in H as [z [_ [_ ->]]]. reflexivity.
    - cbn [goodb]. rewrite (fix_point_of_idem _ _ Hi), andb_true_r. rewrite v_float in H by exact Hx.
      apply float_validate_ok in H as [g [_ [_ ->]]]. reflexivity.
    - cbn [goodb]. rewrite (fix_point_of_idem _ _ Hi), andb_true_r. rewrite v_bool in H by exact Hx.
      apply bool_validate_exact in H as [b [_ ->]]. reflexivity.
    - cbn [goodb]. rewrite (fix_point_of_idem _ _ Hi), andb_true_r.
      pose proof (validate_sound orc _ _ _ Hp H) as M. unfold meets in M. cbn [sat] in M.
      destruct M as [[-> _]|[a [-> _]]]; reflexivity.
    - cbn [goodb]. rewrite (fix_point_of_idem _ _ Hi), andb_true_r.
      pose proof (validate_sound orc _ _ _ Hp H) as M. unfold meets in M. cbn [sat] in M.
      destruct M as [[-> _]|[a [p [-> _]]]]; reflexivity.
    - cbn [goodb]. rewrite (fix_point_of_idem _ _ Hi), andb_true_r.
      pose proof (validate_sound orc _ _ _ Hp H) as M. unfold meets in M. cbn [sat] in M.
      destruct M as [[-> _]|[s [-> _]]]; reflexivity.
    - cbn [goodb]. rewrite (fix_point_of_idem _ _ Hi), andb_true_r.
      pose proof (validate_sound orc _ _ _ Hp H) as M. unfold meets in M. cbn [sat] in M.
      destruct M as [[-> _]|[b [-> Hb]]]; [reflexivity|exact Hb].
    - cbn [goodb]. rewrite (fix_point_of_idem _ _ Hi), andb_true_r.
      destruct x as [| | | | | |tg l|l|tg d| |]; cbn in H; try discriminate; try congruence.
      + destruct (req && Net.is_nil l); [discriminate|]. now injection H as <-.
      + destruct (req && Net.is_nil l); [discriminate|]. injection H as <-. exact Hp.
    - (* FListT *) cbn [has_F13] in HF.
      assert (G : forall l, forallb plain l = true ->
                (if req && Net.is_nil l then Err EValue
                 else if (0 =? fid + 1) then Ok (PList (fid + 1) l)
                 else if negb (0 =? 0) then Unmodelled
                 else do l' <- Fields.map_res (validate_with orc f) l ;; Ok (PList (fid + 1) l')) = Ok v ->
                goodb orc (FListT fid req f) v = true).
      { intros l Hl G. destruct (req && Net.is_nil l) eqn:R; [discriminate|].
        assert (Hne : (0 =? fid + 1) = false) by (apply N.eqb_neq; lia). rewrite Hne in G. cbn [negb N.eqb] in G.
        apply bind_ok in G as [l' [M G]]. injection G as <-. cbn [goodb]. rewrite N.eqb_refl.
        rewrite (is_nil_length _ l' l (map_res_length _ _ _ _ _ M)), R. cbn [negb andb].
        apply map_res_Forall2 in M. rewrite forallb_forall in Hl. clear R H. apply forallb_forall.
        induction M as [|a b l l' Hab M IHM]; intros y Hy; [destruct Hy|].
        destruct Hy as [<-|Hy].
        - apply (IHf HF a b); [apply Hl; now left|exact Hab].
        - apply IHM; [|exact Hy]. intros z Hz. apply Hl. now right. }
      destruct x as [| | | | | |tg l|l|tg d| |]; cbn [validate_with] in H; try discriminate; try congruence.
      + cbn in Hp. apply andb_true_iff in Hp as [Ht Hl]. apply N.eqb_eq in Ht. subst tg. exact (G l Hl H).
      + exact (G l Hp H).
    - cbn [goodb]. rewrite (fix_point_of_idem _ _ Hi), andb_true_r.
      destruct x as [| | | | | |tg l|l|tg d| |]; cbn in H; try discriminate; try congruence.
      destruct (req && Net.is_nil d); [discriminate|]. now injection H as <-.
    - (* FDictT *) cbn [has_F13] in HF. apply orb_false_iff in HF as [HF1 HF2].
      destruct x as [| | | | | |tg l|l|tg d| |]; cbn [validate_with] in H; try discriminate; try congruence.
      cbn [plain] in Hp. apply andb_true_iff in Hp as [Ht Hd]. apply N.eqb_eq in Ht. subst tg.
      destruct (req && Net.is_nil d) eqn:R; [discriminate|].
      assert (Hne : (0 =? fid + 1) = false) by (apply N.eqb_neq; lia). rewrite Hne in H. cbn [negb N.eqb] in H.
      apply bind_ok in H as [d' [M H]]. apply bind_ok in H as [d'' [B H]]. injection H as <-.
      cbn [goodb]. rewrite N.eqb_refl.
      assert (Rn : req && Net.is_nil d'' = false).
      { destruct req; [cbn in *|reflexivity]. apply is_nil_false. apply is_nil_false in R.
        apply (dict_build_nonnil _ _ B). intro Hn. apply R. apply length_zero_iff_nil.
        rewrite <- (map_res_length _ _ _ _ _ M), Hn. reflexivity. }
      rewrite Rn. cbn [negb andb].
      assert (F : Forall (fun kv => goodb orc f1 (fst kv) = true /\ goodb orc f2 (snd kv) = true) d'').
      { apply (dict_build_acc_Forall (fun k => goodb orc f1 k = true) (fun x => goodb orc f2 x = true) d' [] d'' B); [constructor|].
        apply map_res_Forall2 in M. apply plain_dict_Forall in Hd. clear R B Rn.
        induction M as [|[k x] [k' x'] d d' Hab M IHM]; constructor.
        - inversion Hd as [|? ? [Pk Px] Hd']; subst. cbn in Pk, Px, Hab.
          apply bind_ok in Hab as [k2 [Ek Hab]]. apply bind_ok in Hab as [x2 [Ex Hab]]. injection Hab as <- <-.
          cbn. split; [exact (IHf1 HF1 k k2 Pk Ek)|exact (IHf2 HF2 x x2 Px Ex)].
        - inversion Hd; subst. now apply IHM. }
      apply forallb_forall. intros kv Hkv. rewrite Forall_forall in F. destruct (F kv Hkv) as [A C]. now rewrite A, C.
    - destruct x; [congruence|discriminate..].
  Qed.

  Lemma input_ok_validate_good : forall f y z, has_F13 f = false -> input_ok orc f y = true ->
    validate_with orc f y = Ok z -> goodb orc f z = true.
  Proof.
    intros f y z HF Hi H. unfold input_ok in Hi. destruct (plain y) eqn:P; cbn [orb] in Hi.
    - eapply validate_good; eassumption.
    - pose proof (goodb_top_good orc _ _ _ Hi H) as G. now rewrite (goodb_fixed orc _ _ _ G H).
  Qed.

  Lemma on_pair_ok : forall (fk fv : pyval -> res pyval) k v r,
    on_pair fk fv (k, v) = Ok r -> exists k' v', r = (k', v') /\ fk k = Ok k' /\ fv v = Ok v'.
  Proof.
    intros fk fv k v r H. cbn in H. apply bind_ok in H as [k' [A H]]. apply bind_ok in H as [v' [B H]].
    injection H as <-. eauto.
  Qed.

  (* the guard of cf_validate never fires on the load route: what to_python builds from plain (document) data is plain or a
     proxy of this field whose items are validated values -- outside the F13 region, where a validated item need not be a
     fixed point of its field *)
  Theorem to_python_good : forall f, has_F13 f = false -> forall xi x', plain xi = true ->
    to_python_with orc f xi = Ok x' -> input_ok orc f x' = true.
  Proof.
    induction f; intros HF xi x' Hp H;
      try (cbn in H; injection H as <-; unfold input_ok; now rewrite Hp).
    - (* FBytes *) cbn in H. unfold bytes_to_python in H. destruct xi; try discriminate.
      + injection H as <-. reflexivity.
      + destruct enc.
        * apply bind_ok in H as [b [E H]]. injection H as <-. unfold input_ok. cbn [plain].
          unfold b64_decode_py in E. destruct (existsb _ s); [discriminate|].
          destruct (b64_dec s) as [b0|] eqn:D.
          -- injection E as <-. now rewrite (b64_dec_bytes_ok _ _ D).
          -- destruct (forallb is_b64_char s); [destruct (_ =? 0)|]; discriminate.
        * destruct (hex_dec s) as [b|] eqn:D; [|discriminate]. injection H as <-. unfold input_ok. cbn [plain].
          now rewrite (hex_dec_bytes_ok _ _ D).
    - (* FListT *) cbn [has_F13] in HF.
      assert (G : forall l, forallb plain l = true ->
                (do l1 <- Fields.map_res (to_python_with orc f) l ;; do l2 <- Fields.map_res (validate_with orc f) l1 ;;
                 Ok (PList (fid + 1) l2)) = Ok x' -> input_ok orc (FListT fid req f) x' = true).
      { intros l Hl G. apply bind_ok in G as [l1 [A G]]. apply bind_ok in G as [l2 [B G]]. injection G as <-.
        unfold input_ok. cbn [plain goodb_top]. rewrite N.eqb_refl. cbn [andb].
        replace ((fid + 1 =? 0) && forallb plain l2) with false by (symmetry; apply andb_false_iff; left; apply N.eqb_neq; lia).
        cbn [orb]. apply map_res_Forall2 in A, B. rewrite forallb_forall in Hl. clear H.
        revert l2 B. induction A as [|a b l l1 Hab A IHA]; intros l2 B; inversion B as [|? c ? l2' Hbc B']; subst; [reflexivity|].
        cbn [forallb]. apply andb_true_iff. split.
        - eapply input_ok_validate_good; [exact HF| |exact Hbc]. apply (IHf HF a b); [apply Hl; now left|exact Hab].
        - apply IHA; [|exact B']. intros z Hz. apply Hl. now right. }
      destruct xi as [| | | | | |tg l|l|tg d| |]; cbn [to_python_with] in H; try discriminate.
      + injection H as <-. unfold input_ok. cbn [goodb_top forallb]. now rewrite N.eqb_refl, orb_true_r.
      + cbn in Hp. apply andb_true_iff in Hp as [_ Hl]. exact (G l Hl H).
      + exact (G l Hp H).
    - (* FDictT *) cbn [has_F13] in HF. apply orb_false_iff in HF as [HF1 HF2].
      destruct xi as [| | | | | |tg l|l|tg d| |]; cbn [to_python_with] in H; try discriminate.
      + injection H as <-. unfold input_ok. cbn [goodb_top forallb]. now rewrite N.eqb_refl, orb_true_r.
      + cbn [plain] in Hp. apply andb_true_iff in Hp as [_ Hd]. apply plain_dict_Forall in Hd.
        apply bind_ok in H as [d1 [A H]]. apply bind_ok in H as [d2 [B H]]. apply bind_ok in H as [d3 [C H]].
        apply bind_ok in H as [d4 [D H]]. injection H as <-.
        assert (F1 : Forall (fun kv => input_ok orc f1 (fst kv) = true /\ input_ok orc f2 (snd kv) = true) d1).
        { apply map_res_Forall2 in A. clear -A Hd IHf1 IHf2 HF1 HF2.
          induction A as [|[k x] r d d1 Hab A IHA]; constructor.
          - inversion Hd as [|? ? [Pk Px] Hd']; subst. cbn in Pk, Px.
            destruct (on_pair_ok _ _ _ _ _ Hab) as (k' & v' & -> & Ek & Ev). cbn. split; [exact (IHf1 HF1 k k' Pk Ek)|exact (IHf2 HF2 x v' Px Ev)].
          - inversion Hd; subst. now apply IHA. }
        assert (F2 : Forall (fun kv => input_ok orc f1 (fst kv) = true /\ input_ok orc f2 (snd kv) = true) d2).
        { apply (dict_build_acc_Forall (fun k => input_ok orc f1 k = true) (fun x => input_ok orc f2 x = true) d1 [] d2 B); [constructor|exact F1]. }
        assert (F3 : Forall (fun kv => goodb orc f1 (fst kv) = true /\ goodb orc f2 (snd kv) = true) d3).
        { apply map_res_Forall2 in C. clear -C F2 HF1 HF2.
          induction C as [|[k x] r d2 d3 Hab C IHC]; constructor.
          - inversion F2 as [|? ? [Pk Px] F2']; subst. cbn in Pk, Px.
            destruct (on_pair_ok _ _ _ _ _ Hab) as (k' & v' & -> & Ek & Ev). cbn.
            split; eapply input_ok_validate_good; eassumption.
          - inversion F2; subst. now apply IHC. }
        assert (F4 : Forall (fun kv => goodb orc f1 (fst kv) = true /\ goodb orc f2 (snd kv) = true) d4).
        { apply (dict_build_acc_Forall (fun k => goodb orc f1 k = true) (fun x => goodb orc f2 x = true) d3 [] d4 D); [constructor|exact F3]. }
        unfold input_ok. cbn [goodb_top]. rewrite N.eqb_refl. cbn [andb].
        replace (forallb (fun kv => goodb orc f1 (fst kv) && goodb orc f2 (snd kv)) d4) with true; [apply orb_true_r|].
        symmetry. apply forallb_forall. intros kv Hkv. rewrite Forall_forall in F4. destruct (F4 kv Hkv) as [X Y]. now rewrite X, Y.
    - discriminate.
  Qed.

  (* hence on the load route the configuration's leaf validator IS Fields.validate_with *)
  Corollary cf_validate_after_to_python : forall f xi x', has_F13 (fl_fld f) = false -> plain xi = true ->
    cf_to_python orc f xi = Ok x' -> cf_validate orc f x' = validate_with orc (fl_fld f) x'.
  Proof. intros f xi x' HF Hp H. unfold cf_validate. now rewrite (to_python_good _ HF _ _ Hp H). Qed.
End G.
