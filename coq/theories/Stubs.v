(* Stubs.v — model of cincoconfig/stubs.py (generate_stub and its helpers), the stub AST, its
   renderer and a parser for the stub fragment grammar.  Definitions only (no proofs).

   What is code of the repository and modelled statement by statement:
     get_annotation_typestr  -> typestr          (stubs.py:17-52)
     get_arg_annotation      -> arg_annotation   (stubs.py:55-64)
     get_retval_annotation   -> retval_annotation(stubs.py:67-79)
     get_method_annotation   -> method_annotation(stubs.py:82-133)   text level, "*" / "*args" items and
                                                                     `items[0] = "self"` included
     generate_stub           -> stub_lines / generate_stub (stubs.py:136-197)
   What is library behaviour and enters as case data: `str()` of a typing construct, `__module__` /
   `__name__` of a class, the FullArgSpec of a function (inspect.getfullargspec).
   The only refactoring: "%s: %s" % (key, typestr) is formatted when the line is built, not when the
   pair is collected (pure string formatting, same result). *)
From Coq Require Import ZArith NArith String List Bool.
From Cinco Require Import Base Str.
Import ListNotations.
Open Scope N_scope.

(* ------------------------------------------------------------------------------------------ *)
(* inputs                                                                                     *)
(* ------------------------------------------------------------------------------------------ *)

(* a storage type: a class (isinstance(x, type)) with its __module__ ("" = None/empty) and __name__,
   or any other object, of which only str(x) matters *)
Inductive sty :=
| SClass (modname name : str)
| SRepr (repr : str).

(* the argument of get_annotation_typestr, by the isinstance chain of stubs.py:25-41 *)
Inductive aobj :=
| AField (st : sty)            (* a Field: field.storage_type *)
| AConfigType (st : sty)       (* a ConfigTypeField: field.config_type *)
| ASchema                      (* a Schema: the class cincoconfig.core.Schema *)
| AType (modname name : str)   (* a class *)
| AStr (s : str)               (* a string annotation *)
| ANone                        (* None *)
| ATyping (repr : str)         (* an object of the typing / types modules: str(obj) *)
| AOther.                      (* anything else: TypeError *)

(* inspect.getfullargspec(field.method); defaults and kwonlydefaults are read into `_` by the code *)
Record argspec := mk_argspec {
  as_args : list str;            (* positional-only + positional-or-keyword names *)
  as_varargs : option str;
  as_varkw : option str;
  as_ndefaults : N;              (* ignored by stubs.py *)
  as_kwonly : list str;
  as_kwdefaults : list str;      (* ignored by stubs.py *)
  as_anns : list (str * aobj)    (* annotations, "return" included *)
}.

(* a schema entry by the isinstance chain of stubs.py:172-177 *)
Inductive fkind :=
| KVirtual (a : aobj)
| KMethod (sp : argspec)
| KField (a : aobj).             (* every other BaseField: Field, ConfigTypeField, Schema *)

(* first argument of generate_stub *)
Inductive target :=
| TgtType (name : str)           (* a ConfigType subclass, with its __name__ *)
| TgtConfig
| TgtSchema
| TgtOther.

(* ------------------------------------------------------------------------------------------ *)
(* helpers                                                                                    *)
(* ------------------------------------------------------------------------------------------ *)
Definition truthy (s : str) : bool := match s with [] => false | _ :: _ => true end.
Definition s_any : str := sa "typing.Any".
Definition s_self : str := sa "self".
Definition s_return : str := sa "return".
Definition s_builtins : str := sa "builtins".
Definition s_comma : str := [44; 32].           (* ", " *)
Definition s_colon : str := [58; 32].           (* ": " *)
Definition s_dots : str := sa ": ...".
Definition s_arrow : str := sa " -> ".
Definition s_indent : str := sa "    ".
Definition s_class : str := sa "class ".
Definition s_base : str := sa "(cincoconfig.core.ConfigType):".
Definition s_def : str := sa "def ".
Definition s_init : str := sa "__init__".
Definition indent (s : str) : str := s_indent ++ s.

Section MapM.
  Context {A B : Type} (f : A -> res B).
  Fixpoint mapM (l : list A) : res (list B) :=
    match l with
    | [] => Ok []
    | x :: r => do y <- f x ;; do ys <- mapM r ;; Ok (y :: ys)
    end.
End MapM.
Section MapO.
  Context {A B : Type} (f : A -> option B).
  Fixpoint mapO (l : list A) : option (list B) :=
    match l with
    | [] => Some []
    | x :: r => match f x, mapO r with Some y, Some ys => Some (y :: ys) | _, _ => None end
    end.
End MapO.
Definition fmap {A B} (f : A -> B) (r : res A) : res B := do a <- r ;; Ok (f a).

(* ------------------------------------------------------------------------------------------ *)
(* get_annotation_typestr                                                                     *)
(* ------------------------------------------------------------------------------------------ *)
Definition sty_str (st : sty) : str :=
  match st with
  | SClass m n => if truthy m && negb (str_eqb m s_builtins) then m ++ [46] ++ n else n
  | SRepr r => r
  end.
Definition or_any (s : str) : str := if truthy s then s else s_any.   (* retval or "typing.Any" *)

Definition typestr (a : aobj) : res str :=
  match a with
  | AField st => Ok (or_any (sty_str st))
  | AConfigType st => Ok (or_any (sty_str st))
  | ASchema => Ok (or_any (sty_str (SClass (sa "cincoconfig.core") (sa "Schema"))))
  | AType m n => Ok (or_any (sty_str (SClass m n)))
  | AStr s => Ok (or_any s)
  | ANone => Ok (or_any (sa "None"))
  | ATyping r => Ok (or_any r)
  | AOther => Err EType
  end.

(* get_retval_annotation: a bare `except:` swallows the TypeError *)
Definition retval_annotation (a : aobj) : str :=
  match typestr a with
  | Ok t => if truthy t then s_arrow ++ t else []
  | _ => []
  end.

(* ------------------------------------------------------------------------------------------ *)
(* get_method_annotation (text level, as the code builds it)                                  *)
(* ------------------------------------------------------------------------------------------ *)
Definition starts_star (s : str) : bool := match s with c :: _ => c =? 42 | [] => false end.
Definition star (v : str) : str := 42 :: v.

Definition arg_item (anns : list (str * aobj)) (arg : str) : res str :=
  do t <- match assoc str_eqb arg anns with
          | Some a => typestr a
          | None => Ok (if starts_star arg then [] else s_any)
          end ;;
  Ok (if truthy t then arg ++ s_colon ++ t else arg).

Definition nonempty {A} (l : list A) : bool := match l with [] => false | _ :: _ => true end.

Definition method_annotation (key : str) (sp : argspec) : res str :=
  let anns := as_anns sp in
  let has_kw := nonempty (as_kwonly sp) in
  let args1 := if has_kw
               then as_args sp ++ [match as_varargs sp with None => [42] | Some v => star v end] ++ as_kwonly sp
               else as_args sp in
  let varargs1 := if has_kw then None else as_varargs sp in
  do items <- mapM (arg_item anns) args1 ;;
  let items := items ++ (match varargs1 with Some v => [star v] | None => [] end)
                     ++ (match as_varkw sp with Some k => [42 :: 42 :: k] | None => [] end) in
  match items with
  | [] => Err EIndex                                       (* items[0] = "self" on an empty list *)
  | _ :: r =>
      let ann := s_def ++ key ++ [40] ++ join s_comma (s_self :: r) ++ [41] in
      let ann := match assoc str_eqb s_return anns with
                 | Some a => ann ++ retval_annotation a
                 | None => ann
                 end in
      Ok (ann ++ s_dots)
  end.

(* ------------------------------------------------------------------------------------------ *)
(* generate_stub                                                                              *)
(* ------------------------------------------------------------------------------------------ *)
Definition class_name_of (tgt : target) (cn : option str) : res str :=
  let truthy_o := fun o => match o with Some s => truthy s | None => false end in
  match tgt with
  | TgtOther => Err EType
  | _ =>
      let cn' := match tgt with
                 | TgtType n => if truthy_o cn then cn else Some n
                 | _ => cn
                 end in
      match cn' with
      | Some (c :: r) => Ok (c :: r)
      | _ => Err EType
      end
  end.

Record collected := mk_collected {
  c_props : list (str * str);       (* properties: every non-method field *)
  c_attrs : list (str * str);       (* attrs: the persistent fields *)
  c_methods : list (str * argspec)
}.

Definition arg_annotation (key : str) (a : aobj) : res (str * str) :=
  do t <- typestr a ;; Ok (key, t).
Definition ann_str (kt : str * str) : str := fst kt ++ s_colon ++ snd kt.    (* "%s: %s" *)

(* the loop over schema._fields.items(); the keys of a dict are distinct, so the three dict
   insertions are appends *)
Fixpoint collect (fs : list (str * fkind)) : res collected :=
  match fs with
  | [] => Ok (mk_collected [] [] [])
  | (k, f) :: r =>
      match f with
      | KVirtual a =>
          do kt <- arg_annotation k a ;; do c <- collect r ;;
          Ok (mk_collected (kt :: c_props c) (c_attrs c) (c_methods c))
      | KMethod sp =>
          do c <- collect r ;;
          Ok (mk_collected (c_props c) (c_attrs c) ((k, sp) :: c_methods c))
      | KField a =>
          do kt <- arg_annotation k a ;; do c <- collect r ;;
          Ok (mk_collected (kt :: c_props c) (kt :: c_attrs c) (c_methods c))
      end
  end.

Definition method_line (km : str * argspec) : res str :=
  do a <- method_annotation (fst km) (snd km) ;; Ok (indent a).

Definition stub_lines (tgt : target) (cn : option str) (fs : list (str * fkind)) : res (list str) :=
  do name <- class_name_of tgt cn ;;
  do c <- collect fs ;;
  let blocks := [s_class ++ name ++ s_base]
                ++ map (fun kt => indent (ann_str kt)) (c_props c)
                ++ [[]]
                ++ [sa "    def __init__(" ++ join s_comma (s_self :: map ann_str (c_attrs c)) ++ sa "): ..."] in
  let blocks := if nonempty (c_methods c) then blocks ++ [[]] else blocks in
  do ml <- mapM method_line (c_methods c) ;;
  Ok (blocks ++ ml).

Definition generate_stub (tgt : target) (cn : option str) (fs : list (str * fkind)) : res str :=
  do l <- stub_lines tgt cn fs ;; Ok (join [10] l).

(* the function has no output channel: what it prints is [] by construction *)
Definition generate_stub_io (tgt : target) (cn : option str) (fs : list (str * fkind)) : res str * list str :=
  (generate_stub tgt cn fs, []).

(* ------------------------------------------------------------------------------------------ *)
(* the stub AST (the shape of Python's ast.ClassDef / ast.arguments) and its renderer           *)
(* ------------------------------------------------------------------------------------------ *)
Record arguments := mk_args {
  a_args : list (str * option str);     (* positional-or-keyword, with annotation *)
  a_vararg : option str;
  a_kwonly : list (str * option str);
  a_kwarg : option str
}.
Record mdef := mk_mdef { m_name : str; m_args : arguments; m_ret : option str }.
Record stub := mk_stub {
  st_class : str;
  st_attrs : list (str * str);          (* annotated assignments  name: type *)
  st_init : list (str * str);           (* __init__ parameters after self *)
  st_methods : list mdef
}.

Inductive item := IPlain (n : str) (t : option str) | IStar | IVarArgs (n : str) | IVarKw (n : str).

Definition plain (nt : str * option str) : item := IPlain (fst nt) (snd nt).
Definition items_of (a : arguments) : list item :=
  map plain (a_args a)
  ++ (match a_vararg a, a_kwonly a with
      | Some v, _ => [IVarArgs v]
      | None, [] => []
      | None, _ :: _ => [IStar]
      end)
  ++ map plain (a_kwonly a)
  ++ (match a_kwarg a with Some k => [IVarKw k] | None => [] end).

Definition render_item (i : item) : str :=
  match i with
  | IPlain n None => n
  | IPlain n (Some t) => n ++ s_colon ++ t
  | IStar => [42]
  | IVarArgs n => 42 :: n
  | IVarKw n => 42 :: 42 :: n
  end.

Definition render_def_body (d : mdef) : str :=
  s_def ++ m_name d ++ [40] ++ join s_comma (map render_item (items_of (m_args d))) ++ [41]
  ++ (match m_ret d with Some t => s_arrow ++ t | None => [] end) ++ s_dots.
Definition render_def (d : mdef) : str := indent (render_def_body d).

Definition some_snd (kt : str * str) : str * option str := (fst kt, Some (snd kt)).
Definition init_def (init : list (str * str)) : mdef :=
  mk_mdef s_init (mk_args ((s_self, None) :: map some_snd init) None [] None) None.

Definition render_attr (kt : str * str) : str := indent (ann_str kt).

Definition render (s : stub) : list str :=
  (s_class ++ st_class s ++ s_base)
  :: map render_attr (st_attrs s)
  ++ [[]]
  ++ [render_def (init_def (st_init s))]
  ++ (match st_methods s with [] => [] | _ :: _ => [] :: map render_def (st_methods s) end).

(* ------------------------------------------------------------------------------------------ *)
(* the intended AST of generate_stub                                                          *)
(* ------------------------------------------------------------------------------------------ *)
Definition ann_pair (anns : list (str * aobj)) (arg : str) : res (str * option str) :=
  do t <- match assoc str_eqb arg anns with
          | Some a => typestr a
          | None => Ok s_any
          end ;;
  Ok (arg, Some t).

Definition ret_ann (anns : list (str * aobj)) : option str :=
  match assoc str_eqb s_return anns with
  | Some a => match typestr a with
              | Ok t => if truthy t then Some t else None
              | _ => None
              end
  | None => None
  end.

(* open finding F45: the function has no plain leading positional parameter *)
Definition known_F45 (sp : argspec) : bool := negb (nonempty (as_args sp)).

Definition method_ast (key : str) (sp : argspec) : res mdef :=
  match as_args sp with
  | [] => Err EIndex                       (* region of F45: no AST is intended here *)
  | a0 :: pos =>
      do _a0 <- ann_pair (as_anns sp) a0 ;;       (* the config parameter's annotation is evaluated, then dropped *)
      do pos' <- mapM (ann_pair (as_anns sp)) pos ;;
      do kw' <- mapM (ann_pair (as_anns sp)) (as_kwonly sp) ;;
      Ok (mk_mdef key (mk_args ((s_self, None) :: pos') (as_varargs sp) kw' (as_varkw sp)) (ret_ann (as_anns sp)))
  end.

Definition method_ast_of (km : str * argspec) : res mdef := method_ast (fst km) (snd km).

Definition stub_ast (tgt : target) (cn : option str) (fs : list (str * fkind)) : res stub :=
  do name <- class_name_of tgt cn ;;
  do c <- collect fs ;;
  do ms <- mapM method_ast_of (c_methods c) ;;
  Ok (mk_stub name (c_props c) (c_attrs c) ms).

(* ------------------------------------------------------------------------------------------ *)
(* a parser for the stub fragment grammar: lines -> AST                                       *)
(* ------------------------------------------------------------------------------------------ *)
Definition is_idchar (c : N) : bool := is_alnum c || (c =? 95).
Definition is_idstart (c : N) : bool := is_alpha c || (c =? 95).
Definition is_ident (s : str) : bool :=
  match s with
  | c :: r => is_idstart c && forallb is_idchar r
  | [] => false
  end.

Fixpoint strip_prefix (p s : str) : option str :=
  match p, s with
  | [], _ => Some s
  | a :: p', b :: s' => if a =? b then strip_prefix p' s' else None
  | _ :: _, [] => None
  end.

Fixpoint strip_suffix (suf s : str) {struct s} : option str :=
  if str_eqb s suf then Some []
  else match s with
       | [] => None
       | c :: r => match strip_suffix suf r with Some t => Some (c :: t) | None => None end
       end.

Fixpoint span_id (s : str) : str * str :=
  match s with
  | c :: r => if is_idchar c then (let '(a, b) := span_id r in (c :: a, b)) else ([], s)
  | [] => ([], [])
  end.

Definition is_open (c : N) : bool := (c =? 40) || (c =? 91) || (c =? 123).
Definition is_close (c : N) : bool := (c =? 41) || (c =? 93) || (c =? 125).

(* '<' or '>': never part of a type expression; str() of a typing construct over a function-local
   class contains "<locals>" (open finding F52) *)
Definition is_angle (c : N) : bool := (c =? 60) || (c =? 62).
Definition known_F52 (t : str) : bool := existsb is_angle t.

(* bracket depth after reading t from depth d; None when a closing bracket or a comma occurs at
   depth 0, or a line break or an angle bracket anywhere *)
Fixpoint walk (d : nat) (t : str) : option nat :=
  match t with
  | [] => Some d
  | c :: r =>
      if (c =? 10) || is_angle c then None
      else if is_open c then walk (S d) r
      else if is_close c then match d with O => None | S d' => walk d' r end
      else if (c =? 44) && Nat.eqb d 0 then None
      else walk d r
  end.

(* a type string is a single-line, bracket-balanced token without a comma outside brackets *)
Definition typestr_ok (t : str) : bool :=
  match walk 0 t with Some O => true | _ => false end.

Definition push (c : N) (r : option (list str * str)) : option (list str * str) :=
  match r with
  | Some (i :: l, rest) => Some ((c :: i) :: l, rest)
  | _ => None
  end.

(* the parameter list after "(": items separated by ", " outside brackets, up to the matching ")";
   returns the items and what follows the ")" *)
Fixpoint split_items (d : nat) (s : str) : option (list str * str) :=
  match s with
  | [] => None
  | c :: r =>
      if c =? 10 then None
      else if is_open c then push c (split_items (S d) r)
      else if is_close c then
        match d with
        | O => if c =? 41 then Some ([[]], r) else None
        | S d' => push c (split_items d' r)
        end
      else if (c =? 44) && Nat.eqb d 0 then
        match r with
        | c2 :: r' =>
            if c2 =? 32
            then match split_items 0 r' with Some (l, rest) => Some ([] :: l, rest) | None => None end
            else None
        | [] => None
        end
      else push c (split_items d r)
  end.

Definition parse_item (s : str) : option item :=
  match s with
  | c :: r =>
      if c =? 42 then
        match r with
        | [] => Some IStar
        | c2 :: r2 =>
            if c2 =? 42
            then (if is_ident r2 then Some (IVarKw r2) else None)
            else (if is_ident r then Some (IVarArgs r) else None)
        end
      else
        let '(n, rest) := span_id s in
        if is_ident n then
          match rest with
          | [] => Some (IPlain n None)
          | _ => match strip_prefix s_colon rest with
                 | Some t => Some (IPlain n (Some t))
                 | None => None
                 end
          end
        else None
  | [] => None
  end.

(* keyword-only part: plain items, then at most one **kw *)
Fixpoint cl_kw (l : list item) : option (list (str * option str) * option str) :=
  match l with
  | [] => Some ([], None)
  | IPlain n t :: r => match cl_kw r with Some (k, w) => Some ((n, t) :: k, w) | None => None end
  | IVarKw w :: r => match r with [] => Some ([], Some w) | _ :: _ => None end
  | _ => None
  end.

Fixpoint cl_pos (l : list item) : option arguments :=
  match l with
  | [] => Some (mk_args [] None [] None)
  | IPlain n t :: r =>
      match cl_pos r with
      | Some a => Some (mk_args ((n, t) :: a_args a) (a_vararg a) (a_kwonly a) (a_kwarg a))
      | None => None
      end
  | IStar :: r =>
      match cl_kw r with
      | Some (k :: ks, w) => Some (mk_args [] None (k :: ks) w)     (* named arguments must follow bare * *)
      | _ => None
      end
  | IVarArgs v :: r =>
      match cl_kw r with
      | Some (k, w) => Some (mk_args [] (Some v) k w)
      | None => None
      end
  | IVarKw w :: r => match r with [] => Some (mk_args [] None [] (Some w)) | _ :: _ => None end
  end.

Definition parse_ret (rest : str) : option (option str) :=
  if str_eqb rest s_dots then Some None
  else match strip_prefix s_arrow rest with
       | Some r => match strip_suffix s_dots r with Some t => Some (Some t) | None => None end
       | None => None
       end.

Definition parse_def (line : str) : option mdef :=
  match strip_prefix (s_indent ++ s_def) line with
  | None => None
  | Some l1 =>
      let '(n, rest) := span_id l1 in
      if is_ident n then
        match rest with
        | c :: r =>
            if c =? 40 then
              match split_items 0 r with
              | Some (strs, rest2) =>
                  match mapO parse_item strs with
                  | Some items =>
                      match cl_pos items, parse_ret rest2 with
                      | Some a, Some ret => Some (mk_mdef n a ret)
                      | _, _ => None
                      end
                  | None => None
                  end
              | None => None
              end
            else None
        | [] => None
        end
      else None
  end.

Definition typed (nt : str * option str) : option (str * str) :=
  match snd nt with Some t => Some (fst nt, t) | None => None end.

Definition parse_init (line : str) : option (list (str * str)) :=
  match parse_def line with
  | Some d =>
      if str_eqb (m_name d) s_init then
        match m_ret d, a_vararg (m_args d), a_kwonly (m_args d), a_kwarg (m_args d), a_args (m_args d) with
        | None, None, [], None, (self, None) :: r => if str_eqb self s_self then mapO typed r else None
        | _, _, _, _, _ => None
        end
      else None
  | None => None
  end.

Definition parse_class (line : str) : option str :=
  match strip_prefix s_class line with
  | Some l1 =>
      let '(n, rest) := span_id l1 in
      if is_ident n && str_eqb rest s_base then Some n else None
  | None => None
  end.

Definition parse_attr (line : str) : option (str * str) :=
  match strip_prefix s_indent line with
  | Some l1 =>
      let '(n, rest) := span_id l1 in
      if is_ident n then
        match strip_prefix s_colon rest with
        | Some t => Some (n, t)
        | None => None
        end
      else None
  | None => None
  end.

(* attribute lines up to the first empty line *)
Fixpoint parse_attrs (ls : list str) : option (list (str * str) * list str) :=
  match ls with
  | [] => None
  | l :: r =>
      match l with
      | [] => Some ([], r)
      | _ :: _ =>
          match parse_attr l, parse_attrs r with
          | Some a, Some (ats, rest) => Some (a :: ats, rest)
          | _, _ => None
          end
      end
  end.

Definition parse_stub (ls : list str) : option stub :=
  match ls with
  | [] => None
  | l0 :: r =>
      match parse_class l0, parse_attrs r with
      | Some c, Some (attrs, il :: r2) =>
          match parse_init il with
          | Some init =>
              match r2 with
              | [] => Some (mk_stub c attrs init [])
              | [] :: m :: ms =>
                  match mapO parse_def (m :: ms) with
                  | Some ds => Some (mk_stub c attrs init ds)
                  | None => None
                  end
              | _ => None
              end
          | None => None
          end
      | _, _ => None
      end
  end.

Definition parse_text (text : str) : option stub := parse_stub (split 10 text).

(* ------------------------------------------------------------------------------------------ *)
(* the preconditions of the C20 theorems, as boolean predicates on a case (evaluated on every   *)
(* correspondence case: the last component of the observation)                                *)
(* ------------------------------------------------------------------------------------------ *)
Definition opt_ok (o : option str) : bool := match o with Some v => is_ident v | None => true end.

(* the names getfullargspec reports are identifiers; the annotation keys are parameter names or "return" *)
Definition spec_names_ok (sp : argspec) : bool :=
  forallb is_ident (as_args sp) && forallb is_ident (as_kwonly sp) && opt_ok (as_varargs sp) && opt_ok (as_varkw sp)
  && forallb is_ident (map fst (as_anns sp)).

Definition spec_ok (sp : argspec) : bool := spec_names_ok sp && negb (known_F45 sp).
Definition methods_ok (fs : list (str * fkind)) : bool :=
  forallb (fun kf => match snd kf with KMethod sp => spec_ok sp | _ => true end) fs.

Definition aobj_ok (a : aobj) : bool := match typestr a with Ok t => typestr_ok t | _ => true end.
Definition meth_ok (sp : argspec) : bool := spec_ok sp && forallb aobj_ok (map snd (as_anns sp)).
Definition field_ok (kf : str * fkind) : bool :=
  is_ident (fst kf) && match snd kf with KVirtual a => aobj_ok a | KField a => aobj_ok a | KMethod sp => meth_ok sp end.
Definition fields_ok (fs : list (str * fkind)) : bool := forallb field_ok fs.
Definition class_ok (tgt : target) (cn : option str) : bool :=
  match class_name_of tgt cn with Ok n => is_ident n | _ => true end.

Definition in_domain (tgt : target) (cn : option str) (fs : list (str * fkind)) : bool :=
  class_ok tgt cn && fields_ok fs.

(* ------------------------------------------------------------------------------------------ *)
(* observation of a case (stream `stubs`)                                                     *)
(* ------------------------------------------------------------------------------------------ *)
Definition o_ostr (o : option str) : pyval := match o with Some s => PStr s | None => PNone end.
Definition o_pair (kt : str * str) : pyval := PTuple [PStr (fst kt); PStr (snd kt)].
Definition o_opair (kt : str * option str) : pyval := PTuple [PStr (fst kt); o_ostr (snd kt)].
Definition o_mdef (d : mdef) : pyval :=
  PTuple [PStr (m_name d);
          PList 0 (map o_opair (a_args (m_args d)));
          o_ostr (a_vararg (m_args d));
          PList 0 (map o_opair (a_kwonly (m_args d)));
          o_ostr (a_kwarg (m_args d));
          o_ostr (m_ret d)].
Definition o_stub (s : stub) : pyval :=
  PTuple [PStr (st_class s);
          PList 0 (map o_pair (st_attrs s));
          PList 0 (map o_pair (st_init s));
          PList 0 (map o_mdef (st_methods s))].

(* (raw text, the text parsed by the fragment parser) — the harness pairs the real text with what
   Python's own ast module makes of it *)
Definition run_stubs (c : target * option str * list (str * fkind)) : pyval :=
  let '(tgt, cn, fs) := c in
  match fst (generate_stub_io tgt cn fs) with
  | Ok text => PTuple [o_str "ok"; PStr text;
                       match parse_text text with Some s => o_stub s | None => PNone end;
                       PList 0 (map PStr (snd (generate_stub_io tgt cn fs)));
                       PBool (in_domain tgt cn fs)]
  | Err e => PTuple [o_str "err"; o_errk e]
  | Unmodelled => o_str "unmodelled"
  end.

(* histories: the schema is changed after the first generation (a field or method added / replaced, a
   nested schema added) and the stub is generated again: the model is run on the schema as it is at each
   generation *)
Definition o_text (r : res (list str)) : pyval :=
  match r with
  | Ok l => PStr (join [10] l)
  | Err e => PTuple [o_str "err"; o_errk e]
  | Unmodelled => o_str "unmodelled"
  end.

Definition run_stubs_hist (c : target * option str * list (str * fkind) * list (list (str * fkind))) : pyval :=
  let '(tgt, cn, fs, hist) := c in
  match run_stubs (tgt, cn, fs) with
  | PTuple [a; b; c; d; e] =>
      PTuple [a; b; c; d; e; PList 0 (map (fun fs' => o_text (stub_lines tgt cn fs')) hist)]
  | other => other
  end.
