(* Tree.v — basic value trees, IncludeField.combine_trees (include_field.py:83-102) and
   Config._process_includes (core.py).  Definitions only. *)
From Coq Require Import ZArith NArith String List Bool.
From Cinco Require Import Base.
Import ListNotations.
Open Scope Z_scope.

(* a parsed document: maps with string keys, everything else is an opaque leaf *)
Inductive tree :=
| TLeaf (v : pyval)
| TMap (m : list (str * tree)).

Definition tget (k : str) (m : list (str * tree)) : option tree := assoc str_eqb k m.
Definition tset (k : str) (v : tree) (m : list (str * tree)) : list (str * tree) := assoc_set str_eqb k v m.

(* combine_trees(base, child):  ret = dict(base); for key, value in child.items(): ...
   `merge_val (base.get(key)) value` is the value stored under `key`. *)
Fixpoint merge_val (bv : option tree) (v : tree) {struct v} : tree :=
  match v with
  | TLeaf x => TLeaf x
  | TMap cm =>
      match bv with
      | Some (TMap bm) =>
          TMap ((fix go (acc : list (str * tree)) (cm : list (str * tree)) {struct cm} : list (str * tree) :=
                   match cm with
                   | [] => acc
                   | (k, v') :: r => go (tset k (merge_val (tget k bm) v') acc) r
                   end) bm cm)
      | _ => TMap cm
      end
  end.

(* the same loop, named, for maps *)
Fixpoint combine_go (bm acc cm : list (str * tree)) : list (str * tree) :=
  match cm with
  | [] => acc
  | (k, v) :: r => combine_go bm (tset k (merge_val (tget k bm) v) acc) r
  end.
Definition combine (base child : list (str * tree)) : list (str * tree) := combine_go base base child.

(* ---- observations ---- *)
Fixpoint o_tree (t : tree) : pyval :=
  match t with
  | TLeaf v => v
  | TMap m => PDict 0 ((fix go (m : list (str * tree)) : list (pyval * pyval) :=
                          match m with [] => [] | (k, v) :: r => (PStr k, o_tree v) :: go r end) m)
  end.
Definition o_map (m : list (str * tree)) : pyval := o_tree (TMap m).

(* ---- _process_includes ---- *)
(* the part of a schema that matters here: its include fields (in field order) and its nested Schema
   fields (ConfigTypeField sub-configurations and list items are not descended into, as in the code) *)
Inductive ischema := ISchema (includes : list (str * N)) (subs : list (str * ischema)).
(* (key, fid) of each IncludeField; fid identifies the field for the file oracle (its startdir) *)

Section Includes.
  (* field.include's first half: validate the file name against the field (FilenameField with
     exists='file', startdir), open, read, parse with the same format.  Not code of the merge logic:
     an oracle answered by the harness from the real files.  Returns the child tree or the error. *)
  Variable load_file : N -> pyval -> res (list (str * tree)).

  Fixpoint do_includes (incs : list (str * N)) (t : list (str * tree)) : res (list (str * tree)) :=
    match incs with
    | [] => Ok t
    | (k, fid) :: r =>
        match tget k t with
        | None | Some (TLeaf PNone) => do_includes r t         (* filename is None: continue *)
        | Some v =>
            match load_file fid (o_tree v) with
            | Ok child => do_includes r (combine t child)
            | Err e => Err e
            | Unmodelled => Unmodelled
            end
        end
    end.

  Fixpoint process (s : ischema) (t : list (str * tree)) {struct s} : res (list (str * tree)) :=
    match s with
    | ISchema incs subs =>
        match do_includes incs t with
        | Ok t1 =>
            (fix subs_go (subs : list (str * ischema)) (t : list (str * tree)) {struct subs} : res (list (str * tree)) :=
               match subs with
               | [] => Ok t
               | (k, sub) :: r =>
                   match tget k t with
                   | Some (TMap m) =>
                       match process sub m with
                       | Ok m' => subs_go r (tset k (TMap m') t)
                       | Err e => Err e
                       | Unmodelled => Unmodelled
                       end
                   | _ => subs_go r t
                   end
               end) subs t1
        | Err e => Err e
        | Unmodelled => Unmodelled
        end
    end.
End Includes.

(* stream `merge`: combine_trees(base, child) *)
Definition run_merge (c : list (str * tree) * list (str * tree)) : pyval := o_map (combine (fst c) (snd c)).

(* stream `includes`: the file oracle is a table (fid, file-name value) -> outcome *)
Definition ftable := list (N * pyval * res (list (str * tree))).
Fixpoint ftable_fun (ft : ftable) (fid : N) (name : pyval) : res (list (str * tree)) :=
  match ft with
  | [] => Unmodelled
  | (f, n, r) :: rest => if (N.eqb f fid && pyval_eqb n name)%bool then r else ftable_fun rest fid name
  end.
Definition o_rmap (r : res (list (str * tree))) : pyval :=
  match r with
  | Ok m => PTuple [o_str "ok"; o_map m]
  | Err e => PTuple [o_str "err"; o_errk e]
  | Unmodelled => o_str "unmodelled"
  end.
Definition run_includes (c : ischema * ftable * list (str * tree)) : pyval :=
  let '(s, ft, t) := c in o_rmap (process (ftable_fun ft) s t).

(* the `includes` stream observes the loaded configuration; include fields themselves hold the
   validated (resolved) path, which is FilenameField's business (C05): they are dropped on both sides *)
Fixpoint strip_includes (s : ischema) (t : list (str * tree)) {struct s} : list (str * tree) :=
  match s with
  | ISchema incs subs =>
      let t1 := filter (fun kv => negb (existsb (fun i => str_eqb (fst i) (fst kv)) incs)) t in
      (fix go (subs : list (str * ischema)) (t : list (str * tree)) {struct subs} : list (str * tree) :=
         match subs with
         | [] => t
         | (k, sub) :: r =>
             match tget k t with
             | Some (TMap m) =>
                 match strip_includes sub m with
                 | [] => go r (assoc_del str_eqb k t)    (* an empty sub-configuration is not shown *)
                 | m' => go r (tset k (TMap m') t)
                 end
             | _ => go r t
             end
         end) subs t1
  end.

Definition run_includes_cfg (c : ischema * ftable * list (str * tree)) : pyval :=
  let '(s, ft, t) := c in
  match process (ftable_fun ft) s t with
  | Ok m => PTuple [o_str "ok"; sort_dicts (o_map (strip_includes s m))]
  | Err e => PTuple [o_str "err"; o_errk e]
  | Unmodelled => o_str "unmodelled"
  end.
