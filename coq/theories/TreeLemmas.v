(* TreeLemmas.v — proofs about combine_trees (property C18). *)
From Coq Require Import ZArith NArith String List Bool Lia.
From Cinco Require Import Base Tree.
Import ListNotations.
Open Scope nat_scope.

Lemma list_eqb_N_eq : forall a b : list N, list_eqb N.eqb a b = true <-> a = b.
Proof.
  induction a as [|x xs IH]; intros [|y ys]; simpl; split; intros H; try discriminate; auto.
  - apply andb_true_iff in H as [H1 H2]. apply N.eqb_eq in H1. apply IH in H2. subst; auto.
  - inversion H; subst. rewrite N.eqb_refl. apply IH. reflexivity.
Qed.
Lemma str_eqb_eq a b : str_eqb a b = true <-> a = b.
Proof. apply list_eqb_N_eq. Qed.
Lemma str_eqb_refl a : str_eqb a a = true.
Proof. apply str_eqb_eq; reflexivity. Qed.
Lemma str_eqb_neq a b : str_eqb a b = false <-> a <> b.
Proof.
  split; intros H.
  - intros E. apply str_eqb_eq in E. congruence.
  - destruct (str_eqb a b) eqn:E; auto. apply str_eqb_eq in E. contradiction.
Qed.

(* ---- dict get/set ---- *)
Lemma tget_tset_same k v m : tget k (tset k v m) = Some v.
Proof.
  unfold tget, tset. induction m as [|[k' v'] r IH]; simpl.
  - rewrite str_eqb_refl. reflexivity.
  - destruct (str_eqb k k') eqn:E; simpl; rewrite ?E; auto.
Qed.

Lemma tget_tset_other k k' v m : k' <> k -> tget k' (tset k v m) = tget k' m.
Proof.
  intros Hne. unfold tget, tset. induction m as [|[k0 v0] r IH]; simpl.
  - apply str_eqb_neq in Hne. rewrite Hne. reflexivity.
  - destruct (str_eqb k k0) eqn:E; simpl.
    + apply str_eqb_eq in E; subst k0. apply str_eqb_neq in Hne. rewrite Hne. reflexivity.
    + destruct (str_eqb k' k0); auto.
Qed.

Lemma tget_none_notin k (m : list (str * tree)) : ~ In k (map fst m) -> tget k m = None.
Proof.
  unfold tget. induction m as [|[k' v'] r IH]; simpl; intros H; auto.
  destruct (str_eqb k k') eqn:E.
  - apply str_eqb_eq in E. subst. exfalso; auto.
  - apply IH. auto.
Qed.

(* ---- the loop inside merge_val is combine_go ---- *)
Lemma merge_val_map bm cm : merge_val (Some (TMap bm)) (TMap cm) = TMap (combine bm cm).
Proof.
  unfold combine. simpl. f_equal. generalize bm at 2 4 as acc.
  induction cm as [|[k v] r IH]; intros acc; simpl; auto.
Qed.

(* "included values override the including document's" *)
Lemma merge_val_leaf bv x : merge_val bv (TLeaf x) = TLeaf x.
Proof. reflexivity. Qed.

(* a map over a non-map (or over nothing) replaces it *)
Lemma merge_val_map_over_leaf x cm : merge_val (Some (TLeaf x)) (TMap cm) = TMap cm.
Proof. reflexivity. Qed.
Lemma merge_val_map_over_none cm : merge_val None (TMap cm) = TMap cm.
Proof. reflexivity. Qed.

Lemma combine_go_get bm : forall cm acc k,
  NoDup (map fst cm) ->
  tget k (combine_go bm acc cm) =
    match tget k cm with
    | None => tget k acc
    | Some v => Some (merge_val (tget k bm) v)
    end.
Proof.
  induction cm as [|[k0 v0] r IH]; intros acc k Hnd; simpl; auto.
  inversion Hnd as [|? ? Hnotin Hnd']; subst.
  rewrite IH by auto. unfold tget at 3. simpl.
  destruct (str_eqb k k0) eqn:E.
  - apply str_eqb_eq in E; subst k0.
    rewrite (tget_none_notin k r Hnotin). apply tget_tset_same.
  - apply str_eqb_neq in E. fold (tget k r). destruct (tget k r); auto.
    apply tget_tset_other; auto.
Qed.

(* C18: deep merge, included (child) values win, keys present on only one side are kept *)
Theorem merge_get base child k :
  NoDup (map fst child) ->
  tget k (combine base child) =
    match tget k child with
    | None => tget k base                                   (* only in the including document: kept *)
    | Some v => Some (merge_val (tget k base) v)             (* in the included file: it wins / merges *)
    end.
Proof. intros H. unfold combine. apply combine_go_get; auto. Qed.

(* key set and order: the base's keys in their order, then the child's new keys in theirs *)
Definition tmem (k : str) (m : list (str * tree)) : bool := assoc_mem str_eqb k m.

Lemma keys_tset k v m :
  map fst (tset k v m) = if tmem k m then map fst m else map fst m ++ [k].
Proof.
  unfold tset, tmem, assoc_mem. induction m as [|[k' v'] r IH]; simpl; auto.
  destruct (str_eqb k k') eqn:E; simpl; auto.
  rewrite IH. destruct (assoc str_eqb k r); auto.
Qed.

Lemma tmem_tset k k' v m : tmem k' (tset k v m) = (str_eqb k' k || tmem k' m)%bool.
Proof.
  unfold tmem, assoc_mem. destruct (str_eqb k' k) eqn:E.
  - apply str_eqb_eq in E; subst. fold (tget k (tset k v m)). rewrite tget_tset_same. reflexivity.
  - apply str_eqb_neq in E. fold (tget k' (tset k v m)). rewrite tget_tset_other by auto. reflexivity.
Qed.

Lemma combine_go_keys bm : forall cm acc,
  NoDup (map fst cm) ->
  map fst (combine_go bm acc cm) = map fst acc ++ filter (fun k => negb (tmem k acc)) (map fst cm).
Proof.
  induction cm as [|[k0 v0] r IH]; intros acc Hnd; simpl.
  - rewrite app_nil_r. reflexivity.
  - inversion Hnd as [|? ? Hnotin Hnd']; subst. rewrite IH by auto. rewrite keys_tset.
    assert (Hf : filter (fun k => negb (tmem k (tset k0 (merge_val (tget k0 bm) v0) acc))) (map fst r)
                 = filter (fun k => negb (tmem k acc)) (map fst r)).
    { apply filter_ext_in. intros k Hk. rewrite tmem_tset.
      destruct (str_eqb k k0) eqn:E; auto. apply str_eqb_eq in E. subst. contradiction. }
    rewrite Hf. destruct (tmem k0 acc); simpl; auto. rewrite <- app_assoc. reflexivity.
Qed.

Theorem merge_keys base child :
  NoDup (map fst child) ->
  map fst (combine base child) = map fst base ++ filter (fun k => negb (tmem k base)) (map fst child).
Proof. intros H. unfold combine. apply combine_go_keys; auto. Qed.

(* ---- identity laws: an empty included file changes nothing; an empty document becomes the file ---- *)
Theorem combine_nil_r base : combine base [] = base.
Proof. reflexivity. Qed.

Lemma merge_val_none v : merge_val None v = v.
Proof. destruct v; reflexivity. Qed.

Lemma tset_fresh k v (m : list (str * tree)) : ~ In k (map fst m) -> tset k v m = m ++ [(k, v)].
Proof.
  unfold tset. induction m as [|[k' v'] m IH]; intros H; cbn [assoc_set app]; [reflexivity|].
  cbn [map fst In] in H.
  destruct (str_eqb k k') eqn:E.
  - apply str_eqb_eq in E. subst. exfalso. apply H. left. reflexivity.
  - rewrite IH; [reflexivity|]. intros Hin. apply H. right. exact Hin.
Qed.

Lemma combine_go_nil : forall cm acc,
  NoDup (map fst cm) -> (forall k, In k (map fst cm) -> ~ In k (map fst acc)) ->
  combine_go [] acc cm = acc ++ cm.
Proof.
  induction cm as [|[k v] cm IH]; intros acc ND Hfresh; cbn [combine_go].
  - rewrite app_nil_r. reflexivity.
  - cbn [map fst] in ND. inversion ND as [|? ? Hnin ND']; subst.
    unfold tget at 1. cbn [assoc]. fold (tget k []). 
    replace (tget k []) with (@None tree) by reflexivity.
    rewrite merge_val_none.
    rewrite tset_fresh by (apply Hfresh; left; reflexivity).
    rewrite IH; [rewrite <- app_assoc; reflexivity | exact ND' |].
    intros k' Hin Hacc. rewrite map_app in Hacc. apply in_app_or in Hacc. destruct Hacc as [Hacc|Hacc].
    + apply (Hfresh k'); [right; exact Hin | exact Hacc].
    + cbn [map fst In] in Hacc. destruct Hacc as [->|[]]. apply Hnin. exact Hin.
Qed.

Theorem combine_nil_l child : NoDup (map fst child) -> combine [] child = child.
Proof. intros ND. unfold combine. rewrite combine_go_nil; auto. Qed.

(* ---- idempotence: including a file whose tree equals the document changes nothing ---- *)
Fixpoint twf (t : tree) : Prop :=
  match t with
  | TLeaf _ => True
  | TMap m => NoDup (map fst m) /\
              (fix go (m : list (str * tree)) : Prop :=
                 match m with [] => True | (_, v) :: r => twf v /\ go r end) m
  end.
Fixpoint twf_items (m : list (str * tree)) : Prop :=
  match m with [] => True | (_, v) :: r => twf v /\ twf_items r end.
Lemma twf_map m : twf (TMap m) <-> NoDup (map fst m) /\ twf_items m.
Proof.
  cbn [twf]. split; intros [H1 H2]; split; auto; clear H1;
    induction m as [|[k v] m IH]; cbn in *; auto; destruct H2; split; auto.
Qed.
Lemma twf_items_in m k v : twf_items m -> In (k, v) m -> twf v.
Proof.
  induction m as [|[k' v'] m IH]; cbn [twf_items In]; [intros _ []|]. intros [H1 H2] Hin.
  destruct Hin as [E|Hin]; [inversion E; subst; exact H1 | apply IH; assumption].
Qed.

Fixpoint tsize (t : tree) : nat :=
  match t with
  | TLeaf _ => 1
  | TMap m => S ((fix go (m : list (str * tree)) : nat :=
                    match m with [] => 0 | (_, v) :: r => tsize v + go r end) m)
  end.
Fixpoint tsize_items (m : list (str * tree)) : nat :=
  match m with [] => 0 | (_, v) :: r => tsize v + tsize_items r end.
Lemma tsize_map m : tsize (TMap m) = S (tsize_items m).
Proof. reflexivity. Qed.
Lemma tsize_items_in m k v : In (k, v) m -> (tsize v <= tsize_items m)%nat.
Proof.
  induction m as [|[k' v'] m IH]; cbn [In tsize_items]; intros Hin; [contradiction|].
  destruct Hin as [E|Hin]; [inversion E; subst; apply Nat.le_add_r|].
  specialize (IH Hin). apply (Nat.le_trans _ _ _ IH). rewrite Nat.add_comm. apply Nat.le_add_r.
Qed.

Lemma tget_in_nodup (m : list (str * tree)) k v : NoDup (map fst m) -> In (k, v) m -> tget k m = Some v.
Proof.
  unfold tget. induction m as [|[k' v'] m IH]; cbn [map fst In assoc]; intros ND Hin; [contradiction|].
  inversion ND as [|? ? Hnin ND']; subst.
  destruct Hin as [E|Hin].
  - inversion E; subst. rewrite str_eqb_refl. reflexivity.
  - destruct (str_eqb k k') eqn:E.
    + apply str_eqb_eq in E. subst. exfalso. apply Hnin. change k' with (fst (k', v)). apply in_map. exact Hin.
    + apply IH; assumption.
Qed.

Lemma tset_same k v (m : list (str * tree)) : tget k m = Some v -> tset k v m = m.
Proof.
  unfold tget, tset. induction m as [|[k' v'] m IH]; cbn [assoc assoc_set]; intros H; [discriminate|].
  destruct (str_eqb k k') eqn:E.
  - inversion H; subst. reflexivity.
  - rewrite IH; auto.
Qed.

Lemma combine_go_same bm : forall cm acc,
  (forall k v, In (k, v) cm -> tget k acc = Some v /\ merge_val (tget k bm) v = v) ->
  combine_go bm acc cm = acc.
Proof.
  induction cm as [|[k v] cm IH]; intros acc H; cbn [combine_go]; [reflexivity|].
  destruct (H k v (or_introl eq_refl)) as [Hg Hm]. rewrite Hm. rewrite tset_same by exact Hg.
  apply IH. intros k' v' Hin. apply H. right. exact Hin.
Qed.

Lemma merge_idem_n : forall n v, (tsize v <= n)%nat -> twf v -> merge_val (Some v) v = v.
Proof.
  induction n as [|n IH]; intros v Hs Hw.
  - destruct v; [cbn in Hs; inversion Hs | rewrite tsize_map in Hs; inversion Hs].
  - destruct v as [x|m]; [reflexivity|].
    rewrite merge_val_map. f_equal. unfold combine.
    apply twf_map in Hw. destruct Hw as [ND Hit]. rewrite tsize_map in Hs.
    apply combine_go_same. intros k v Hin.
    assert (Hg : tget k m = Some v) by (apply tget_in_nodup; assumption).
    split; [exact Hg|]. rewrite Hg. apply IH.
    + pose proof (tsize_items_in m k v Hin) as Hle. apply le_S_n in Hs. apply (Nat.le_trans _ _ _ Hle Hs).
    + eapply twf_items_in; eauto.
Qed.

Theorem merge_idem v : twf v -> merge_val (Some v) v = v.
Proof. apply (merge_idem_n (tsize v)). apply Nat.le_refl. Qed.

Theorem combine_idem m : twf (TMap m) -> combine m m = m.
Proof.
  intros Hw. pose proof (merge_idem (TMap m) Hw) as H. rewrite merge_val_map in H. inversion H as [H1].
  rewrite H1. exact H1.
Qed.

(* ---- includes: one include field in a scope, at the root and in a nested sub-configuration ---- *)
Section IncludeFacts.
  Variable load_file : N -> pyval -> res (list (str * tree)).

  (* at the root: the document is merged with the file it names, the file wins *)
  Theorem include_root k fid doc fname child :
    tget k doc = Some (TLeaf fname) -> fname <> PNone ->
    load_file fid fname = Ok child ->
    process load_file (ISchema [(k, fid)] []) doc = Ok (combine doc child).
  Proof.
    intros Hk Hn Hl. simpl. rewrite Hk. destruct fname; try congruence; simpl in *; rewrite Hl; reflexivity.
  Qed.

  (* no include named: the document is loaded as it is *)
  Theorem include_absent k fid doc :
    tget k doc = None \/ tget k doc = Some (TLeaf PNone) ->
    process load_file (ISchema [(k, fid)] []) doc = Ok doc.
  Proof. intros [H|H]; simpl; rewrite H; reflexivity. Qed.

  (* the file must load: otherwise the whole load fails (and, C06, changes nothing) *)
  Theorem include_must_exist k fid doc fname e :
    tget k doc = Some (TLeaf fname) -> fname <> PNone ->
    load_file fid fname = Err e ->
    process load_file (ISchema [(k, fid)] []) doc = Err e.
  Proof.
    intros Hk Hn Hl. simpl. rewrite Hk. destruct fname; try congruence; simpl in *; rewrite Hl; reflexivity.
  Qed.

  (* in a nested sub-configuration the merge happens in that scope only *)
  Theorem include_nested sk k fid doc sub fname child :
    tget sk doc = Some (TMap sub) ->
    tget k sub = Some (TLeaf fname) -> fname <> PNone ->
    load_file fid fname = Ok child ->
    process load_file (ISchema [] [(sk, ISchema [(k, fid)] [])]) doc
      = Ok (tset sk (TMap (combine sub child)) doc).
  Proof.
    intros Hs Hk Hn Hl. simpl. rewrite Hs. rewrite Hk.
    destruct fname; try congruence; simpl in *; rewrite Hl; reflexivity.
  Qed.

  (* ---- chains of include fields in one scope: a left fold of the merge, in field order ---- *)
  Theorem includes_app a b t :
    do_includes load_file (a ++ b) t =
      match do_includes load_file a t with
      | Ok t1 => do_includes load_file b t1
      | Err e => Err e
      | Unmodelled => Unmodelled
      end.
  Proof.
    revert t; induction a as [|[k fid] a IH]; intros t; [reflexivity|].
    cbn [app do_includes].
    destruct (tget k t) as [[v|m]|]; try apply IH.
    - destruct v; try apply IH;
        match goal with |- context [load_file ?f ?x] => destruct (load_file f x); try reflexivity; apply IH end.
    - destruct (load_file fid (o_tree (TMap m))); try reflexivity; apply IH.
  Qed.

  (* two include fields: the second file name is read from the ALREADY merged tree (so the first file
     may name the second), and the second file is merged over the result of the first *)
  Theorem include_chain2 k1 f1 k2 f2 doc n1 c1 n2 c2 :
    tget k1 doc = Some (TLeaf n1) -> n1 <> PNone -> load_file f1 n1 = Ok c1 ->
    tget k2 (combine doc c1) = Some (TLeaf n2) -> n2 <> PNone -> load_file f2 n2 = Ok c2 ->
    process load_file (ISchema [(k1, f1); (k2, f2)] []) doc = Ok (combine (combine doc c1) c2).
  Proof.
    intros H1 N1 L1 H2 N2 L2. cbn [process do_includes]. rewrite H1.
    destruct n1; try congruence; cbn [o_tree]; rewrite L1; rewrite H2;
      destruct n2; try congruence; cbn [o_tree]; rewrite L2; reflexivity.
  Qed.

  (* the later file wins over the earlier one and over the document *)
  Theorem include_chain2_later_wins k1 f1 k2 f2 doc n1 c1 n2 c2 k x :
    tget k1 doc = Some (TLeaf n1) -> n1 <> PNone -> load_file f1 n1 = Ok c1 ->
    tget k2 (combine doc c1) = Some (TLeaf n2) -> n2 <> PNone -> load_file f2 n2 = Ok c2 ->
    NoDup (map fst c2) -> tget k c2 = Some (TLeaf x) ->
    exists t, process load_file (ISchema [(k1, f1); (k2, f2)] []) doc = Ok t /\ tget k t = Some (TLeaf x).
  Proof.
    intros H1 N1 L1 H2 N2 L2 ND Hk. eexists; split.
    - eapply include_chain2; eauto.
    - rewrite merge_get by assumption. rewrite Hk. reflexivity.
  Qed.

  (* a key that only the earlier file sets survives the later merge *)
  Theorem include_chain2_earlier_kept k1 f1 k2 f2 doc n1 c1 n2 c2 k :
    tget k1 doc = Some (TLeaf n1) -> n1 <> PNone -> load_file f1 n1 = Ok c1 ->
    tget k2 (combine doc c1) = Some (TLeaf n2) -> n2 <> PNone -> load_file f2 n2 = Ok c2 ->
    NoDup (map fst c1) -> NoDup (map fst c2) -> tget k c2 = None ->
    exists t, process load_file (ISchema [(k1, f1); (k2, f2)] []) doc = Ok t /\
              tget k t = match tget k c1 with
                         | None => tget k doc
                         | Some v => Some (merge_val (tget k doc) v)
                         end.
  Proof.
    intros H1 N1 L1 H2 N2 L2 ND1 ND2 Hk. eexists; split.
    - eapply include_chain2; eauto.
    - rewrite merge_get by assumption. rewrite Hk. apply merge_get; assumption.
  Qed.

  (* a later file that does not load fails the whole load, whatever the earlier ones merged *)
  Theorem include_chain_fails a k fid b doc t1 n e :
    do_includes load_file a doc = Ok t1 ->
    tget k t1 = Some (TLeaf n) -> n <> PNone -> load_file fid n = Err e ->
    process load_file (ISchema (a ++ (k, fid) :: b) []) doc = Err e.
  Proof.
    intros Ha Hk Hn Hl. cbn [process]. rewrite includes_app, Ha. cbn [do_includes]. rewrite Hk.
    destruct n; try congruence; cbn [o_tree]; rewrite Hl; reflexivity.
  Qed.

  (* include fields of a scope are processed BEFORE its nested scopes: a sub-configuration that arrives (or is
     completed) through a root-level include and names an include of its own is followed, in its own scope *)
  Theorem include_root_then_nested k fid sk k2 f2 doc n1 c1 sub n2 c2 :
    tget k doc = Some (TLeaf n1) -> n1 <> PNone -> load_file fid n1 = Ok c1 ->
    tget sk (combine doc c1) = Some (TMap sub) ->
    tget k2 sub = Some (TLeaf n2) -> n2 <> PNone -> load_file f2 n2 = Ok c2 ->
    process load_file (ISchema [(k, fid)] [(sk, ISchema [(k2, f2)] [])]) doc
      = Ok (tset sk (TMap (combine sub c2)) (combine doc c1)).
  Proof.
    intros H1 N1 L1 Hs H2 N2 L2. cbn [process do_includes]. rewrite H1.
    destruct n1; try congruence; cbn [o_tree]; rewrite L1; rewrite Hs; rewrite H2;
      destruct n2; try congruence; cbn [o_tree]; rewrite L2; reflexivity.
  Qed.

  (* a failing include in a nested scope fails the whole load, whatever the root scope merged before *)
  Theorem include_nested_fails incs sk k2 f2 doc t1 sub n2 e :
    do_includes load_file incs doc = Ok t1 ->
    tget sk t1 = Some (TMap sub) ->
    tget k2 sub = Some (TLeaf n2) -> n2 <> PNone -> load_file f2 n2 = Err e ->
    process load_file (ISchema incs [(sk, ISchema [(k2, f2)] [])]) doc = Err e.
  Proof.
    intros Ha Hs H2 N2 L2. cbn [process]. rewrite Ha. rewrite Hs. cbn [do_includes]. rewrite H2.
    destruct n2; try congruence; cbn [o_tree]; rewrite L2; reflexivity.
  Qed.

  (* a scope without nested schemas is exactly the fold over its include fields *)
  Theorem process_flat incs t : process load_file (ISchema incs []) t = do_includes load_file incs t.
  Proof. cbn [process]. destruct (do_includes load_file incs t); reflexivity. Qed.

  (* include fields that the document does not name (absent or None), however many: nothing is read, nothing changes *)
  Theorem includes_unnamed incs t :
    (forall k fid, In (k, fid) incs -> tget k t = None \/ tget k t = Some (TLeaf PNone)) ->
    do_includes load_file incs t = Ok t.
  Proof.
    induction incs as [|[k fid] incs IH]; intros H; cbn [do_includes]; [reflexivity|].
    destruct (H k fid (or_introl eq_refl)) as [E|E]; rewrite E; apply IH; intros k' f' Hin; apply (H k' f'); right; exact Hin.
  Qed.

  (* a schema that declares no include field at any depth loads every document as it is *)
  Fixpoint no_incs (s : ischema) : bool :=
    match s with
    | ISchema incs subs =>
        match incs with [] => true | _ => false end &&
        (fix go (l : list (str * ischema)) : bool :=
           match l with [] => true | (_, sub) :: r => no_incs sub && go r end) subs
    end.
  Fixpoint isize (s : ischema) : nat :=
    match s with
    | ISchema _ subs =>
        S ((fix go (l : list (str * ischema)) : nat :=
              match l with [] => 0 | (_, sub) :: r => isize sub + go r end) subs)
    end.

  Lemma process_no_incs_n : forall n s t, (isize s <= n)%nat -> no_incs s = true -> process load_file s t = Ok t.
  Proof.
    induction n as [|n IH]; intros [incs subs] t Hs Hn; [cbn in Hs; inversion Hs|].
    cbn [no_incs] in Hn. apply andb_true_iff in Hn. destruct Hn as [Hi Hsub].
    destruct incs; [|discriminate]. cbn [process do_includes].
    cbn [isize] in Hs. apply le_S_n in Hs.
    revert t Hs Hsub. induction subs as [|[k sub] subs IHs]; intros t Hs Hsub; [reflexivity|].
    apply andb_true_iff in Hsub. destruct Hsub as [H1 H2].
    assert (Hle : (isize sub <= n)%nat) by (eapply Nat.le_trans; [apply Nat.le_add_r | exact Hs]).
    assert (Hrest : forall t', (fix subs_go (subs0 : list (str * ischema)) (t0 : list (str * tree)) {struct subs0} :=
               match subs0 with
               | [] => Ok t0
               | (k0, sub0) :: r =>
                   match tget k0 t0 with
                   | Some (TMap m) =>
                       match process load_file sub0 m with
                       | Ok m' => subs_go r (tset k0 (TMap m') t0)
                       | Err e => Err e
                       | Unmodelled => Unmodelled
                       end
                   | _ => subs_go r t0
                   end
               end) subs t' = Ok t').
    { intros t'. apply IHs; [|exact H2]. eapply Nat.le_trans; [|exact Hs]. rewrite Nat.add_comm. apply Nat.le_add_r. }
    destruct (tget k t) as [[v|m]|] eqn:E; try apply Hrest.
    rewrite (IH sub m Hle H1). rewrite tset_same by exact E. apply Hrest.
  Qed.

  Theorem process_no_incs s t : no_incs s = true -> process load_file s t = Ok t.
  Proof. apply (process_no_incs_n (isize s)). apply Nat.le_refl. Qed.
End IncludeFacts.

(* ---- non-vacuity ---- *)
Local Open Scope string_scope.
Example merge_example :
  let base := [(sa "a", TLeaf (PInt 1)); (sa "m", TMap [(sa "x", TLeaf (PInt 1)); (sa "y", TLeaf (PInt 2))])] in
  let child := [(sa "m", TMap [(sa "y", TLeaf (PInt 9)); (sa "z", TLeaf (PInt 3))]); (sa "b", TLeaf PNone)] in
  combine base child =
  [(sa "a", TLeaf (PInt 1));
   (sa "m", TMap [(sa "x", TLeaf (PInt 1)); (sa "y", TLeaf (PInt 9)); (sa "z", TLeaf (PInt 3))]);
   (sa "b", TLeaf PNone)].
Proof. vm_compute. reflexivity. Qed.

(* the merge is a LEFT fold and not associative: with a map in the document, a leaf in the first file and a
   map in the second, merging the files first and then over the document keeps the document's keys,
   merging in the order of the code does not (the leaf in between has replaced the map) *)
Example chain_not_associative :
  let a := [(sa "m", TMap [(sa "x", TLeaf (PInt 1))])] in
  let b := [(sa "m", TLeaf (PInt 2))] in
  let c := [(sa "m", TMap [(sa "y", TLeaf (PInt 3))])] in
  combine (combine a b) c = [(sa "m", TMap [(sa "y", TLeaf (PInt 3))])] /\
  combine a (combine b c) = [(sa "m", TMap [(sa "x", TLeaf (PInt 1)); (sa "y", TLeaf (PInt 3))])].
Proof. vm_compute. split; reflexivity. Qed.

(* non-vacuity of the chain theorems: the first file names the second *)
Example chain_example :
  let lf := fun (fid : N) (n : pyval) =>
    if pyval_eqb n (PStr (sa "one")) then Ok [(sa "inc2", TLeaf (PStr (sa "two"))); (sa "v", TLeaf (PInt 1)); (sa "w", TLeaf (PInt 1))]
    else if pyval_eqb n (PStr (sa "two")) then Ok [(sa "v", TLeaf (PInt 2))]
    else Err EValue in
  process lf (ISchema [(sa "inc1", 1%N); (sa "inc2", 2%N)] []) [(sa "inc1", TLeaf (PStr (sa "one"))); (sa "v", TLeaf (PInt 0))]
  = Ok [(sa "inc1", TLeaf (PStr (sa "one"))); (sa "v", TLeaf (PInt 2)); (sa "inc2", TLeaf (PStr (sa "two"))); (sa "w", TLeaf (PInt 1))].
Proof. vm_compute. reflexivity. Qed.

(* non-vacuity of the idempotence theorems: a two-level document is well formed *)
Example twf_example :
  twf (TMap [(sa "a", TLeaf (PInt 1)); (sa "m", TMap [(sa "x", TLeaf (PInt 1)); (sa "y", TLeaf (PInt 2))])]).
Proof.
  apply twf_map. split.
  - repeat constructor; cbn; intuition discriminate.
  - cbn. repeat split; repeat constructor; cbn; intuition discriminate.
Qed.

(* non-vacuity of process_no_incs: a schema with nested schemas and no include field *)
Example no_incs_example :
  no_incs (ISchema [] [(sa "a", ISchema [] [(sa "b", ISchema [] [])]); (sa "c", ISchema [] [])]) = true /\
  no_incs (ISchema [] [(sa "a", ISchema [(sa "inc", 0%N)] [])]) = false.
Proof. vm_compute. split; reflexivity. Qed.
