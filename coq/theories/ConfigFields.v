(* ConfigFields.v — the SECOND instance of the leaf fields of Config.v: every field class modelled in Fields.v
   (strings with all options, ints / ports, floats, bools / feature flags, IPv4 address / network, host names, bytes,
   untyped and typed lists / dicts, AnyField) is a leaf of the configuration state machine.
     lvalidate  := Fields.validate_with orc (fld f)   (guarded, see cf_validate)
     lto_python := Fields.to_python_with orc (fld f)
     lto_basic  := Fields.to_basic (fld f)
   and the entry point of the `configfields` correspondence stream.  Definitions only. *)
From Coq Require Import ZArith NArith String List Bool.
From Cinco Require Import Base Str Num Net Codec Fields Config ConfigInst.
Import ListNotations.
Open Scope N_scope.

Record fleaf := { fl_fld : field; fl_default : pyval; fl_callable : bool; fl_sensitive : bool; fl_flag : bool }.

Section Inst.
  Variable orc : oracle.        (* re.match answers for the user patterns of the schema *)

  (* values a configuration can hand back to a field: what the typed containers of this very field store.
     A ListProxy / DictProxy of the field is kept as it is by validate (ListField._validate / ListProxy.__init__ copy
     path), so it has to be one whose items were validated: hereditarily, proxies of the item fields, and for the
     other positions plain data that the item field maps to itself. *)
  Definition fix_point (f : field) (x : pyval) : bool :=
    match validate_with orc f x with Ok v => pyval_eqb v x | _ => false end.
  Fixpoint goodb (f : field) (x : pyval) {struct f} : bool :=
    match f, x with
    | FListT fid req it, PList tg l =>
        (tg =? fid + 1) && negb (req && Net.is_nil l) && forallb (goodb it) l
    | FDictT fid req kf vf, PDict tg d =>
        (tg =? fid + 1) && negb (req && Net.is_nil d) && forallb (fun kv => goodb kf (fst kv) && goodb vf (snd kv)) d
    | _, _ => plain x && fix_point f x
    end.
  (* at the top the required/empty test is validate's own business (it rejects): only the items have to be good *)
  Definition goodb_top (f : field) (x : pyval) : bool :=
    match f, x with
    | FListT fid _ it, PList tg l => (tg =? fid + 1) && forallb (goodb it) l
    | FDictT fid _ kf vf, PDict tg d => (tg =? fid + 1) && forallb (fun kv => goodb kf (fst kv) && goodb vf (snd kv)) d
    | _, _ => goodb f x
    end.
  Definition input_ok (f : field) (x : pyval) : bool := plain x || goodb_top f x.

  (* Field.validate on the values the state machine can present: plain data (arguments, documents) and what
     to_python of this field built from plain data.  Anything else (a proxy with items that were never validated, a
     byte string holding a non-byte) is not a value of the running system: Unmodelled. *)
  Definition cf_validate (f : fleaf) (x : pyval) : res pyval :=
    if input_ok (fl_fld f) x then validate_with orc (fl_fld f) x else Unmodelled.
  Definition cf_to_python (f : fleaf) (x : pyval) : res pyval := to_python_with orc (fl_fld f) x.
  Definition cf_to_basic (f : fleaf) (x : pyval) : res pyval := to_basic (fl_fld f) x.

  (* Field.default / __setdefault__: a callable default returns the constant plus the number of earlier evaluations
     (the harness uses a counter); ListField / DictField copy the declared default and, when typed, build the proxy
     (ListProxy(cfg, self, default): items validated) *)
  Definition cf_default (f : fleaf) (calls : N) : pyval :=
    let d := if fl_callable f then match fl_default f with PInt z => PInt (z + Z.of_N calls) | v => v end else fl_default f in
    match fl_fld f, d with
    | _, PNone => PNone
    | FListT _ _ _, _ | FDictT _ _ _ _, _ =>
        match validate_with orc (fl_fld f) d with Ok v => v | _ => POther 99 end
    | FListU _, PTuple l => PList 0 l
    | _, _ => d
    end.
End Inst.

Notation fnode := (node fleaf).

Section Run.
  Variable orc : oracle.
  Variable vt : vtable.
  Let build_val := build_val fleaf (cf_validate orc) (cf_to_python orc) (cf_default orc) fl_callable fl_flag (vrun vt).

  (* Config(schema, **kw): keywords through _set_value on the still empty configuration, then defaults *)
  Fixpoint cf_ctor_kw (kw : list (str * pyval)) (w : world) (c : cfg) (dynamic : bool) (fs : list (str * fnode)) : world * cfg * oc :=
    match kw with
    | [] => (w, c, OOk)
    | (k, x) :: r =>
        match Config.set_value fleaf (cf_validate orc) (cf_to_python orc) (cf_default orc) fl_callable fl_flag (vrun vt)
                               x w [] c fs dynamic k false with
        | (w1, c1, OOk) => cf_ctor_kw r w1 c1 dynamic fs
        | other => other
        end
    end.
  Fixpoint cf_ctor_defaults (fs : list (str * fnode)) (kw : list (str * pyval)) (w : world) (c : cfg) : world * cfg :=
    match fs with
    | [] => (w, c)
    | (k, nd) :: r =>
        if assoc_mem str_eqb k kw then cf_ctor_defaults r kw w c
        else let '(w1, v) := build_val w nd in
             match c with Cfg i d df dy => cf_ctor_defaults r kw w1 (Cfg i (d ++ [(k, v)]) (df ++ [k]) dy) end
    end.
  Definition cf_ctor (w : world) (dynamic : bool) (fs : list (str * fnode)) (kw : list (str * pyval)) : world * cfg * oc :=
    let c0 := Cfg (w_next w) [] [] [] in
    match cf_ctor_kw kw {| w_next := w_next w + 1; w_calls := w_calls w |} c0 dynamic fs with
    | (w1, c1, OOk) => let '(w2, c2) := cf_ctor_defaults fs kw w1 c1 in (w2, c2, OOk)
    | other => other
    end.

  (* per step only the top-level slots whose observed value changed are reported (with all marks): the literals of the
     correspondence stay small; the first observation of a case is the whole configuration *)
  Definition diff_snap (a b : pyval) : pyval :=
    match a, b with
    | PTuple [PDict _ da; _; _], PTuple [PDict t db; df; dy] =>
        PTuple [PDict t (filter (fun kv => negb (match assoc pyval_eqb (fst kv) da with
                                                 | Some v => pyval_eqb v (snd kv)
                                                 | None => false
                                                 end)) db); df; dy]
    | _, _ => b
    end.
  Definition cf_step_obs (root root' : cfg) (o : oc) : pyval :=
    PTuple [o_oc o; diff_snap (o_cfg' root) (o_cfg' root'); same_ids (ids_cfg [] root) (ids_cfg [] root')].

  Fixpoint cf_run_ops (ops : list (list pstep * xop fleaf)) (w : world) (last : kept fleaf) (root : cfg) (dynamic : bool) (vs : list N)
           (fs : list (str * fnode)) : list pyval :=
    match ops with
    | [] => []
    | (ps, o) :: r =>
        let '(w1, last1, root', oc1) :=
          at_path_xs fleaf (cf_validate orc) (cf_to_python orc) (cf_default orc) fl_callable fl_flag (vrun vt) ps w last [] root dynamic vs fs o in
        cf_step_obs root root' oc1 :: cf_run_ops r w1 last1 root' dynamic vs fs
    end.
End Run.

(* stream `configfields`: (regex table, validator table, root dynamic?, root validators, schema, constructor keywords,
   history, observation of the implementation for cases flagged as possibly outside the model) *)
Definition cfcase := (list (str * str * bool) * vtable * bool * list N * list (str * fnode) * list (str * pyval)
                      * list (list pstep * xop fleaf) * option pyval)%type.

(* does the model's observation mention Unmodelled anywhere (outcome of a step, or of the constructor) *)
Definition obs_unmodelled (o : pyval) : bool :=
  let um := o_str "unmodelled" in
  match o with
  | PTuple [x] => pyval_eqb x um
  | PTuple [_; _; PList _ steps] =>
      existsb (fun s => match s with PTuple (x :: _) => pyval_eqb x um | _ => false end) steps
  | _ => false
  end.

Definition run_configfields (c : cfcase) : pyval :=
  let '(tbl, vt, dynamic, vs, fs, kw, ops, um) := c in
  let orc := table_oracle tbl in
  let obs :=
    match cf_ctor orc vt w0 dynamic fs kw with
    | (w1, root, OOk) => PTuple [o_str "ok"; o_cfg' root; PList 0 (cf_run_ops orc vt ops w1 None root dynamic vs fs)]
    | (_, _, o) => PTuple [o_oc o]
    end in
  match um with
  | Some e => if obs_unmodelled obs then e else obs
  | None => obs
  end.
