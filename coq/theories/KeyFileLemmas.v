(* KeyFileLemmas.v — proofs about the KeyFile state machine (property C07). *)
From Coq Require Import ZArith NArith String List Bool Lia.
From Cinco Require Import Base Crypto KeyFile.
Import ListNotations.
Open Scope Z_scope.

(* ---------- list plumbing ---------- *)
Lemma Forall_set_nth {A} (P : A -> Prop) i x l :
  Forall P l -> P x -> Forall P (set_nth i x l).
Proof.
  revert i; induction l as [|y r IH]; intros i Hl Hx; destruct i; simpl; auto;
    inversion Hl; subst; constructor; auto.
Qed.

Lemma Forall_nth_error {A} (P : A -> Prop) l i x :
  Forall P l -> nth_error l i = Some x -> P x.
Proof.
  intros H E. rewrite Forall_forall in H. apply H. eapply nth_error_In; eauto.
Qed.

(* ---------- the general invariant: holds in every regime, external changes included ---------- *)
Definition valid_key (k : bytes) : Prop := length k = 32%nat.

Definition obj_ok (o : kobj) : Prop :=
  0 <= k_ref o /\
  (k_ref o = 0 -> k_key o = None) /\
  (0 < k_ref o -> exists k, k_key o = Some k /\ valid_key k).

Definition world_ok (w : kworld) : Prop :=
  Forall obj_ok (w_objs w) /\ Forall valid_key (w_rng w).

(* an operation respects the context-manager protocol: __exit__ only after a matching __enter__ *)
Definition nested_op (w : kworld) (op : kop) : Prop :=
  match op with
  | KExit i => match nth_error (w_objs w) i with Some o => 0 < k_ref o | None => True end
  | _ => True
  end.

Fixpoint nested (w : kworld) (ops : list kop) : Prop :=
  match ops with
  | [] => True
  | op :: r => nested_op w op /\ nested (fst (kstep w op)) r
  end.

Lemma valid_key_not_falsy k : valid_key k -> key_falsy (Some k) = false.
Proof. unfold valid_key; destruct k; simpl; [discriminate | reflexivity]. Qed.

Lemma step_world_ok w op :
  world_ok w -> nested_op w op -> world_ok (fst (kstep w op)).
Proof.
  intros [Ho Hr] Hn. destruct op as [| i | i | i m d | i m d | c wr]; simpl.
  - (* New *) split; simpl; auto. apply Forall_app; split; auto.
    constructor; [|constructor]. unfold obj_ok; simpl. repeat split; auto; lia.
  - (* Enter *)
    destruct (nth_error (w_objs w) i) as [o|] eqn:E; [|split; auto].
    pose proof (Forall_nth_error _ _ _ _ Ho E) as (H0 & H1 & H2).
    unfold enter. destruct (key_falsy (k_key o)) eqn:F.
    + destruct (w_file w) as [content|].
      * destruct (length content =? 32)%nat eqn:L; simpl; split; auto;
          apply Forall_set_nth; auto; unfold obj_ok; simpl.
        -- apply Nat.eqb_eq in L. repeat split; try lia. intros _. exists content; auto.
        -- assert (k_ref o = 0) as Z0.
           { destruct (Z.eq_dec (k_ref o) 0); auto. destruct H2 as (k & Hk & Hv); [lia|].
             rewrite Hk, (valid_key_not_falsy _ Hv) in F. discriminate. }
           repeat split; try lia; auto.
      * destruct (w_rng w) as [|r rest] eqn:R; [simpl; split; [exact Ho | rewrite R; constructor]|].
        inversion Hr; subst.
        destruct (w_writable w); simpl; split; auto.
        apply Forall_set_nth; auto. unfold obj_ok; simpl. repeat split; try lia.
        intros _; exists r; auto.
    + simpl; split; auto. apply Forall_set_nth; auto. unfold obj_ok; simpl.
      assert (0 < k_ref o) as Hpos.
      { destruct (Z.eq_dec (k_ref o) 0) as [Z0|]; [|lia]. rewrite (H1 Z0) in F. discriminate. }
      repeat split; try lia. intros _. apply H2; auto.
  - (* Exit *)
    destruct (nth_error (w_objs w) i) as [o|] eqn:E; [|split; auto].
    simpl in Hn. rewrite E in Hn.
    pose proof (Forall_nth_error _ _ _ _ Ho E) as (H0 & H1 & H2).
    unfold exit_; simpl; split; auto. apply Forall_set_nth; auto. unfold obj_ok; simpl.
    destruct (k_ref o - 1 =? 0) eqn:Z0.
    + apply Z.eqb_eq in Z0. repeat split; try lia; auto.
    + apply Z.eqb_neq in Z0. repeat split; try lia. intros _. apply H2; lia.
  - destruct (nth_error (w_objs w) i); split; auto.
  - destruct (nth_error (w_objs w) i); split; auto.
  - split; auto.
Qed.

Lemma run_world_ok ops : forall w,
  world_ok w -> nested w ops -> world_ok (fst (krun w ops)).
Proof.
  induction ops as [|op r IH]; intros w Hw Hn; simpl; auto.
  destruct Hn as [Hn1 Hn2].
  pose proof (step_world_ok w op Hw Hn1) as Hw1.
  destruct (kstep w op) as [w1 o] eqn:S1. simpl in *.
  specialize (IH w1 Hw1 Hn2). destruct (krun w1 r) as [w2 os]. simpl in *. exact IH.
Qed.

(* C07: "once the outermost context has closed the key object holds no key material";
   "encryption and decryption work only inside an open key context" *)
Theorem closed_no_key ops w :
  world_ok w -> nested w ops ->
  forall o, In o (w_objs (fst (krun w ops))) -> k_ref o = 0 -> k_key o = None.
Proof.
  intros Hw Hn o Hin Hz.
  destruct (run_world_ok ops w Hw Hn) as [Ho _].
  rewrite Forall_forall in Ho. destruct (Ho o Hin) as (_ & H1 & _). auto.
Qed.

Theorem only_in_context w i o m d b :
  world_ok w -> nth_error (w_objs w) i = Some o ->
  cipher o m d = KOkBytes m b \/ cipher o m d = KOkAes -> 0 < k_ref o.
Proof.
  intros [Ho _] E H. pose proof (Forall_nth_error _ _ _ _ Ho E) as (H0 & H1 & _).
  destruct (Z.eq_dec (k_ref o) 0) as [Z0|]; [|lia].
  unfold cipher in H. rewrite (H1 Z0) in H. destruct H; discriminate.
Qed.

Lemma nth_error_set_nth_eq {A} (l : list A) i x y :
  nth_error l i = Some y -> nth_error (set_nth i x l) i = Some x.
Proof. revert i; induction l as [|z r IH]; intros [|i] E; simpl in *; try discriminate; auto. Qed.

Lemma nth_error_set_nth_neq {A} (l : list A) i j x :
  i <> j -> nth_error (set_nth j x l) i = nth_error l i.
Proof.
  revert i j; induction l as [|z r IH]; intros [|i] [|j] H; simpl; auto; try congruence.
Qed.

(* nested contexts share one key: as long as the object stays open its key does not change *)
Theorem nested_share w op i o o' :
  world_ok w -> nested_op w op ->
  nth_error (w_objs w) i = Some o -> nth_error (w_objs (fst (kstep w op))) i = Some o' ->
  0 < k_ref o -> 0 < k_ref o' -> k_key o' = k_key o.
Proof.
  intros [Ho _] Hn E E' Hp Hp'.
  pose proof (Forall_nth_error _ _ _ _ Ho E) as (H0 & H1 & H2).
  destruct (H2 Hp) as (k & Hk & Hv).
  destruct op as [| j | j | j m d | j m d | c wr]; simpl in E'.
  - rewrite nth_error_app1 in E' by (apply nth_error_Some; congruence). congruence.
  - destruct (nth_error (w_objs w) j) as [oj|] eqn:Ej; [|simpl in E'; congruence].
    destruct (Nat.eq_dec i j) as [->|Hij].
    + rewrite E in Ej; inversion Ej; subst oj. unfold enter in E'.
      rewrite Hk, (valid_key_not_falsy _ Hv) in E'. simpl in E'.
      rewrite (nth_error_set_nth_eq _ _ _ _ E) in E'. inversion E'; subst; simpl; auto.
    + assert (nth_error (w_objs (fst (enter w j oj))) i = Some o) as X.
      { unfold enter. destruct (key_falsy (k_key oj)); [destruct (w_file w) as [content|]|];
          [destruct (length content =? 32)%nat | destruct (w_rng w); [|destruct (w_writable w)] |];
          simpl; rewrite ?nth_error_set_nth_neq by auto; auto. }
      congruence.
  - destruct (nth_error (w_objs w) j) as [oj|] eqn:Ej; [|simpl in E'; congruence].
    destruct (Nat.eq_dec i j) as [->|Hij].
    + rewrite E in Ej; inversion Ej; subst oj. unfold exit_ in E'. simpl in E'.
      rewrite (nth_error_set_nth_eq _ _ _ _ E) in E'. inversion E'; subst; simpl in *.
      destruct (k_ref o - 1 =? 0) eqn:Z0; auto. apply Z.eqb_eq in Z0. lia.
    + unfold exit_ in E'; simpl in E'. rewrite nth_error_set_nth_neq in E' by auto. congruence.
  - destruct (nth_error (w_objs w) j); simpl in E'; congruence.
  - destruct (nth_error (w_objs w) j); simpl in E'; congruence.
  - simpl in E'. congruence.
Qed.

(* ---------- lifting one-step facts to whole histories ---------- *)
Lemma run_inv (I : kworld -> Prop) (Q : kop -> kout -> Prop) (A : kop -> Prop) :
  (forall w op, I w -> A op -> I (fst (kstep w op)) /\ Q op (snd (kstep w op))) ->
  forall ops w, I w -> Forall A ops ->
    I (fst (krun w ops)) /\ Forall2 Q ops (snd (krun w ops)).
Proof.
  intros Hstep. induction ops as [|op r IH]; intros w Hw Ha; simpl.
  - split; auto.
  - inversion Ha as [|? ? Ha1 Ha2]; subst.
    destruct (Hstep w op Hw Ha1) as [Hi Hq].
    destruct (kstep w op) as [w1 o]. simpl in *.
    destruct (IH w1 Hi Ha2) as [Hi2 Hq2].
    destruct (krun w1 r) as [w2 os]. simpl in *. split; auto.
Qed.

Definition not_ext (op : kop) : Prop := match op with KExt _ _ => False | _ => True end.

Definition keys_in (k : bytes) (w : kworld) : Prop :=
  Forall (fun o => k_key o = None \/ k_key o = Some k) (w_objs w).
Definition no_keys (w : kworld) : Prop := Forall (fun o => k_key o = None) (w_objs w).

(* ---------- regime 1: the file exists and holds exactly 32 bytes ---------- *)
Definition VInv (k : bytes) (w : kworld) : Prop := w_file w = Some k /\ keys_in k w.

(* every byte string a cipher call returns was computed with k *)
Definition uses_key (k : bytes) (op : kop) (out : kout) : Prop :=
  match out with
  | KOkBytes m b =>
      m = MXor /\ exists i d, (op = KEncrypt i MXor d \/ op = KDecrypt i MXor d) /\ b = xor_cycle k d
  | _ => True
  end.

Lemma valid_step k w op :
  VInv k w -> not_ext op -> VInv k (fst (kstep w op)) /\ uses_key k op (snd (kstep w op)).
Proof.
  intros [Hf Hk] Hne. unfold VInv, keys_in in *.
  destruct op as [| i | i | i m d | i m d | c wr]; simpl; try contradiction.
  - repeat split; auto. apply Forall_app; split; auto.
  - destruct (nth_error (w_objs w) i) as [o|] eqn:E; [|repeat split; auto].
    pose proof (Forall_nth_error _ _ _ _ Hk E) as Ho.
    unfold enter. rewrite Hf. destruct (key_falsy (k_key o)).
    + destruct (length k =? 32)%nat; simpl; repeat split; auto; apply Forall_set_nth; simpl; auto.
    + simpl; repeat split; auto. apply Forall_set_nth; simpl; auto.
  - destruct (nth_error (w_objs w) i) as [o|] eqn:E; [|repeat split; auto].
    pose proof (Forall_nth_error _ _ _ _ Hk E) as Ho.
    unfold exit_; simpl; repeat split; auto. apply Forall_set_nth; simpl; auto.
    destruct (k_ref o - 1 =? 0); auto.
  - destruct (nth_error (w_objs w) i) as [o|] eqn:E; [|repeat split; auto]. simpl. repeat split; auto.
    pose proof (Forall_nth_error _ _ _ _ Hk E) as Ho. unfold cipher.
    destruct Ho as [-> | ->]; simpl; auto. destruct k; simpl; auto. destruct m; simpl; auto.
    split; auto. exists i, d; auto.
  - destruct (nth_error (w_objs w) i) as [o|] eqn:E; [|repeat split; auto]. simpl. repeat split; auto.
    pose proof (Forall_nth_error _ _ _ _ Hk E) as Ho. unfold cipher.
    destruct Ho as [-> | ->]; simpl; auto. destruct k; simpl; auto. destruct m; simpl; auto.
    split; auto. exists i, d; auto.
Qed.

(* C07: "A key file that exists and holds exactly 32 bytes is used verbatim and never modified" *)
Theorem valid_verbatim k w ops :
  w_file w = Some k -> keys_in k w -> Forall not_ext ops ->
  w_file (fst (krun w ops)) = Some k /\
  keys_in k (fst (krun w ops)) /\
  Forall2 (uses_key k) ops (snd (krun w ops)).
Proof.
  intros Hf Hk Hn.
  destruct (run_inv (VInv k) (uses_key k) not_ext (valid_step k) ops w (conj Hf Hk) Hn) as [[A B] C].
  auto.
Qed.

(* ---------- regime 2: the file exists with any other size ---------- *)
Definition MInv (c : bytes) (w : kworld) : Prop := w_file w = Some c /\ no_keys w.

Definition rejected (op : kop) (out : kout) : Prop :=
  match op with
  | KEnter _ => out = KErr EEncryption \/ out = KNoObj
  | KEncrypt _ _ _ | KDecrypt _ _ _ => out = KErr EType \/ out = KNoObj
  | _ => True
  end.

Lemma malformed_step c w op :
  length c <> 32%nat ->
  MInv c w -> not_ext op -> MInv c (fst (kstep w op)) /\ rejected op (snd (kstep w op)).
Proof.
  intros Hl [Hf Hk] Hne. unfold MInv, no_keys in *.
  apply Nat.eqb_neq in Hl.
  destruct op as [| i | i | i m d | i m d | cc wr]; simpl; try contradiction.
  - repeat split; auto. apply Forall_app; split; auto.
  - destruct (nth_error (w_objs w) i) as [o|] eqn:E; [|repeat split; auto].
    pose proof (Forall_nth_error _ _ _ _ Hk E) as Ho.
    unfold enter. rewrite Hf, Ho, Hl. simpl. repeat split; auto. apply Forall_set_nth; simpl; auto.
  - destruct (nth_error (w_objs w) i) as [o|] eqn:E; [|repeat split; auto].
    pose proof (Forall_nth_error _ _ _ _ Hk E) as Ho.
    unfold exit_; simpl; repeat split; auto. apply Forall_set_nth; simpl; auto.
    destruct (k_ref o - 1 =? 0); auto.
  - destruct (nth_error (w_objs w) i) as [o|] eqn:E; [|repeat split; auto]. simpl. repeat split; auto.
    pose proof (Forall_nth_error _ _ _ _ Hk E) as Ho. unfold cipher. rewrite Ho. auto.
  - destruct (nth_error (w_objs w) i) as [o|] eqn:E; [|repeat split; auto]. simpl. repeat split; auto.
    pose proof (Forall_nth_error _ _ _ _ Hk E) as Ho. unfold cipher. rewrite Ho. auto.
Qed.

(* C07: "a key file of any other size is rejected with an encryption error on every attempt to
   open it and no encryption or decryption ever succeeds with its content" (and it is not touched) *)
Theorem malformed_rejected c w ops :
  length c <> 32%nat -> w_file w = Some c -> no_keys w -> Forall not_ext ops ->
  w_file (fst (krun w ops)) = Some c /\
  no_keys (fst (krun w ops)) /\
  Forall2 rejected ops (snd (krun w ops)).
Proof.
  intros Hl Hf Hk Hn.
  destruct (run_inv (MInv c) rejected not_ext (fun w0 op0 => malformed_step c w0 op0 Hl) ops w (conj Hf Hk) Hn) as [[A B] C].
  auto.
Qed.

(* ---------- regime 3: no file yet ---------- *)
Definition CInv (r : bytes) (rest : list bytes) (w : kworld) : Prop :=
  w_writable w = true /\
  ((w_file w = None /\ w_rng w = r :: rest /\ no_keys w) \/
   (w_file w = Some r /\ w_rng w = rest /\ keys_in r w)).

Lemma created_step r rest w op :
  CInv r rest w -> not_ext op ->
  CInv r rest (fst (kstep w op)) /\ uses_key r op (snd (kstep w op)).
Proof.
  intros [Hw [(Hf & Hr & Hk) | (Hf & Hr & Hk)]] Hne.
  - (* nothing created yet *)
    unfold CInv, no_keys, keys_in in *.
    destruct op as [| i | i | i m d | i m d | cc wr]; simpl; try contradiction.
    + split; auto. split; auto. left. repeat split; auto. apply Forall_app; split; auto.
    + destruct (nth_error (w_objs w) i) as [o|] eqn:E; [|simpl; split; auto].
      pose proof (Forall_nth_error _ _ _ _ Hk E) as Ho.
      unfold enter. rewrite Hf, Ho, Hr, Hw. simpl. split; auto. split; auto. right. repeat split; auto.
      apply Forall_set_nth; simpl; auto.
      eapply Forall_impl; [|exact Hk]. simpl; auto.
    + destruct (nth_error (w_objs w) i) as [o|] eqn:E; [|simpl; split; auto].
      pose proof (Forall_nth_error _ _ _ _ Hk E) as Ho.
      unfold exit_; simpl. split; auto. split; auto. left. repeat split; auto.
      apply Forall_set_nth; simpl; auto. destruct (k_ref o - 1 =? 0); auto.
    + destruct (nth_error (w_objs w) i) as [o|] eqn:E; simpl; (split; [split; auto|]); auto.
      pose proof (Forall_nth_error _ _ _ _ Hk E) as Ho. unfold cipher. rewrite Ho. simpl; auto.
    + destruct (nth_error (w_objs w) i) as [o|] eqn:E; simpl; (split; [split; auto|]); auto.
      pose proof (Forall_nth_error _ _ _ _ Hk E) as Ho. unfold cipher. rewrite Ho. simpl; auto.
  - (* created: from here on this is regime 1 with k = r, and the random stream is not touched *)
    destruct (valid_step r w op (conj Hf Hk) Hne) as [[Hf' Hk'] Hu]. split; auto.
    split.
    + destruct op as [| i | i | i m d | i m d | cc wr]; simpl; auto; try contradiction;
        destruct (nth_error (w_objs w) i) as [o|]; simpl; auto.
      unfold enter. rewrite Hf. destruct (key_falsy (k_key o)); [destruct (length r =? 32)%nat|]; simpl; auto.
    + right. repeat split; auto.
      destruct op as [| i | i | i m d | i m d | cc wr]; simpl; auto; try contradiction;
        destruct (nth_error (w_objs w) i) as [o|]; simpl; auto.
      unfold enter. rewrite Hf. destruct (key_falsy (k_key o)); [destruct (length r =? 32)%nat|]; simpl; auto.
Qed.

(* C07: "a missing key file is created once with 32 random bytes that are used for that session
   and all later ones": whatever the history, the file is either still missing or holds exactly
   the FIRST random draw, at most one draw was consumed, and every cipher result used that draw. *)
Theorem created_once r rest w ops :
  w_writable w = true -> w_file w = None -> w_rng w = r :: rest -> no_keys w -> Forall not_ext ops ->
  let w' := fst (krun w ops) in
  ((w_file w' = None /\ w_rng w' = r :: rest /\ no_keys w') \/
   (w_file w' = Some r /\ w_rng w' = rest /\ keys_in r w')) /\
  Forall2 (uses_key r) ops (snd (krun w ops)).
Proof.
  intros Hw Hf Hr Hk Hn.
  assert (CInv r rest w) as H0 by (split; auto).
  destruct (run_inv (CInv r rest) (uses_key r) not_ext (created_step r rest) ops w H0 Hn) as [[A B] C].
  split; auto.
Qed.

(* the first successful __enter__ on a missing file writes the first draw *)
Lemma first_enter_creates r rest w i o :
  w_writable w = true -> w_file w = None -> w_rng w = r :: rest ->
  nth_error (w_objs w) i = Some o -> k_key o = None ->
  w_file (fst (kstep w (KEnter i))) = Some r /\ snd (kstep w (KEnter i)) = KOk.
Proof.
  intros Hw Hf Hr E Hk. simpl. rewrite E. unfold enter. rewrite Hk, Hf, Hr, Hw. simpl. auto.
Qed.

(* ---------- non-vacuity: concrete histories that meet the hypotheses ---------- *)
Definition key32 : bytes := repeat 7%N 32.
Definition demo_ops : list kop :=
  [KNew; KEnter 0; KEnter 0; KEncrypt 0 MXor [1;2;3]%N; KExit 0; KExit 0; KEncrypt 0 MXor [1]%N].

Example demo_valid :
  snd (krun {| w_file := Some key32; w_writable := true; w_objs := []; w_rng := [] |} demo_ops)
  = [KOk; KOk; KOk; KOkBytes MXor [6;5;4]%N; KOk; KOk; KErr EType].
Proof. vm_compute. reflexivity. Qed.

Example demo_nested :
  nested {| w_file := Some key32; w_writable := true; w_objs := []; w_rng := [] |} demo_ops.
Proof. vm_compute. repeat split; reflexivity. Qed.

Example demo_malformed :
  snd (krun {| w_file := Some [1;2;3;4;5]%N; w_writable := true; w_objs := []; w_rng := [] |}
         [KNew; KEnter 0; KEnter 0; KEncrypt 0 MXor [1]%N])
  = [KOk; KErr EEncryption; KErr EEncryption; KErr EType].
Proof. vm_compute. reflexivity. Qed.

Example demo_created :
  let w := {| w_file := None; w_writable := true; w_objs := []; w_rng := [key32; repeat 9%N 32] |} in
  w_file (fst (krun w [KNew; KNew; KEnter 0; KEnter 1; KExit 0; KExit 1; KEnter 1])) = Some key32 /\
  w_rng (fst (krun w [KNew; KNew; KEnter 0; KEnter 1; KExit 0; KExit 1; KEnter 1])) = [repeat 9%N 32].
Proof. vm_compute. split; reflexivity. Qed.
