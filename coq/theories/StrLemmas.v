(* StrLemmas.v — facts about strip / the ASCII case maps (Str.v). *)
From Coq Require Import ZArith NArith List Bool Lia.
From Cinco Require Import Base Str.
Import ListNotations.
Open Scope N_scope.

Definition hd_ok (p : N -> bool) (u : str) : bool := match u with [] => true | c :: _ => negb (p c) end.
Definition ends_ok (p : N -> bool) (u : str) : bool := hd_ok p u && hd_ok p (rev u).

Lemma lstrip_by_fix : forall p u, hd_ok p u = true -> lstrip_by p u = u.
Proof. intros p [|c r] H; cbn in *; [reflexivity|]. destruct (p c); [discriminate|reflexivity]. Qed.

Lemma lstrip_by_hd : forall p s, hd_ok p (lstrip_by p s) = true.
Proof. intros p s; induction s as [|c r IH]; cbn; [reflexivity|]. destruct (p c) eqn:E; [exact IH|]. cbn. now rewrite E. Qed.

(* lstrip drops a prefix: s = pre ++ lstrip s *)
Lemma lstrip_by_suffix : forall p s, exists pre, s = pre ++ lstrip_by p s.
Proof.
  intros p s; induction s as [|c r [pre IH]]; cbn; [exists []; reflexivity|].
  destruct (p c); [exists (c :: pre); cbn; now f_equal| exists []; reflexivity].
Qed.

Lemma strip_by_fix : forall p u, ends_ok p u = true -> strip_by p u = u.
Proof.
  intros p u H. apply andb_true_iff in H as [H1 H2]. unfold strip_by.
  rewrite (lstrip_by_fix p u H1), (lstrip_by_fix p (rev u) H2). apply rev_involutive.
Qed.

Lemma hd_ok_app_nonnil : forall p a b, a <> [] -> hd_ok p (a ++ b) = hd_ok p a.
Proof. intros p [|c r] b H; [congruence|reflexivity]. Qed.

Lemma strip_by_ends : forall p s, ends_ok p (strip_by p s) = true.
Proof.
  intros p s. unfold strip_by, ends_ok. set (t := lstrip_by p s). set (r := lstrip_by p (rev t)).
  rewrite rev_involutive. apply andb_true_iff; split; [|apply lstrip_by_hd].
  (* rev t = pre ++ r, so t = rev r ++ rev pre; t starts with a non-p character *)
  destruct (lstrip_by_suffix p (rev t)) as [pre E]. fold r in E.
  destruct r as [|c r'] eqn:Er; [reflexivity|].
  assert (Et : t = rev (c :: r') ++ rev pre) by (rewrite <- rev_app_distr, <- E; symmetry; apply rev_involutive).
  assert (Hn : rev (c :: r') <> []) by (intro H; apply (f_equal (@length N)) in H; rewrite rev_length in H; discriminate).
  rewrite <- (hd_ok_app_nonnil p _ (rev pre) Hn), <- Et. apply lstrip_by_hd.
Qed.

Lemma strip_by_idem : forall p s, strip_by p (strip_by p s) = strip_by p s.
Proof. intros; apply strip_by_fix, strip_by_ends. Qed.

Lemma strip_ws_idem : forall s, strip_ws (strip_ws s) = strip_ws s.
Proof. intro; apply strip_by_idem. Qed.
Lemma strip_chars_idem : forall cs s, strip_chars cs (strip_chars cs s) = strip_chars cs s.
Proof. intros; apply strip_by_idem. Qed.

Lemma hd_ok_map : forall p f u, (forall c, p (f c) = p c) -> hd_ok p (map f u) = hd_ok p u.
Proof. intros p f [|c r] H; cbn; [reflexivity|now rewrite H]. Qed.

Lemma ends_ok_map : forall p f u, (forall c, p (f c) = p c) -> ends_ok p (map f u) = ends_ok p u.
Proof. intros p f u H. unfold ends_ok. rewrite <- map_rev, !hd_ok_map by exact H. reflexivity. Qed.

(* ---- case maps ---- *)
Lemma lower_c_idem : forall c, lower_c (lower_c c) = lower_c c.
Proof.
  intro c. unfold lower_c. destruct ((65 <=? c) && (c <=? 90)) eqn:E; [|now rewrite E].
  apply andb_true_iff in E as [A B]. apply N.leb_le in A, B.
  replace ((65 <=? c + 32) && (c + 32 <=? 90)) with false; [reflexivity|].
  symmetry. apply andb_false_iff. right. apply N.leb_gt. lia.
Qed.
Lemma upper_c_idem : forall c, upper_c (upper_c c) = upper_c c.
Proof.
  intro c. unfold upper_c. destruct ((97 <=? c) && (c <=? 122)) eqn:E; [|now rewrite E].
  apply andb_true_iff in E as [A B]. apply N.leb_le in A, B.
  replace ((97 <=? c - 32) && (c - 32 <=? 122)) with false; [reflexivity|].
  symmetry. apply andb_false_iff. left. apply N.leb_gt. lia.
Qed.
Lemma lower_idem : forall s, lower (lower s) = lower s.
Proof. intro s. unfold lower. rewrite map_map. apply map_ext, lower_c_idem. Qed.
Lemma upper_idem : forall s, upper (upper s) = upper s.
Proof. intro s. unfold upper. rewrite map_map. apply map_ext, upper_c_idem. Qed.
Lemma lower_length : forall s, length (lower s) = length s.
Proof. intro; apply map_length. Qed.
Lemma upper_length : forall s, length (upper s) = length s.
Proof. intro; apply map_length. Qed.

Lemma is_space_range : forall c, is_space c = true -> c <= 32 \/ 133 <= c.
Proof.
  intro c. unfold is_space. rewrite !orb_true_iff, !andb_true_iff, !N.leb_le, !N.eqb_eq. lia.
Qed.
Lemma is_space_lower_c : forall c, is_space (lower_c c) = is_space c.
Proof.
  intro c. unfold lower_c. destruct ((65 <=? c) && (c <=? 90)) eqn:E; [|reflexivity].
  apply andb_true_iff in E as [A B]. apply N.leb_le in A, B.
  destruct (is_space (c + 32)) eqn:S1; [apply is_space_range in S1; lia|].
  destruct (is_space c) eqn:S2; [apply is_space_range in S2; lia|reflexivity].
Qed.
Lemma is_space_upper_c : forall c, is_space (upper_c c) = is_space c.
Proof.
  intro c. unfold upper_c. destruct ((97 <=? c) && (c <=? 122)) eqn:E; [|reflexivity].
  apply andb_true_iff in E as [A B]. apply N.leb_le in A, B.
  destruct (is_space (c - 32)) eqn:S1; [apply is_space_range in S1; lia|].
  destruct (is_space c) eqn:S2; [apply is_space_range in S2; lia|reflexivity].
Qed.
Lemma is_ascii_lower_c : forall c, is_ascii (lower_c c) = is_ascii c.
Proof.
  intro c. unfold lower_c, is_ascii. destruct ((65 <=? c) && (c <=? 90)) eqn:E; [|reflexivity].
  apply andb_true_iff in E as [A B]. apply N.leb_le in A, B.
  transitivity true; [apply N.ltb_lt; lia|symmetry; apply N.ltb_lt; lia].
Qed.
Lemma is_ascii_upper_c : forall c, is_ascii (upper_c c) = is_ascii c.
Proof.
  intro c. unfold upper_c, is_ascii. destruct ((97 <=? c) && (c <=? 122)) eqn:E; [|reflexivity].
  apply andb_true_iff in E as [A B]. apply N.leb_le in A, B.
  transitivity true; [apply N.ltb_lt; lia|symmetry; apply N.ltb_lt; lia].
Qed.

Lemma str_eqb_eq : forall a b : str, str_eqb a b = true <-> a = b.
Proof.
  induction a as [|x xs IH]; intros [|y ys]; cbn; split; intro H; try reflexivity; try discriminate.
  - apply andb_true_iff in H as [H1 H2]. apply N.eqb_eq in H1. apply IH in H2. now subst.
  - injection H as -> ->. apply andb_true_iff; split; [apply N.eqb_refl|now apply IH].
Qed.
Lemma str_eqb_refl : forall a, str_eqb a a = true.
Proof. intro; now apply str_eqb_eq. Qed.
