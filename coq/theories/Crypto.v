(* Crypto.v — the repository's own cipher logic (encryption.py:215-286):
   XOR over the cycled key; PKCS7(128) padding and CBC chaining over an abstract
   16-byte block primitive (the AES-256 block function of `cryptography`, not code of this
   repository, enters as a parameter).  Definitions only. *)
From Coq Require Import ZArith NArith String List Bool.
From Cinco Require Import Base.
Import ListNotations.
Open Scope Z_scope.

(* ---- XOR: XorProvider.encrypt, buff[i] ^= c for (i, c) in zip(range(len), cycle(key)) ---- *)
(* zip() stops at the shorter input; cycle([]) is empty, so an empty key changes nothing. *)
Fixpoint xor_go (fuel : list N) (cur key : bytes) : bytes :=
  match fuel with
  | [] => []
  | d :: ds =>
      match cur with
      | c :: cs => N.lxor d c :: xor_go ds cs key
      | [] => match key with
              | c :: cs => N.lxor d c :: xor_go ds cs key
              | [] => d :: ds
              end
      end
  end.
Definition xor_cycle (key data : bytes) : bytes := xor_go data key key.

(* ---- byte-wise xor of two blocks ---- *)
Fixpoint xor_bytes (a b : bytes) : bytes :=
  match a, b with
  | x :: xs, y :: ys => N.lxor x y :: xor_bytes xs ys
  | _, _ => []
  end.

(* ---- PKCS7 with 16-byte blocks ---- *)
Definition blk : nat := 16.
Definition pad_len (n : nat) : nat := blk - (n mod blk).
Definition pkcs7_pad (p : bytes) : bytes :=
  let k := pad_len (length p) in p ++ repeat (N.of_nat k) k.
Definition pkcs7_unpad (p : bytes) : option bytes :=
  match rev p with
  | [] => None
  | last :: _ =>
      let k := N.to_nat last in
      if ((1 <=? k)%nat && (k <=? blk)%nat && (k <=? length p)%nat &&
          (length p mod blk =? 0)%nat &&
          forallb (N.eqb last) (skipn (length p - k) p))%bool
      then Some (firstn (length p - k) p) else None
  end.

(* ---- CBC over an abstract block cipher ---- *)
Section CBC.
  Variable E D : bytes -> bytes.   (* one 16-byte block under a fixed key *)

  (* split into 16-byte blocks; fuel = number of blocks *)
  Fixpoint chunks (n : nat) (l : bytes) : list bytes :=
    match n with
    | O => []
    | S n' => firstn blk l :: chunks n' (skipn blk l)
    end.
  Definition blocks_of (l : bytes) : list bytes := chunks (length l / blk) l.

  Fixpoint cbc_enc (prev : bytes) (bs : list bytes) : list bytes :=
    match bs with
    | [] => []
    | b :: r => let c := E (xor_bytes b prev) in c :: cbc_enc c r
    end.
  Fixpoint cbc_dec (prev : bytes) (cs : list bytes) : list bytes :=
    match cs with
    | [] => []
    | c :: r => xor_bytes (D c) prev :: cbc_dec c r
    end.

  (* AesProvider.encrypt: iv + CBC(PKCS7(text)) *)
  Definition aes_encrypt (iv text : bytes) : bytes :=
    iv ++ concat (cbc_enc iv (blocks_of (pkcs7_pad text))).

  (* AesProvider.decrypt: length guard (< 32 -> EncryptionError), split IV, CBC, unpad.
     A body that is not block-aligned makes `decryptor.finalize()` raise ValueError, a bad
     padding makes `unpadder.finalize()` raise ValueError. *)
  Definition aes_decrypt (ct : bytes) : res bytes :=
    if (length ct <? 32)%nat then Err EEncryption
    else
      let iv := firstn blk ct in
      let body := skipn blk ct in
      if negb (length body mod blk =? 0)%nat then Err EValue
      else match pkcs7_unpad (concat (cbc_dec iv (blocks_of body))) with
           | Some p => Ok p
           | None => Err EValue
           end.
End CBC.

(* ---- the `crypto` correspondence stream: KeyFile.encrypt / decrypt under an open context ---- *)
(* The AES block function is not code of this repository: the harness supplies, per case, the table of
   the 16-byte block encryptions / decryptions under the case's key that it obtained from
   `cryptography`'s AES-ECB directly.  A block missing from the table is a harness error and shows up
   as a disagreement. *)
Local Open Scope string_scope.
Definition tbl := list (bytes * bytes).
Definition tbl_fun (t : tbl) (b : bytes) : bytes :=
  match assoc bytes_eqb b t with Some x => x | None => [] end.

Inductive cmethod := CXor | CAes | CBest | CBogus.
Inductive cop :=
| CEnc (m : cmethod) (iv pt : bytes)     (* iv = the os.urandom(16) draw the call will see *)
| CDec (m : cmethod) (ct : bytes).

Definition o_rbytes (r : res bytes) : pyval :=
  match r with Ok b => PTuple [o_str "ok"; PBytes b] | Err e => PTuple [o_str "err"; o_errk e] | Unmodelled => o_str "unmodelled" end.

Definition run_crypto (c : bytes * tbl * tbl * cop) : pyval :=
  let '(key, et, dt, op) := c in
  match op with
  | CEnc CXor _ pt => PTuple [o_str "xor"; PBytes (xor_cycle key pt)]
  | CEnc CAes iv pt | CEnc CBest iv pt => PTuple [o_str "aes"; PBytes (aes_encrypt (tbl_fun et) iv pt)]
  | CEnc CBogus _ _ => PTuple [o_str "err"; o_errk EType]
  | CDec CXor ct => o_rbytes (Ok (xor_cycle key ct))
  | CDec CAes ct | CDec CBest ct => o_rbytes (aes_decrypt (tbl_fun dt) ct)
  | CDec CBogus _ => o_rbytes (Err EType)
  end.
